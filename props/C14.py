"""C14 - benchstat puts each measurement in one cell and reports its true statistics (family Benchstat)."""
import vlib

LEVEL = "model_checking"
TEXT = ("Benchstat.tla models benchstat as a relation: command-line arguments (paths, duplicate paths, label=path), file contents as "
        "abstract lines (config set/delete, unit metadata, benchmark lines with one or two values) and flag settings from menus "
        "(-table/-row/-col/-ignore projections, -filter, -alpha, -confidence) determine the filtered measurements, their table/row/"
        "column tuples (projection semantics of the Projection family, .unit last in the table key), the cells as the grouping of "
        "measurements, the documented key orders and hence the baseline column, the keys each cell must warn about and the columns "
        "whose benchmark set differs from the baseline's. TLC checks, exhaustively over a small configuration, that the code's "
        "accumulation (Builder.Add / NonSingularFields / summarizeCol, transcribed) agrees with that declarative reading: Partition, "
        "WarnExact, Defaults, DiffersExact. Every completed input of a smaller configuration, seeded -simulate behaviours over "
        "the full menus and seeded behaviours of a deep generator (long histories: cells of up to ~200 samples merging "
        "dozens of distinct configurations, tables of > 100 rows and > 100 distinct footnotes) are printed with the model's expectation and run through the REBUILT benchstat binary in csv and text "
        "format; tables, key lines, columns and rows in order, cell existence, n, warnings are compared with the model, and every "
        "centre / interval / delta / p is compared with the unit's assumption evaluated in-process on the MODEL's sample and "
        "the model's baseline cell; geomean cells with an independent evaluation over the model's membership.")
NOTE = ("Trusted: TLC; the rendering of abstract lines to benchmark text; the parsed meaning (Expr/Keep) of the menu's projection and "
        "filter texts; benchmath's Summary/Compare as the oracle for numbers on the model's samples (auxiliary: C13 checks them).")
TECHNIQUE = "TLA+ model checking (TLC exhaustive + simulation) with every model behaviour replayed on the benchstat binary"
DESIGN_REF = "DESIGN.md section 4 C14, appendix A.4"

RULE = ("(M) exhaustive TLC run of Benchstat.tla over the mc constants (1-2 arguments over two paths incl. duplicates, every content of "
        "<=3 lines from set/delete/benchmark lines, 32 (quick) / 108 (thorough) flag combinations), invariants Partition, WarnExact, "
        "Defaults, DiffersExact; (G) every completed input of the gen constants (one path, optional label, <=2 (quick) / <=3 "
        "(thorough) lines, 16 flag combinations) and seeded -simulate behaviours over the full menus (3 paths, labels, 2 config "
        "keys, 12 names, 3 units with assume metadata, 1-2 values per line, 5x5x7x7 projection menus, 7 filters, 3 alpha x 3 "
        "confidence levels; each behaviour yields one case per -col menu entry), plus seeded -simulate behaviours of the DEEP "
        "generator Benchstat_gen_deep.tla (same relation and invariants; inputs built from pieces of history: bursts of 2..65 "
        "further runs of a benchmark, sweeps of a configuration key over 2..36 settings, nested sweeps in which a second key "
        "changes only after every 3/8/9/16/17/32 runs, round-robin passes, fans of 3..40 names, ladders of names with "
        "pairwise distinct value ranges; 6 paths, 4 config keys x 26 values, 144 names, up to 3 values per line; quick 40 "
        "behaviours x 7 -col entries of <= ~170 lines, and 8 x 7 'wide' cases whose tables have 98..131 rows each with a "
        "warning of its own under an assume=exact unit), each run twice on the rebuilt benchstat binary "
        "(csv + text). distinct_nontrivial = distinct cases whose expected output has a cell with >= 2 measurements or a table "
        "with >= 2 columns.")


def run(ctx):
    bins = ctx.build(binaries=("benchstat",))
    q = ctx.quick
    # (M)
    ctx.tlc("Benchstat.tla", "Benchstat_mc_quick.cfg" if q else "Benchstat_mc_thorough.cfg",
            timeout=600 if q else 2400, label="bfs")
    # (G) exhaustive small configuration
    r = ctx.tlc("Benchstat_gen.tla", "Benchstat_gen_quick.cfg" if q else "Benchstat_gen_thorough.cfg",
                timeout=600 if q else 1800, label="bfs+gen")
    cases = r.printed_json("case")
    nex = len(cases)
    # (G) simulation over the full menus; -simulate num is per worker
    workers = 8 if q else 16
    per = 40 if q else 320
    r2 = ctx.tlc("Benchstat_gen.tla", "Benchstat_gen_sim.cfg", timeout=900 if q else 3000, simulate=per, depth=50,
                 workers=workers, label="simulate+gen")
    sim = vlib.dedupe(r2.printed_json("case"))
    # (G) deep: long inputs built from pieces of history (bursts of one benchmark up to 65 runs, plain and nested sweeps
    # of configuration keys over up to 36 settings, interleaved passes, fans of up to 40 names, ladders; 6 files), and
    # wide: tables with 98..131 rows that each carry a warning of their own (footnote numbers past 99)
    perd = 5 if q else 24
    r3 = ctx.tlc("Benchstat_gen_deep.tla", "Benchstat_gen_deep.cfg", timeout=900 if q else 3000, simulate=perd, depth=400,
                 workers=workers, label="simulate+gen (deep)")
    deep = vlib.dedupe(r3.printed_json("case"))
    perw = 1 if q else 4
    r4 = ctx.tlc("Benchstat_gen_deep.tla", "Benchstat_gen_wide.cfg", timeout=900 if q else 3000, simulate=perw, depth=400,
                 workers=workers, label="simulate+gen (wide)")
    wide = vlib.dedupe(r4.printed_json("case"))
    cases = vlib.dedupe(cases + sim + deep + wide)
    if nex < 1000 or len(sim) < per * workers or len(deep) < perd * workers or len(wide) < perw * workers:
        raise vlib.Infra("generator produced only %d exhaustive / %d simulated / %d deep / %d wide cases" % (nex, len(sim), len(deep), len(wide)))
    deep = deep + wide
    ctx.cov["deep_cases"] = len(deep)
    ctx.cov["deep_max_cell"] = max([len(ce["s"]) for c in deep for t in c["expect"]["tables"] for ce in t["cells"]] or [0])
    ctx.cov["deep_max_rows"] = max([len(t["rows"]) for c in deep for t in c["expect"]["tables"]] or [0])
    ctx.cov["deep_max_warned_cells_in_a_table"] = max([sum(1 for ce in t["cells"] if ce["vary"]) for c in deep for t in c["expect"]["tables"]] or [0])
    for c in cases:
        c.pop("tag", None)
    nontriv = sum(1 for c in cases
                  if any(len(t["cols"]) >= 2 or any(len(ce["s"]) >= 2 for ce in t["cells"]) for t in c["expect"]["tables"]))
    big = [c for c in sim if len(c["expect"]["tables"]) >= 2 and any(len(t["cols"]) >= 2 for t in c["expect"]["tables"])]
    ctx.add_samples(big[:1] or sim[:1], 1)
    ctx.replay("benchstat", cases, "replay of Benchstat.tla inputs on the benchstat binary (csv + text)",
               extra_args=[bins["benchstat"]], timeout=3000)
    ctx.cov["benchstat_runs"] = 2 * len(cases)
    ctx.cov["distinct_nontrivial"] = nontriv
    ctx.cov["exhaustive"] = True
    return ctx.finish(RULE, assumptions=[
        "the residue (what a cell may be warned about) is the file configuration and the benchmark name; the tool-internal .file "
        "label is not file configuration, so merging inputs under a -col other than .file is not reported (as documented for Residue)",
        "the remaining name is reported as '.fullname'; the order of names inside one warning is free",
        "the benchmark set of a column is the set of rows in which it has a cell; 'ratios must be >0' is free when a column has no "
        "pairing with the baseline at all or a baseline centre is 0 (the tool prints '?')",
        "unit metadata: the first assume= setting of a unit in reading order decides (later conflicting lines are syntax errors)",
        "numbers: benchmath's Summary/Compare on the model's sample are the oracle (C13 checks them); CSV centres within 1e-9 relative",
    ])
