"""C15 - benchstat output depends only on its inputs, under every schedule (family TablesPar)."""
import json, os, re
import vlib

LEVEL = "model_checking"
TEXT = ("TLC explores every interleaving of the ToTables fan-out model (main with semaphore and two wait-group barriers, cell and "
        "column workers, arbitrary map-iteration order) and proves RaceFree, BarrierRespected, SemBound, Deterministic, deadlock "
        "freedom and termination under weak fairness; model schedules are imposed on the real goroutines through the verif hook "
        "(also in a -race build, where overlapping pairs are made truly concurrent) with byte-identical text/CSV required; hook "
        "traces of free runs at GOMAXPROCS 1/2/3/4/16 are validated against the spec (also runs with 50-100 cell workers under a "
        "saturated fan-out bound); un-imposed runs on big shapes (up to ~600 cells, 2-300 results per cell) are compared across "
        "GOMAXPROCS in a plain and a -race build; the benchstat binary is compared byte for byte across GOMAXPROCS and "
        "repetitions, and cell content across permutations of result lines, on small inputs and on large ones (> 1024 distinct "
        "benchmarks in several passes, > 1024 runs with their own configuration, grids with more cells than 2*GOMAXPROCS).")
NOTE = ("Trusted: TLC, the Go race detector as the run-time judge of data races on the schedules exercised, the hook placement "
        "(commit 9077d19). Imposed schedules need 2*GOMAXPROCS >= number of workers of a phase; smaller semaphores are covered by "
        "the model and by trace validation only.")
TECHNIQUE = "TLA+ model checking (TLC, safety + liveness) + schedule imposition through hooks (incl. -race build) + trace validation"
DESIGN_REF = "DESIGN.md section 4 C15"

RULE = ("(M) exhaustive TLC on TablesPar.tla (2 tables x 2x2 cells sparse, L=2; thorough: 3x3 cells, L=4) incl. liveness; the "
        "negative control without the first barrier must violate BarrierRespected; (G) simulated behaviours (free and 'greedy' = "
        "maximal overlap) imposed on the real Builder.ToTables via the hook gate, output compared byte for byte with an un-hooked "
        "sequential run, same schedules in a -race build; (T) hook traces of un-imposed runs validated by TablesPar_trace; "
        "(own 2x3x3 recordings, cmd/benchstat's golden tests, recordings with 50-100 cell workers at GOMAXPROCS 1-3 by "
        "TablesParObs_trace/TablesParDyn_trace); un-imposed runs on 10 (60) big shapes of 1-3 units x 10-39 rows x 2-5 columns "
        "at GOMAXPROCS 2,16,3,4,8,1 vs 1, plain and -race; benchstat binary repeat/permutation runs on 6 (60) small inputs, as many mixed-spelling inputs (every line spells "
        "ns/op|sec/op, MB/s|B/s, ns/GC|sec/GC at random) under 14 -filter expressions (.unit in reported and tidied spelling, "
        "negations, alternatives, regexps, combined with name/sub-name/file keys and projections) and 8 (24) "
        "large inputs (names: 1030-1600 benchmarks x 3-4 passes x 2 files; sweep: 5 benchmarks x 1030-1400 runs with run/commit "
        "keys; grid: 30-45 benchmarks x 2 files x 2 units with 3-210 runs per cell; units: 30-45 benchmarks with 1..70 runs and 90 prefixed custom units). distinct_nontrivial = distinct imposed schedules in which at least two workers "
        "overlap.")


def overlaps(case):
    active, n = set(), 0
    for e in case["sched"]:
        w = json.dumps(e["w"], sort_keys=True)
        if e["e"] == "begin":
            if active:
                n += 1
            active.add(w)
        else:
            active.discard(w)
    return n


def inproc(ctx, q):
    """The output for an argument list must not depend on what ran before it in the same process."""
    ov = json.load(open(ctx.overlay))
    ov["Replace"][os.path.join(vlib.REPO, "cmd/benchstat/zz_verif_repeat_test.go")] = os.path.join(vlib.VERIF, "harness", "intest", "zz_verif_repeat_test.go")
    ovp = os.path.join(ctx.work, "overlay-intest.json")
    json.dump(ov, open(ovp, "w"))
    tb = os.path.join(ctx.work, "benchstat.test")
    import subprocess
    pr = subprocess.run(["go", "test", "-c", "-vet=off", "-tags", "verif", "-overlay", ovp, "-o", tb, "./cmd/benchstat"], cwd=vlib.REPO, env=ctx.goenv(),
                        stdout=subprocess.PIPE, stderr=subprocess.STDOUT, text=True)
    if pr.returncode != 0:
        raise vlib.Infra("building cmd/benchstat's test binary failed:\n" + pr.stdout[-2000:])
    d = os.path.join(ctx.work, "intest")
    os.makedirs(d, exist_ok=True)
    g = ctx.harness(["tablespar", "genfiles", d, 3 if q else 12])
    inputs = json.loads(g.stdout.strip().splitlines()[-1])
    flagsets = [[], ["-alpha", "0.5"], ["-confidence", "0.8"], ["-row", ".name", "-table", "goos"], ["-format", "csv"],
                ["-alpha", "1"], ["-filter", "*", "-ignore", "cpu"], ["-format", "csv", "-alpha", "0.001"]]
    import random
    rnd = random.Random(ctx.seed)
    runs = []
    for files in inputs:
        seq = [fs + files for fs in flagsets]
        order = seq[:1] + rnd.sample(seq, len(seq)) + seq[:1] + rnd.sample(seq, len(seq))
        runs += order
    plan = os.path.join(d, "plan.json")
    outp = os.path.join(d, "out.json")
    json.dump({"runs": runs, "out": outp}, open(plan, "w"))
    env = dict(os.environ); env["VERIF_REPEAT_PLAN"] = plan
    pr = subprocess.run([tb, "-test.run", "TestVerifRepeat", "-test.count", "1"], cwd=d, env=env, stdout=subprocess.PIPE, stderr=subprocess.STDOUT, text=True, timeout=900)
    if pr.returncode != 0 or not os.path.exists(outp):
        raise vlib.Infra("in-process repeat run failed:\n" + pr.stdout[-2000:])
    res = json.load(open(outp))
    first = {}
    bad = []
    for i, r in enumerate(res):
        k = json.dumps(r["args"])
        o = (r["stdout"], r["stderr"], r["err"])
        if k not in first:
            first[k] = (i, o)
        elif first[k][1] != o:
            bad.append({"signature": "output-depends-on-earlier-runs-in-process", "family": "benchstat-inprocess",
                        "detail": "benchstat(%s): run %d differs from run %d of the same arguments (runs in between: %s)" % (
                            " ".join(a if "/" not in a else os.path.basename(a) for a in r["args"]), i, first[k][0],
                            [" ".join(x for x in q["args"] if "/" not in x) for q in res[first[k][0] + 1:i]][:6])})
    ctx.cov["inprocess_runs"] = len(res)
    ctx.cov["evaluations"] += len(res)
    if bad:
        ctx.report(bad[:5], "in-process repetition of benchstat()")


def stress(ctx, q, race_vh):
    n = 10 if q else 60
    for label, vh, cnt in (("plain", ctx.vh, n), ("race", race_vh, 3 if q else 10)):
        rp = os.path.join(ctx.work, "stress-%s.json" % label)
        def once():
            old = ctx.vh
            ctx.vh = vh
            try:
                return ctx.harness(["tablespar", "stress", cnt, rp], check=False, env={"GORACE": "halt_on_error=0 exitcode=66"}, timeout=2400)
            finally:
                ctx.vh = old
        p = once()
        if "DATA RACE" in p.stderr:
            m = re.search(r"WARNING: DATA RACE.*?(?=\n==================|\Z)", p.stderr, re.S)
            p2 = once()
            if "DATA RACE" not in p2.stderr:
                raise vlib.Infra("a data race report (big shapes) did not reproduce on a second run")
            ctx.report([{"signature": "data-race", "detail": (m.group(0) if m else p.stderr)[:3000], "family": "tablespar-race"}],
                       "race detector on un-imposed runs with more cell workers than the fan-out bound")
            continue
        if p.returncode != 0 or not os.path.exists(rp):
            if "panic:" in p.stderr or "fatal error:" in p.stderr:
                m = re.search(r"(panic: .*|fatal error: .*)", p.stderr)
                p2 = once()
                if p2.returncode == 0:
                    raise vlib.Infra("a crash on big shapes did not recur: " + p.stderr[-600:])
                ctx.report([{"signature": "crash-on-big-shapes", "family": "tablespar-stress", "detail": m.group(1) + " | " + p.stderr[-1500:]}],
                           "un-imposed runs on big shapes")
                continue
            raise vlib.Infra("stress run (%s) failed rc=%d: %s" % (label, p.returncode, p.stderr[-1500:]))
        rep = json.load(open(rp))
        ctx.cov["stress_runs_" + label] = rep["runs"]
        ctx.cov["stress_max_cells"] = max(ctx.cov.get("stress_max_cells", 0), rep["max_cells"])
        ctx.cov["evaluations"] += rep["runs"]
        if rep["failures"]:
            once()
            rep2 = json.load(open(rp))
            if not rep2["failures"]:
                raise vlib.Infra("a GOMAXPROCS-dependent output (big shapes) did not reproduce: %s" % rep["failures"][:1])
            ctx.report([{"signature": "output-depends-on-gomaxprocs", "detail": f, "family": "tablespar-stress"} for f in rep["failures"][:5]],
                       "un-imposed runs on big shapes")


def repeat_sig(f):
    if "did not terminate" in f:
        return "benchstat-does-not-terminate"
    if "benchstat failed" in f:
        return "benchstat-fails"
    return "binary-output-differs"


def run(ctx):
    bins = ctx.build(binaries=("benchstat",))
    q = ctx.quick
    # (M)
    ctx.tlc("TablesPar.tla", "TablesPar_mc_quick.cfg", timeout=900)
    if not q:
        ctx.tlc("TablesPar.tla", "TablesPar_mc_thorough.cfg", timeout=2400)
    # TablesPar (shape in constants) implements TablesParDyn (shape in the state), which is what
    # the traces of arbitrary inputs are validated against
    ctx.tlc("TablesPar_refines.tla", "TablesPar_refines.cfg", timeout=900, label="refinement")
    neg = ctx.tlc("TablesPar.tla", "TablesPar_nobarrier.cfg", timeout=600, expect_ok=False, count=False)
    if not (neg.error and "BarrierRespected" in neg.out):
        raise vlib.Infra("negative control: the model without the first barrier did not violate BarrierRespected")
    # (G)
    cases = []
    n = 40 if q else 400
    for cfg in ("TablesPar_gen.cfg", "TablesPar_gen_greedy.cfg") + (() if q else ("TablesPar_gen_big.cfg", "TablesPar_gen_big_greedy.cfg")):
        r = ctx.tlc("TablesPar_gen.tla", cfg, simulate=n, depth=200, workers=4, timeout=900, label="simulate+gen")
        cases += r.printed_json("case")
    cases = vlib.dedupe(cases, key=lambda c: json.dumps([c["ntables"], c["rows"], c["cols"], c["sched"]]))
    if len(cases) < 50:
        raise vlib.Infra("generator produced only %d schedules" % len(cases))
    nontriv = sum(1 for c in cases if overlaps(c) > 0)
    ctx.add_samples([{"sched": [(e["e"], e["w"]["kind"], e["w"]["t"], e["w"]["r"], e["w"]["c"]) for e in cases[0]["sched"]]}], 1)
    flaky = []
    try:
        ctx.replay("tablespar", cases, "TLC schedules imposed on Builder.ToTables", confirm="any")
    except vlib.Infra as e:
        if "panic:" in str(e) or "fatal error:" in str(e):
            # the computation crashed under an imposed schedule (a panic inside a worker goroutine
            # takes the process down): confirm by running the schedules again
            try:
                ctx.replay("tablespar", cases, "TLC schedules imposed on Builder.ToTables", confirm="any")
                flaky.append("a crash under an imposed schedule did not recur: " + str(e)[:300])
            except vlib.Infra as e2:
                if "panic:" in str(e2) or "fatal error:" in str(e2):
                    m = re.search(r"(panic: .*|fatal error: .*)", str(e2))
                    ctx.report([{"signature": "crash-under-imposed-schedule", "family": "tablespar",
                                 "detail": (m.group(1) if m else "crash") + " | " + str(e2)[-1500:]}], "TLC schedules imposed on Builder.ToTables")
                else:
                    raise
        elif "never recurred" not in str(e):
            raise
        else:
            flaky.append(str(e))   # keep going: trace validation may pin the cause deterministically
    if ctx.cov.get("skipped", 0) > len(cases) // 2:
        vlib.log("NOTE design conformance: %d of %d model schedules could not be imposed on the code (its fan-out differs from the model's)" % (ctx.cov["skipped"], len(cases)))
    crashed = any(v.get("signature") == "crash-under-imposed-schedule" for v in ctx.violations)
    # the same schedules in a -race build
    race_vh = os.path.join(ctx.work, "vh-race")
    ctx._gobuild(["-race", "-tags", "verif", "-overlay", ctx.overlay, "-o", race_vh, "./" + vlib.HARNESS_PKG_DIR])
    sub = cases if q else cases[:600]
    cp = ctx.write_ndjson("cases-race.ndjson", sub)
    vp = os.path.join(ctx.work, "verdicts-race.ndjson")
    old = ctx.vh
    ctx.vh = race_vh
    try:
        p = ctx.harness(["tablespar", "replay", cp, vp], check=False, env={"GORACE": "halt_on_error=0 exitcode=66"}, timeout=2400)
    finally:
        ctx.vh = old
    if "DATA RACE" in p.stderr:
        m = re.search(r"WARNING: DATA RACE.*?(?=\n==================|\Z)", p.stderr, re.S)
        # confirm by a second run
        ctx.vh = race_vh
        try:
            p2 = ctx.harness(["tablespar", "replay", cp, vp], check=False, env={"GORACE": "halt_on_error=0 exitcode=66"}, timeout=2400)
        finally:
            ctx.vh = old
        if "DATA RACE" not in p2.stderr:
            raise vlib.Infra("a data race report did not reproduce on a second run")
        ctx.report([{"signature": "data-race", "detail": (m.group(0) if m else p.stderr)[:3000], "family": "tablespar-race"}],
                   "race detector on imposed schedules")
    elif p.returncode != 0 and crashed:
        pass   # already reported
    elif p.returncode != 0:
        raise vlib.Infra("race-build harness failed rc=%d: %s" % (p.returncode, p.stderr[-1500:]))
    else:
        bad = [v for v in ctx.read_ndjson(vp) if not v.get("ok")]
        if bad:
            ctx.report([dict(v, family="tablespar") for v in bad[:5]], "imposed schedules in the -race build")
    ctx.cov["race_build_schedules"] = len(sub)
    ctx.cov["traces_validated_against_impl"] += len(sub)
    # big shapes, un-imposed (far more cell workers than 2*GOMAXPROCS, cells of very different weight, large residue
    # sets): text/CSV at GOMAXPROCS 2,16,3,4,8,1 against the run at GOMAXPROCS 1, in the plain and in the -race build
    stress(ctx, q, race_vh)
    # (T) two layers.  Observer (verdict): what was observed must be free of conflicting concurrent
    # accesses and of reads before the final write (TablesParObs_trace: any event order is accepted,
    # only the safety invariants of C15 are judged).  Design conformance (no verdict): the same
    # traces must be behaviours of the design specification (TablesPar_trace / TablesParDyn_trace);
    # a rejection there while the observer accepts means the code was restructured away from the
    # model (another fan-out bound, another join structure) and is logged, not reported.
    ntr = 25 if q else 200
    def record_own(path):
        ctx.harness(["tablespar", "record", path, ntr])
        return path
    def record_repo_tests(path):
        # the repository's own golden tests of cmd/benchstat, with a recording hook overlaid into
        # the test package (harness/rectests/cmd__benchstat), at several GOMAXPROCS
        ovp = os.path.join(ctx.work, "overlay-rectests.json")
        json.dump({"Replace": {os.path.join(vlib.REPO, "cmd/benchstat/zz_verif_rec_test.go"):
                               os.path.join(vlib.VERIF, "harness", "rectests", "cmd__benchstat", "zz_verif_rec_test.go")}}, open(ovp, "w"))
        tb = os.path.join(ctx.work, "benchstat-rec.test")
        import subprocess
        pr = subprocess.run(["go", "test", "-c", "-vet=off", "-tags", "verif", "-overlay", ovp, "-o", tb, "./cmd/benchstat"], cwd=vlib.REPO, env=ctx.goenv(),
                            stdout=subprocess.PIPE, stderr=subprocess.STDOUT, text=True)
        if pr.returncode != 0:
            raise vlib.Infra("building cmd/benchstat's test binary with the recorder failed:\n" + pr.stdout[-2000:])
        if os.path.exists(path):
            os.remove(path)
        for gp in (("1", "4", "16") if q else ("1", "2", "3", "4", "8", "16")):
            env = dict(os.environ); env["VERIF_TRACE"] = path; env["GOMAXPROCS"] = gp
            pr = subprocess.run([tb, "-test.count", "1"], cwd=os.path.join(vlib.REPO, "cmd/benchstat"), env=env, stdout=subprocess.PIPE, stderr=subprocess.STDOUT, text=True, timeout=900)
            if pr.returncode != 0:
                # not this check's verdict (the repository's suite is the baseline's business); the runs
                # recorded so far are still validated
                vlib.log("NOTE cmd/benchstat's own tests fail under the recorder (GOMAXPROCS=%s): %s" % (gp, pr.stdout[-300:].replace("\n", " | ")))
                ctx.cov["repo_tests_failed_under_recorder"] = True
        with open(path, "a") as fh:
            fh.write(json.dumps({"ev": "reset", "limit": 0, "nt": 1, "cells": [], "cols": [], "base": [1]}) + "\n")
        return path
    def record_big(path):
        # 50-100 cell workers per run at GOMAXPROCS 1, 2, 3: the fan-out bound is saturated throughout
        ctx.harness(["tablespar", "recordbig", path, 6 if q else 40])
        return path
    drift = []
    for name, rec, strict in (("own", record_own, ("TablesPar_trace.tla", "TablesPar_trace.cfg")),
                              ("repo-tests", record_repo_tests, ("TablesParDyn_trace.tla", "TablesParDyn_trace.cfg")),
                              ("big", record_big, ("TablesParDyn_trace.tla", "TablesParDyn_trace.cfg"))):
        tp = rec(os.path.join(ctx.work, "tp-trace-%s.ndjson" % name))
        evs = ctx.read_ndjson(tp)
        nruns = sum(1 for e in evs if e["ev"] == "reset") - 1
        if nruns < 5 and not ctx.cov.get("repo_tests_failed_under_recorder"):
            raise vlib.Infra("recorder %s produced only %d runs" % (name, nruns))
        if nruns < 1:
            continue
        ok, hwm, r = ctx.trace_validate("TablesParObs_trace.tla", "TablesParObs_trace.cfg", tp, timeout=1800)
        if not ok:
            bad = evs[min(hwm, len(evs) - 1)]
            inv = re.search(r"Invariant (\w+) is violated", r.error or "")
            if not inv:
                raise vlib.Infra("observer trace specification could not follow the %s trace at event %d (%s): %s" % (name, hwm, bad, (r.error or "")[:500]))
            again = False
            for attempt in range(3):
                tp2 = rec(os.path.join(ctx.work, "tp-trace-%s-again.ndjson" % name))
                ok2, hwm2, r2 = ctx.trace_validate("TablesParObs_trace.tla", "TablesParObs_trace.cfg", tp2, timeout=1800)
                if not ok2 and re.search(r"Invariant (\w+) is violated", r2.error or ""):
                    again = True
                    break
            if not again:
                raise vlib.Infra("an observed %s violation did not recur in 3 further recordings (event %d: %s)" % (inv.group(1), hwm, bad))
            ctx.report([{"signature": "trace-" + inv.group(1), "family": "tablespar-trace",
                         "detail": "hook trace (%s) violates %s at event %d: %s" % (name, inv.group(1), hwm, json.dumps(bad))}], "trace validation (observer)")
        ctx.cov["traces_validated_against_impl"] += nruns
        ok, hwm, r = ctx.trace_validate(strict[0], strict[1], tp, timeout=1800, deque=True)
        if not ok:
            bad = evs[min(hwm, len(evs) - 1)]
            why = re.search(r"Invariant (\w+) is violated", r.error or "")
            drift.append("%s: not a behaviour of %s at event %d (%s)%s" % (name, strict[0], hwm, json.dumps(bad)[:200], " [" + why.group(1) + "]" if why else ""))
        ctx.cov.setdefault("trace_runs", {})[name] = nruns
    if drift:
        for d in drift:
            vlib.log("NOTE design conformance: " + d)
        ctx.cov["design_conformance_rejections"] = drift
    # binary repeat / permutation
    rp = os.path.join(ctx.work, "repeat.json")
    ctx.harness(["tablespar", "repeat", bins["benchstat"], 6 if q else 60, rp], timeout=2400)
    rep = json.load(open(rp))
    ctx.cov["binary_runs"] = rep["runs"]
    ctx.cov["evaluations"] += rep["runs"]
    if rep["failures"]:
        # confirm
        ctx.harness(["tablespar", "repeat", bins["benchstat"], 6 if q else 60, rp], timeout=2400)
        rep2 = json.load(open(rp))
        if not rep2["failures"]:
            raise vlib.Infra("binary repeat failure did not reproduce: %s" % rep["failures"][:2])
        ctx.report([{"signature": repeat_sig(f), "detail": f, "family": "tablespar-repeat"}
                    for f in rep["failures"][:5]], "benchstat binary repeat runs")
    # the same on LARGE inputs: > 1024 distinct benchmarks in several passes, > 1024 runs of a few benchmarks with a
    # configuration key of their own, grids with more cells than 2*GOMAXPROCS and large residue sets
    nbig = 8 if q else 24
    ctx.harness(["tablespar", "repeatbig", bins["benchstat"], nbig, rp], timeout=2400)
    rep = json.load(open(rp))
    ctx.cov["binary_runs_big_inputs"] = rep["runs"]
    ctx.cov["big_input_lines_max"] = rep["lines"]
    ctx.cov["evaluations"] += rep["runs"]
    if rep["failures"]:
        ctx.harness(["tablespar", "repeatbig", bins["benchstat"], nbig, rp], timeout=2400)
        rep2 = json.load(open(rp))
        if not rep2["failures"]:
            raise vlib.Infra("binary repeat failure on a big input did not reproduce: %s" % rep["failures"][:2])
        ctx.report([{"signature": repeat_sig(f), "detail": f, "family": "tablespar-repeat"}
                    for f in rep["failures"][:5]], "benchstat binary repeat runs on big inputs")
    # in-process repetition: benchstat() called several times in one process with different flags
    inproc(ctx, q)
    ctx.cov["distinct_nontrivial"] = nontriv
    if flaky and not ctx.violations:
        raise vlib.Infra("; ".join(flaky))
    return ctx.finish(RULE, assumptions=[
        "key comparison is a strict total order (property C09), otherwise the unstable sort could leak map order",
        "the race detector only judges the schedules that were run; pairwise overlap is produced by the 'greedy' schedules",
    ])
