"""C16 - text table layout and text/CSV agreement (spec families TextTab, KeyHeader; harness family "texttab")."""
import json, os, re
import vlib

LEVEL = "model_checking"
TEXT = ("TLC checks, for every table a caller of texttab.Table can build within the constants (2-3 rows x 3-4 columns, widths "
        "0-3, spans 1-3, margins, alignments, every shrink set in which each multi-column cell covers a stretch column), that the "
        "transcription of Format (widths by increasing span, deficit spread over non-shrink columns widest first with ceiling "
        "averages, emission skipping blank cells) meets the declarative layout requirements of the statement (offsets exist such "
        "that every cell sits in its columns, equal column starts / right ends on every line, no overlap, no trailing blanks), "
        "and that NewKeyHeader's walk yields exactly the maximal runs per level (partition, labelling, nesting) for all key "
        "sequences up to 5 keys x 3 levels. Every model table and key sequence is replayed on the real texttab.Table / "
        "benchproc.NewKeyHeader (multi-byte contents) and must show exactly the specification's layout / forest; the real "
        "benchstat binary is run in text and csv format on generated and repository inputs, both renderings are abstracted "
        "to grids, TLC evaluates the layout requirements and the header-forest law on the measured text grid, and the harness "
        "compares contents (labels, columns, range/delta/p strings, warnings per cell, numbers to the printed precision). "
        "Exhaustive for the small domains, sampled (seeded simulation / generated inputs) beyond.")
NOTE = ("Trusted: TLC, the harness's measurement of rune offsets by unique cell contents, its two parsers of benchstat output "
        "(text tokens, CSV fields and spreadsheet-style warning references) and the string/arithmetic comparisons of paired "
        "cells, which are evaluated in Go, not in TLA+. Character = rune (what the code counts); East-Asian wide or combining "
        "characters are not modelled.")
TECHNIQUE = ("TLA+ model checking (TLC) of declarative layout requirements vs an operational transcription + replay of every "
             "model table / key sequence into texttab.Table.Format and benchproc.NewKeyHeader + spec-as-oracle trace "
             "evaluation of grids measured on the real benchstat binary (text vs csv)")
DESIGN_REF = "DESIGN.md section 4 C16"

RULE = ("(M) exhaustive TLC runs of TextTab.tla (API call sequences = tables; invariant LayoutOK: operational layout satisfies the "
        "declarative requirements, for its own offsets and for offsets reconstructed from the observations) and KeyHeader.tla "
        "(Laws, Agree) over the configured constants; (G) one replay case per table / key sequence of the generator "
        "configurations (exhaustive slices plus a seeded simulation of the 3x4 domain with all margins and alignments), each "
        "built twice (ASCII, seed-chosen multi-byte scripts) through the real API and compared cell by cell with the "
        "specification's layout / forest; (T) benchstat runs in both formats: per table one layout event and one header event "
        "evaluated by TextTab_trace / KeyHeader_trace, content compared in the harness. "
        "distinct_nontrivial = distinct replayed tables containing a multi-column cell + distinct key sequences whose forest "
        "has a node covering >= 2 keys + benchstat tables with >= 2 columns compared in both formats.")

ASSUMPTIONS = [
    "domain: every multi-column cell covers at least one non-shrink column (TextTab_asbuilt.cfg shows the overflow otherwise; "
    "benchstat's own 'vs base' header violates this when no row of a column has a comparison - reported through the binary)",
    "cell contents are without leading/trailing blanks; a margin-only cell whose margin text ends in a blank and "
    "that is last on its line leaves that blank (the caller asked for it). Blank-only contents: every replayed table is built a "
    "third time with a seeded subset of its cells (blank margin kinds) holding w blank runes (space, tab, NBSP, U+2003, U+3000) "
    "instead of content - such a cell is an empty cell: the other cells must stay where the specification puts them, a line whose "
    "last cell is kept is unchanged, a line that loses its last cells ends where its last remaining cell ends "
    "(signatures texttab:blank-cell-*)",
    "<= 12 cells per model table: sort.Slice is then an insertion sort, i.e. stable; for larger tables the order of equal-span "
    "cells is not modelled operationally (the declarative requirements do not depend on it)",
    "width = number of runes; display width of wide/combining characters is outside the model",
    "the CSV always has a summary (geomean) line, the text only for >= 2 rows: the comparison pairs what both show",
    "generated benchstat inputs contain finite values only (non-finite numbers are C10's domain)",
]


def _cases(r, what, minimum):
    cs = r.printed_json("case")
    if len(cs) < minimum:
        raise vlib.Infra("%s produced only %d cases" % (what, len(cs)))
    return cs


def _tlc_eval(ctx, module, cfg, events, what):
    """Evaluate events with a *_trace spec; returns {t: [failed requirement names]}."""
    if not events:
        return {}
    p = ctx.write_ndjson("ev-%s.ndjson" % module, events)
    ok, hwm, r = ctx.trace_validate(module + ".tla", cfg, p, timeout=1500)
    if not ok:
        raise vlib.Infra("%s: trace evaluator stopped at event %d of %d: %s" % (what, hwm, len(events), r.error))
    res = {}
    for v in r.printed_json("verdict"):
        res[v["t"]] = v["fails"]
    if len(res) != len(events):
        raise vlib.Infra("%s: %d verdicts for %d events" % (what, len(res), len(events)))
    return res


def _replay(ctx, cases, tag):
    cp = ctx.write_ndjson("cases-texttab-%s.ndjson" % tag, cases)
    vp = os.path.join(ctx.work, "verdicts-texttab-%s.ndjson" % tag)
    ctx.harness(["texttab", "replay", cp, vp], timeout=3000)
    vs = ctx.read_ndjson(vp)
    if len(vs) != len(cases):
        raise vlib.Infra("harness returned %d verdicts for %d cases" % (len(vs), len(cases)))
    return vs


def run(ctx):
    bins = ctx.build(binaries=("benchstat",))
    q = ctx.quick

    # ---------------------------------------------------------------- (M)
    if q:
        ctx.tlc("TextTab.tla", "TextTab_mc_quick.cfg", timeout=900)
    else:
        ctx.tlc("TextTab.tla", "TextTab_mc_quick.cfg", timeout=900)
        ctx.tlc("TextTab.tla", "TextTab_mc_thorough.cfg", timeout=2400)
        ctx.tlc("TextTab.tla", "TextTab_mc_thorough3.cfg", timeout=2400)
        ctx.tlc("TextTab.tla", "TextTab_fixed.cfg", timeout=900)
        ctx.tlc("KeyHeader.tla", "KeyHeader_mc_thorough.cfg", timeout=2400)
    # negative control inside the model: without the domain restriction TLC must find the overflow
    r = ctx.tlc("TextTab.tla", "TextTab_asbuilt.cfg", timeout=600, expect_ok=False, count=False, label="asbuilt")
    if not (r.error and "LayoutOK" in r.error):
        raise vlib.Infra("TextTab_asbuilt.cfg no longer shows the all-shrink-span overflow: %s" % (r.error,))

    # ---------------------------------------------------------------- (G)
    tcases = []
    if q:
        tcases += _cases(ctx.tlc("TextTab_gen.tla", "TextTab_gen_quick.cfg", timeout=900, label="mc+gen"), "TextTab_gen_quick", 1000)
        tcases += _cases(ctx.tlc("TextTab_gen.tla", "TextTab_gen_emit.cfg", timeout=900, label="mc+gen"), "TextTab_gen_emit", 1000)
        tcases += _cases(ctx.tlc("TextTab_gen.tla", "TextTab_gen_sim.cfg", workers=4, simulate=500, depth=14, timeout=900,
                                 label="simulate+gen"), "TextTab_gen_sim", 1000)
    else:
        tcases += _cases(ctx.tlc("TextTab_gen.tla", "TextTab_gen_quick.cfg", timeout=3000, label="mc+gen"), "TextTab_gen_quick", 1000)
        tcases += _cases(ctx.tlc("TextTab_gen.tla", "TextTab_gen_thorough.cfg", timeout=3000, label="mc+gen"), "TextTab_gen_thorough", 1000)
        tcases += _cases(ctx.tlc("TextTab_gen.tla", "TextTab_gen_emit_thorough.cfg", timeout=3000, label="mc+gen"), "TextTab_gen_emit_thorough", 1000)
        tcases += _cases(ctx.tlc("TextTab_gen.tla", "TextTab_gen_sim.cfg", workers=8, simulate=1500, depth=14, timeout=3000,
                                 label="simulate+gen"), "TextTab_gen_sim", 1000)
    # canonical order: the case number seeds the concretisation, TLC's print order varies
    tcases = sorted(vlib.dedupe(tcases), key=lambda c: json.dumps(c, sort_keys=True))
    kcases = []
    if q:
        kcases += _cases(ctx.tlc("KeyHeader_gen.tla", "KeyHeader_gen_quick.cfg", timeout=900, label="mc+gen"), "KeyHeader_gen_quick", 1000)
        kcases += _cases(ctx.tlc("KeyHeader_gen.tla", "KeyHeader_gen_quick2.cfg", timeout=900, label="mc+gen"), "KeyHeader_gen_quick2", 1000)
    else:
        kcases += _cases(ctx.tlc("KeyHeader_gen.tla", "KeyHeader_gen_quick.cfg", timeout=900, label="mc+gen"), "KeyHeader_gen_quick", 1000)
        kcases += _cases(ctx.tlc("KeyHeader_gen.tla", "KeyHeader_gen_quick2.cfg", timeout=900, label="mc+gen"), "KeyHeader_gen_quick2", 1000)
        kcases += _cases(ctx.tlc("KeyHeader_gen.tla", "KeyHeader_gen_thorough.cfg", timeout=3000, label="mc+gen"), "KeyHeader_gen_thorough", 1000)
    kcases = sorted(vlib.dedupe(kcases), key=lambda c: json.dumps(c, sort_keys=True))
    cases = tcases + kcases
    nsample = 0
    for i, c in enumerate(cases):
        c["id"] = i
        if c["kind"] == "table" and i % 400 == 0:
            c["sample"] = True
            nsample += 1
    nontriv = sum(1 for c in tcases if any(x[2] > 1 for x in c["cells"]))
    nontriv += sum(1 for c in kcases if any(n[3] >= 2 for n in c["nodes"]))
    mid = [c for c in tcases if len(c["cells"]) >= 5 and any(x[2] > 1 for x in c["cells"])]
    ctx.add_samples([mid[len(mid) // 2]] if mid else tcases[:1], 1)
    ctx.add_samples([kcases[len(kcases) // 2]], 1)

    verdicts = _replay(ctx, cases, "all")
    ctx.cov["traces_validated_against_impl"] += len(verdicts)
    ctx.cov["evaluations"] += len(verdicts)
    by_id = {c["id"]: c for c in cases}
    bad = [v for v in verdicts if not v.get("ok")]
    events = []      # layout events for TextTab_trace: (event, origin)
    api_origin = {}
    if bad:
        sub = [by_id[v["id"]] for v in bad[:300]]
        v2 = {v["id"]: v for v in _replay(ctx, sub, "confirm")}
        flaky = [v for v in bad[:300] if v2[v["id"]].get("ok") or v2[v["id"]].get("signature") != v.get("signature")]
        if flaky:
            raise vlib.Infra("%d deviations did not reproduce on a second run - flaky harness, no verdict" % len(flaky))
    t = 0
    for v in verdicts:
        ev = v.get("got")
        if isinstance(ev, dict) and ev.get("ev") == "layout" and (v.get("ok") or v.get("signature") == "differs"):
            t += 1
            events.append({"t": t, "cells": ev["cells"], "lines": ev["lines"]})
            api_origin[t] = v
    direct = []
    for v in bad:
        if v.get("signature") == "differs" and isinstance(v.get("got"), dict):
            continue
        v["case"] = by_id[v["id"]]
        v.pop("got", None)
        direct.append(v)
    ctx.report(direct, "replay of TLC-generated tables / key sequences on texttab.Table and benchproc.NewKeyHeader")

    # ---------------------------------------------------------------- (T)
    nscen = 25 if q else 400
    rp = os.path.join(ctx.work, "bs-rec.ndjson")
    td = os.path.join(vlib.REPO, "cmd", "benchstat", "testdata")
    ctx.harness(["texttab", "record", rp, nscen, bins["benchstat"], td], timeout=3000)
    rec = ctx.read_ndjson(rp)
    summ = [e for e in rec if e["ev"] == "summary"][0]
    lay = [e for e in rec if e["ev"] == "layout"]
    hdr = [e for e in rec if e["ev"] == "hdr"]
    content = [e for e in rec if e["ev"] == "content"]
    if summ["runs"] < 10 or (len(lay) < 10 and not content):
        raise vlib.Infra("benchstat recorder produced only %d runs / %d tables" % (summ["runs"], len(lay)))
    if content:
        # observed twice: the recorder is deterministic for a seed
        rp2 = os.path.join(ctx.work, "bs-rec2.ndjson")
        ctx.harness(["texttab", "record", rp2, nscen, bins["benchstat"], td], timeout=3000)
        c2 = set((e["t"], e["signature"], e["detail"]) for e in ctx.read_ndjson(rp2) if e["ev"] == "content")
        if set((e["t"], e["signature"], e["detail"]) for e in content) != c2:
            raise vlib.Infra("content disagreements did not reproduce on a second run of the recorder")
    bs_origin = {}
    for e in lay:
        t += 1
        events.append({"t": t, "cells": e["cells"], "lines": e["lines"]})
        bs_origin[t] = e
    lay_fails = _tlc_eval(ctx, "TextTab_trace", "TextTab_trace.cfg", events, "layout evaluation")
    hdr_events = [{"t": i + 1, "keys": e["keys"], "nodes": e["nodes"]} for i, e in enumerate(hdr)]
    hdr_fails = _tlc_eval(ctx, "KeyHeader_trace", "KeyHeader_trace.cfg", hdr_events, "header evaluation") if hdr_events else {}
    ctx.cov["traces_validated_against_impl"] += 2 * summ["runs"]
    ctx.cov["evaluations"] += len(events) + len(hdr_events)
    ctx.cov["benchstat_runs"] = 2 * summ["runs"]
    ctx.cov["benchstat_tables_compared"] = summ["tables"]
    ctx.cov["replayed_tables"] = len(tcases)
    ctx.cov["replayed_key_sequences"] = len(kcases)
    ctx.cov["layout_events_evaluated_by_tlc"] = len(events)
    ctx.cov["header_events_evaluated_by_tlc"] = len(hdr_events)

    # (a) tables whose measurement differs from the specification's layout
    drift = []
    found = []
    for tt, v in api_origin.items():
        fails = lay_fails[tt]
        if v.get("ok"):
            if fails:
                raise vlib.Infra("TextTab_trace rejects (%s) a measurement that equals the layout TLC proved correct: %s"
                                 % (fails, json.dumps(v.get("got"))[:600]))
            continue
        c = by_id[v["id"]]
        if fails:
            found.append({"signature": "texttab-layout:" + "+".join(sorted(fails)), "family": "texttab", "case": c,
                          "detail": v.get("detail"), "concrete": v.get("concrete"), "failed_requirements": fails})
        else:
            drift.append(v)
    ctx.report(found, "Format output of a model table violates the declarative layout requirements (evaluated by TLC)")

    # (c) benchstat text grids
    found = []
    starved_tables = set()
    per_sig = {}
    for tt, e in bs_origin.items():
        fails = lay_fails[tt]
        if not fails:
            continue
        if e.get("starved"):
            sig = "vs-base-header-over-empty-comparison-columns"
            starved_tables.add(e["t"])
        else:
            sig = "benchstat-layout:" + "+".join(sorted(fails))
        per_sig.setdefault(sig, []).append({"signature": sig, "family": "texttab-benchstat",
                                            "detail": "benchstat text table %d of run %d violates layout requirements %s"
                                                      % (e["t"] % 1000, e["t"] // 1000, fails),
                                            "failed_requirements": fails, "args": e["args"], "tag": e.get("tag"),
                                            "text": e.get("text"), "files": e.get("files")})
    for i, e in enumerate(hdr):
        if hdr_fails.get(i + 1):
            if e["t"] in starved_tables:
                continue    # the header cells could not be mapped to columns because of the misplaced rules
            sig = "benchstat-header-span"
            per_sig.setdefault(sig, []).append({"signature": sig, "family": "texttab-benchstat",
                                                "detail": "header cells of the text table are not the forest of the column keys",
                                                "keys": e["keys"], "nodes": e["nodes"], "args": e["args"], "tag": e.get("tag"),
                                                "files": e.get("files")})
    for e in content:
        sig = e["signature"]
        per_sig.setdefault(sig, []).append({"signature": sig, "family": "texttab-benchstat", "detail": e["detail"],
                                            "args": e["args"], "tag": e.get("tag"), "files": e.get("files")})
    for sig, items in sorted(per_sig.items()):
        items[0]["occurrences"] = len(items)
        found += items[:3]
    ctx.cov["benchstat_deviations_by_signature"] = {k: len(v) for k, v in per_sig.items()}
    ctx.report(found, "benchstat text vs csv / text layout")

    if drift:
        for v in drift[:3]:
            vlib.log("model drift:", json.dumps({k: v.get(k) for k in ("detail", "concrete")})[:800])
        if not ctx.violations:
            raise vlib.Infra("%d model tables are laid out differently from the operational model although the declarative "
                             "requirements hold (TextTab.tla no longer transcribes table.go; the TLC result does not carry over): %s"
                             % (len(drift), drift[0].get("detail")))
    okrun = [e for e in rec if e["ev"] == "run" and e.get("tables")]
    if okrun:
        s = okrun[len(okrun) // 2]
        ctx.add_samples([{"benchstat_args": s["args"], "tables": s["tables"], "text": s.get("text", "")[:1500]}], 1)
    nontriv += sum(1 for e in lay if e.get("ncols", 0) >= 2)
    ctx.cov["distinct_nontrivial"] = nontriv
    ctx.cov["exhaustive"] = True
    return ctx.finish(RULE, assumptions=ASSUMPTIONS)
