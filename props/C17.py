"""C17 - the legacy benchstat library's tables follow its documented statistics (spec family Legacy)."""
import collections, json
import vlib

LEVEL = "model_checking"
TEXT = ("TLC derives, on exact integers, what the legacy benchstat library must report for a collection of 1-3 configurations of "
        "benchmark lines (3 names, ns/op, MB/s and a custom unit, label groups, small integer values with outliers, zeros and "
        "constants) under every setting of test (U, t, none), alpha, order (none, name, delta, reversed) and geomean: R8 quartiles, "
        "the 1.5 IQR fence, the retained values in input order, min/mean/max, first-appearance orders of units, groups and "
        "benchmarks, the significance gate p < alpha with the exact two-sided U-test p as a rational, delta = (new/old-1)*100, "
        "the better direction (higher only for MB/s), the notes, the stable sort and the geomean membership. It checks on every "
        "explored collection that the declarative definitions equal the transcribed algorithms of the code (sample sort, outlier "
        "loop, addString, the if-chain of Tables(), insertion sort of sort.SliceStable, geomean loop), the lemmas retained is a "
        "non-empty order-preserving subsequence, min <= mean <= max, the rendering decision table total and disjoint. Every "
        "collection of three exhaustive families (all value sequences of one cell, all pairs of old/new multisets x tests x alphas, "
        "all small collections x orders x grouping) and TLC-simulated large collections are replayed through "
        "benchstat.Collection (AddConfig text or AddResults), Tables() once, FormatText and FormatCSV, and compared field by field. "
        "LONG RUNS (6..70 lines per configuration, equal and lopsided, on both sides of the U-test's limits 25/50; many ties, constant, "
        "no two values equal, old above/below new): the model fixes retained values, the 'all equal' error, the tie vector, 2U and the "
        "prescribed method; the harness evaluates the p-value of that method independently (counting dynamic programme / Erfc) and "
        "judges gate, delta, direction and note with it.")
NOTE = ("Trusted: TLC, the harness's concretisation of tokens (order-preserving names, units, labels, scale factor, number spelling), "
        "float-vs-rational comparison at 1e-12 (deltas 1e-9, printed delta 0.005, printed p 0.0005); for long runs the harness's own "
        "U-test p (float counting programme over the model's tie vector / normal approximation by math.Erfc) and, for every t-test row, "
        "Welch's p from exact rationals and a quadrature of the t density (internal/stats must agree at 1e-9). Auxiliary, outside the model: "
        "for tied samples of unequal size inside the exact limits (known finding of C11) the U-test p-value is taken from the library's "
        "own test called on the model's retained samples - the model fixes what is tested, the error cases, the gate and what is "
        "rendered on either side of it; the geomean's numeric value is re-evaluated as exp(mean(log)) over the model's membership. "
        "Marked and not judged: a value exactly on a fence whose quartiles differ, p exactly alpha, the delta value when the old "
        "mean is 0. Free: rows with a missing side in an old/new table, rows without any value of the unit, a geomean row over at "
        "most one mean, scaled mean text, the variation column, the geomean row's delta.")
TECHNIQUE = ("TLA+ model checking (TLC): declarative definitions vs transcribed algorithms on exhaustive input families and simulated "
             "collections + replay of every generated collection into package benchstat")
DESIGN_REF = "DESIGN.md section 4 C17"

RULE = ("(M) exhaustive TLC run of Legacy.tla over the plan families of the tier. quick: 'cell' = every sequence of up to 6 values over "
        "{0,1,3,8} in one cell; 'pair' = every pair of multisets of sizes 1..4 over {0,1,3} x (U-test x 3 alphas, t-test x 2 alphas, no "
        "test) x {ns/op, MB/s}; 'small' = every collection of 3 lines over 2 names x (2 units | 2 label values) x 2 values in 4 "
        "configuration shapes x 5 (test, order) settings, with and without grouping. thorough: cells up to 7 values, and up to 6 over "
        "{0,1,4,10,40}; pairs of sizes 1..5 over {0,1,3} and 1..4 over {0,1,2,5}; 3-line collections in 5 shapes (incl. an empty first "
        "configuration) x all orders, 4-line collections in 4 shapes x 2 settings. Invariant AllOK (cell lemmas, bookkeeping, row "
        "rendering, stable sort, geomean membership) on every state; the rendering decision table (total, disjoint, = if-chain) and the "
        "sort lemma (all key vectors up to length 5 over 4 keys, both directions) as assumptions. (G) the same exploration prints one "
        "replay case per collection of each family; -simulate (1500 / 12000 behaviours, seeded) adds finished collections of 1-3 "
        "configurations x up to 8 lines x 1-2 measurements (3 names, 3 units, label groups, value sets with an outlier / shifted second "
        "configuration / constant first configuration / zeros) under all 300 settings, and 'wide' collections of 45-100 lines filling "
        "tables of up to 15 rows (5 names x 3 label values), lemmas checked on each; 'long' collections (-simulate, 6 workers x 34 / 150 "
        "behaviours): two configurations of one benchmark with 6..70 lines each (quick: 14 shapes x 16 value kinds x 2 units, cases only; "
        "thorough: 30 shapes x 16 kinds x 3 units, lemmas checked), U-test (3 alphas) or t-test (2 alphas). Every case is replayed once on "
        "benchstat.Collection, and then up to three more times with every model value v re-read as (v - shift)*scale*sign (all "
        "values negative; the reflection, non-positive with the order reversed; one seeded mixed-sign reading): quartiles and fences "
        "are equivariant under x -> a*x+b, so values, retained values in input order, min, max (exchanged for a < 0), mean and "
        "min <= mean <= max are judged per cell in these passes (signatures signed-*); deltas, p-values and geomeans are not. "
        "distinct_nontrivial = distinct judged cases in which an outlier is rejected, or an old/new row "
        "reaches the gate without a test error, or a sort changes the first-appearance order, or a zero mean is left out of a "
        "requested geomean.")


def nontrivial(c):
    e = c["exp"]
    for t in e["tables"]:
        if t["ordknown"] and t["order"] != list(range(1, len(t["rows"]) + 1)):
            return True
        for r in t["rows"]:
            for cell in r["cells"]:
                if cell["has"] and len(cell["rv"]) != len(cell["vals"]):
                    return True
            if r["cmp"]["k"] == "cmp" and r["cmp"]["err"] == "":
                return True
        if c["set"]["geo"]:
            for ci, mem in enumerate(t["geo"]):
                if len(mem) != sum(1 for r in t["rows"] if r["cells"][ci]["has"]):
                    return True
    return False


class Acc:
    """Counters over the replayed cases (the cases themselves are processed in chunks)."""
    def __init__(self):
        self.next_id = 0
        self.fams = collections.Counter()
        self.skips = collections.Counter()
        self.stat = collections.Counter()
        self.bad = collections.Counter()
        self.nontriv = 0
        self.seen = set()


def account(acc, judged):
    stat = acc.stat
    for c in judged:
        for t in c["exp"]["tables"]:
            for r in t["rows"]:
                for cell in r["cells"]:
                    if cell["has"]:
                        stat["cells"] += 1
                        if len(cell["rv"]) != len(cell["vals"]):
                            stat["cells_with_outliers_rejected"] += 1
                k = r["cmp"]
                if k["k"] == "cmp":
                    stat["oldnew_rows"] += 1
                    stat["gate_" + k["sig"]] += 1
                    if k["err"]:
                        stat["test_error_" + k["err"]] += 1
                    if c["set"]["test"] == "u" and not k["err"]:
                        if k.get("ora"):
                            known = k["exact"] and len(k["tv"]) < k["n1"] + k["n2"] and k["n1"] != k["n2"]
                            stat["utest_p_from_library" if known else
                                 ("utest_p_long_run_exact_counted" if k["exact"] else "utest_p_long_run_normal_approximation")] += 1
                        else:
                            stat["utest_p_exact" if k["pex"] else "utest_p_from_library"] += 1
                    if c["set"]["test"] == "u" and k["err"] == "eq" and k["n1"] + k["n2"] > 20:
                        stat["utest_all_equal_long_run"] += 1
                    if c["set"]["test"] == "t" and not k["err"]:
                        stat["ttest_p_from_library"] += 1
            if c["set"]["order"] != "none" and len(t["rows"]) > 1:
                stat["sorted_tables"] += 1
                if len(t["rows"]) > 12:
                    stat["sorted_tables_over_12_rows"] += 1
                if not t["ordknown"]:
                    stat["sorted_tables_gate_from_library"] += 1
                if t["ordhaz"]:
                    stat["sorted_tables_order_not_judged"] += 1


def samples(ctx, judged):
    smp = [c for c in judged if c["fam"] == "cell" and any(len(x["rv"]) < len(x["vals"]) for t in c["exp"]["tables"]
                                                             for r in t["rows"] for x in r["cells"] if x["has"])]
    ctx.add_samples(smp[len(smp) // 2:], 1)
    smp = [c for c in judged if c["fam"] == "pair" and c["set"]["test"] == "u"
           and c["exp"]["tables"][0]["rows"][0]["cmp"]["sig"] == "yes" and c["exp"]["tables"][0]["u"] == 2]
    ctx.add_samples(smp[len(smp) // 2:], 1)
    smp = [c for c in judged if c["fam"] == "sim" and len(c["cfgs"]) == 2 and c["set"]["order"] == "rdelta"
           and len(c["exp"]["tables"]) >= 2]
    ctx.add_samples(smp[len(smp) // 2:], 1)


def chunk(ctx, acc, cases, what):
    """Dedupe, number, account and replay one batch of generated cases."""
    out = []
    for c in cases:
        c.pop("tag", None)
        k = json.dumps([c["cfgs"], c["set"]], sort_keys=True)
        if k in acc.seen:
            continue
        acc.seen.add(k)
        out.append((k, c))
    # deterministic order and ids (TLC prints in worker order); the harness derives every
    # concretisation from the id
    out.sort(key=lambda kc: (kc[1]["fam"], kc[0]))
    cases = [c for _, c in out]
    for c in cases:
        c["id"] = acc.next_id
        acc.next_id += 1
        acc.fams[c["fam"]] += 1
        if c["skip"]:
            acc.skips[c["skip"]] += 1
    judged = [c for c in cases if not c["skip"]]
    acc.nontriv += sum(1 for c in judged if nontrivial(c))
    account(acc, judged)
    samples(ctx, judged)
    verdicts = ctx.replay("legacy", cases, what, timeout=3000)
    acc.bad.update(v.get("signature", "") for v in verdicts if not v.get("ok"))


def run(ctx):
    ctx.build()
    q = ctx.quick
    tier = "quick" if q else "thorough"
    # small models; deep recursive definitions over ~100 measurements need a larger thread stack
    jenv = {"JAVA_TOOL_OPTIONS": "-Xmx%s -Xss64m" % ("4g" if q else "8g")}
    acc = Acc()
    # (M) lemmas on every collection of the exhaustive families
    ctx.tlc("Legacy.tla", "Legacy_mc_%s.cfg" % tier, timeout=3000, env=jenv)
    # (G) the same families as replay cases (thorough: one run per family, to bound memory)
    gens = ["Legacy_gen_quick.cfg"] if q else ["Legacy_gen_thorough_%s.cfg" % f for f in ("cell", "pair", "small")]
    want = {"cell", "pair", "small"}
    for cfg in gens:
        g = ctx.tlc("Legacy_gen.tla", cfg, timeout=3000, label="gen", env=jenv)
        cases = g.printed_json("case")
        del g
        if len(cases) < 10000:
            raise vlib.Infra("generator %s produced %d cases" % (cfg, len(cases)))
        got = {c["fam"] for c in cases}
        want -= {p for p in want if any(f.startswith(p) for f in got)}
        chunk(ctx, acc, cases, "replay of TLC-generated collections (%s) on the legacy benchstat library" % cfg)
        del cases
    if want:
        raise vlib.Infra("generator produced no cases of the families %s" % sorted(want))
    # (G) simulated large collections, lemmas checked on each (one worker: reproducible for a seed)
    nsim = 1500 if q else 12000
    s = ctx.tlc("Legacy_gen.tla", "Legacy_gen_sim.cfg", workers=1, simulate=nsim, depth=130, timeout=3000,
                label="simulate+gen", env=jenv)
    sims = s.printed_json("case")
    if len(sims) < nsim * 0.9 or not any(c["fam"] == "wide" for c in sims):
        raise vlib.Infra("simulation produced %d collections for %d behaviours" % (len(sims), nsim))
    chunk(ctx, acc, sims, "replay of TLC-simulated collections on the legacy benchstat library")
    del sims
    # (G) long runs: two configurations of 6..70 lines of one benchmark (both sides of the U-test's limits 25 / 50,
    # with and without ties, constant, old above / below new); the model fixes retained values, error class, tie vector,
    # 2U and the prescribed method, the harness evaluates the p-value independently
    # (-simulate num= is per worker; the set of behaviours is a function of (seed, workers): checked reproducible.
    # quick: a reduced plan set, cases only; thorough: all plans, lemmas checked on every collection)
    nw = 6
    nlong = nw * (34 if q else 150)
    s = ctx.tlc("Legacy_gen.tla", "Legacy_gen_long_quick.cfg" if q else "Legacy_gen_long.cfg", workers=nw, simulate=nlong // nw,
                depth=170, timeout=3000, label="simulate+gen-long", env=jenv)
    longs = s.printed_json("case")
    if len(longs) < nlong * 0.9 or not all(c["fam"] == "long" for c in longs):
        raise vlib.Infra("simulation produced %d long-run collections for %d behaviours" % (len(longs), nlong))
    chunk(ctx, acc, longs, "replay of TLC-simulated long runs on the legacy benchstat library")
    del longs
    fams, skips, stat, nontriv = acc.fams, acc.skips, acc.stat, acc.nontriv
    if acc.bad:
        ctx.cov["deviation_signatures"] = dict(acc.bad)
        vlib.log("deviations by signature: %s" % dict(acc.bad))
    ctx.cov["distinct_nontrivial"] = nontriv
    ctx.cov["cases_by_family"] = dict(fams)
    ctx.cov["marked_not_judged"] = dict(skips)
    ctx.cov["exercised"] = dict(stat)
    ctx.cov["auxiliary"] = {
        "what": "p-values taken from the library's own test on the model's retained samples (t-test always; U-test for tied samples "
                "of unequal size, known finding of C11); geomean value re-evaluated as exp(mean(log)) over the model's membership",
        "rows_with_library_p": stat["utest_p_from_library"] + stat["ttest_p_from_library"],
        "in_model": "which samples are tested, error classes, the gate p < alpha, rendering on either side of the gate, membership",
    }
    ctx.cov["exhaustive"] = True
    return ctx.finish(RULE, assumptions=[
        "measured values are finite floats (small integers times a scale factor; negative and mixed-sign samples through the affine "
        "passes, which judge the per-cell statistics only); configurations have distinct names",
        "Tables() is called once per collection (a second call appends the retained values again - outside the property)",
        "rows are grouped as documented: label groups by first appearance, benchmarks by first appearance inside a group",
        "with no test chosen (NoDeltaTest, documented p = -1) the delta is always shown and no note is printed",
        "inputs with a value exactly on a fence (unless the quartiles coincide), with p exactly alpha, and the value of a delta whose "
        "old mean is 0 or whose equal means come from different samples are marked by the specification and not judged",
        "the exhaustive families are enumerated completely; the large collections are sampled (TLC -simulate, seeded)",
    ])
