"""C18 - comparison series depend only on the result set; bootstrap summaries are sane;
date normalisation is canonical and order preserving (spec family Series)."""
import json, math, os
import vlib

LEVEL = "model_checking"
TEXT = ("TLC explores every order of adding every consistent set of up to 4-5 result records (2 units x 2 benchmarks x 2-3 "
        "experiment stamps x 2-3 series stamps x numerator/denominator, optional second table) to a model of "
        "benchseries.Builder's maps and every map-iteration order of AllComparisonSeries under both duplicate policies, and "
        "proves OrderFree (result = Expected(set, policy): latest experiment wins / multiset union, samples exactly the "
        "matching measurements); a civil-time model of both timestamp spellings proves DatesCanonical over a grid of instants. "
        "Every generated set is replayed on the real Builder in every add order (single results, multi-unit results, split "
        "files through AddFiles) with AllComparisonSeries repeated, every grid timestamp on NormalizeDateString. "
        "Exhaustive for the small universe, sampled (simulation) beyond it.")
NOTE = ("Trusted: TLC, the harness's projection of ComparisonSeries to (tables, axes, hash pairs, sorted samples, date), the "
        "token concretisation. Go's map iteration order cannot be imposed, only varied by repetition and by the add order "
        "(small maps iterate as a rotation of insertion order). The bootstrap itself (resampling, percentiles) is outside "
        "the model: only reproducibility, low<=centre<=high and the attainable-ratio bounds are checked (auxiliary).")
TECHNIQUE = ("TLA+ model checking (TLC) of the builder's maps with nondeterministic map iteration + declarative Expected(set, policy); "
             "replay of every generated set in all add orders into benchseries.Builder; civil-time model vs NormalizeDateString")
DESIGN_REF = "DESIGN.md section 4 C18"

RULE = ("(M) exhaustive TLC runs of Series.tla: all add orders of all consistent sets of <= MaxRecs results over the configured "
        "universe (value twins and unit/table/benchmark symmetry reduced), every permutation of trials and tests in Finalize, "
        "both policies; invariants TypeOK, TablesOK, OrderFree, HashPairsFunctional; SeriesDates_mc.tla: DatesCanonical for "
        "every ordered pair of the timestamp grid. (G) one replay case per generated set and policy, each run in ALL "
        "permutations of the set (n <= 4, i.e. the whole quick tier; 40 seeded permutations incl. identity and reversal for the sets of 5 and the simulated sets of 7 of the thorough tier), three styles (one Result per record, "
        "multi-unit Results, files through AddFiles), AllComparisonSeries called 4 times per builder, every result compared "
        "with Expected and with the first result; one case per grid timestamp plus one order case over the whole grid; "
        "AddSummaries over a (confidence x resamples x sample size) grid (auxiliary). "
        "distinct_nontrivial = generated sets whose expectation differs between the two policies "
        "(some series point is measured in two experiments) - the sets on which the duplicate policy and the "
        "iteration order can matter.")

ASSUMPTIONS = [
    "consistent inputs only: numerator hash <-> series stamp one to one, one denominator hash per series stamp and per trial "
    "(unit, table, benchmark, experiment), distinct experiment stamps denote distinct instants; outside this domain the code "
    "shows first-/last-writer dependence and the statement does not say which hash pair should win",
    "trials without denominators (or without numerators) ARE inside the domain",
    "benchmark axis = benchmarks with any result in the table (as the code does); series axis must be chronological",
    "where the two readings of 'hash pair under replace' differ (pair of any measuring experiment / of the winning experiment) "
    "both are admitted, but the answer must not vary between runs",
    "years whose UTC date leaves 0001..9998, leap seconds and more than 9 fractional digits are outside the date grid",
    "existing summaries (second argument of AllComparisonSeries) are not modelled: always nil",
    "bootstrap: confidence levels strictly between 0 and 1; measurements positive",
]

CONFS = [1e-9, 1e-4, 0.001, 0.0099, 0.05, 0.0999, 0.1, 0.5, 0.9, 0.95, 0.99, 0.999, 1 - 1e-9]
RESAMPLES = [1, 2, 3, 10, 11, 100, 101, 250, 1000]
SIZES = [(1, 1), (1, 3), (2, 2), (3, 4), (5, 5), (10, 7), (2, 1)]
# sample sizes beyond the handful the model uses: both sides of every power of two and of the sizes at which an
# implementation could plausibly switch storage or algorithm (a cell of bent data has 25 values; Cell.Values is
# "typically 1-100"), every ordered pair of them, since numerator and denominator sizes may interact
BIG_SIZES_QUICK = [1, 2, 3, 5, 8, 9, 15, 16, 17, 20, 25, 30, 31, 32, 33, 34, 40, 43, 48, 50, 60, 63, 64, 65, 66, 70, 100,
                   127, 128, 129, 200, 257]
# cells of the series replay that receive this many measurements of one record (a large -count)
BIG_CELLS = [31, 32, 33, 34, 40, 63, 64, 65, 66, 70, 100, 129, 257, 513]


def join(chars):
    return "".join(chars)


def run(ctx):
    ctx.build()
    q = ctx.quick
    # ------------------------------------------------------------------ (M)
    if q:
        mcs = ["Series_mc_quick.cfg", "Series_mc_quick_shared.cfg"]
    else:
        mcs = ["Series_mc_thorough.cfg", "Series_mc_thorough_tables.cfg", "Series_mc_thorough_shared.cfg",
               "Series_mc_thorough_exp3.cfg"]
    for cfg in mcs:
        ctx.tlc("Series.tla", cfg, timeout=1500)
    ctx.tlc("SeriesDates_mc.tla", "SeriesDates_mc_quick.cfg" if q else "SeriesDates_mc_thorough.cfg", timeout=1500)
    # the deviations named in the spec must be visible to TLC (negative control of the model)
    for cfg in ("Series_asbuilt_hashpair.cfg", "Series_asbuilt_crash.cfg") + (() if q else ("Series_asbuilt.cfg",)):
        r = ctx.tlc("Series.tla", cfg, timeout=600, expect_ok=False, label="asbuilt", count=False)
        if not (r.error and "OrderFree" in r.error):
            raise vlib.Infra("%s did not produce the OrderFree counterexample: %s" % (cfg, r.error))

    # ------------------------------------------------------------------ (G) series
    if q:
        gens = [("Series_gen_quick.cfg", None), ("Series_gen_quick_u1.cfg", None), ("Series_gen_quick_shared.cfg", None),
                ("Series_gen_quick_tables.cfg", None)]
    else:
        gens = [("Series_gen_thorough.cfg", None), ("Series_gen_thorough_u1.cfg", None),
                ("Series_gen_thorough_shared.cfg", None), ("Series_gen_thorough_exp3.cfg", None),
                ("Series_gen_quick_tables.cfg", None), ("Series_gen_sim.cfg", 200)]
    meta = None
    sets = []
    for cfg, sim in gens:
        if sim:
            r = ctx.tlc("Series_gen.tla", cfg, timeout=1500, label="gen-simulate", simulate=sim, depth=8)
        else:
            r = ctx.tlc("Series_gen.tla", cfg, timeout=1500, label="gen")
        objs = r.printed_json()
        ms = [o for o in objs if isinstance(o, dict) and o.get("tag") == "meta"]
        cs = [o for o in objs if isinstance(o, dict) and o.get("tag") == "case"]
        if not ms or len(cs) < 100:
            raise vlib.Infra("generator %s produced %d cases, %d meta" % (cfg, len(cs), len(ms)))
        meta = ms[0]
        sets += cs
    sets = vlib.dedupe(sets, key=lambda c: json.dumps(c["recs"], sort_keys=True))
    cmeta = {
        "exps": [{"raw": join(e["raw"]), "canon": join(e["canon"])} for e in meta["exps"]],
        "series": [{"raws": [join(x) for x in s["raws"]], "canon": join(s["canon"])} for s in meta["series"]],
    }
    cases = []
    nontriv = 0
    orders = 0
    for c in sets:
        n = len(c["recs"])
        perms = math.factorial(n) if n <= 4 else 40
        if c["expect"]["replace"] != c["expect"]["combine"]:
            nontriv += 1
        for pol in ("replace", "combine"):
            cases.append({"kind": "series", "policy": pol, "recs": c["recs"], "expect": c["expect"][pol], "meta": cmeta})
            orders += perms
    # one set in BIG_EVERY also with records that stand for many measurements (the expectation of the model does
    # not depend on how many measurements a record stands for): cells filled past 32, 64, 128, 256, 512 values
    BIG_EVERY = max(23 if q else 7, len(sets) // (700 if q else 3000))
    nbig = 0
    for k, c in enumerate(sets):
        if (k + ctx.seed) % BIG_EVERY:
            continue
        n = len(c["recs"])
        if n > 4 and nbig % 3:
            continue
        big = BIG_CELLS[nbig % len(BIG_CELLS)]
        if big > 300 and n > 3:
            big = BIG_CELLS[(nbig // 2) % 9]
        nbig += 1
        for pol in ("replace", "combine"):
            cases.append({"kind": "series", "policy": pol, "recs": c["recs"], "expect": c["expect"][pol], "meta": cmeta, "big": big})
            orders += math.factorial(n) if n <= 4 else 40
    # OPTION COMBINATION NumeratorHash == DenominatorHash (legal: cmd/benchseries "-numerator-hash ... (can be same as
    # denominator-hash)"): every record names its own toolchain under ONE key, and the hash sets are chosen so that the
    # numerator toolchain of one series point is the baseline of another (chained tip-vs-previous-tip, crossed, shared) or of
    # none.  The model's expectation does not depend on how the hashes are spelled or keyed.  Sets with both roles and two
    # series stamps, in every add order like the others.
    cand = [c for c in sets if len({r["series"] for r in c["recs"]}) > 1 and {r["role"] for r in c["recs"]} == {"num", "den"}]
    SK_MAX = 1500 if q else 3000
    step = max(1, -(-len(cand) // SK_MAX))
    nsk = 0
    for k, c in enumerate(cand):
        if (k + ctx.seed) % step:
            continue
        nsk += 1
        for pol in ("replace", "combine"):
            cases.append({"kind": "series", "policy": pol, "recs": c["recs"], "expect": c["expect"][pol], "meta": cmeta,
                          "samekey": 1 + (nsk + (pol == "combine")) % 4})
            n = len(c["recs"])
            orders += math.factorial(n) if n <= 4 else 40
    ctx.cov["sets_replayed_with_one_hash_key_for_both_roles"] = nsk
    ctx.cov["sets_replayed_with_large_cells"] = nbig
    ctx.cov["input_sets"] = len(sets)
    ctx.cov["add_orders_replayed"] = orders
    ctx.cov["allcomparisonseries_calls"] = orders * 4
    s = dict(cases[len(cases) // 2]); s.pop("meta")
    ctx.add_samples([s], 1)
    ctx.replay("series", cases, "replay of TLC-generated result sets in every add order", timeout=3000)

    # ------------------------------------------------------------------ (G) dates
    r = ctx.tlc("SeriesDates_gen.tla", "SeriesDates_gen_quick.cfg" if q else "SeriesDates_gen_thorough.cfg",
                timeout=900, label="gen-dates", count=False)
    dates = [{"raw": join(d["raw"]), "canon": join(d["canon"]), "inst": d["inst"], "fmt": d["fmt"]}
             for d in r.printed_json("date")]
    if len(dates) < 100:
        raise vlib.Infra("date generator produced only %d timestamps" % len(dates))
    # the stamps used by the builder model as well
    dcases = [{"kind": "date", "date": d} for d in dates]
    dcases.append({"kind": "dateorder", "dates": dates})
    ctx.add_samples([dcases[len(dcases) // 3]], 1)
    ctx.cov["timestamps"] = len(dates)
    ctx.replay("series", dcases, "NormalizeDateString against the civil-time model")

    # ------------------------------------------------------------------ auxiliary: bootstrap relations
    scases = []
    salt = 0
    for (nn, nd) in SIZES:
        for conf in CONFS:
            for n in RESAMPLES:
                for rep in range(1 if q else 4):
                    salt += 1
                    scases.append({"kind": "summ", "nnum": nn, "nden": nd, "conf": conf, "n": n,
                                   "salt": salt * 3 + (salt + rep + ctx.seed) % 3 + 1000 * ctx.seed})
    ctx.add_samples([scases[len(scases) // 2]], 1)
    # size sweep: every ordered pair of sizes, three sample shapes whose attainable range is tight (numerator and
    # denominator on different scales, constant samples - all three numbers must then equal a/b -, narrow samples)
    sizes = BIG_SIZES_QUICK if q else sorted(set(list(range(1, 71)) + BIG_SIZES_QUICK))
    nsweep = 0
    for nn in sizes:
        for nd in sizes:
            for shape in (1, 2, 3):
                salt += 1
                nsweep += 1
                big = nn + nd > 300
                scases.append({"kind": "summ", "nnum": nn, "nden": nd, "shape": shape,
                               "conf": CONFS[(salt + ctx.seed) % len(CONFS)],
                               "n": ([25, 10, 100] if big else [25, 10, 100, 101, 1000, 3])[(salt // 3 + ctx.seed) % (3 if big else 6)],
                               "salt": salt * 3 + 1000 * ctx.seed})
    ctx.replay("series", scases, "AddSummaries relations (auxiliary)", timeout=3000)
    ctx.cov["auxiliary"] = {
        "what": "bootstrap summaries (AddSummaries): reproducible for the same samples and across add orders, low <= centre <= high, "
                "all three within [min num / max den, max num / min den]; the resampling and percentile arithmetic are outside the model",
        "cases": len(scases), "confidence_levels": CONFS, "resample_counts": RESAMPLES, "sample_sizes": SIZES,
        "size_sweep": {"sizes_each_side": sizes, "pairs": len(sizes) ** 2, "shapes": 3, "cases": nsweep,
                       "also": "every case a third time with AllComparisonSeries called between the adds"},
        "also": "AddSummaries(0.95, 25) on the samples of every replayed set after its first and last add order",
    }
    ctx.cov["distinct_nontrivial"] = nontriv
    # (M) is exhaustive in both tiers; (G) replays every set in every order only in the quick tier
    ctx.cov["exhaustive_model_checking"] = True
    ctx.cov["exhaustive"] = bool(q)
    return ctx.finish(RULE, assumptions=ASSUMPTIONS)
