"""C19 - storage queries (spec families StoreQuery, Words)."""
import json, os, re, collections
import vlib

LEVEL = "model_checking"
TEXT = ("TLC proves on the model that the per-key merge table of the query parser means the conjunction of the terms "
        "(every sequence of <=3 (thorough <=5) terms on a key over an ordered token set with the empty token, plus every "
        "<=2 (3)-term query over several keys on every label assignment), that the records made on insertion partition the "
        "results of a file into maximal runs of equal labels, and that query answers and upload listings computed from the "
        "index equal the declarative meaning on every store written by a line-writing state machine (set/change/delete "
        "histories, files, uploads) up to the configured size; shell-style word splitting is proved equal to its declarative "
        "definition and the front end's quoting to split back to the original word for all texts up to 6 (8) characters. "
        "Every model query and every word table entry is replayed on the real server (storage.Client -> storage/app on sqlite3 "
        "+ MemFS -> db), and recorded random histories with ~20 labels are judged event by event by the trace specification. "
        "Exhaustive for the small alphabets, sampled (TLC simulation, seeded recorder) beyond them.")
NOTE = ("Trusted: the order-preserving concretisation tables of the harness (checked to be strictly increasing bytewise at "
        "start-up), the ranking of strings in recorded traces (Go string comparison), the structural model of benchmark names "
        "(base, one unnamed part, one key=value part, -N), TLC, sqlite's BINARY collation standing for bytewise order.")
TECHNIQUE = ("TLA+ model checking (TLC) of a declarative vs operational specification + replay of TLC-generated stores, queries "
             "and word tables into the real client/server/db + trace validation of recorded random histories")
DESIGN_REF = "DESIGN.md section 4 C19"

RULE = ("(M) exhaustive TLC: StoreQuery merge lemma (all term sequences per key), query lemma (all short queries x all label "
        "assignments), store machine (all line histories up to MaxLines; CoalesceLemma, QueryMeaning, ListingMeaning, "
        "ServerLabelsKept), Words (SplitAgrees, QuoteAgrees, QuoteRoundTrip on all texts). "
        "(G) replay cases: every text/word of Words_gen against query.SplitWords and analysis/app.addToQuery; every <=3-term "
        "sequence on a file label, a name label and the upload id against a fixed store (5652 queries); TLC-simulated stores "
        "(<=3 uploads x <=2 files x <=4 results, label edits, names with sub-parts and -N) each with every single-term query over "
        "13 keys and a hash-selected slice of all two-term queries, run as aspect 'query' (Client.Query and db.Query) and aspect "
        "'list' (Client.ListUploads unlimited and limited, db.ListUploads). Expected answers are the specification's DECLARATIVE "
        "ones. (T) recorded histories (2-4 uploads, 20 label keys, values needing quoting, runs of equal results long enough to "
        "cross the index's flush threshold) validated by StoreQuery_trace; every fourth history each has benchmark names of up to "
        "18 parts (unnamed parts numbered past sub9, named parts in between), label values of 4 KiB - 64 KiB sharing long prefixes "
        "(queried by equality and ranges next to them), and runs of 50-140 equal results whose lines carry many metrics (records "
        "of 64 KiB - 400 KiB). "
        "distinct_nontrivial = replayed (store, query) pairs whose expected answer is neither empty nor the whole store, plus "
        "word cases containing a quote or a backslash, plus recorded query events with a non-empty answer.")

KNOWN_CLASSES = (
    "gt-empty-term-matches-empty-valued-label",
    "listing-fails-with-EOF-on-contradictory-query",
    "results-with-different-name-labels-coalesced-when-one-label-is-empty",
    "run-of-equal-results-split-when-label-rows-are-flushed",
    "combination-of-named-deviations",
)

JAVA_STACK = {"JAVA_TOOL_OPTIONS": "-Xss512m"}

# flavour of recorded history number h (h % 4), see sqRecordHistory
FLAVOURS = ("", "deep-names", "long-label-values", "long-runs-of-wide-results")


def patch_cfgs(ctx, is_label):
    """The specification leaves open whether an empty part of a benchmark name yields a label
    with the empty value or no label; the cfgs are set to what the code implements."""
    val = "TRUE" if is_label else "FALSE"
    for fn in os.listdir(ctx.specdir):
        if fn.startswith("StoreQuery") and fn.endswith(".cfg"):
            p = os.path.join(ctx.specdir, fn)
            s = open(p).read()
            s2 = re.sub(r"EmptyNameValueIsLabel = \w+", "EmptyNameValueIsLabel = " + val, s)
            if s2 != s:
                open(p, "w").write(s2)


def run(ctx):
    ctx.build()
    q = ctx.quick
    tier = "quick" if q else "thorough"
    pp = os.path.join(ctx.work, "probe.json")
    ctx.harness(["storequery", "probe", pp])
    is_label = json.load(open(pp))["emptyNameValueIsLabel"]
    patch_cfgs(ctx, is_label)
    ctx.cov["empty_name_value_is_label"] = is_label

    # ---------------------------------------------------------------- (M)
    ctx.tlc("Words.tla", "Words_mc_%s.cfg" % tier, timeout=1500)
    ctx.tlc("StoreQuery.tla", "StoreQuery_merge_%s.cfg" % tier, timeout=1500)
    ctx.tlc("StoreQuery.tla", "StoreQuery_qlemma_%s.cfg" % tier, timeout=1500)
    ctx.tlc("StoreQuery.tla", "StoreQuery_mc_%s.cfg" % tier, timeout=2400)

    # ---------------------------------------------------------------- (G) words
    r = ctx.tlc("Words_gen.tla", "Words_gen_%s.cfg" % tier, timeout=1500, label="gen")
    wcases = r.printed_json("case")
    if len(wcases) < 1000:
        raise vlib.Infra("Words generator produced only %d cases" % len(wcases))
    nontriv = sum(1 for c in wcases if any(ch in ('"', "\\") for ch in (c.get("text") or c.get("word") or [])))
    ctx.add_samples([c for c in wcases if c["kind"] == "quote" and len(c["word"]) == 3][:1], 1)

    # ---------------------------------------------------------------- (G) stores
    cases = []
    r = ctx.tlc("StoreQuery_gen.tla", "StoreQuery_gen_merge.cfg", timeout=1500, label="gen")
    out = r.printed_json()
    mstore = [o for o in out if isinstance(o, dict) and o.get("tag") == "mstore"]
    mq = [o["q"] for o in out if isinstance(o, dict) and o.get("tag") == "mq"]
    if not mstore or len(mq) < 5000:
        raise vlib.Infra("merge generator produced %d queries" % len(mq))
    for i in range(0, len(mq), 150):
        for asp in ("query", "list"):
            d = dict(mstore[0]); d["tag"] = "case"; d["kind"] = "merge"; d["aspect"] = asp
            d["queries"] = mq[i:i + 150]
            cases.append(d)
    nsim = {"quick": (40, 25), "thorough": (500, 300)}[tier]
    sims = []
    for cfg, num in (("StoreQuery_gen_%s.cfg" % tier, nsim[0]), ("StoreQuery_gen_%s_b.cfg" % tier, nsim[1])):
        r = ctx.tlc("StoreQuery_gen.tla", cfg, workers=1, simulate=num, depth=150, timeout=2400, label="simulate")
        got = [o for o in r.printed_json("case")]
        sims += got
    sims = vlib.dedupe(sims)
    if len(sims) < 20:
        raise vlib.Infra("store generator produced only %d cases" % len(sims))
    for c in sims:
        for asp in ("query", "list"):
            d = dict(c); d["aspect"] = asp
            cases.append(d)
    nres = lambda c: len(c["results"])
    for c in cases:
        n = nres(c)
        for qq in c["queries"]:
            if 0 < len(qq["match"]) < n:
                nontriv += 1
    small = sorted(sims, key=lambda c: len(json.dumps(c["uploads"])))[0]
    ctx.add_samples([{"uploads": small["uploads"], "results": small["results"], "nrec": small["nrec"],
                      "queries": [x for x in small["queries"] if len(x["terms"]) == 2][:2]}], 1)
    verdicts = ctx.replay("storequery", wcases + cases, "replay of TLC-generated stores, queries and word tables", timeout=3000)
    nq = 0
    for v in verdicts:
        if isinstance(v.get("got"), int):
            nq += v["got"]
    ctx.cov["queries_executed"] = nq
    ctx.cov["evaluations"] += nq
    ctx.cov["replay_cases"] = {"words": len(wcases), "merge_queries": len(mq), "simulated_stores": len(sims),
                               "store_cases": len(cases)}

    # ---------------------------------------------------------------- (T)
    nh = 8 if q else 64      # a multiple of the recorder's four flavours of history
    tp = os.path.join(ctx.work, "sq-trace.ndjson")
    ctx.harness(["storequery", "record", tp, nh])
    events = ctx.read_ndjson(tp)
    classes = validate(ctx, tp)
    bad = {i: c for i, c in classes.items() if c != "ok"}
    if bad:
        # second, independent execution of the recorder: a deviation counts only if it shows again
        tp2 = os.path.join(ctx.work, "sq-trace2.ndjson")
        ctx.harness(["storequery", "record", tp2, nh])
        classes2 = validate(ctx, tp2, count=False)
        failing = []
        seen = collections.Counter()
        for i, c in sorted(bad.items()):
            if classes2.get(i) != c:
                raise vlib.Infra("recorded deviation at event %d (%s) did not reproduce (%s)" % (i, c, classes2.get(i)))
            seen[c] += 1
            if seen[c] <= 3 or c not in KNOWN_CLASSES:
                e = dict(events[i - 1]); e.pop("got", None)
                if e.get("ev") == "upload":
                    e = {"ev": "upload"}
                sig = c
                fl = FLAVOURS[events[i - 1].get("h", 0) % 4]
                if c not in KNOWN_CLASSES and fl:
                    sig = "%s:%s" % (c, fl)      # which kind of history the unexplained answer was recorded in
                if len(json.dumps(e)) > 3000:
                    e = {k: (v if len(json.dumps(v)) < 600 else "... %d bytes ..." % len(json.dumps(v))) for k, v in e.items()}
                failing.append({"signature": sig, "detail": "recorded %s event judged by StoreQuery_trace: %s" % (e.get("ev"), c),
                                "event": e, "family": "storequery-trace"})
            else:
                failing.append({"signature": c, "detail": "same class", "family": "storequery-trace"})
        ctx.report(failing, "trace validation of recorded histories")
    nqe = sum(1 for e in events if e["ev"] in ("query", "list"))
    ctx.cov["traces_validated_against_impl"] += nh
    ctx.cov["evaluations"] += nqe
    ctx.cov["recorded_events"] = len(events)
    ctx.cov["recorded_classes"] = dict(collections.Counter(classes.values()))
    nontriv += sum(1 for e in events if e["ev"] == "query" and e.get("got"))
    ctx.cov["distinct_nontrivial"] = nontriv
    ctx.cov["exhaustive"] = True
    # the listing rule scaled beyond the model's three uploads (IDs pass .9 -> .10 on one day)
    lp = os.path.join(ctx.work, "listmany.json")
    # ... and over histories in which attempts that store nothing (rejected file, client abort, db.NewUpload + Abort /
    # + Commit without records) lie between and after the uploads: every limit 0..n+2 and beyond, five queries
    ctx.harness(["storequery", "listmany", lp, 12 if q else 25, 8 if q else 24])
    lm = json.load(open(lp))
    ctx.cov["listmany_runs"] = lm["runs"]
    ctx.cov["listmany_histories"] = lm["histories"]
    ctx.cov["evaluations"] += lm["runs"]
    if lm["failures"]:
        ctx.harness(["storequery", "listmany", lp, 12 if q else 25, 8 if q else 24])
        if not json.load(open(lp))["failures"]:
            raise vlib.Infra("listing failure over many uploads did not reproduce")
        ctx.report([dict(f, family="storequery-listmany") for f in lm["failures"][:5]], "listing over many uploads")
    return ctx.finish(RULE, assumptions=[
        "uploads that the server rejects are outside the statement (successful uploads only): a file label named like a "
        "label derived from the benchmark name (name, sub1, gomaxprocs, a /key= part) makes the upload fail with a UNIQUE "
        "constraint error, and a file without a benchmark line fails the upload; neither is generated",
        "label keys containing '<' or '>' or upper-case letters cannot be named in a query word and are not generated",
        "an equality term with the empty value (key:) may be refused by the server with an error; it must never produce a wrong answer",
        "the empty query is run through db.DB.Query and the listing only: the HTTP search endpoint refuses a missing q parameter",
        "a benchmark named exactly 'Benchmark' (empty base name) and values or lines ending in a carriage return are not generated",
        "whether an empty part of a benchmark name (BenchmarkX/ , BenchmarkX/k=) yields an empty-valued label or no label is "
        "left open by the statement; the specification is instantiated with what the code implements (probed at run time)",
        "upload-time is checked to lie within the wall-clock window of the upload and to be the same on every record of an upload; "
        "queries compare it only with values below and above every time stamp",
        "benchmark names are modelled structurally (base, one unnamed part, one key=value part, -N); the character-level name "
        "parser of storage/benchfmt is exercised only through the names the tables produce",
    ])


def validate(ctx, path, count=True):
    """Run StoreQuery_trace on a recorded trace; returns {event index (1-based): class}."""
    dst = os.path.join(ctx.specdir, "trace.ndjson")
    import shutil
    shutil.copyfile(path, dst)
    r = ctx.tlc("StoreQuery_trace.tla", "StoreQuery_trace.cfg", workers=1, timeout=2400, expect_ok=False,
                label="trace", env=JAVA_STACK, count=count)
    m = re.search(r"TRACE hwm=(\d+) len=(\d+)", r.out)
    if not m or r.error is not None or int(m.group(1)) < int(m.group(2)):
        tail = "\n".join(l for l in r.out.splitlines() if not l.startswith('"'))[-3000:]
        raise vlib.Infra("trace validation did not consume the recorded trace (spec or recorder problem, not a verdict):\n" + tail)
    return {o["i"]: o["class"] for o in r.printed_json("tv")}
