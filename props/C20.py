"""C20 - uploads are all-or-nothing under faults; upload IDs are never reused (family Upload)."""
import json, os, re
import vlib

LEVEL = "fault_enumeration"
TEXT = ("TLC explores two uploaders (ID allocation in three steps, per-file create/header/records/close, mid-upload flush, commit) "
        "with a single fault at any step, the database's write reservation and day changes, and proves AllOrNothing, "
        "FailedFileRemoved, StoredOnSuccess, IdsUnique, IdsMonotone, that earlier uploads are untouched and that every upload "
        "ends; every model fault state is concretised into each kind of fault that can strike there (failing create/write/close "
        "of the file store, invalid content, unexpected field, body cut - thorough: at every byte offset) and run against the "
        "real /upload handler on MemFS and the local FS; every model interleaving of two ID allocations is imposed on real "
        "DB.NewUpload calls through the hook gate and the observed steps are validated against the spec.")
NOTE = ("Trusted: TLC, sqlite as the database under test (the server's MySQL path is not exercised), the mapping from model fault "
        "states to concrete fault kinds in the harness. Database-side faults (a failing commit) are modelled but injected only "
        "through lock contention.")
TECHNIQUE = "TLA+ model checking (TLC) + enumeration of every single-fault scenario against the real handler + gated ID interleavings with trace validation"
DESIGN_REF = "DESIGN.md section 4 C20"

RULE = ("(M) exhaustive TLC on Upload.tla (2 uploaders x <=2 files x <=2 records, 1 fault, 2 days; thorough also <=3 records, 2 faults, and 3 uploaders x 1 file) with liveness; negative control "
        "CommitBeforeClose must violate VisibleOnlyAfterStored; (G) all terminal fault scenarios of the single-uploader model, each "
        "expanded into every applicable concrete fault kind x {MemFS, local FS}; all interleavings of two ID allocations incl. a day "
        "change, imposed by the hook gate; (T) the observed ID steps validated by Upload_idtrace. distinct_nontrivial = fault "
        "scenarios with a fault + ID interleavings in which the two allocations overlap.")


def repo_test_traces(ctx):
    """(T) the repository's OWN tests of storage/db and storage/app, run with a recording hook overlaid
    into their test packages (harness/rectests/storage__*): every DB.NewUpload they perform is
    logged (read / insert / commit, one model uploader per call, reset per database, nextday when
    the test's clock moves on) and the log must be a behaviour of Upload.tla's ID allocation with
    IdsUnique / IdsMonotone / IdFormat holding throughout.  An invariant violation or an ID that
    is not YYYYMMDD.N is a verdict; any other rejection only says that the code was restructured
    away from the model and is logged."""
    import subprocess
    ovp = os.path.join(ctx.work, "overlay-rectests.json")
    rep = {}
    for pkg in ("storage/db", "storage/app"):
        rep[os.path.join(vlib.REPO, pkg, "zz_verif_rec_test.go")] = os.path.join(vlib.VERIF, "harness", "rectests", pkg.replace("/", "__"), "zz_verif_rec_test.go")
    json.dump({"Replace": rep}, open(ovp, "w"))
    tp = os.path.join(ctx.work, "repo-tests-ids.ndjson")
    env = ctx.goenv(); env["VERIF_TRACE"] = tp
    pr = subprocess.run(["go", "test", "-vet=off", "-count=1", "-p", "1", "-tags", "verif", "-overlay", ovp, "./storage/db/", "./storage/app/"], cwd=vlib.REPO, env=env,
                        stdout=subprocess.PIPE, stderr=subprocess.STDOUT, text=True, timeout=900)
    if "build failed" in pr.stdout or "cannot find" in pr.stdout:
        raise vlib.Infra("building the storage tests with the recorder failed:\n" + pr.stdout[-1500:])
    if pr.returncode != 0:
        vlib.log("NOTE the repository's storage tests fail under the recorder: " + pr.stdout[-300:].replace("\n", " | "))
    if not os.path.exists(tp):
        raise vlib.Infra("the storage tests recorded nothing")
    evs = ctx.read_ndjson(tp)
    calls = [e for e in evs if e["ev"] == "commit"]
    if len(calls) < 10 and pr.returncode == 0:
        raise vlib.Infra("the storage tests recorded only %d uploads" % len(calls))
    badf = [e for e in evs if e["ev"] == "badformat"]
    if badf:
        ctx.report([{"signature": "id-format", "family": "upload-repo-tests", "detail": "DB.NewUpload handed out / read an upload ID that is not YYYYMMDD.N: %r" % badf[0].get("id")}],
                   "IDs observed while the repository's storage tests run")
        evs = [e for e in evs if e["ev"] != "badformat"]
        with open(tp, "w") as fh:
            for e in evs:
                fh.write(json.dumps(e) + "\n")
    n = max([int(e["u"][1:]) for e in evs if "u" in e] or [1])
    d = mx = 1
    for e in evs:
        if e["ev"] == "reset":
            d = 1
        elif e["ev"] == "nextday":
            d += 1
            mx = max(mx, d)
    cfg = os.path.join(ctx.specdir, "Upload_idtrace_repo.cfg")
    with open(cfg, "w") as fh:
        fh.write("SPECIFICATION TSpec\nCONSTANTS\n  Uploaders = {%s}\n  MaxFiles = 1\n  MaxRecs = 1\n  MaxFaults = 0\n  Days = %d\n  CommitBeforeClose = FALSE\n"
                 "INVARIANTS IdsUnique IdsMonotone IdFormat\nCONSTRAINT HW\nPOSTCONDITION Post\nCHECK_DEADLOCK FALSE\n" % (", ".join('"c%d"' % i for i in range(1, n + 1)), mx + 1))
    ok, hwm, r = ctx.trace_validate("Upload_idtrace.tla", "Upload_idtrace_repo.cfg", tp, timeout=900)
    if not ok:
        bad = evs[min(hwm, len(evs) - 1)]
        inv = re.search(r"Invariant (\w+) is violated", r.error or "")
        if inv:
            ctx.report([{"signature": "ids-" + inv.group(1), "family": "upload-repo-tests", "events": evs[max(0, hwm - 8):hwm + 1],
                         "detail": "IDs handed out while the repository's storage tests run violate %s at event %d: %s" % (inv.group(1), hwm, json.dumps(bad))}],
                       "trace validation of the repository's storage tests")
        else:
            vlib.log("NOTE design conformance: the storage tests' NewUpload steps are not a behaviour of Upload.tla at event %d (%s)" % (hwm, json.dumps(bad)[:200]))
            ctx.cov["design_conformance_rejections"] = ["repo storage tests: event %d" % hwm]
    ctx.cov["repo_test_uploads_validated"] = len(calls)
    ctx.cov["traces_validated_against_impl"] += sum(1 for e in evs if e["ev"] == "reset")


def run(ctx):
    ctx.build()
    q = ctx.quick
    ctx.tlc("Upload.tla", "Upload_mc_quick.cfg" if q else "Upload_mc_thorough.cfg", timeout=3000)
    if not q:
        ctx.tlc("Upload.tla", "Upload_mc_thorough2.cfg", timeout=3000)                 # two faults
        ctx.tlc("Upload.tla", "Upload_mc_thorough3.cfg", timeout=5000, workers=12)     # three uploaders
    neg = ctx.tlc("Upload.tla", "Upload_neg.cfg", timeout=600, expect_ok=False, count=False)
    if not (neg.error and "VisibleOnlyAfterStored" in neg.out):
        raise vlib.Infra("negative control CommitBeforeClose did not violate VisibleOnlyAfterStored")
    r1 = ctx.tlc("Upload_gen.tla", "Upload_gen_fault.cfg", timeout=600, label="bfs+gen")
    faults = vlib.dedupe(r1.printed_json("fault"))
    r2 = ctx.tlc("Upload_gen.tla", "Upload_gen_ids.cfg", timeout=600, label="bfs+gen")
    ids = vlib.dedupe(r2.printed_json("ids"))
    if len(faults) < 20 or len(ids) < 50:
        raise vlib.Infra("generator produced %d fault scenarios, %d interleavings" % (len(faults), len(ids)))
    # the model's theorems are independent of the number of records (flushes may happen at any
    # point): scale the no-fault scenario up to sizes at which the server flushes mid-upload
    sizes = list(range(3, 81)) if q else list(range(3, 161))
    for n in sizes:
        for nf in ((1,) if q else (1, 2)):
            faults.append({"tag": "fault", "files": nf, "recs": n, "fault": {"phase": "none", "file": 0, "rec": 0}, "ok": True,
                           "visible": [[f, r] for f in range(1, nf + 1) for r in range(1, n + 1)], "stored": list(range(1, nf + 1)),
                           "failedfile": 0, "scaled": True})
    # an observer reading while another connection holds the database exclusively (as a commit in
    # progress does): an error or the complete content, never a silently empty / partial result
    for n in (1, 2, 5):
        for nf in (1, 2):
            faults.append({"tag": "lockedread", "files": nf, "recs": n, "fault": {"phase": "none", "file": 0, "rec": 0}, "ok": True,
                           "visible": [], "stored": [], "failedfile": 0})
    # many INSERT batches already sent (one per record of ~250 labels) when the last part fails
    for n in ((70, 130) if q else (70, 130, 200, 400)):
        faults.append({"tag": "widefault", "files": 2, "recs": n, "fault": {"phase": "none", "file": 0, "rec": 0}, "ok": False,
                       "visible": [], "stored": [], "failedfile": 0})
    # SIZE: all-or-nothing and "every record of every file is queryable" do not depend on how long a line, a label
    # value or a file is.  One file of an upload of 1-3 files carries a result line / noise line of that many bytes,
    # a configuration value / sub-name part of that many bytes, or that many bytes of ordinary content; lengths on
    # both sides of every power of two from 4 KiB to 1 MiB (line scanner buffers, column widths) and of 1..32 (128) MiB
    # (body and file limits).  The server may accept or refuse the large ones, but atomically (see upBig).
    line_lens = [100, 4095, 4096, 4097, 8191, 8192, 8193, 16383, 16384, 16385, 32767, 32768, 32769, 40000, 65000, 65534, 65535,
                 65536, 65537, 70000, 131071, 131072, 131073, (1 << 20) - 1, 1 << 20, (1 << 20) + 1, 3 << 20]
    file_lens = [300000, 1 << 20, (4 << 20) + 1, (8 << 20) - 3000, (8 << 20) + 1, 10000000, (16 << 20) + 1, (32 << 20) + 1]
    if not q:
        file_lens += [(64 << 20) + 1, (128 << 20) + 1]
    nb = 0
    for kind in ("metric", "noise", "config", "name", "namekv"):
        for n in line_lens:
            nb += 1
            faults.append({"tag": "big", "kind": kind, "len": n, "files": 1 + (nb + ctx.seed) % 3, "pos": nb % 3, "local": nb % 2 == 0,
                           "fault": {"phase": "none", "file": 0, "rec": 0}, "ok": True, "visible": [], "stored": [], "failedfile": 0})
    for n in file_lens:
        nb += 1
        faults.append({"tag": "big", "kind": "bigfile", "len": n, "files": 3 if n < (40 << 20) else 2, "pos": nb % 3, "local": True,
                       "fault": {"phase": "none", "file": 0, "rec": 0}, "ok": True, "visible": [], "stored": [], "failedfile": 0})
    ctx.cov["large_input_cases"] = {"line_or_value_lengths": line_lens, "file_sizes": file_lens, "cases": nb}
    # LONG HISTORY: many uploads to one server, two in five failing in different ways; after every step exactly the
    # successful ones are visible and IDs grow numerically without reuse past .9/.10, .99/.100 (thorough .999/.1000)
    hist = [12, 30, 130] if q else [12, 30, 130, 400, 1100]
    for n in hist:
        faults.append({"tag": "history", "files": 2, "recs": n, "fault": {"phase": "none", "file": 0, "rec": 0}, "ok": True,
                       "visible": [], "stored": [], "failedfile": 0})
    ctx.cov["long_histories"] = hist
    # FAULTS OF THE INDEX: the model's fault may strike at a mid-upload flush or at the flush of the commit; reached through
    # content (a configuration key equal to a key derived from the benchmark name: two label rows with one primary key) and
    # through a database trigger failing the INSERT of one record's label rows / record row; the poisoned record at EVERY
    # position 1..n of the last file, n on both sides of the label batch size (990 queued arguments)
    isizes = [1, 2, 3, 7, 24, 41, 90] if q else [1, 2, 3, 5, 7, 16, 24, 33, 41, 60, 90, 150, 260]
    ikinds = ["config-key-equals-name-key", "config-key-name", "config-key-sub1", "config-key-gomaxprocs",
              "label-insert-fails", "record-insert-fails"]
    for n in isizes:
        for kind in ikinds:
            faults.append({"tag": "indexfault", "kind": kind, "files": 0, "recs": n, "fault": {"phase": "index", "file": 0, "rec": 0}, "ok": False,
                           "visible": [], "stored": [], "failedfile": 0})
    ctx.cov["index_fault_cases"] = {"records_per_file": isizes, "kinds": ikinds, "poisoned_positions": sum(isizes) * len(ikinds)}
    ctx.add_samples([faults[len(faults) // 2], ids[len(ids) // 2]], 2)
    ctx.replay("upload", faults, "single-fault scenarios against the /upload handler", timeout=3000)
    evp = os.path.join(ctx.work, "id-events.ndjson")
    ctx.replay("upload", ids, "gated interleavings of DB.NewUpload", extra_args=[evp], timeout=3000)
    # (T) observed ID steps
    events = ctx.read_ndjson(evp)
    # the confirm pass (if any) overwrote the file with a subset; validate what is there
    ok, hwm, r = ctx.trace_validate("Upload_idtrace.tla", "Upload_idtrace.cfg", evp, timeout=900)
    if not ok:
        bad = events[min(hwm, len(events) - 1)]
        inv = re.search(r"Invariant (\w+) is violated", r.error).group(1) if r.error and "Invariant" in r.error else "not-a-behaviour"
        ctx.report([{"signature": "ids-" + inv, "detail": "observed NewUpload step rejected by Upload_idtrace at event %d: %s" % (hwm, json.dumps(bad)),
                     "family": "upload-idtrace", "events": events[max(0, hwm - 8):hwm + 1]}], "trace validation of ID allocation")
    ctx.cov["traces_validated_against_impl"] += len(ids)
    # (T) what an observer sees while concurrent client uploads are in flight
    ntr = 12 if q else 120
    vp = os.path.join(ctx.work, "inflight.ndjson")
    ctx.harness(["upload", "inflight", vp, ntr], timeout=1800)
    ok, hwm, r = ctx.trace_validate("Upload_vis.tla", "Upload_vis.cfg", vp, timeout=900)
    if not ok:
        evs = ctx.read_ndjson(vp)
        bad = evs[min(hwm, len(evs) - 1)]
        vp2 = os.path.join(ctx.work, "inflight2.ndjson")
        ctx.harness(["upload", "inflight", vp2, ntr * 3], timeout=1800)
        ok2, hwm2, r2 = ctx.trace_validate("Upload_vis.tla", "Upload_vis.cfg", vp2, timeout=900)
        if ok2:
            raise vlib.Infra("in-flight observation rejected but not reproduced (event %d: %s)" % (hwm, json.dumps(bad)))
        ctx.report([{"signature": "inflight-partial-or-phantom-visibility", "family": "upload-vis",
                     "detail": "observation rejected by Upload_vis at event %d: %s" % (hwm, json.dumps(bad)), "events": evs[max(0, hwm - 10):hwm + 1]}],
                   "trace validation of in-flight observations")
    ctx.cov["traces_validated_against_impl"] += ntr
    ctx.cov["inflight_events"] = sum(1 for _ in open(vp))
    repo_test_traces(ctx)
    overl = 0
    for c in ids:
        us = [s["u"] for s in c["steps"] if s["u"] != "-"]
        if any(us[i] != us[i + 1] for i in range(len(us) - 1)) and len(set(us)) == 2:
            first = us[0]
            # overlapping = the second uploader starts before the first has finished its three steps
            k = us.index([u for u in us if u != first][0])
            if k < 3:
                overl += 1
    ctx.cov["distinct_nontrivial"] = sum(1 for f in faults if f["fault"]["phase"] != "none") + overl
    ctx.cov["exhaustive"] = True
    return ctx.finish(RULE, assumptions=[
        "one fault per upload; faults of the index itself are injected only as lock contention between two uploaders",
        "a NewUpload that fails (database is locked) is an allowed outcome; a duplicate or reused ID is not",
    ])
