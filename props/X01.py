"""X01 - the results database over its whole public life (extension plan, spec family StoreLife)."""
import collections, json, os, re
import vlib

LEVEL = "model_checking"
TEXT = ("Contract of storage/db as a state machine over NewUpload, ReplaceUpload, InsertRecord, Commit, Abort, Query, ListUploads, "
        "CountUploads, Close and OpenSQL again, with several uploads open at once and observers between any two calls: records can be "
        "queried only through Commit and then all of them at once (AllOrNothing, VisibilityChanges); Abort, a refused call and Close "
        "change nothing that can be queried; ReplaceUpload(id) removes exactly the records stored under id, at once, and leaves every "
        "other upload alone; the listing reports exactly the uploads with matching records, newest first, the `limit` most recent, with "
        "the number of matching records and for each extra label the value of one of the upload's records; CountUploads is the number "
        "of IDs the database knows (aborted and running uploads included) and never falls; NewUpload hands out today's next number, "
        "never an ID known before (aborted, replaced or re-ingested ones included); calls are refused only on a closed database or "
        "while another upload holds uncommitted written data, and a refusal changes nothing; committed content survives Close and is "
        "there again after OpenSQL. TLC proves this on the model for all interleavings of up to 3 uploads x 2 records (thorough); every "
        "transition explored in the smaller generator models is replayed on a real sqlite database with the observers asked after "
        "every call; seeded random histories of up to 10 uploads over 3 days are validated event by event against the specification. "
        "Exhaustive within the stated constants, sampled beyond them.")
NOTE = ("Trusted: TLC, sqlite as the database under test (SingleWriter = TRUE; the row-lock variant is model-checked only), the "
        "harness's mapping of label tokens / upload IDs to strings. Assumed: one upload in progress per ID, Abort directly after a "
        "failed InsertRecord / Commit, calls made by one goroutine (the two statements of ReplaceUpload are interleaved with other "
        "calls in the model only). The replay is generated with UploadsSurviveClose = TRUE (documentation mismatch of Close, shown "
        "by StoreLife_asbuilt_close.cfg); IdFromGlobalLast stays FALSE, so the replay judges NewUpload by the documented numbering.")
TECHNIQUE = ("TLA+ model checking (TLC) + per-transition replay of model paths on a real sqlite database with observers after every "
             "call + trace validation of recorded random histories")
DESIGN_REF = "DESIGN.md section 4x"

RULE = ("(M) exhaustive TLC on StoreLife.tla - quick: 3 uploads x 1 record (tokens a, big B; unknown IDs foreign/high/later; one Close) and, "
        "without write reservation, 2 uploads x 2 records x tokens a,c,B x all four kinds of unknown ID; thorough: 3 uploads x 2 records, "
        "2 uploads x 2 records x tokens a,c,B x 2 days x 2 Closes, the row-lock configuration, all with -coverage 1 (an action never taken "
        "is exit 2); StoreLife_asbuilt_ids.cfg, _asbuilt_close.cfg and _neg_swap.cfg must show their counterexamples. "
        "(G) every transition TLC explores of the generator models (quick: 2 uploads x 1 record, and 3 uploads x 0 records over the unknown "
        "IDs high/later; thorough: 2 uploads x 2 records x tokens a,c,B, 3 uploads x 1 record with a later-day ID, 3 uploads x 0 records "
        "x 2 days x all unknown IDs) is printed with the expected observation of its target state; the maximal paths are replayed on a "
        "real database (one file on /dev/shm per path), each call's result and upload ID compared, and after every call the count, "
        "Query(\"\") and the full listing - at the first visit of a path prefix also 3 more queries, one query per known ID and 9 listings "
        "(3 queries x limits 0,1,2) with 3 extra labels. (T) recorded random histories (quick 40, thorough 600; up to 10 uploads, 4 "
        "records, 6 tokens, 3 days) validated by StoreLife_trace.tla; one altered observer reply must be rejected at its line. "
        "distinct_nontrivial = replayed paths in which a record is inserted while two uploads are in progress, a call is refused on an "
        "open database, an ID with stored records is replaced, the database is closed with an upload in progress, an upload is "
        "committed on a closed database, or NewUpload follows a ReplaceUpload that introduced an ID of today or a later day.")

ASBUILT = (("StoreLife_asbuilt_ids.cfg", "NoSpuriousRefusal"), ("StoreLife_asbuilt_close.cfg", "CloseReleases"),
           ("StoreLife_neg_swap.cfg", "ReplaceIsASwap"))


def must_violate(ctx, cfg, prop):
    r = ctx.tlc("StoreLife.tla", cfg, timeout=900, expect_ok=False, count=False, label="asbuilt")
    if not re.search(r"(Invariant|Action property) %s is violated" % prop, r.out):
        tail = "\n".join(l for l in r.out.splitlines() if not l.startswith('"'))[-1500:]
        raise vlib.Infra("StoreLife/%s did not show the counterexample to %s:\n%s" % (cfg, prop, tail))


def add_coverage(taken, r):
    txt = r.out[r.out.rfind("The coverage statistics"):]
    for m in re.finditer(r"^<(\w+) line \d+, col \d+ to line \d+, col \d+ of module (\w+)>: (\d+):(\d+)", txt, re.M):
        if m.group(2) == "StoreLife" and m.group(1) != "Init":
            taken[m.group(1)] += int(m.group(4))


def edges_to_cases(out):
    """out: TLC output with one printed line per explored transition {path, expect}; parsed line by line (the
    thorough generators print several 100 MB).  Returns (cases, table, stats)."""
    table, tindex, bypath = [], {}, {}
    stab, sindex = [], {}          # distinct steps
    n = 0
    for line in out.splitlines():
        if not line.startswith('"{'):
            continue
        try:
            e = json.loads(json.loads(line))
        except Exception:
            continue
        if e.get("tag") != "edge":
            continue
        n += 1
        k = []
        for st in e["path"]:
            sk = json.dumps(st, sort_keys=True)
            if sk not in sindex:
                sindex[sk] = len(stab)
                stab.append(st)
            k.append(sindex[sk])
        k = tuple(k)
        ek = json.dumps(e["expect"], sort_keys=True)
        if ek not in tindex:
            tindex[ek] = len(table)
            table.append(e["expect"])
        if k in bypath and bypath[k] != tindex[ek]:
            raise vlib.Infra("generator: one path with two expectations: %s" % ([stab[i] for i in k],))
        bypath[k] = tindex[ek]
    parents = set()
    for k in bypath:
        if len(k) > 1:
            if k[:-1] not in bypath:
                raise vlib.Infra("generator output is not prefix-closed: %s" % ([stab[i] for i in k[:-1]],))
            parents.add(k[:-1])
    order = lambda k: [json.dumps(stab[i], sort_keys=True) for i in k]
    leaves = sorted((k for k in bypath if k not in parents), key=order)
    cases, seen = [], set()
    for k in leaves:
        steps = []
        for i in range(len(k)):
            s = dict(stab[k[i]])
            s["exp"] = bypath[k[:i + 1]]
            s["full"] = k[:i + 1] not in seen
            seen.add(k[:i + 1])
            steps.append(s)
        cases.append({"steps": steps})
    return cases, table, {"printed": n, "edges": len(bypath), "expectations": len(table), "prefixes": len(seen)}


def nontrivial(case, table):
    """two uploads in progress at once of which one has records; a call refused by the write reservation; an ID
    with stored records replaced; Close with an upload in progress; a commit on a closed database; NewUpload after
    ReplaceUpload introduced an ID of today or of a later day"""
    prev = None
    dated = False
    for s in case["steps"]:
        e = table[s["exp"]]
        ph = e.get("phase", [])
        if not s["ok"] and prev is not None and not prev.get("closed"):
            return True
        if sum(1 for p in ph if p in ("open", "failed")) >= 2 and s["a"] == "insert":
            return True
        if s["a"] == "replace" and prev is not None and any(b["id"] == s["id"] and b["res"] for b in prev.get("byid", [])):
            return True
        if s["a"] == "close" and any(p == "open" for p in ph):
            return True
        if s["a"] == "commit" and e.get("closed"):
            return True
        if s["a"] == "new" and s["ok"] and dated:
            return True
        if s["a"] == "replace" and s["ok"] and s["id"]["day"] >= 1 \
                and not any(b["id"] == s["id"] for b in (prev or {}).get("byid", [])):
            dated = True
        prev = e
    return False


def run(ctx):
    ctx.build()
    q = ctx.quick
    # ---------------------------------------------------------------- (M)
    taken = collections.Counter()
    cover = [] if q else ["-coverage", "1"]
    mcs = ["StoreLife_mc_quick.cfg", "StoreLife_mc_quick_rowlocks.cfg"] if q else \
          ["StoreLife_mc_thorough.cfg", "StoreLife_mc_thorough_days.cfg", "StoreLife_mc_quick_rowlocks.cfg"]
    if os.environ.get("X01_SKIP_M"):      # development aid only (mutant runs: mode M does not see the repository)
        vlib.log("X01_SKIP_M set: exhaustive model checking skipped in this run")
        ctx.cov["model_checking_skipped"] = True
        mcs, cover = [], []
    for cfg in mcs:
        r = ctx.tlc("StoreLife.tla", cfg, timeout=2400, extra=cover)
        if cover:
            add_coverage(taken, r)
    if cover:
        zero = sorted(a for a, n in taken.items() if n == 0)
        # EndDead / CloseAgain etc. included: every action of the module must have been taken
        if zero or len(taken) < 17:
            raise vlib.Infra("vacuous actions (never taken in any configuration): %s (seen %d actions)" % (zero, len(taken)))
        ctx.cov["actions_taken"] = dict(taken)
    for cfg, prop in ASBUILT:
        must_violate(ctx, cfg, prop)

    # ---------------------------------------------------------------- (G)
    gens = ["StoreLife_gen_quick.cfg", "StoreLife_gen_quick_ids.cfg"] if q else \
           ["StoreLife_gen_thorough.cfg", "StoreLife_gen_thorough3.cfg", "StoreLife_gen_thorough_ids.cfg"]
    total_nontriv = 0
    for gi, cfg in enumerate(gens):
        r = ctx.tlc("StoreLife_gen.tla", cfg, timeout=3000, label="bfs+gen")
        cases, table, st = edges_to_cases(r.out)
        r.out = ""
        if st["edges"] < 2000:
            raise vlib.Infra("generator %s printed only %d transitions" % (cfg, st["edges"]))
        tp = ctx.write_ndjson("expect-%d.ndjson" % gi, table)
        nt = sum(1 for c in cases if nontrivial(c, table))
        total_nontriv += nt
        vlib.log("%s: %d transitions, %d distinct expectations, %d maximal paths (%d steps), %d non-trivial" % (
            cfg, st["edges"], st["expectations"], len(cases), sum(len(c["steps"]) for c in cases), nt))
        ctx.cov.setdefault("gen", []).append(dict(st, cfg=cfg, cases=len(cases), steps=sum(len(c["steps"]) for c in cases)))
        if gi == 0:
            mid = [c for c in cases if len(c["steps"]) >= 6 and nontrivial(c, table) and table[c["steps"][-1]["exp"]].get("q", {}).get("all")]
            if mid:
                c = mid[len(mid) // 2]
                ctx.add_samples([{"path": [dict((k, v) for k, v in s.items() if k not in ("exp", "full")) for s in c["steps"]],
                                  "expected_after_last_call": table[c["steps"][-1]["exp"]]}], 1)
        ctx.replay("storelife", cases, "replay of model paths on a real database (%s)" % cfg, extra_args=[tp], timeout=3000)
        ctx.cov["evaluations"] += st["prefixes"]

    # ---------------------------------------------------------------- (T)
    ntr = 40 if q else 600
    tp = os.path.join(ctx.work, "sl-trace.ndjson")
    ctx.harness(["storelife", "record", tp, ntr], timeout=1800)
    events = ctx.read_ndjson(tp)
    ok, hwm, r = ctx.trace_validate("StoreLife_trace.tla", "StoreLife_trace.cfg", tp, timeout=1800)
    if not ok:
        bad = events[min(hwm, len(events) - 1)]
        inv = re.search(r"Invariant (\w+) is violated", r.error or "")
        tp2 = os.path.join(ctx.work, "sl-trace2.ndjson")
        ctx.harness(["storelife", "record", tp2, ntr], timeout=1800)
        ev2 = ctx.read_ndjson(tp2)
        if hwm >= len(ev2) or ev2[hwm] != bad:
            raise vlib.Infra("recorded event %d rejected but not reproduced by a second recording: %s" % (hwm, json.dumps(bad)[:600]))
        call = bad["ev"] in ("new", "replace", "insert", "commit", "abort", "close", "reopen")
        sig = "trace-" + bad["ev"] + ("-refused" if call and not bad.get("ok", True) else "") + ("-" + inv.group(1) if inv else "")
        ctx.report([{"signature": sig, "family": "storelife-trace",
                     "detail": "recorded event %d is not a step of StoreLife / not the specification's observation: %s" % (hwm, json.dumps(bad)[:800]),
                     "events": [e for e in events[max(0, hwm - 25):hwm + 1] if e["t"] == bad["t"]]}], "trace validation")
    else:
        # negative control: one observer reply altered (a result that was never committed / a count off by
        # one) must be rejected exactly there
        cand = [i for i, e in enumerate(events) if e["ev"] in ("count", "query")]
        i = cand[(ctx.seed * 7919) % len(cand)]
        bad = [dict(e) for e in events]
        if bad[i]["ev"] == "count":
            bad[i]["n"] += 1
        else:
            bad[i]["res"] = bad[i]["res"] + [[9, 1]]
        bp = ctx.write_ndjson("sl-trace-corrupt.ndjson", bad)
        ok2, hwm2, r2 = ctx.trace_validate("StoreLife_trace.tla", "StoreLife_trace.cfg", bp, timeout=1800)
        ctx.cov["tlc_runs"].pop()
        if ok2 or hwm2 != i:
            raise vlib.Infra("negative control: corrupted event %d was not rejected there (accepted=%s hwm=%d)" % (i, ok2, hwm2))
        ctx.cov["negative_control"] = "corrupted %s event %d rejected" % (events[i]["ev"], i)
    calls = sum(1 for e in events if e["ev"] not in ("count", "query", "byid", "list", "closedobs", "reset"))
    ctx.cov["traces_validated_against_impl"] += ntr
    ctx.cov["evaluations"] += len(events)
    ctx.cov["recorded_events"] = len(events)
    ctx.cov["recorded_calls"] = calls
    one = [e for e in events if e["t"] == 0][:12]
    ctx.add_samples([{"trace_prefix": [dict((k, v) for k, v in e.items() if v not in ("", [], 0, None) or k in ("ok",)) for e in one]}], 1)
    ctx.cov["distinct_nontrivial"] = total_nontriv
    ctx.cov["exhaustive"] = True
    return ctx.finish(RULE, assumptions=[
        "one upload in progress per upload ID; a failed InsertRecord / Commit is followed by Abort before any other call",
        "calls are made by one goroutine in the replay (ReplaceUpload's two statements are interleaved with other calls in mode M only)",
        "the database under test is sqlite on a file (one write reservation, busy timeout 0); the row-lock environment is model-checked only",
        "two consecutive records of one upload are not both the same 250-label record (a flush in the middle of a record's labels forgets the record for coalescing)",
        "replay generated with UploadsSurviveClose = TRUE: Close leaves uploads in progress usable (documentation mismatch, see StoreLife_asbuilt_close.cfg)",
        "the recorder gives ReplaceUpload no ID of a later day than the clock shows (mode G does)",
    ])
