"""X02 - incremental comparison series (AllComparisonSeries with existing series, AddSummaries, JSON, CSV)
and their serialised forms (spec families SeriesInc, SeriesIncCsv).  Extension plan: not part of MANIFEST.json."""
import json, os, re, collections
import vlib

LEVEL = "model_checking"
TEXT = ("benchseries used incrementally, as cmd/benchseries does: results of a new run are added to a fresh Builder, "
        "AllComparisonSeries(existing, policy) extends the series of earlier runs (in memory or decoded from the -ji JSON), "
        "AddSummaries completes them, they are encoded as JSON (-jo) and rendered as CSV. Contract, from the doc comments, "
        "cmd/benchseries and TestReordered: under DUPE_REPLACE, however the trials are split into rounds and wherever a JSON "
        "round trip sits, the known points after the last round are those of ONE batch run over the union (latest experiment per "
        "point, its date, its samples: IncEqualsBatch); under both policies no point ever fed is forgotten and its date is that of "
        "its latest experiment (NothingForgotten); a present summary was computed from trials of its own point (SummariesSound); "
        "encoding + decoding changes nothing later calls or outputs depend on (JsonTransparent); axes sorted and covering, "
        "Summaries table shaped like the axes once summarised, one object per unit, hash pairs and residues only grow; "
        "ToCsvBootstrapped renders exactly Benchmarks x Series x Summaries: one column group per benchmark under its name, the "
        "same width in the header and in every row, empty where the summary is undefined, change columns referring to the "
        "summary above, six aggregates per change option (CsvAgrees). TLC proves this on the model for all histories within "
        "the bounds; every explored call transition is replayed on the real package, a sample of histories through the real "
        "cmd/benchseries binary, every kind table x option set on ToCsvBootstrapped, and recorded random histories beyond "
        "the bounds are validated against the specification.")
NOTE = ("Trusted: TLC; the harness's projection (unit / benchmark / stamp tokens, identity of a summary judged by recomputing the "
        "summary of exactly the expected samples with the real bootstrap, which C18 covers); number formatting and the six row "
        "aggregates of the CSV are recomputed in the harness (numbers are outside the model). Series.tla (C18) is the base: a "
        "builder's content is the SET of results added, so trials are added whole here.")
TECHNIQUE = ("TLA+ model checking (TLC) of the incremental object life cycle + function-style CSV grid (declarative vs transcription); "
             "per-transition replay into benchseries and cmd/benchseries; trace validation of recorded random histories")
DESIGN_REF = "DESIGN.md section 4x"

RULE = ("(M) exhaustive TLC runs of SeriesInc.tla (calls Add / AllComparisonSeries / AddSummaries / JSON in every order the domain "
        "allows, trials over 2 units x 2 benchmarks x 2 series stamps x 2 experiment stamps x with/without baseline, bounded number "
        "of trials and rounds, both policies; invariants IncEqualsBatch, NothingForgotten, SummariesSound, JsonTransparent, ShapeOK, "
        "AxesOK, UnitsOK, HashPairsOK, ResiduesOK, NoCrash, CsvAgrees) and of SeriesIncCsv_mc.tla (every Summaries table by kind up "
        "to NB x NS, all 16 option sets: transcription of csv.go = declarative grid, grid well formed); the six as-built "
        "configurations must show their counterexamples. (G) one replay case per explored acs / sum / json transition "
        "(BFS-shortest history + that call, expectation of the contract and predictions of the named deviations), replayed on the "
        "real benchseries package incl. CSV rendering of every summarised object under two option sets; every (kind table, option "
        "set) of the CSV generator on ToCsvBootstrapped; a sample of all-replace histories through the cmd/benchseries binary "
        "(files, -ji/-jo, stdout). (T) recorded random histories (3 units, 4 benchmarks, 4 series points, 8 experiment stamps, 3-5 "
        "rounds) validated event by event. distinct_nontrivial = replayed histories in which some point is fed in two different "
        "rounds or a unit is absent from a later round (the histories on which 'incremental' differs from 'batch').")

ASSUMPTIONS = [
    "AllComparisonSeries is applied to summarised objects only (AddSummaries since the last AllComparisonSeries); otherwise the code "
    "indexes the stale Summaries table with the new axes (SeriesInc_asbuilt_AllowStale.cfg shows the crash) - usage outside the contract",
    "DUPE_COMBINE: no fresh trial may hit a point that already has a summary (doc comment: 'will do the wrong thing if one is an old "
    "summary'; SeriesInc_asbuilt_CombineOverSummary.cfg shows the nil dereference) - excluded, not judged",
    "a trial (unit, benchmark, experiment) is never split over rounds; feeding it again whole is inside the domain",
    "Series.tla's consistency assumptions (numerator hash <-> series stamp, one denominator hash); one test per trial; existing "
    "objects have distinct units (as any earlier output has)",
    "order of the returned objects is free; the stale Summaries table between AllComparisonSeries and AddSummaries is not judged",
    "Kolmogorov-Smirnov cell between a summary with and one without bootstrap: empty or zero both accepted (no score exists)",
    "numbers (formatting, aggregates, change scores) are recomputed by the harness with the package's exported functions",
]


def must_violate(ctx, module, cfg, prop):
    r = ctx.tlc(module, cfg, timeout=900, expect_ok=False, count=False, label="asbuilt")
    if not re.search(r"(Invariant|Action property) %s is violated" % prop, r.out):
        tail = "\n".join(l for l in r.out.splitlines() if not l.startswith('"'))[-1500:]
        raise vlib.Infra("%s/%s did not show the counterexample to %s:\n%s" % (module, cfg, prop, tail))


def add_coverage(taken, dead, r, modules):
    txt = r.out[r.out.rfind("The coverage statistics"):]
    for m in re.finditer(r"^<(\w+) line \d+, col \d+ to line \d+, col \d+ of module (\w+)>: (\d+):(\d+)", txt, re.M):
        if m.group(2) in modules and m.group(1) not in ("Init", "GInit"):
            taken[m.group(2) + "." + m.group(1)] += int(m.group(4))
    for m in re.finditer(r"^\s*\|*(line \d+, col \d+ to line \d+, col \d+ of module (\w+)): 0\s*$", txt, re.M):
        if m.group(2) in modules:
            dead.add(m.group(1))


def kinds_of(o):
    return tuple(s["k"] for row in o["summ"] for s in row)


def attach_csv(obs_list, table, opts):
    """Join the expected CSV grid of every summarised object (SeriesIncCsv generator output)."""
    n = 0
    for o in obs_list:
        if not o.get("fresh"):
            continue
        nb, ns = len(o["benches"]), len(o["series"])
        ks = kinds_of(o)
        raw = "n" in ks
        out = []
        for opt in opts:
            g = table.get((nb, ns, raw, ks, opt))
            if g is None and not raw:
                g = table.get((nb, ns, True, ks, opt)) if all(k == "u" for k in ks) else None
            if g is not None:
                out.append({"opt": opt, "grid": g["grid"], "alt": g["alt"]})
        if out:
            o["csv"] = out
            n += 1
    return n


def cmd_shaped(path):
    """(add* acs(replace) sum(every unit that has an object) json)+ : what a sequence of cmd/benchseries runs does"""
    if not path or path[-1][0] != "json":
        return False
    units, state, summed = set(), "add", set()
    for st in path:
        a = st[0]
        if a == "add":
            if state not in ("add",):
                return False
            units.add(st[1])
        elif a == "acs":
            if state != "add" or st[1] != "replace":
                return False
            state, summed = "sum", set()
        elif a == "sum":
            if state != "sum":
                return False
            summed.add(st[1])
        elif a == "json":
            if state != "sum" or summed != units:
                return False
            state = "add"
    return state == "add"


def nontrivial(path):
    """some point fed in two different rounds, or a unit with an object is absent from a later round"""
    rnd, seen_pt, seen_unit, cur_units = 0, {}, set(), set()
    hit = False
    for st in path:
        if st[0] == "add":
            pt = (st[1], st[2], st[4])
            if pt in seen_pt and seen_pt[pt] != rnd:
                hit = True
            seen_pt.setdefault(pt, rnd)
            cur_units.add(st[1])
        elif st[0] == "acs":
            if seen_unit - cur_units:
                hit = True
            seen_unit |= cur_units
            cur_units = set()
            rnd += 1
    return hit


def witnesses(path, w):
    """Which branches of the contract a history exercises (counted over all replayed histories; none may stay 0)."""
    rnd, first, bld = 0, {}, []
    units_seen, cur_units = set(), set()
    for st in path:
        if st[0] == "add":
            t = tuple(st[1:])
            pt = (st[1], st[2], st[4])
            for (r0, t0) in first.get(pt, []):
                if r0 < rnd:
                    if t0 == t:
                        w["same trial fed again in a later round"] += 1
                    elif t0[2] < t[2]:
                        w["later experiment replaces an existing summary"] += 1
                    elif t0[2] > t[2]:
                        w["existing summary survives an older experiment"] += 1
                    if not t0[4]:
                        w["existing point without baseline meets a new trial"] += 1
            for t1 in bld:
                if (t1[0], t1[1], t1[3]) == pt:
                    w["two trials of one point in one round"] += 1
            bld.append(t)
            cur_units.add(st[1])
        elif st[0] == "acs":
            if st[1] == "combine" and len(set((t[0], t[1], t[3]) for t in bld)) < len(bld):
                w["combine merges two trials"] += 1
            if units_seen - cur_units:
                w["unit with an object absent from the round"] += 1
            if not bld:
                w["round without new results"] += 1
            for t in bld:
                first.setdefault((t[0], t[1], t[3]), []).append((rnd, t))
            units_seen |= cur_units
            bld, cur_units = [], set()
            rnd += 1
        elif st[0] == "json":
            w["json round trip"] += 1


WITNESSES = ["same trial fed again in a later round", "later experiment replaces an existing summary",
             "existing summary survives an older experiment", "existing point without baseline meets a new trial",
             "two trials of one point in one round", "combine merges two trials", "unit with an object absent from the round",
             "round without new results", "json round trip"]


def run(ctx):
    bins = ctx.build(binaries=("benchseries",))
    q = ctx.quick
    taken, dead = collections.Counter(), set()
    cover = () if q else ("-coverage", "1")

    # ------------------------------------------------------------------ (M)
    # (mode M never looks at the repository; X02_SKIP_MC=1 leaves it out when only the binding is exercised, e.g. on mutants)
    skip_mc = bool(os.environ.get("X02_SKIP_MC"))
    for cfg in [] if skip_mc else (["SeriesIncCsv_mc_quick.cfg"] if q else ["SeriesIncCsv_mc_thorough.cfg"]):
        r = ctx.tlc("SeriesIncCsv_mc.tla", cfg, timeout=1500, extra=cover)
        if not q:
            add_coverage(taken, dead, r, ("SeriesIncCsv_mc", "SeriesIncCsv"))
    mcs = ["SeriesInc_mc_quick.cfg", "SeriesInc_mc_quick_refeed.cfg"] if q else \
          ["SeriesInc_mc_thorough.cfg", "SeriesInc_mc_thorough_rounds.cfg", "SeriesInc_mc_thorough_u1.cfg", "SeriesInc_mc_quick_refeed.cfg"]
    for cfg in ([] if skip_mc else mcs):
        r = ctx.tlc("SeriesInc.tla", cfg, timeout=2400, extra=(cover if cfg.endswith("refeed.cfg") else ()))
        if not q and cfg.endswith("refeed.cfg"):
            add_coverage(taken, dead, r, ("SeriesInc", "SeriesIncCsv"))
    if not q and not skip_mc:
        missing = [a for a in ("SeriesInc.Add", "SeriesInc.ACS", "SeriesInc.AddSummaries", "SeriesInc.Json", "SeriesIncCsv_mc.Put")
                   if taken[a] == 0]
        if missing:
            raise vlib.Infra("coverage run: actions never taken: %s" % missing)
        if dead:
            raise vlib.Infra("coverage run: expressions never evaluated: %s" % sorted(dead)[:10])
        ctx.cov["coverage"] = {"actions_taken": dict(taken), "never_evaluated": 0}
    # the named deviations and the two domain switches must be visible to TLC
    if not skip_mc:
        must_violate(ctx, "SeriesIncCsv_mc.tla", "SeriesIncCsv_asbuilt_wide.cfg", "CsvAgrees")
        must_violate(ctx, "SeriesIncCsv_mc.tla", "SeriesIncCsv_asbuilt_nil.cfg", "CsvAgrees")
        must_violate(ctx, "SeriesInc.tla", "SeriesInc_asbuilt_NilCellsWipe.cfg", "NothingForgotten")
        must_violate(ctx, "SeriesInc.tla", "SeriesInc_asbuilt_ForgetUndefined.cfg", "IncEqualsBatch")
        must_violate(ctx, "SeriesInc.tla", "SeriesInc_asbuilt_CombineOverSummary.cfg", "NoCrash")
        must_violate(ctx, "SeriesInc.tla", "SeriesInc_asbuilt_AllowStale.cfg", "NoCrash")

    # ------------------------------------------------------------------ (G) CSV: every kind table x option set
    csvgens = ["SeriesIncCsv_gen_quick.cfg"] if q else ["SeriesIncCsv_gen_quick.cfg", "SeriesIncCsv_gen_thorough.cfg"]
    table, ccases = {}, []
    for cfg in csvgens:
        r = ctx.tlc("SeriesIncCsv_mc.tla", cfg, timeout=1500, label="gen-csv")
        for c in r.printed_json("csv"):
            k = (c["nb"], c["ns"], c["raw"], tuple(c["kinds"]), c["opt"])
            if k in table:
                continue
            table[k] = c
            c = dict(c)
            c["kind"] = "csv"
            ccases.append(c)
    if len(ccases) < 1000:
        raise vlib.Infra("CSV generator produced only %d cases" % len(ccases))
    ctx.cov["csv_tables_x_options"] = len(ccases)
    ctx.add_samples([{k: v for k, v in ccases[len(ccases) // 2].items() if k != "alt"}], 1)
    vs = ctx.replay("seriesinc", ccases, "ToCsvBootstrapped against the grid of SeriesIncCsv.tla", timeout=3000)
    ctx.cov["csv_tables_not_buildable_through_api"] = sum(1 for v in vs if str(v.get("detail", "")).startswith("skipped"))

    # ------------------------------------------------------------------ (G) histories
    if q:
        gens = [("SeriesInc_gen_quick.cfg", None, None), ("SeriesInc_gen_cmd.cfg", None, None)]
    else:
        gens = [("SeriesInc_gen_quick.cfg", None, None), ("SeriesInc_gen_cmd.cfg", None, None),
                ("SeriesInc_gen_quick_u1.cfg", None, None), ("SeriesInc_gen_thorough.cfg", None, None),
                ("SeriesInc_gen_sim.cfg", 400, 16)]
    paths, cmdpool = [], []
    for cfg, sim, depth in gens:
        if sim:
            r = ctx.tlc("SeriesInc_gen.tla", cfg, timeout=2400, label="gen-simulate", simulate=sim, depth=depth + 2)
        else:
            r = ctx.tlc("SeriesInc_gen.tla", cfg, timeout=2400, label="gen")
        cs = r.printed_json("case")
        if len(cs) < 100:
            raise vlib.Infra("generator %s produced only %d cases" % (cfg, len(cs)))
        if cfg == "SeriesInc_gen_cmd.cfg":
            # histories a sequence of cmd/benchseries runs can produce; those ending in the JSON step are whole runs
            cmdpool = [c for c in cs if cmd_shaped(c["path"])]
            if q:
                cs = cs[ctx.seed % 4::4]
        paths += cs
    paths = vlib.dedupe(paths, key=lambda c: json.dumps(c["path"]))
    opts_all = [0, 1, 2, 8, 16, 24, 25, 26]
    pcases, nontriv, withalt, wit = [], 0, collections.Counter(), collections.Counter()
    for i, c in enumerate(paths):
        c["kind"] = "path"
        outs = [c["last"]] if "last" in c else [o for o in c["outs"] if o["obs"]]
        for o in outs:
            opts = [26, opts_all[(i + ctx.seed) % len(opts_all)]]
            attach_csv(o["obs"], table, opts)
            for a in o["alt"]:
                withalt[a["dev"]] += 1
        if nontrivial(c["path"]):
            nontriv += 1
        witnesses(c["path"], wit)
        pcases.append(c)
    ctx.cov["histories"] = len(pcases)
    ctx.cov["branch_witnesses"] = {k: wit[k] for k in WITNESSES}
    if any(wit[k] == 0 for k in WITNESSES):
        raise vlib.Infra("generated histories never exercise: %s" % [k for k in WITNESSES if wit[k] == 0])
    ctx.cov["histories_on_which_a_named_deviation_predicts_otherwise"] = dict(withalt)
    s = dict(pcases[len(pcases) // 2])
    ctx.add_samples([{"path": s["path"], "expect": (s.get("last") or s["outs"][-1])["obs"]}], 1)
    ctx.replay("seriesinc", pcases, "replay of TLC-generated incremental histories", timeout=3000)

    # ------------------------------------------------------------------ (G) the same through the binary
    ncmd = 120 if q else 1200
    step = max(1, len(cmdpool) // ncmd)
    cmdcases = []
    for k, c in enumerate(cmdpool[(ctx.seed % step)::step][:ncmd]):
        d = json.loads(json.dumps(c))
        d["kind"] = "cmd"
        d["delta"] = bool(k & 1)
        d["change"] = bool(k & 2)
        opt = (1 if d["delta"] else 0) | (24 if d["change"] else 0)
        attach_csv(d["last"]["pre"], table, [opt])
        cmdcases.append(d)
    if len(cmdcases) < 20:
        raise vlib.Infra("only %d histories have the shape of cmd/benchseries runs" % len(cmdcases))
    ctx.cov["histories_through_cmd_benchseries"] = len(cmdcases)
    ctx.replay("seriesinc", cmdcases, "incremental histories through the cmd/benchseries binary (-ji/-jo, CSV on stdout)",
               extra_args=(bins["benchseries"],), timeout=3000)

    # ------------------------------------------------------------------ (T)
    ntr = 60 if q else 600
    tp = os.path.join(ctx.work, "si-trace.ndjson")
    ctx.harness(["seriesinc", "record", tp, ntr])
    events = ctx.read_ndjson(tp)
    validate(ctx, events)
    ctx.cov["traces_validated_against_impl"] += ntr
    ctx.cov["recorded_events"] = len(events)
    # negative control: a corrupted event must be rejected by the contract AND by the as-built configurations
    negative_control(ctx, events)

    ctx.cov["distinct_nontrivial"] = nontriv
    ctx.cov["exhaustive_model_checking"] = True
    ctx.cov["exhaustive"] = bool(q)
    return ctx.finish(RULE, assumptions=ASSUMPTIONS)


def split_traces(events):
    traces, cur = [], []
    for e in events:
        if e["ev"] == "reset":
            if cur:
                traces.append(cur)
            cur = [e]
        else:
            cur.append(e)
    if len(cur) > 1:
        traces.append(cur)
    return [t for t in traces if len(t) > 1]


def run_trace(ctx, cfg, events, name):
    """One validation run; returns {history id: (line, event)} of the rejected histories."""
    flat = list(events) + [{"ev": "reset", "t": -1, "obs": []}]
    p = ctx.write_ndjson(name, flat)
    ok, hwm, r = ctx.trace_validate("SeriesInc_trace.tla", cfg, p)
    if r.error:
        tail = "\n".join(l for l in r.out.splitlines() if not l.startswith('"'))[-2500:]
        raise vlib.Infra("trace validation under %s stopped (an invariant of the specification's own states?):\n%s" % (cfg, tail))
    if not ok:
        raise vlib.Infra("trace validation under %s did not read every line (hwm %d of %d)" % (cfg, hwm, len(flat)))
    rej = {}
    for t, l in re.findall(r"REJECT t=(-?\d+) l=(\d+)", r.out):
        rej[int(t)] = (int(l), flat[int(l) - 1])
    return rej


def validate(ctx, events):
    """All histories against the contract; the rejected ones against the as-built configurations: a history the
    deviation's model accepts is that deviation (signature asbuilt:<dev>), anything else is unexplained."""
    for e in events:
        if e["ev"] == "panic":
            ctx.report([{"signature": "trace:panic", "detail": "the real code panicked in a recorded history",
                         "event": {k: v for k, v in e.items() if k != "obs"}, "family": "seriesinc-trace"}], "trace validation")
    rej = run_trace(ctx, "SeriesInc_trace.cfg", events, "si-trace-all.ndjson")
    ctx.cov["recorded_histories_rejected_by_the_contract"] = len(rej)
    left = dict(rej)
    for dev, cfg in (("wipe", "SeriesInc_trace_asbuilt_wipe.cfg"), ("forget", "SeriesInc_trace_asbuilt_forget.cfg"),
                     ("wipe+forget", "SeriesInc_trace_asbuilt.cfg")):
        if not left:
            break
        sub = [e for e in events if e.get("t") in left]
        r2 = run_trace(ctx, cfg, sub, "si-trace-%s.ndjson" % dev.replace("+", "-"))
        for t in sorted(left):
            if t not in r2:
                l, e = left.pop(t)
                ctx.report([{"signature": "asbuilt:" + dev,
                             "detail": "recorded history %d: event %d (%s) is not what the contract yields; the history is exactly what "
                                       "deviation %r of SeriesInc.tla yields" % (t, l, e["ev"], dev),
                             "event": {k: v for k, v in e.items() if k != "obs"}, "obs": e.get("obs"), "family": "seriesinc-trace"}],
                           "trace validation")
    for t in sorted(left):
        l, e = left[t]
        ctx.report([{"signature": "trace:" + e["ev"], "detail": "recorded history %d: event %d (%s) rejected by the contract and by every "
                     "as-built configuration" % (t, l, e["ev"]),
                     "event": {k: v for k, v in e.items() if k != "obs"}, "obs": e.get("obs"), "family": "seriesinc-trace"}],
                   "trace validation")


def negative_control(ctx, events):
    traces = split_traces(events)
    for t in traces:
        for k, e in enumerate(t):
            if e["ev"] == "sum" and any(s["p"] for o in e["obs"] for row in o["summ"] for s in row):
                bad = json.loads(json.dumps(t))
                done = False
                for o in bad[k]["obs"]:
                    for row in o["summ"]:
                        for s in row:
                            if s["p"] and not done:
                                s["d"] = s["d"] % 8 + 1        # another experiment's date
                                done = True
                tid = bad[0]["t"]
                for cfg in ("SeriesInc_trace.cfg", "SeriesInc_trace_asbuilt.cfg"):
                    rej = run_trace(ctx, cfg, bad, "si-trace-neg.ndjson")
                    if tid not in rej or rej[tid][0] > k + 1:
                        raise vlib.Infra("negative control: a corrupted history was accepted by %s (%s, corrupted line %d)" % (cfg, rej, k + 1))
                ctx.cov["negative_control"] = "a recorded sum event with a wrong date is rejected at or before that event"
                return
    raise vlib.Infra("negative control: no suitable event recorded")
