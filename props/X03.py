"""X03 - analysis front end: query splitting and result grouping (spec family CompareFront).

Extension plan (specification growth beyond the listed properties; not in MANIFEST.json).
Harness family: "comparefront"."""
import collections, json, os
import vlib

LEVEL = "model_checking"
TEXT = ("The comparison front end of the performance dashboard (analysis/app: parse.go, compare.go) is an algebra over "
        "label sets. A user query is read as shell-style words; a word that is exactly | or vs (not quoted, not escaped) "
        "separates the common prefix from the sub-queries and the sub-queries from each other ('prefix | one vs two', "
        "'prefix one vs two', 'anything else'), every other word reaches the storage server in the prefix or in exactly "
        "one sub-query. Every result fetched for a sub-query lands in exactly one group, groups keep the order of arrival "
        "and nothing else depends on it; LabelValues counts, per key, the results with each value and under \"\" the "
        "results without the key; a single sub-query is split by upload-file when all results agree on cl and ps and "
        "differ in upload-file, else by upload-part when they agree on upload and differ in upload-part, into one group "
        "per value in bytewise order; a group's own Q, read back with query.SplitWords as key:value filters, selects exactly "
        "the group; the labels shown once are exactly those with one identical value on every result, all other labels are "
        "listed per group with their TopN values; addToQuery's result filters EVERY group by the added word; "
        "elideKeyValues replaces exactly the values of the given name labels by *; an error is reported iff nothing was fetched.")
NOTE = ("Trusted: the concretisation tables of the harness (equal-length images in the order of the model's symbols), the "
        "raw-word splitter and the HTML reader of the harness, Go's bytewise string comparison for the ranks in recorded "
        "traces, TLC. Domain: label values are non-empty (storage/benchfmt never delivers an empty value), the base name of "
        "a benchmark contains no '=' (with one, elideKeyValues treats 'BenchmarkX=1' as key=value and does not elide the name), "
        "no label value is the single character '...' (U+2026, which the template shows as the rest line). For query texts "
        "outside the documented shapes (a vs before the first |, an empty prefix or sub-query) only conservation of the words "
        "is demanded. benchstat's tables are not looked at.")
TECHNIQUE = ("TLA+ model checking (TLC) of a request state machine (Parse, Add, EndGroup, Decide, SplitStep, SplitFinish, "
             "SummFirst, SummPrune, SummLabels) against declarative label-set definitions, and of the text functions as "
             "declarative vs operational definitions on all short texts; replay of TLC-generated requests and texts into the "
             "real resultGroup.add/splitOn, compareQuery (with a storage server answering in the generated order), "
             "parseQueryString, addToQuery, elideKeyValues, queryKeys, linkify; trace validation of recorded random requests "
             "and of pages rendered by the HTTP handler against a real in-process storage server")
DESIGN_REF = "DESIGN.md section 4x"

RULE = ("(M) exhaustive TLC: CompareFront (every arrival sequence of up to MaxRes results over the configured label domains, "
        "1..MaxQ sub-queries; invariants LVRight, NoZeroCount, Partition, QueryGroups, SplitRight, QSelects, CommonRight, "
        "ErrorRight, TopTotals) and CompareFrontText (all texts over { a blank \\ \" | v s } up to MaxChars, all blank-joined "
        "sequences of up to MaxWords words incl. quoted / escaped / glued separators, all names over { a / = - 1 } up to "
        "MaxName with every subset of 5 keys, all sub-query words up to MaxQK; invariants ParseAgrees, ParseConserves, "
        "FilterReachesEveryGroup(+Op), ElideAgrees, ElideIdentity, ElideIdempotent, ElideKeepsOthers, QueryKeysAgree). The three "
        "as-built configurations must each show their counterexample. (G) every finished request of the generator "
        "configurations (exhaustive small domains + TLC simulation of larger ones) is replayed step by step (add, splitOn) and "
        "as a whole (compareQuery); every generated text through the real text functions. (T) recorded events of a seeded "
        "driver (~20 keys, values needing quoting, up to 30 results, 1-3 sub-queries, queries of up to 14 words, pages "
        "rendered by the handler from a real storage server with the page's links followed) classified by CompareFront_trace. "
        "distinct_nontrivial = replayed requests with >= 2 groups or a non-empty set of common labels, parse cases with a "
        "separator, elide cases that change the name, plus recorded request/page/split events.")

# deviation classes that the specification names (switch = as-built model)
NAMED = {
    "split-group-query-not-quoted": "SplitQRaw",
    "common-labels-dropped-by-empty-group": "EmptyGroupDropsCommon",
    "addtoquery-pipe-inside-word": "PipeBySubstring",
}


def must_violate(ctx, module, cfg, invariant):
    r = ctx.tlc(module, cfg, timeout=900, expect_ok=False, label="asbuilt", count=False)
    if ("Invariant %s is violated" % invariant) not in r.out:
        tail = "\n".join(l for l in r.out.splitlines() if not l.startswith('"'))[-1500:]
        raise vlib.Infra("%s/%s did not show the counterexample to %s:\n%s" % (module, cfg, invariant, tail))


def classify(ctx, path, count=True):
    dst = os.path.join(ctx.specdir, "trace.ndjson")
    import shutil
    shutil.copyfile(path, dst)
    r = ctx.tlc("CompareFront_trace.tla", "CompareFront_trace.cfg", workers=1, timeout=2400, expect_ok=False,
                label="trace", env={"JAVA_TOOL_OPTIONS": "-Xss512m -Xmx6g"}, count=count)
    import re
    m = re.search(r"TRACE hwm=(\d+) len=(\d+)", r.out)
    if not m or r.error is not None or int(m.group(1)) < int(m.group(2)):
        tail = "\n".join(l for l in r.out.splitlines() if not l.startswith('"'))[-3000:]
        raise vlib.Infra("trace validation did not consume the recorded trace (spec or recorder problem, not a verdict):\n" + tail)
    return {o["i"]: o["class"] for o in r.printed_json("tv")}


def run(ctx):
    ctx.build()
    q = ctx.quick
    tier = "quick" if q else "thorough"
    cover = [] if q else ["-coverage", "1"]

    # ---------------------------------------------------------------- (M)
    mc = [("CompareFrontText.tla", "CompareFrontText_mc_%s.cfg" % tier),
          ("CompareFront.tla", "CompareFront_mc_%s.cfg" % tier),
          ("CompareFront.tla", "CompareFront_mc_%s_multi.cfg" % tier)]
    mc.append(("CompareFront.tla", "CompareFront_mc_%s_file.cfg" % tier))
    if not q:
        mc.append(("CompareFrontText.tla", "CompareFrontText_mc_thorough_words.cfg"))
    taken = collections.Counter()
    for mod, cfg in mc:
        r = ctx.tlc(mod, cfg, timeout=2400, extra=cover)
        if cover:
            add_coverage(taken, r)
    if cover:
        # non-vacuity: over the configurations together every action was taken
        zero = sorted(a for a, n in taken.items() if n == 0)
        if zero or len(taken) < 10:
            raise vlib.Infra("vacuous actions (never taken in any configuration): %s (seen %d actions)" % (zero, len(taken)))
        ctx.cov["actions_taken"] = dict(taken)
    must_violate(ctx, "CompareFront.tla", "CompareFront_asbuilt.cfg", "QSelects")
    must_violate(ctx, "CompareFront.tla", "CompareFront_asbuilt_emptygroup.cfg", "CommonRight")
    must_violate(ctx, "CompareFrontText.tla", "CompareFrontText_asbuilt.cfg", "FilterReachesEveryGroup")

    # ---------------------------------------------------------------- (G)
    r = ctx.tlc("CompareFrontText_gen.tla", "CompareFrontText_gen_%s.cfg" % tier, timeout=2400, label="gen")
    tcases = r.printed_json("case")
    if len(tcases) < 10000:
        raise vlib.Infra("text generator produced only %d cases" % len(tcases))
    flows = []
    gens = ["split", "file", "multi"] if q else ["split", "file", "part", "multi"]
    for g in gens:
        r = ctx.tlc("CompareFront_gen.tla", "CompareFront_gen_%s_%s.cfg" % (tier, g), timeout=2400, label="gen")
        got = r.printed_json("case")
        if len(got) < 1000:
            raise vlib.Infra("flow generator %s produced only %d cases" % (g, len(got)))
        flows += got
    nsim = 400 if q else 5000
    for cfg, depth in (("CompareFront_gen_sim.cfg", 40), ("CompareFront_gen_sim_part.cfg", 40), ("CompareFront_gen_sim_multi.cfg", 60)):
        r = ctx.tlc("CompareFront_gen.tla", cfg, workers=1, simulate=nsim, depth=depth, timeout=2400, label="simulate")
        got = r.printed_json("case")
        if len(got) < nsim // 2:
            raise vlib.Infra("simulation %s produced only %d cases" % (cfg, len(got)))
        flows += got
    flows = vlib.dedupe(flows)
    nontriv = sum(1 for c in flows if len(c["groups"]) >= 2 or c["common"])
    nontriv += sum(1 for c in tcases if c["kind"] == "parse" and c["documented"] and (c["prefix"] or len(c["queries"]) > 1))
    nontriv += sum(1 for c in tcases if c["kind"] == "elide" and c["expect"] != c["name"])
    ctx.add_samples([c for c in flows if c["split"] == "upload-file" and len(c["fetched"]) == 2][:1], 1)
    ctx.add_samples([c for c in tcases if c["kind"] == "parse" and c["documented"] and c["prefix"] and len(c["queries"]) > 1][:1], 1)
    verdicts = ctx.replay("comparefront", flows + tcases, "replay of TLC-generated requests and query texts", timeout=3000)
    dev = collections.Counter(v.get("signature", "?") for v in verdicts if not v.get("ok"))
    if dev:
        ctx.cov["replay_deviation_classes"] = dict(dev)
        vlib.log("replay deviation classes: %s" % dict(dev))
    ctx.cov["replay_cases"] = dict(collections.Counter(c["kind"] for c in tcases + flows))
    ctx.cov["flow_cases_split"] = dict(collections.Counter(c["split"] or "-" for c in flows))

    # ---------------------------------------------------------------- (T)
    nh = 8 if q else 80
    tp = os.path.join(ctx.work, "cf-trace.ndjson")
    ctx.harness(["comparefront", "record", tp, nh])
    events = ctx.read_ndjson(tp)
    classes = classify(ctx, tp)
    judged = [i for i in classes]
    if len(judged) < len(events) // 2:
        raise vlib.Infra("only %d of %d recorded events were judged" % (len(judged), len(events)))
    ctx.cov["recorded_events"] = dict(collections.Counter(e["ev"] for e in events))
    ctx.cov["traces_validated_against_impl"] += len(judged)
    ctx.cov["evaluations"] += len(judged)
    nontriv += sum(1 for i in judged if events[i - 1]["ev"] in ("request", "page", "split"))
    bad = {i: c for i, c in classes.items() if c != "ok"}
    if any(c == "harness-ranks" for c in bad.values()):
        raise vlib.Infra("rank table of a recorded event is inconsistent (harness problem)")
    if bad:
        # second, independent execution of the recorder: a deviation counts only if it shows again
        tp2 = os.path.join(ctx.work, "cf-trace2.ndjson")
        ctx.harness(["comparefront", "record", tp2, nh])
        classes2 = classify(ctx, tp2, count=False)
        failing = []
        seen = collections.Counter()
        for i, c in sorted(bad.items()):
            if classes2.get(i) != c:
                raise vlib.Infra("recorded deviation at event %d (%s) did not reproduce (%s)" % (i, c, classes2.get(i)))
            seen[c] += 1
            if seen[c] <= 3 or c not in NAMED:
                e = dict(events[i - 1])
                for k in ("vals", "fetched"):
                    e.pop(k, None)
                failing.append({"signature": c, "detail": "recorded event %d (%s) classified %s by CompareFront_trace" % (i, e.get("ev"), c),
                                "event": json.dumps(e, ensure_ascii=False)[:3000], "family": "comparefront-trace"})
        ctx.report(failing, "trace validation of recorded requests and pages")
        ctx.cov["recorded_deviation_classes"] = dict(seen)
        vlib.log("recorded deviation classes: %s" % dict(seen))
    negative_control(ctx, events, classes)
    ctx.add_samples([{"event": e["ev"], "q": e.get("q"), "titles": ["".join(t) for t in e["obs"]["titles"]]}
                     for e in events if e["ev"] == "page" and not e["obs"]["error"] and len(e["obs"]["titles"]) > 1][:1], 1)

    ctx.cov["distinct_nontrivial"] = nontriv
    ctx.cov["exhaustive"] = True
    return ctx.finish(RULE, assumptions=[
        "label values are non-empty; benchmark base names contain no '='; no label value is the character U+2026",
        "query texts outside the documented shapes are only checked for conservation of their words",
        "simulated (not exhaustive) beyond the small label domains; recorded traces are seeded samples"])


def negative_control(ctx, events, classes):
    """Corrupted copies of accepted events must be rejected by the trace specification."""
    import copy
    ok = lambda i: classes.get(i + 1) == "ok"
    out, want = [], {}
    def put(e, cls):
        out.append(e)
        want[len(out)] = cls
    # (1) one count of an add event off by one
    for i, e in enumerate(events):
        if e["ev"] == "add" and ok(i) and e["lv"]:
            g = copy.deepcopy(e)
            k = sorted(g["lv"])[0]
            g["lv"][k][0]["c"] += 1
            put({"ev": "newgroup"}, None)
            # the group's history up to this add
            j = i
            while events[j]["ev"] != "newgroup":
                j -= 1
            for x in events[j + 1:i]:
                put(x, "ok")
            put(g, "add-labelvalues")
            break
    # (2) a request whose common labels lost a key / whose groups are swapped
    for i, e in enumerate(events):
        if e["ev"] == "request" and ok(i) and e["obs"]["common"]:
            g = copy.deepcopy(e)
            del g["obs"]["common"][sorted(g["obs"]["common"])[0]]
            put(g, "common-labels")
            break
    for i, e in enumerate(events):
        if e["ev"] == "request" and ok(i) and len(e["obs"]["groups"]) > 1 and e["obs"]["groups"][0]["idx"] != e["obs"]["groups"][1]["idx"]:
            g = copy.deepcopy(e)
            g["obs"]["groups"][0], g["obs"]["groups"][1] = g["obs"]["groups"][1], g["obs"]["groups"][0]
            put(g, "group-order")
            break
    # (3) a page with one row count changed
    for i, e in enumerate(events):
        if e["ev"] == "page" and ok(i) and e["obs"]["rows"]:
            g = copy.deepcopy(e)
            k = sorted(g["obs"]["rows"])[0]
            rows = [r for r in g["obs"]["rows"][k] if r]
            if rows:
                rows[0][0]["c"] += 1
                put(g, "page-rows")
                break
    # (4) a parse result that dropped its last sub-query
    for i, e in enumerate(events):
        if e["ev"] == "parse" and ok(i) and len(e["queries"]) > 1 and e["queries"][-1]:
            g = copy.deepcopy(e)
            g["queries"] = g["queries"][:-1]
            put(g, "parse-loses-words")
            break
    if len([c for c in want.values() if c and c != "ok"]) < 3:
        raise vlib.Infra("negative control: could not build corrupted events from the recorded trace")
    out.append({"ev": "reset"})
    p = ctx.write_ndjson("cf-trace-corrupted.ndjson", out)
    got = classify(ctx, p, count=False)
    for i, cls in want.items():
        if cls is not None and got.get(i) != cls:
            raise vlib.Infra("negative control: corrupted event %d (%s) classified %s, expected %s" % (i, out[i - 1]["ev"], got.get(i), cls))
    ctx.cov["negative_control"] = "%d corrupted events rejected" % len([c for c in want.values() if c and c != "ok"])


def add_coverage(taken, r):
    """-coverage 1: number of times every action of the modules was taken (last report of the run)."""
    import re
    txt = r.out[r.out.rfind("The coverage statistics"):]
    for m in re.finditer(r"^<(\w+) line \d+, col \d+ to line \d+, col \d+ of module (\w+)>: (\d+):(\d+)", txt, re.M):
        if m.group(2).startswith("CompareFront") and m.group(1) != "Init":
            taken[m.group(1)] += int(m.group(4))
