"""X04 - the legacy benchstat renderers agree with the tables they render (spec family LegacyRender; extension plan)."""
import collections, json, os, re
import vlib

LEVEL = "model_checking"
TEXT = ("The three renderers of the legacy library golang.org/x/perf/benchstat - FormatText, FormatCSV (with and without norange) "
        "and FormatHTML - are functions from []*Table to output, and every one of them shows the same logical grid: one block per "
        "table in order, headed by the metric (text/CSV: 'name | metric', 'name | old metric | new metric | delta', or "
        "'name \\ metric | configurations'; CSV with the unit and a '±' heading over every range column unless norange; HTML: "
        "the configuration names once, per table the metric spanning the configuration columns, 'delta' for old-new tables); one "
        "line per row in table order, preceded by a group header line wherever Row.Group changes; per row the benchmark name, per "
        "configuration the mean as the row's Scaler formats it with its variation ('mean ±d%'; CSV: the mean in %.5E and d% as "
        "separate fields, the mean alone with norange), blank where the configuration lacks the benchmark, and in old-new tables "
        "Row.Delta and Row.Note verbatim with the HTML classes better / worse / unchanged from Row.Change, nodelta for '~', delta, "
        "note. In text every column of a block starts at one offset, names, headings and notes are left-aligned at it, means and "
        "signed deltas right-aligned at the column's right edge, cells at least two blanks apart, no column further right than the "
        "widest cells of the output need. CSV quotes what needs quoting, HTML escapes names, groups, metrics, configurations and "
        "notes; rendering appends to its writer and leaves the tables unchanged. TLC checks that transcriptions of toText/FormatText, "
        "toCSV/FormatCSV and the HTML template satisfy this contract on every table value a caller can build within small bounds; "
        "every such value is built as Go tables, rendered four ways by the real code, the outputs are abstracted back into "
        "positioned tokens / fields / table rows and compared with what the specification says must be shown and with each other; "
        "recorded renderings of larger random values are validated by TLC against the same contract.")
NOTE = ("Trusted: TLC; the harness's concretisation of tokens (text of the model's width drawn per case from pools with characters "
        "that need CSV quoting and HTML escaping) and its abstraction of output back into tokens (text: maximal pieces without two "
        "adjacent blanks with their character positions; CSV: encoding/csv line by line; HTML: a strict reader of the element "
        "structure the template can produce, entities decoded by package html, U+2212 read as '-'). Numbers: a small set of exact "
        "means; the formatted mean is compared with the row's Scaler applied to the mean (scaling itself is C10's business), the "
        "variation is realised by min/max pairs whose documented formula gives a whole percentage. Free in the contract: an empty "
        "line / nothing for a change TO the empty group, trailing empty cells, the place of '~' inside the delta column, column "
        "widths between the block's and the output's widest cell, the HTML group header's colspan between name+configurations and "
        "all columns, the HTML spacer row, common-directory trimming of configuration names, the '±' the CSV heading puts over the "
        "note column (documentation mismatch, tolerated as built: switch CsvPmOverNote). Not tolerated: the CSV heading takes its "
        "unit from the first row's first cell (switch CsvUnitFromFirstCell, signature csv-heading-unit).")
TECHNIQUE = ("TLA+ model checking (TLC): declarative contract vs transcribed renderers on every small table value + replay of every "
             "generated value into benchstat.FormatText/FormatCSV/FormatHTML + trace validation of recorded renderings")
DESIGN_REF = "DESIGN.md section 4x"

RULE = ("(M) exhaustive TLC runs of LegacyRender.tla: every value built by StartTable/AddRow within the constants, then each of "
        "RenderText / RenderCSV(norange) / RenderCSV / RenderHTML; invariants Conforms (the transcription's output is accepted by "
        "TextShows / CsvShows / HtmlShows), SameGrid, TypeOK, action property Pure. quick: 1-3 configurations, <= 2 tables, <= 2 "
        "rows in all, 2 names x 2 groups x 3 cell kinds (absent, with variation, without) x 3 delta kinds. thorough: five "
        "configurations of the constants (1 configuration: 3 tables / 3 rows / 3 groups / 4 cell kinds / 2 metrics; 2 "
        "configurations: 2 rows x 7 delta kinds, and 3 rows in one table; 3 configurations: 2 rows x 2 metrics, and 3 rows in one "
        "table), one run with -coverage 1. The as-built configurations (both named deviations on, nothing tolerated) must violate "
        "Conforms, the accepted one (both tolerated) must not. (G) the caller's half of the same model prints every well-formed "
        "value with what each renderer must show; each is replayed on the real renderers (+ seeded -simulate values of up to 6 rows "
        "over the large alphabets). (T) recorded renderings of seeded random values (up to 4 configurations, 3 tables, 9 rows, "
        "random text, special units with the real NewScaler) validated event by event by LegacyRender_trace.tla. "
        "distinct_nontrivial = distinct replayed values in which a row lacks a configuration, or a group header is due, or a cell "
        "has no variation, plus recorded values with at least two rows.")

SIG_NOTE = {
    "csv-heading-unit": "CSV heading shows the unit of the first row's first cell (empty if that cell is absent), not the table's unit",
}


def nontrivial(c):
    for t in c["tabs"]:
        for r in t["rows"]:
            if r["g"][0] != "":
                return True
            for cell in r["c"]:
                if cell[0] == "" or cell[2] == "":
                    return True
    return False


class Acc:
    def __init__(self):
        self.next_id = 0
        self.seen = set()
        self.nontriv = 0
        self.bad = collections.Counter()
        self.stat = collections.Counter()


def chunk(ctx, acc, cases, what):
    out = []
    for c in cases:
        c.pop("tag", None)
        k = json.dumps([c["cfg"], c["tabs"]], sort_keys=True)
        if k in acc.seen:
            continue
        acc.seen.add(k)
        out.append((k, c))
    out.sort(key=lambda kc: kc[0])        # TLC prints in worker order; ids (and with them the concretisation) must not depend on it
    cases = [c for _, c in out]
    for c in cases:
        c["id"] = acc.next_id
        acc.next_id += 1
        nc = len(c["cfg"])
        acc.stat["values_%d_configurations" % nc] += 1
        acc.stat["tables"] += len(c["tabs"])
        for t in c["tabs"]:
            acc.stat["rows"] += len(t["rows"])
            for r in t["rows"]:
                acc.stat["cells_absent"] += sum(1 for x in r["c"] if x[0] == "")
                acc.stat["cells_shown"] += sum(1 for x in r["c"] if x[0] != "")
        acc.stat["group_header_lines"] += sum(1 for l in c["text"] if l[0] == "group" and not l[1])
        acc.stat["optional_empty_group_lines"] += sum(1 for l in c["text"] if l[0] == "group" and l[1])
        if nontrivial(c):
            acc.nontriv += 1
    if cases:
        mid = cases[len(cases) // 2]
        ctx.add_samples([{k: mid[k] for k in ("cfg", "tabs", "text", "csv", "html")}], 1)
    verdicts = ctx.replay("legacyrender", cases, what, timeout=3000)
    acc.bad.update(v.get("signature", "") for v in verdicts if not v.get("ok"))
    return len(cases)


def expect_violation(ctx, cfg, what):
    r = ctx.tlc("LegacyRender.tla", cfg, timeout=900, expect_ok=False, label="as-built", count=False)
    if not (r.error and "Invariant Conforms is violated" in r.out):
        raise vlib.Infra("%s: TLC did not show the counterexample for %s (%s)" % (cfg, what, r.error))


def classify_event(e):
    """Signature for a recorded event the trace specification rejects."""
    if e["ev"] == "bad":
        return e.get("sig", "observe")
    if e["ev"] == "csv":
        pre = "csvnr" if e.get("nr") else "csv"
        for line in e["obs"]:
            if line and line[0].startswith("name"):
                if any(re.search(r"(^|\|)m\d+\|$", f) for f in line):
                    return pre + "-heading-unit"
        return pre + "-trace-rejected"
    return e["ev"] + "-trace-rejected"


def validate(ctx, events):
    """Validate the recorded events; a rejected event is classified and reported, the traces that
    show the same class are set aside (counted), the rest is validated again."""
    cur = events
    dropped = collections.Counter()
    for rnd in range(12):
        if not cur:
            break
        p = ctx.write_ndjson("lr-trace-r%d.ndjson" % rnd, cur)
        ok, hwm, r = ctx.trace_validate("LegacyRender_trace.tla", "LegacyRender_trace.cfg", p, timeout=1500)
        if ok:
            return dropped, cur
        if hwm >= len(cur):
            raise vlib.Infra("trace rejected but every event was consumed: %s" % (r.error,))
        e = cur[hwm]
        sig = classify_event(e)
        inp = next((x for x in cur if x["ev"] == "input" and x["t"] == e["t"]), None)
        ctx.report([{"signature": sig, "detail": "recorded %s event rejected by LegacyRender_trace%s" % (
            e["ev"], (": " + e.get("detail", "")) if e["ev"] == "bad" else ""), "event": e, "input": inp,
            "family": "legacyrender-trace"}], "trace validation of recorded renderings")
        same = {x["t"] for x in cur if x["ev"] != "input" and classify_event(x) == sig and (
            sig.endswith("-heading-unit") or x["t"] == e["t"])}
        same.add(e["t"])
        dropped[sig] += len(same)
        cur = [x for x in cur if x["t"] not in same]
    else:
        if not ctx.violations:
            raise vlib.Infra("more than 12 rounds of rejected traces")
    return dropped, []


def negative_control(ctx, accepted):
    """A corrupted copy of the accepted trace must be rejected at the corrupted event."""
    idx = [i for i, e in enumerate(accepted) if e["ev"] == "csv" and len(e["obs"]) > 1 and len(e["obs"][1]) > 1]
    tdx = [i for i, e in enumerate(accepted) if e["ev"] == "text" and len(e["obs"]) > 2 and len(e["obs"][-1]) > 1]
    if not idx or not tdx:
        raise vlib.Infra("negative control: nothing to corrupt")
    for what, i in (("csv field replaced", idx[len(idx) // 2]), ("text row line dropped", tdx[len(tdx) // 3])):
        bad = json.loads(json.dumps(accepted))
        if bad[i]["ev"] == "csv":
            bad[i]["obs"][1][1] = "v0"
        else:
            del bad[i]["obs"][-1]
        p = ctx.write_ndjson("lr-trace-neg.ndjson", bad)
        ok, hwm, r = ctx.trace_validate("LegacyRender_trace.tla", "LegacyRender_trace.cfg", p, timeout=1500)
        if ok or hwm != i:
            raise vlib.Infra("negative control (%s at event %d) not rejected there: ok=%s hwm=%d" % (what, i + 1, ok, hwm))
        ctx.cov["tlc_runs"][-1]["mode"] = "trace (negative control: %s)" % what
    ctx.cov["negative_control"] = "corrupted copies of the accepted trace (a CSV field replaced; a text row line dropped) rejected at the corrupted event"


def run(ctx):
    ctx.build()
    q = ctx.quick
    os.environ.setdefault("JAVA_TOOL_OPTIONS", "-Xmx%s -Xss64m" % ("5g" if q else "10g"))
    acc = Acc()
    # (M)
    if q:
        ctx.tlc("LegacyRender.tla", "LegacyRender_mc_quick.cfg", timeout=900)
    else:
        for k in ("1", "2", "2b", "3", "3b"):
            ctx.tlc("LegacyRender.tla", "LegacyRender_mc_thorough_%s.cfg" % k, timeout=2400)
        cov = ctx.tlc("LegacyRender.tla", "LegacyRender_mc_quick.cfg", timeout=1800, extra=("-coverage", "1"), label="coverage", count=False)
        dead = coverage_gaps(cov.out)
        if dead:
            raise vlib.Infra("coverage run: never evaluated: %s" % dead[:10])
        ctx.cov["coverage"] = "every action and every branch of the contract and of the transcriptions evaluated (tlc -coverage 1)"
        r = ctx.tlc("LegacyRender.tla", "LegacyRender_asbuilt_accepted.cfg", timeout=1800, label="as-built accepted", count=False)
    expect_violation(ctx, "LegacyRender_asbuilt.cfg", "CsvUnitFromFirstCell")
    expect_violation(ctx, "LegacyRender_asbuilt_pm.cfg", "CsvPmOverNote")
    # (G)
    gens = ["LegacyRender_gen_quick.cfg"] if q else ["LegacyRender_gen_thorough_%s.cfg" % k for k in ("1", "2", "3")]
    ncases = 0
    for cfg in gens:
        g = ctx.tlc("LegacyRender_gen.tla", cfg, timeout=2400, label="gen")
        cases = g.printed_json("case")
        del g
        if len(cases) < 5000:
            raise vlib.Infra("generator %s produced %d cases" % (cfg, len(cases)))
        ncases += chunk(ctx, acc, cases, "replay of TLC-generated table values (%s) on the legacy renderers" % cfg)
        del cases
    nsim = 1500 if q else 20000
    s = ctx.tlc("LegacyRender_gen.tla", "LegacyRender_gen_sim.cfg", workers=1, simulate=nsim, depth=12, timeout=2400, label="simulate+gen")
    sims = s.printed_json("case")
    del s
    if len(sims) < nsim * 0.5:
        raise vlib.Infra("simulation produced %d values for %d behaviours" % (len(sims), nsim))
    nsims = chunk(ctx, acc, sims, "replay of TLC-simulated table values on the legacy renderers")
    # (T)
    ntr = 400 if q else 6000
    tp = os.path.join(ctx.work, "lr-trace.ndjson")
    ctx.harness(["legacyrender", "record", tp, ntr])
    events = ctx.read_ndjson(tp)
    inputs = [e for e in events if e["ev"] == "input"]
    if len(inputs) != ntr:
        raise vlib.Infra("recorder wrote %d values for %d requested" % (len(inputs), ntr))
    big = sum(1 for e in inputs if sum(len(t["rows"]) for t in e["tabs"]) >= 2)
    st0, tr0 = ctx.cov["states"], ctx.cov["transitions"]
    dropped, accepted = validate(ctx, events)
    if accepted:
        negative_control(ctx, accepted)
    ctx.cov["states"], ctx.cov["transitions"] = st0, tr0      # trace runs are not state-space evidence
    ctx.cov["traces_validated_against_impl"] += ntr
    ctx.cov["evaluations"] += len(events) - ntr
    ctx.cov["recorded_events"] = len(events)
    ctx.cov["recorded_values_set_aside_by_signature"] = dict(dropped)
    ctx.add_samples([{"recorded": [e for e in events if e["t"] == inputs[len(inputs) // 2]["t"]][:2]}], 1)
    if acc.bad:
        ctx.cov["deviation_signatures"] = dict(acc.bad)
        vlib.log("deviations by signature: %s" % dict(acc.bad))
    ctx.cov["distinct_nontrivial"] = acc.nontriv + big
    ctx.cov["replayed_values"] = {"exhaustive": ncases, "simulated": nsims}
    ctx.cov["exercised"] = dict(acc.stat)
    ctx.cov["exhaustive"] = True
    return ctx.finish(RULE, assumptions=[
        "tables are values Collection.Tables() can return up to the numbers: all tables of a call share Configs, OldNewDelta = two "
        "configurations, a Metrics without unit stands for a configuration that lacks the benchmark, every table has a row and a "
        "metric, delta / note / change only in old-new tables, Table.Groups lists the collection's groups (at least two whenever a "
        "row carries a group)",
        "names, groups, metrics, units, configurations and notes contain no line breaks, no leading / trailing blank and no two adjacent "
        "blanks; names contain no blank; notes start with '('",
        "width = number of characters (runes), which is what the code counts",
        "one Scaler for all rows in replay cases (so that cell widths are the model's), the row's own NewScaler in recorded values",
        "the exhaustive families are enumerated completely; simulated and recorded values are sampled (seeded)",
    ])


def coverage_gaps(out):
    """Spans of LegacyRender.tla that -coverage 1 reports with count 0 (actions and sub-expressions)."""
    dead = []
    for m in re.finditer(r"^\s*(\|*)?(line \d+, col \d+ to line \d+, col \d+ of module LegacyRender): 0\s*$", out, re.M):
        dead.append(m.group(2))
    for m in re.finditer(r"^<(\w+) line \d+, col \d+ to line \d+, col \d+ of module LegacyRender>: 0:0", out, re.M):
        dead.append("action " + m.group(1))
    return dead
