"""X05 - the client side of the storage protocol: storage.Client uploads, the two streaming readers,
and cmd/benchsave (families ClientProto, ClientProtoRead, ClientProtoSave).  Extension plan: not in MANIFEST."""
import json, os, random, re
import vlib

LEVEL = "model_checking"
TEXT = ("One upload made with storage.Client is a protocol between the caller (NewUpload, CreateFile, writes, Commit, Abort, "
        "cancellation of the context), the goroutine that runs the HTTP request, the pipe between them, the connection and the "
        "storage server. Contract: every call returns (no hang, no panic) in every state, also on an upload that is already over or "
        "never started; Commit returns nil if and only if the server committed exactly the files and records the caller wrote, and "
        "then the returned UploadID/ViewURL name them and they can be queried; Abort before Commit, a failed Write/CreateFile, an "
        "error answer (4xx/5xx at any file), a broken connection or a cancelled context never end in a successful Commit, and "
        "nothing of such an upload can be queried - the one exception being an error caused by losing the server's 200 on the way "
        "back, where the data is stored although Commit failed; the first error sticks to later CreateFile/Commit calls; a Write "
        "fails only after something went wrong; the goroutine ends once its verdict is collected. Query and ListUploads hand out "
        "exactly the server's items, in order and whole; after Next has returned false Err is nil iff the answer was complete; "
        "status errors, refused connections and cancelled contexts are reported from the start; Close leaves no response body "
        "open. benchsave exits 0 iff every input and the header could be read, every file holds a benchmark line and the server "
        "accepted; then ONE upload holds the files in order under their base names, each preceded by the header and a blank line, "
        "and the view URL is the last line of stdout; otherwise the exit status is non-zero, stderr says why and nothing is stored; "
        "it always terminates.")
NOTE = ("Trusted: TLC; net/http, mime/multipart and sqlite as they are; the fault-injecting TCP relay and the mapping from a model "
        "fault plan to relay / server settings in the harness; goroutine-leak detection through 'response body never closed'; "
        "hang detection through 'parked on a nil channel' in the goroutine dump (20 s otherwise). Timing decides which member of "
        "an allowed set is seen; each case is run at two paces and the members seen are counted, not prescribed. The server is the "
        "local configuration (sqlite, MemFS); benchsave runs with a pre-seeded token cache (no flag turns OAuth off).")
TECHNIQUE = ("TLA+ model checking (TLC) of the client/goroutine/connection/server protocol + replay of every (fault plan, call "
             "sequence) against the real client and a real server behind a fault-injecting relay + trace validation of a seeded random caller")
DESIGN_REF = "DESIGN.md section 4x"

RULE = ("(M) exhaustive TLC: ClientProto (2 files x <=1 write (thorough 2) x <=2 calls after the end, every fault plan: none, unparsable URL, 403 at "
        "the start, storage fault at file k, connection cut after item k<=MaxAt, reply cut before / inside the 200, with cancellation at every point) with "
        "8 invariants, 1 action property and 2 liveness properties; ClientProtoRead (<=2 (3) items x <=5 (7) calls x 12 answers x 2 readers); "
        "ClientProtoSave (<=2 (3) file arguments of 5 kinds x 6 headers x 6 servers x -v). The as-built configurations must each show their "
        "counterexample. (G) every (plan, call sequence) of ClientProto_gen replayed twice (two paces) against the real client; every call "
        "sequence of ClientProtoRead_gen; every command line of ClientProtoSave_gen (quick: a seeded sample of the unparsable-URL ones). "
        "(T) a seeded random caller (<=5 files x <=4 writes, random plan / pace / cancellation) validated by ClientProto_trace, plus a corrupted-trace "
        "control. distinct_nontrivial = (plan, call sequence) pairs with a fault plan or a cancellation or a call after the end, plus reader "
        "sequences against an answer that is not complete, plus benchsave command lines that must fail.")


def group_upload(objs):
    groups = {}
    for o in objs:
        ops = tuple(h["op"] for h in o["hist"])
        key = (o["plan"]["kind"], o["plan"]["at"], ops)
        g = groups.setdefault(key, {})
        g[(tuple(h["res"] for h in o["hist"]), bool(o["stored"]))] = 1
    cases = []
    for (kind, at, ops), g in sorted(groups.items()):
        cases.append({"tag": "case", "plan": {"kind": kind, "at": at}, "ops": list(ops),
                      "allowed": [{"res": list(r), "stored": s} for (r, s) in sorted(g)]})
    return cases


def group_read(objs):
    groups = {}
    for o in objs:
        a = o["ans"]
        ops = tuple(h["op"] for h in o["hist"])
        key = (o["kind"], a["t"], a["n"], a["k"], bool(a["torn"]), ops)
        groups.setdefault(key, {})[tuple(h["res"] for h in o["hist"])] = 1
    cases = []
    for (kind, t, n, k, torn, ops), g in sorted(groups.items()):
        cases.append({"tag": "read", "kind": kind, "ans": {"t": t, "n": n, "k": k, "torn": torn}, "ops": list(ops),
                      "allowedres": [list(r) for r in sorted(g)]})
    return cases


def equiv_cases(rng, extra):
    qs = ["eq:yes", "group:g0", "group:g1 eq:yes", "branch:b2", "branch>b1", "branch<b3 group:g1", "iter:1", "name:Eq1", "sub:2 gomaxprocs:8",
          "eq:no", "group:g0 group:g1", "", "upload-file:eq3f1.txt", "badword", "eq:yes iter>1 iter<4"]
    labs = [[], ["group"], ["group", "branch"], ["nosuch"], ["branch", "eq", "group"]]
    out = [{"tag": "equiv", "kind": "query", "q": q} for q in qs]
    out += [{"tag": "equiv", "kind": "list", "q": q, "labels": l, "limit": n} for q in qs for l in labs for n in (0, 1, 3)]
    for i in range(extra):
        out.append({"tag": "equiv", "kind": "list", "q": " ".join(rng.sample(qs, 2)).strip(), "labels": rng.choice(labs), "limit": rng.choice([0, 1, 2, 3, 50])})
    return out


def require_cex(ctx, module, cfg, inv):
    r = ctx.tlc(module, cfg, timeout=900, expect_ok=False, count=False, workers=4)
    if not (r.error and inv in r.out):
        raise vlib.Infra("%s/%s did not show the counterexample to %s" % (module, cfg, inv))


def run(ctx):
    bins = ctx.build(binaries=("benchsave",))
    q = ctx.quick
    tier = "quick" if q else "thorough"
    rng = random.Random(ctx.seed)

    # ---------------- (M)
    extra = ("-coverage", "1") if not q else ()
    rm = ctx.tlc("ClientProto.tla", "ClientProto_mc_%s.cfg" % tier, timeout=1500, extra=extra)
    ctx.tlc("ClientProtoRead.tla", "ClientProtoRead_mc_%s.cfg" % tier, timeout=600, extra=extra)
    ctx.tlc("ClientProtoSave.tla", "ClientProtoSave_mc_%s.cfg" % tier, timeout=600)
    if not q:
        # non-vacuity: every action of the protocol model was taken
        zero = re.findall(r"<(\w+) line \d+, col \d+ to line \d+, col \d+ of module ClientProto>: 0:0", rm.out)
        if zero:
            raise vlib.Infra("actions never taken in ClientProto_mc_thorough: %s" % sorted(set(zero)))
    for cfg, inv in (("ClientProto_asbuilt_abort.cfg", "NoHang"), ("ClientProto_asbuilt_panic.cfg", "NoPanic"), ("ClientProto_asbuilt_leak.cfg", "NoLeak")):
        require_cex(ctx, "ClientProto.tla", cfg, inv)
    require_cex(ctx, "ClientProtoRead.tla", "ClientProtoRead_asbuilt.cfg", "is violated")
    require_cex(ctx, "ClientProtoSave.tla", "ClientProtoSave_asbuilt.cfg", "ExitStatusRight")
    require_cex(ctx, "ClientProtoSave.tla", "ClientProtoSave_asbuilt_hang.cfg", "Terminates")

    # ---------------- (G) uploads
    rg = ctx.tlc("ClientProto_gen.tla", "ClientProto_gen_%s.cfg" % tier, timeout=1500, label="bfs+gen", heap="8g")
    up = group_upload(rg.printed_json("case"))
    if len(up) < 1000:
        raise vlib.Infra("ClientProto_gen produced %d cases" % len(up))
    members = sum(len(c["allowed"]) for c in up)
    env = {"X05_BENCHSAVE": bins["benchsave"], "X05_WORKERS": "8" if q else "12"}
    # ctx.replay has no env parameter: export for the harness subprocess
    os.environ.update(env)
    vs = ctx.replay("clientproto", up, "calls on storage.Upload under a fault plan", timeout=3000)
    seen = 0
    for v in vs:
        m = re.match(r"variants ([\d,]+)", str(v.get("detail", "")))
        if m:
            seen += len(m.group(1).split(","))
    ctx.cov["upload_cases"] = len(up)
    ctx.cov["allowed_members"] = members
    ctx.cov["allowed_members_seen"] = seen
    nontrivial = sum(1 for c in up if c["plan"]["kind"] != "none" or "cancel" in c["ops"] or
                     any(o in ("commit", "abort") for o in c["ops"][:-1]))

    # ---------------- (G) readers
    rr = ctx.tlc("ClientProtoRead_gen.tla", "ClientProtoRead_gen_%s.cfg" % tier, timeout=900, label="bfs+gen")
    rd = group_read(rr.printed_json("read"))
    if len(rd) < 500:
        raise vlib.Infra("ClientProtoRead_gen produced %d cases" % len(rd))
    ctx.replay("clientproto", rd, "calls on storage.Query / storage.UploadList", timeout=3000)
    ctx.cov["reader_cases"] = len(rd)
    nontrivial += sum(1 for c in rd if c["ans"]["t"] != "ok")
    eq = equiv_cases(rng, 40 if q else 600)
    ctx.replay("clientproto", eq, "client answers against the database's (auxiliary)", timeout=3000)
    ctx.cov["auxiliary"] = "equiv cases (client vs database answers) are an auxiliary oracle: %d" % len(eq)

    # ---------------- (G) benchsave
    rs = ctx.tlc("ClientProtoSave_gen.tla", "ClientProtoSave_gen_%s.cfg" % tier, timeout=900, label="bfs+gen")
    sv = rs.printed_json("save")
    if len(sv) < 500:
        raise vlib.Infra("ClientProtoSave_gen produced %d cases" % len(sv))
    sv.sort(key=lambda c: json.dumps(c, sort_keys=True))
    if q:
        # an unparsable URL behaves the same whatever else is on the command line: a seeded sample
        bad = [c for c in sv if c["server"] == "badurl" and c["args"] and c["header"] != "missing"]
        keep = set(id(c) for c in rng.sample(bad, min(10, len(bad))))
        sv = [c for c in sv if not (c["server"] == "badurl" and c["args"] and c["header"] != "missing") or id(c) in keep]
    ctx.replay("clientproto", sv, "benchsave command lines", timeout=3000)
    ctx.cov["benchsave_cases"] = len(sv)
    nontrivial += sum(1 for c in sv if not c["expect"]["exit0"])

    # ---------------- (T)
    ntr = 150 if q else 1500
    tp = os.path.join(ctx.work, "clientproto-trace.ndjson")
    p = ctx.harness(["clientproto", "record", tp, ntr], timeout=3000)
    for line in p.stdout.splitlines():
        if line.startswith('{"fails"') or '"recordfail"' in line:
            o = json.loads(line)
            ctx.report([{"signature": "record-" + f.split(": ", 1)[1].split(" ", 1)[0], "detail": f, "family": "clientproto-record"} for f in o["fails"][:20]],
                       "random caller: content / status checks")
    ok, hwm, r = ctx.trace_validate("ClientProto_trace.tla", "ClientProto_trace.cfg", tp, timeout=1500)
    events = ctx.read_ndjson(tp)
    if not ok:
        badev = events[min(hwm, len(events) - 1)]
        t = badev.get("t")
        tr = [e for e in events if e.get("t") == t]
        inv = re.search(r"Invariant (\w+) is violated", r.out)
        sig = "trace-" + (inv.group(1) if inv else "%s-%s" % (badev.get("ev"), badev.get("res", badev.get("stored", ""))))
        # a second recording must show it again (timing decides what is seen, not whether it is allowed)
        tp2 = os.path.join(ctx.work, "clientproto-trace2.ndjson")
        ctx.harness(["clientproto", "record", tp2, ntr], timeout=3000)
        ok2, hwm2, r2 = ctx.trace_validate("ClientProto_trace.tla", "ClientProto_trace.cfg", tp2, timeout=1500)
        if ok2:
            raise vlib.Infra("recorded trace rejected at event %d (%s) but a second recording was accepted - no verdict" % (hwm, json.dumps(badev)))
        ctx.report([{"signature": sig, "family": "clientproto-trace", "detail": "event %d of the recorded trace is not a step of ClientProto: %s; the upload: %s"
                     % (hwm, json.dumps(badev), json.dumps(tr)[:1500])}], "trace validation of the random caller")
    ctx.cov["traces_validated_against_impl"] += ntr
    ctx.cov["trace_events"] = len(events)
    # negative control: one result flipped must be rejected at that event
    idx = [i for i, e in enumerate(events) if e.get("ev") == "commit.ret" and e.get("res") == "ok"]
    if idx and ok:
        k = idx[len(idx) // 2]
        bad = [dict(e) for e in events]
        # the 'end' event of that upload says stored: flip it
        j = next(i for i in range(k, len(bad)) if bad[i].get("ev") == "end")
        bad[j]["stored"] = False
        bp = ctx.write_ndjson("clientproto-trace-corrupt.ndjson", bad)
        okc, hwmc, rc = ctx.trace_validate("ClientProto_trace.tla", "ClientProto_trace.cfg", bp, timeout=1500)
        ctx.cov["tlc_runs"][-1]["mode"] = "trace (negative control)"
        if okc or hwmc != j:
            raise vlib.Infra("corrupted trace (stored flipped at event %d) was not rejected there (accepted=%s hwm=%d)" % (j, okc, hwmc))
        ctx.cov["negative_control"] = "trace with 'stored' flipped after a successful Commit rejected at event %d" % j

    ctx.cov["distinct_nontrivial"] = nontrivial
    ctx.cov["exhaustive"] = True
    ctx.add_samples([up[len(up) // 3], rd[len(rd) // 2], sv[len(sv) // 2]], 3)
    return ctx.finish(RULE, assumptions=[
        "the server is storage/app on sqlite (in memory) and MemFS behind an httptest server; HTTP/1.1",
        "connection faults are a TCP relay closing both directions once a chosen item of the request / a chosen byte of the response has passed",
        "which member of an allowed set shows up depends on timing; membership is required, not a particular member",
        "Abort's return value is not prescribed (with the real server a successful abort is reported as the server's 'unexpected field' error)",
        "benchsave runs with XDG_CONFIG_HOME holding a never-expiring token: there is no switch that turns OAuth off for a local server",
    ])
