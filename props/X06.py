"""X06 - the legacy benchmark format package storage/benchfmt: reader, name labels, printer
(spec families OldFmt, OldFmtLine, OldFmtName; extension plan)."""
import collections, json, os, re
import vlib

LEVEL = "model_checking"
TEXT = ("golang.org/x/perf/storage/benchfmt, the format package of the storage server, its clients and the legacy benchstat. "
        "Reader: label lines (key starting with a lower-case letter, no upper case and no space in it, ':', then nothing or ASCII "
        "blanks and a value; terminator LF or CR LF) update the persistent labels, an empty value removes the label; every line "
        "whose first field begins with Benchmark and is followed by further fields yields a Result carrying the labels in effect "
        "at that line (a snapshot: later lines never alter a Result already handed out), the 1-based physical line number, the "
        "line as Content and the name labels of its name; everything else is ignored; at the end Next returns false for good and "
        "Err reports a read error, nil at EOF. Permanent labels are those passed to AddLabels or else the file header - the label "
        "lines before the first other line, if and only if that line is blank - and no later line overrides or removes them; "
        "AddLabels(L) means what a header L means. Name "
        "labels are a function of the name alone: a trailing -N (N a number, after the LAST '-') is gomaxprocs, the rest is split "
        "at '/', the first part is name, the i-th further part is key=value (split at the first '=') or sub<i>, later definitions "
        "of a key win, empty values define nothing. Printer.Print writes exactly the label lines needed (removed labels as 'key:', "
        "new or changed ones as 'key: value', labels with empty values count as absent) and then the content, so that reading the "
        "printed text gives results with equal labels, name labels and content for every sequence of results, and printing what "
        "was read reproduces the text; a write error is returned and nothing further is written. TLC proves these properties on "
        "explicit models of Reader.Next / AddLabels / Printer.Print (all texts of <= 6-8 lines over 2-3 keys x 2 values, all "
        "result sequences over 3 keys x 2-3 values incl. empty values), on every physical line of <= 4-6 characters / 5-6 field "
        "tokens over the character classes of the format, and on every name of <= 5-6 tokens; every explored call, line and name is replayed on "
        "the real package, and recorded executions on larger random inputs are validated against the model.")
NOTE = ("Trusted: TLC; the harness's rendering of abstract lines into text (several spellings per line kind, LF / CR LF) and of "
        "character classes into characters, its abstraction of the lines a Printer wrote (exact match with 'key: value' / 'key:' / "
        "the content). Free in the contract (the specification allows either, the plan lists what the code does): whether a line "
        "that begins with Benchmark but is not a well-formed result line yields a Result; the order of the printed label lines; "
        "for names: whether a later empty definition removes an earlier one, whether a part with an empty key counts, whether the "
        "-N suffix or an explicit gomaxprocs part wins. Outside the domain: values and contents ending in CR (lost by the CR LF "
        "line splitting, as finding C01-cr of the new package; OldFmtLine_neg_cr.cfg shows it), keys no label line can carry, "
        "results modified after they were handed to Print, AddLabels after the first Next or with empty values. Not tolerated: "
        "the header decision taken from a flag sampled at entry of Next (switch HeaderReopens, signatures header-*).")
TECHNIQUE = ("TLA+ model checking (TLC): stateful model of reader / printer / reader / printer with header ghost, function-style "
             "models of line classification (with C02's FmtLine instantiated for the comparison with the new reader) and name "
             "labels + replay of every explored call, line and name on the real package + trace validation of recorded executions")
DESIGN_REF = "DESIGN.md section 4x"

RULE = ("(M) exhaustive TLC runs: OldFmt.tla with the reader as source (every AddLabels argument, every text over set/del/blank/"
        "other/bench lines within MaxLines) and with a caller as source (every sequence of hand-built results incl. empty values, "
        "every order of the label lines, every position of a write failure); invariants TypeOK RoundTrip BeliefSound "
        "PrintedHasNoHeader Necessary Stable HeaderAtStart HeaderDecided AddIsHeader PermProtected LineNumOK, action properties PermStable "
        "EndIsFinal; OldFmtLine.tla (OpAgrees RenderStable Disjoint NewDiff) and OldFmtName.tla (OpAllowed NoEmptyValues "
        "PlainName Alias) on every line / name within the bounds (quick: in the generator runs). OldFmt_asbuilt.cfg must violate "
        "HeaderAtStart, OldFmt_asbuilt_add.cfg AddIsHeader and OldFmtLine_neg_cr.cfg RenderStable. (G) OldFmt_gen prints one case per explored returning call (Next "
        "returning a result / false / false again; Print; failing Print) with the BFS-shortest history before it, OldFmtLine_gen "
        "and OldFmtName_gen one case per line / name; all are replayed on the real package, and whatever the real Reader "
        "returns is sent round Printer -> Reader -> Printer. (T) recorded random texts (3-14 keys, 5-75 lines, AddLabels, read "
        "errors) and hand-built result sequences validated event by event by OldFmt_trace.tla; a corrupted trace must be "
        "rejected. distinct_nontrivial = replayed reader cases with a blank or other line before the first benchmark line or "
        "with AddLabels, plus caller cases that remove or re-add a label, plus lines that are label or benchmark lines, plus "
        "names with at least one separator, plus recorded Next / Print events.")

SIG_NOTE = {
    "header-stale-flag": "Reader.Next decides whether the permanent labels are settled from a flag sampled at entry of the call",
    "header-reopened-by-blank-line": "a second blank line inside the first Next makes the labels read so far permanent",
    "header-forgotten-at-other-line": "a non-blank line after the header (inside the first Next) forgets the permanent labels",
    "header-forgotten-at-benchmark-line": "the first benchmark line after a header forgets the permanent labels",
}


def must_violate(ctx, module, cfg, prop):
    r = ctx.tlc(module, cfg, timeout=900, expect_ok=False, count=False, label="asbuilt")
    if not re.search(r"(Invariant|Action property) %s is violated" % prop, r.out):
        tail = "\n".join(l for l in r.out.splitlines() if not l.startswith('"'))[-1500:]
        raise vlib.Infra("%s/%s did not show the counterexample to %s:\n%s" % (module, cfg, prop, tail))


def add_coverage(taken, r, module):
    txt = r.out[r.out.rfind("The coverage statistics"):]
    for m in re.finditer(r"^<(\w+) line \d+, col \d+ to line \d+, col \d+ of module (\w+)>: (\d+):(\d+)", txt, re.M):
        if m.group(2) == module and m.group(1) != "Init":
            taken[m.group(1)] += int(m.group(4))


def parse_cases(out):
    """the printed cases, deduplicated and in an order that does not depend on TLC's workers"""
    raw = set()
    for line in out.splitlines():
        if line.startswith('"{') and '\\"tag\\":\\"case\\"' in line:
            raw.add(line)
    res = []
    for line in sorted(raw):
        try:
            o = json.loads(json.loads(line))
        except Exception:
            continue
        o.pop("tag", None)
        res.append(o)
    return res


def slim(c):
    """drop what the harness does not need (results of non-returning steps)"""
    for s in c.get("path", ()):
        if s.get("a") == "line" and not s.get("ret"):
            s.pop("res", None)
    return c


def nontrivial(c):
    if c.get("fam") == "line":
        return any(s["kind"] != "ignored" for s in c["allowed"])
    if c.get("fam") == "name":
        return any(t in ("/", "=", "-") for t in c["name"])
    if c.get("src") == "reader":
        if any(s["a"] == "add" for s in c["path"]):
            return True
        for s in c["path"]:
            if s["a"] == "line":
                if s["l"]["t"] in ("blank", "other"):
                    return True
                if s["l"]["t"] == "bench":
                    return False
        return False
    prev = {}
    for s in c["path"]:
        if s["a"] != "print":
            return True
        cur = {k: v for k, v in (s["labels"] or {}).items()} if isinstance(s["labels"], dict) else {}
        if any(k not in cur or cur[k] == "" for k in prev):
            return True
        prev = {k: v for k, v in cur.items() if v != ""}
    return False


def run(ctx):
    ctx.build()
    q = ctx.quick
    # ---------------------------------------------------------------- (M)
    taken = collections.Counter()
    cover = [] if q else ["-coverage", "1"]
    mcs = [("OldFmt.tla", "OldFmt_mc_quick.cfg"), ("OldFmt.tla", "OldFmt_mc_quick_caller.cfg")] if q else \
          [("OldFmt.tla", "OldFmt_mc_thorough.cfg"), ("OldFmt.tla", "OldFmt_mc_thorough_caller.cfg"),
           ("OldFmtLine.tla", "OldFmtLine_mc_thorough.cfg"), ("OldFmtName.tla", "OldFmtName_mc_thorough.cfg")]
    if os.environ.get("X06_SKIP_M"):      # development aid only (mutant runs: mode M does not see the repository)
        vlib.log("X06_SKIP_M set: exhaustive model checking skipped in this run")
        ctx.cov["model_checking_skipped"] = True
        mcs = []
    for module, cfg in mcs:
        r = ctx.tlc(module, cfg, timeout=2400, extra=cover if module == "OldFmt.tla" else [])
        if cover and module == "OldFmt.tla":
            add_coverage(taken, r, "OldFmt")
        r.out = ""
    if cover and mcs:
        # TLC names an action after the innermost named operator it can attribute the step to
        for wrapper, inner in (("P1PrintSome", "P1Print"), ("PrintFailSome", "PrintFail"), ("R1AddSome", "R1Add"),
                               ("R1ScanSome", "R1Scan"), ("R1EndSome", "R1End"), ("CallerSome", "CallerResult")):
            taken[inner] += taken.pop(wrapper, 0)
        want = {"R1Add", "R1Begin", "R1Scan", "R1End", "R1After", "CallerResult", "P1Print", "PrintFail", "R2Begin", "R2Scan", "P2Print"}
        zero = sorted(a for a in want if taken.get(a, 0) == 0)
        if zero:
            raise vlib.Infra("vacuous actions (never taken in any configuration): %s (seen %s)" % (zero, dict(taken)))
        ctx.cov["actions_taken"] = dict(taken)
    if not os.environ.get("X06_SKIP_M"):
        must_violate(ctx, "OldFmt.tla", "OldFmt_asbuilt.cfg", "HeaderAtStart")
        must_violate(ctx, "OldFmt.tla", "OldFmt_asbuilt_add.cfg", "AddIsHeader")
        must_violate(ctx, "OldFmtLine.tla", "OldFmtLine_neg_cr.cfg", "RenderStable")

    # ---------------------------------------------------------------- (G)
    gens = [("OldFmt_gen.tla", "OldFmt_gen_quick.cfg", 20000), ("OldFmt_gen.tla", "OldFmt_gen_quick_caller.cfg", 5000),
            ("OldFmtLine_gen.tla", "OldFmtLine_gen_quick.cfg", 50000), ("OldFmtName_gen.tla", "OldFmtName_gen_quick.cfg", 20000)] if q else \
           [("OldFmt_gen.tla", "OldFmt_gen_thorough.cfg", 100000), ("OldFmt_gen.tla", "OldFmt_gen_thorough_3keys.cfg", 100000),
            ("OldFmt_gen.tla", "OldFmt_gen_thorough_caller.cfg", 20000),
            ("OldFmtLine_gen.tla", "OldFmtLine_gen_thorough.cfg", 300000), ("OldFmtName_gen.tla", "OldFmtName_gen_thorough.cfg", 200000)]
    next_id = 0
    nontriv = 0
    bad = collections.Counter()
    stat = collections.Counter()
    for module, cfg, least in gens:
        r = ctx.tlc(module, cfg, timeout=3000, label="bfs+gen")
        cases = parse_cases(r.out)
        r.out = ""
        cases = [slim(c) for c in cases]
        if len(cases) < least:
            raise vlib.Infra("generator %s printed only %d cases" % (cfg, len(cases)))
        for c in cases:
            c["id"] = next_id
            next_id += 1
        nt = sum(1 for c in cases if nontrivial(c))
        nontriv += nt
        kind = cases[0].get("fam") or cases[0].get("src")
        stat["cases_" + kind] += len(cases)
        if kind == "line":
            for c in cases:
                stat["line_class_" + c["class"]] += 1
                if len(c["allowed"]) > 1:
                    stat["lines_free"] += 1
        if kind == "name":
            stat["names_free"] += sum(1 for c in cases if c["free"])
        if kind == "reader":
            stat["next_calls"] += sum(1 for c in cases for s in c["path"] if s["a"] in ("end", "after") or s.get("ret"))
        vlib.log("%s: %d cases, %d non-trivial" % (cfg, len(cases), nt))
        interesting = [c for c in cases if nontrivial(c) and (len(c.get("path", ())) >= 5 or kind in ("line", "name"))]
        if interesting:
            ctx.add_samples([interesting[len(interesting) // 2]], 1)
        verdicts = ctx.replay("oldfmt", cases, "replay of %s cases on storage/benchfmt (%s)" % (kind, cfg), timeout=3000)
        bad.update(v.get("signature", "") for v in verdicts if not v.get("ok"))
        bad.update(v["concrete"] for v in verdicts if not v.get("ok") and v.get("concrete"))
        obs = os.path.join(ctx.work, "oldfmt-obs.json")
        if os.path.exists(obs):
            ctx.cov.setdefault("observations", {}).update(json.load(open(obs)))
            os.remove(obs)
    ctx.cov["gen"] = dict(stat)
    if bad:
        ctx.cov["deviation_signatures"] = dict(bad)
        for s, n in sorted(bad.items()):
            vlib.log("deviation class %s: %d cases%s" % (s, n, (" - " + SIG_NOTE[s]) if s in SIG_NOTE else ""))

    # fixed probes of behaviour nothing documents (observations, no verdict)
    pp = os.path.join(ctx.work, "oldfmt-probe.json")
    ctx.harness(["oldfmt", "probe", pp])
    ctx.cov["undocumented_behaviour_probes"] = json.load(open(pp))

    # ---------------------------------------------------------------- (T)
    ntr = 120 if q else 2500
    tp = os.path.join(ctx.work, "of-trace.ndjson")
    ctx.harness(["oldfmt", "record", tp, ntr], timeout=1800)
    events = ctx.read_ndjson(tp)
    for e in events:
        e.pop("raw", None)
    nrej = validate(ctx, events)
    calls = sum(1 for e in events if e["ev"] in ("next", "print", "add"))
    ctx.cov["traces_validated_against_impl"] += ntr
    ctx.cov["evaluations"] += calls
    ctx.cov["recorded_events"] = len(events)
    ctx.cov["recorded_traces_rejected"] = nrej
    one = [e for e in events if e["t"] == 1][:8]
    ctx.add_samples([{"trace_prefix": one}], 1)
    ctx.cov["distinct_nontrivial"] = nontriv + calls
    ctx.cov["exhaustive"] = True
    return ctx.finish(RULE, assumptions=[
        "label keys are keys a label line can carry, label values are not empty (hand-built results: empty values count as absent), hold no newline, no leading blank and no trailing CR",
        "results are not modified after Next returned them or after they were given to Print; AddLabels is called at most once, before the first Next, without empty values",
        "a benchmark line of the stateful model is a well-formed result line; lines that begin with Benchmark but are malformed are covered by OldFmtLine only, where the reader is free",
        "positional sub-name labels are numbered by their position among all parts after the first (sub<i>), as the stored data is keyed",
        "input lines are shorter than bufio.Scanner's 64 KiB token limit",
    ])


def classify_event(e, inv):
    if e["ev"] == "next":
        return "trace-next-" + (inv or "not-a-step")
    if e["ev"] == "print":
        return "trace-print-" + (inv or "not-a-step")
    return "trace-" + e["ev"] + "-" + (inv or "not-a-step")


def documented_results(trace):
    """Triage only (verdicts come from TLC): the labels the documented reader rules give for the benchmark
    lines of one recorded trace (add / next events)."""
    labels, perm, out = {}, None, []
    for e in trace:
        if e["ev"] == "add":
            perm = dict(e["labels"])
            labels.update(perm)
        elif e["ev"] == "next":
            for l in e["lines"]:
                if l["t"] in ("set", "del"):
                    if perm is not None and l["k"] in perm:
                        continue
                    if l["t"] == "set":
                        labels[l["k"]] = l["v"]
                    else:
                        labels.pop(l["k"], None)
                    continue
                if perm is None:
                    perm = dict(labels) if l["t"] == "blank" else {}
                if l["t"] == "bench":
                    out.append(dict(labels))
    return out


def tlc_rounds(ctx, events, cfg, name, what, asbuilt_probe):
    """Validate events with cfg; a rejected event is classified and reported, its trace set aside, the rest
    validated again (at most 8 rounds).  Returns (accepted events, number of rejected traces)."""
    cur, nrej = events, 0
    end = [{"ev": "reset", "t": -1, "lines": [], "labels": {}, "ok": False, "err": False}]
    for rnd in range(8):
        if not cur:
            return cur, nrej
        p = ctx.write_ndjson("%s-r%d.ndjson" % (name, rnd), cur + end)
        ok, hwm, r = ctx.trace_validate("OldFmt_trace.tla", cfg, p, timeout=1800)
        if ok:
            return cur, nrej
        inv, bad = None, None
        if r.error and "Invariant" in r.error:
            ls = re.findall(r"^/\\ l = (\d+)", r.out, re.M)
            inv = re.search(r"Invariant (\w+) is violated", r.error).group(1)
            if ls:
                bad = int(ls[-1]) - 2
        elif r.error:
            raise vlib.Infra("trace validation failed without a verdict: %s" % r.error)
        else:
            bad = hwm
        if bad is None or bad < 0 or bad >= len(cur):
            raise vlib.Infra("trace rejected but offending event not found: %s" % (r.error,))
        e = cur[bad]
        sig = classify_event(e, inv)
        if asbuilt_probe and e["ev"] == "next":
            # would the specification with the as-built header rule accept this trace?
            one = [x for x in cur if x.get("t") == e["t"]]
            p2 = ctx.write_ndjson("of-trace-one.ndjson", one + end)
            ok2, hwm2, r2 = ctx.trace_validate("OldFmt_trace.tla", "OldFmt_trace_asbuilt.cfg", p2, timeout=600)
            ctx.cov["tlc_runs"].pop()
            if ok2:
                sig = "header-stale-flag"
        ctx.report([{"signature": sig, "family": "oldfmt-trace",
                     "detail": "recorded event rejected by OldFmt_trace/%s (%s): %s" % (cfg, inv or "no step of the specification matches", json.dumps(e)[:900]),
                     "events": [x for x in cur[max(0, bad - 30):bad + 1] if x.get("t") == e.get("t")]}], what)
        nrej += 1
        cur = [x for x in cur if x.get("t") != e.get("t")]
    if not ctx.violations:
        raise vlib.Infra("more than 8 rejected traces in %s, all of them known findings" % name)
    return [], nrej


def validate(ctx, events):
    """Recorded traces whose results differ from what the documented header rule gives (python triage) are
    validated against the AS-BUILT configuration of the specification: accepted there, they are instances of
    the named deviation (signature header-stale-flag); everything else is validated against the documented
    configuration.  Then the negative control."""
    by_t = collections.OrderedDict()
    for e in events:
        by_t.setdefault(e["t"], []).append(e)
    suspect = set()
    for t, tr in by_t.items():
        obs = [e["res"]["labels"] for e in tr if e["ev"] == "next" and e["ok"]]
        if obs != documented_results(tr)[:len(obs)]:
            suspect.add(t)
    group_a = [e for e in events if e["t"] not in suspect]
    group_b = [e for e in events if e["t"] in suspect]
    cur, nrej = tlc_rounds(ctx, group_a, "OldFmt_trace.cfg", "of-trace", "trace validation", True)
    if group_b:
        acc, nrej_b = tlc_rounds(ctx, group_b, "OldFmt_trace_asbuilt.cfg", "of-trace-asbuilt", "trace validation (as-built header rule)", False)
        nrej += nrej_b
        ts = sorted({e["t"] for e in acc})
        if ts:
            # sanity of the triage: the first of them is rejected by the documented configuration
            one = [e for e in acc if e["t"] == ts[0]]
            p1 = ctx.write_ndjson("of-trace-first.ndjson", one + [{"ev": "reset", "t": -1, "lines": [], "labels": {}, "ok": False, "err": False}])
            ok1, hwm1, r1 = ctx.trace_validate("OldFmt_trace.tla", "OldFmt_trace.cfg", p1, timeout=600)
            ctx.cov["tlc_runs"].pop()
            if ok1:
                raise vlib.Infra("triage error: trace %d was set aside as deviating but the documented specification accepts it" % ts[0])
            for t in ts:
                tr = [e for e in acc if e["t"] == t]
                ctx.report([{"signature": "header-stale-flag", "family": "oldfmt-trace",
                             "detail": "recorded trace %d conforms to the as-built header rule only (OldFmt_trace_asbuilt.cfg accepts, the documented rule gives other labels)" % t,
                             "events": tr[:12]}], "trace validation")
            nrej += len(ts)
        ctx.cov["recorded_traces_header_sensitive"] = len(suspect)
    # negative control on the accepted remainder: one returned label altered
    cand = [i for i, e in enumerate(cur) if e["ev"] == "next" and e["ok"] and e["res"]["labels"]]
    if cand:
        i = cand[(ctx.seed * 7919) % len(cand)]
        corrupt = [json.loads(json.dumps(e)) for e in cur]
        k = sorted(corrupt[i]["res"]["labels"])[0]
        corrupt[i]["res"]["labels"][k] += "-corrupted"
        bp = ctx.write_ndjson("of-trace-corrupt.ndjson", corrupt + [{"ev": "reset", "t": -1, "lines": [], "labels": {}, "ok": False, "err": False}])
        ok2, hwm2, r2 = ctx.trace_validate("OldFmt_trace.tla", "OldFmt_trace.cfg", bp, timeout=1800)
        ctx.cov["tlc_runs"].pop()
        if ok2:
            raise vlib.Infra("negative control: corrupted event %d was accepted" % i)
        ctx.cov["negative_control"] = "corrupted next event %d rejected (%s)" % (i, (r2.error or "not consumable")[:80])
    elif cur:
        raise vlib.Infra("negative control: no event to corrupt")
    return nrej
