"""X07 - trend pipeline of the analysis server: table building, ordering along x, aggregation,
smoothing filters, chart data (spec families Trend, TrendFilter).

Extension plan (specification growth beyond the listed properties; not in MANIFEST.json).
Harness family: "trend"."""
import collections, copy, json, os, re, shutil
import vlib

LEVEL = "model_checking"
TEXT = ("The trend page of the performance dashboard (analysis/app trend.go, kza.go) turns the results a query fetches into "
        "the data table of a chart. queryToTable appends one row per result in arrival order: a column per label key and per "
        "unit seen so far, every column as long as the table, a cell holding the result's value ('' where it has no such "
        "label). The chart depends only on the BAG of results, not on their order of arrival: the points are exactly the "
        "results with an ns/op measurement, none dropped or duplicated; commit-index counts the distinct values of the x "
        "column (commit, or the label named by x) 0,1,2,... in order of commit-time (then value), equal values sharing an "
        "index; raw: one scatter point per result (commit-index, value, a style per upload-part, commit as tooltip); "
        "otherwise one cell per (commit, benchmark, branch, commit-index) with mean / median / min / max, normalised to the "
        "benchmark's earliest cell on branch master (that cell is 1), with more than one benchmark a geomean series over the "
        "benchmarks present at a commit, every series smoothed, pivoted into one row per (commit, branch, commit-index) "
        "along x with one column group per benchmark in sorted order (mean, min and max as interval, median, smoothed for a "
        "single benchmark; only the smoothed series otherwise), a gap where a benchmark has no result. Every request ends in "
        "an error message (no results, a missing commit / commit-time / branch / x label) or in a well-formed DataTable "
        "literal - never in a panic. The filters: MovingAverage is the mean over the window clipped at both ends, "
        "KolmogorovZurbenko its k-fold iteration, AdaptiveKolmogorovZurbenko the mean of the ORIGINAL series over an adaptive "
        "sub-window; length preserved, constants fixed, every output between the minimum and maximum of its window, m=1 and "
        "k=1 identities, mirror symmetry (MA, KZ), exact values for small integer series.")
NOTE = ("Trusted: the concretisation tables of the harness (images in the bytewise order of the model's ranks), its reader of "
        "the DataTable literal, Go's string comparison for the ranks in recorded traces, TLC. Domain: results as the storage "
        "server delivers them (every result has upload-part); a commit has one commit-time; commit-times are strings whose "
        "bytewise order is their order in time (one format, UTC); ns/op values are positive finite numbers; label keys are not "
        "'name', a unit or a column the pipeline adds. The smoothed value is only demanded to lie between the least and greatest "
        "value of its series within the filter's window (what the adaptive filter does inside is specified in TrendFilter for "
        "small series and as laws for long ones). A benchmark without a result on master and several earliest cells on master "
        "with different means have no documented outcome: an error or any well-formed chart is accepted. With no ns/op result "
        "an error or a chart without rows is accepted. Where the exact computation of the adaptive filter has a tie the float "
        "computation may fall on either side: both are accepted.")
TECHNIQUE = ("TLA+ model checking (TLC) of a request state machine (Add, Finish, SortX, SortTime, Index, Points, EmitRaw, Agg, "
             "Norm, Geo, Pivot) against declarative definitions over the bag of results, and of the filters as exact integer "
             "arithmetic over a common denominator; replay of every TLC-generated request (queryToTable on every prefix, "
             "trendQuery on the whole stream behind a storage server answering in the generated order) and of every generated "
             "series through the real filters; trace validation of a seeded recorder (up to 40 results, 12 label keys, 4 "
             "benchmarks, series of 45 points with windows up to 15, tableToJS on awkward strings, the rendered page)")
DESIGN_REF = "DESIGN.md section 4x"

RULE = ("(M) exhaustive TLC: Trend - every arrival sequence of up to MaxRes results over the configured universes (ordering / "
        "points / aggregation / columns / missing label), all four option combinations; invariants TableRight, SortRight, "
        "IndexRight, PointsRight, NoPanic, ActionsAgree, OutRight, RowsSorted, ColumnsRight, GapRight, BaselineIsOne, GeoSane. "
        "TrendFilter - every series over 0..3 up to MaxLen, windows 1,3,5, 1..3 iterations; invariants LengthKept, "
        "SlidingSumRight, ConstFixed, MABounds, KZBounds, KZABounds, EndsClipped, IdentityM1, IdentityK1, Mirror, ShortIsIdentity. "
        "The eight as-built configurations must each show their counterexample. (G) every finished request of the generator "
        "configurations (+ TLC simulation of streams of 7 results over universes of 2304 and 768 results) replayed step by step and as "
        "a whole; every series through the three filters (and an affine image of it). (T) recorded events classified by "
        "Trend_trace; corrupted events must be rejected. distinct_nontrivial = replayed requests that end in a chart with at "
        "least two rows or points, plus filter cases of length >= 3 with m > 1, plus recorded request / filter events.")

# deviation classes that the specification names (switch = as-built model)
NAMED = {
    "absent-unit-plotted-as-zero": "ZeroFill",
    "commit-index-counts-runs": "IndexRuns",
    "commit-index-starts-at-minus-one": "IndexEmptyFirst",
    "no-nsop-measurement-panics": "NoUnitPanics",
    "no-master-baseline-panics": "NoMasterPanics",
    "geomean-concat-columns-panic": "ConcatStrict",
    "gap-nan-json-panic": "GapNaN",
    "rows-not-along-x": "RowsNameMajor",
}

ASBUILT = [("zerofill", "PointsRight"), ("indexruns", "IndexRight"), ("indexempty", "IndexRight"), ("nounit", "NoPanic"),
           ("nomaster", "NoPanic"), ("concat", "NoPanic"), ("gapnan", "NoPanic"), ("rows", "RowsSorted")]

QUICK = ["order", "points", "agg", "agg1", "cols", "branch"]
THOROUGH = ["order", "order2", "points", "agg", "agg1", "cols", "mix", "three", "branch"]
ACTIONS = ["Add", "Finish", "SortX", "SortTime", "Index", "Points", "EmitRaw", "Agg", "Norm", "Geo", "Pivot", "Extend"]


def classify(ctx, path, count=True):
    shutil.copyfile(path, os.path.join(ctx.specdir, "trace.ndjson"))
    r = ctx.tlc("Trend_trace.tla", "Trend_trace.cfg", workers=1, timeout=2400, expect_ok=False, label="trace", count=count)
    m = re.search(r"TRACE hwm=(\d+) len=(\d+)", r.out)
    if not m or r.error is not None or int(m.group(1)) < int(m.group(2)):
        tail = "\n".join(l for l in r.out.splitlines() if not l.startswith('"'))[-3000:]
        raise vlib.Infra("trace validation did not consume the recorded trace (spec or recorder problem, not a verdict):\n" + tail)
    return {o["i"]: o["class"] for o in r.printed_json("tv")}


def add_coverage(taken, r):
    """-coverage 1: number of times every action was taken (last report of the run)."""
    txt = r.out[r.out.rfind("The coverage statistics"):]
    for m in re.finditer(r"^<(\w+) line \d+, col \d+ to line \d+, col \d+ of module (\w+)>: (\d+):(\d+)", txt, re.M):
        if m.group(2).startswith("Trend") and m.group(1) != "Init":
            taken[m.group(1)] += int(m.group(4))


def par(ctx, jobs, width=3):
    """Run independent TLC jobs side by side (the models are small: a run does not use many workers).
    jobs: list of dicts of ctx.tlc keyword arguments + 'module', 'cfg'.  Results in order; the
    evidence counters are updated here, in the calling thread."""
    import concurrent.futures

    def one(j):
        kw = dict(j)
        module, cfg = kw.pop("module"), kw.pop("cfg")
        kw["count"] = False
        return ctx.tlc(module, cfg, **kw)

    with concurrent.futures.ThreadPoolExecutor(max_workers=width) as ex:
        futs = [ex.submit(one, j) for j in jobs]
        res = [f.result() for f in futs]
    for j, r in zip(jobs, res):
        if j.get("count", True):
            ctx.cov["states"] += r.distinct
            ctx.cov["transitions"] += r.generated
            ctx.cov["tlc_runs"].append({"module": j["module"], "cfg": j["cfg"], "mode": j.get("label") or ("simulate" if j.get("simulate") else "bfs"),
                                        "generated": r.generated, "distinct": r.distinct, "wall_s": round(r.wall, 1)})
    return res


def run(ctx):
    ctx.build()
    q = ctx.quick
    tier = "quick" if q else "thorough"
    cover = [] if q else ["-coverage", "1"]
    names = QUICK if q else THOROUGH
    w = 4 if q else 8

    # ---------------------------------------------------------------- (M)
    # quick: the generator configurations list the invariants as well (one exploration serves M and G)
    if not q:
        taken = collections.Counter()
        jobs = [dict(module="TrendFilter.tla", cfg="TrendFilter_mc_thorough.cfg", timeout=3000, extra=cover, workers=w)]
        jobs += [dict(module="Trend.tla", cfg="Trend_mc_thorough_%s.cfg" % n, timeout=3000, extra=cover, workers=w) for n in names]
        for r in par(ctx, jobs, width=2):
            add_coverage(taken, r)
        zero = sorted(a for a in ACTIONS if taken.get(a, 0) == 0)
        if zero:
            raise vlib.Infra("vacuous actions (never taken in any configuration): %s (seen %s)" % (zero, dict(taken)))
        ctx.cov["actions_taken"] = {a: taken[a] for a in ACTIONS}
    jobs = [dict(module="Trend.tla", cfg="Trend_asbuilt_%s.cfg" % n, timeout=900, expect_ok=False, label="asbuilt", count=False, workers=2)
            for n, inv in ASBUILT]
    for (n, inv), r in zip(ASBUILT, par(ctx, jobs, width=4)):
        if ("Invariant %s is violated" % inv) not in r.out:
            tail = "\n".join(l for l in r.out.splitlines() if not l.startswith('"'))[-1500:]
            raise vlib.Infra("Trend_asbuilt_%s.cfg did not show the counterexample to %s:\n%s" % (n, inv, tail))

    # ---------------------------------------------------------------- (G)
    label = "bfs+gen" if q else "gen"
    nsim = 150 if q else 2500
    jobs = [dict(module="TrendFilter_gen.tla", cfg="TrendFilter_gen_%s.cfg" % tier, timeout=3000, label=label, workers=w)]
    jobs += [dict(module="Trend_gen.tla", cfg="Trend_gen_%s_%s.cfg" % (tier, n), timeout=3000, label=label, workers=w) for n in names]
    jobs += [dict(module="Trend_gen.tla", cfg=c, workers=1, simulate=nsim, depth=24, timeout=3000, label="simulate")
             for c in ("Trend_gen_sim.cfg", "Trend_gen_simone.cfg")]
    res = par(ctx, jobs, width=3 if q else 2)
    fcases = res[0].printed_json("case")
    if len(fcases) < 5000:
        raise vlib.Infra("filter generator produced only %d cases" % len(fcases))
    flows = []
    for j, r in zip(jobs[1:], res[1:]):
        got = r.printed_json("case")
        if len(got) < (nsim // 2 if j.get("simulate") else 300):
            raise vlib.Infra("request generator %s produced only %d cases" % (j["cfg"], len(got)))
        flows += got
    del res
    flows = vlib.dedupe(flows)
    nontriv = sum(1 for c in flows if c["expect"]["kind"] == "chart" and len(c["expect"]["rows"]) >= 2)
    nontriv += sum(1 for c in fcases if len(c["xs"]) >= 3 and c["m"] > 1)
    ctx.cov["kza_exact_cases"] = sum(1 for c in fcases if c["exact"])
    ctx.add_samples([c for c in flows if c["expect"]["type"] == "LineChart" and len(c["expect"]["prefixes"]) == 3 and not c["differs"]][:1], 1)
    ctx.add_samples([c for c in fcases if len(c["xs"]) == 5 and c["m"] == 3 and c["k"] == 2 and len(set(c["xs"])) > 2 and c["xs"][0] != c["xs"][-1]][:1], 1)
    verdicts = ctx.replay("trend", flows + fcases, "replay of TLC-generated requests and series", timeout=3000)
    dev = collections.Counter(v.get("signature", "?") for v in verdicts if not v.get("ok"))
    if dev:
        ctx.cov["replay_deviation_classes"] = dict(dev)
        vlib.log("replay deviation classes: %s" % dict(dev))
    ctx.cov["replay_cases"] = dict(collections.Counter(c["kind"] for c in fcases + flows))
    ctx.cov["request_outcomes_expected"] = dict(collections.Counter(c["expect"]["kind"] + ("/" + c["expect"]["type"] if c["expect"]["type"] else "") for c in flows))

    # ---------------------------------------------------------------- (T)
    nh = 8 if q else 80
    tp = os.path.join(ctx.work, "trend-trace.ndjson")
    ctx.harness(["trend", "record", tp, nh])
    events = ctx.read_ndjson(tp)
    classes = classify(ctx, tp)
    if len(classes) < len(events) // 2:
        raise vlib.Infra("only %d of %d recorded events were judged" % (len(classes), len(events)))
    ctx.cov["recorded_events"] = dict(collections.Counter(e["ev"] for e in events))
    ctx.cov["traces_validated_against_impl"] += len(classes)
    ctx.cov["evaluations"] += len(classes)
    nontriv += sum(1 for i in classes if events[i - 1]["ev"] in ("request", "filter"))
    bad = {i: c for i, c in classes.items() if c != "ok"}
    if any(c == "harness-ranks" for c in bad.values()):
        raise vlib.Infra("rank table of a recorded event is inconsistent (harness problem)")
    if bad:
        # second, independent execution of the recorder: a deviation counts only if it shows again
        tp2 = os.path.join(ctx.work, "trend-trace2.ndjson")
        ctx.harness(["trend", "record", tp2, nh])
        classes2 = classify(ctx, tp2, count=False)
        failing = []
        seen = collections.Counter()
        for i, c in sorted(bad.items()):
            if classes2.get(i) != c:
                raise vlib.Infra("recorded deviation at event %d (%s) did not reproduce (%s)" % (i, c, classes2.get(i)))
            seen[c] += 1
            if seen[c] <= 3 or c not in NAMED:
                e = dict(events[i - 1])
                failing.append({"signature": c, "detail": "recorded event %d (%s) classified %s by Trend_trace" % (i, e.get("ev"), c),
                                "event": json.dumps(e, ensure_ascii=False)[:3000], "stream_starts_at_event": stream_start(events, i),
                                "family": "trend-trace"})
        ctx.report(failing, "trace validation of recorded requests, filters and pages")
        ctx.cov["recorded_deviation_classes"] = dict(seen)
        vlib.log("recorded deviation classes: %s" % dict(seen))
    negative_control(ctx, events, classes)
    ctx.add_samples([{"event": e["ev"], "x": e["x"], "raw": e["raw"], "obs": {k: e["obs"][k] for k in ("kind", "type", "prefixes")},
                      "rows": e["obs"]["rows"][:4]} for e in events if e["ev"] == "request" and e["obs"]["kind"] == "chart" and not e["raw"]][:1], 1)

    ctx.cov["distinct_nontrivial"] = nontriv
    ctx.cov["exhaustive"] = True
    return ctx.finish(RULE, assumptions=[
        "every result has upload-part; a commit has one commit-time; commit-times compare bytewise as in time; ns/op values are positive and finite",
        "no baseline on master / several earliest master cells with different means: an error or any well-formed chart is accepted",
        "the smoothed column is only demanded to lie within the values of its series inside the filter window",
        "simulated (not exhaustive) beyond the small universes; recorded traces are seeded samples"])


def stream_start(events, i):
    j = i - 1
    while j > 0 and events[j]["ev"] != "reset":
        j -= 1
    return j + 1


def negative_control(ctx, events, classes):
    """Corrupted copies of accepted events must be rejected by the trace specification."""
    ok = lambda i: classes.get(i + 1) == "ok"
    out, want = [], {}

    def put(e, cls):
        out.append(e)
        want[len(out)] = cls

    def prefix(i):
        """the events of the stream of event i up to (excluding) i"""
        j = i
        while events[j]["ev"] != "reset":
            j -= 1
        return [e for e in events[j:i] if e["ev"] in ("reset", "add")]

    # (1) an add whose table lost a column / whose cells were changed
    for i, e in enumerate(events):
        if e["ev"] == "add" and ok(i) and len(e["obs"]["keys"]) > 3:
            for x in prefix(i):
                put(x, None)
            g = copy.deepcopy(e)
            g["obs"]["keys"] = g["obs"]["keys"][:-1]
            put(g, "table-columns")
            break
    for i, e in enumerate(events):
        if e["ev"] == "add" and ok(i) and e["obs"]["n"] > 2:
            for x in prefix(i):
                put(x, None)
            g = copy.deepcopy(e)
            g["obs"]["n"] -= 1
            put(g, "table-columns")
            break
    # (2) a raw request with one point dropped / one commit-index changed
    for i, e in enumerate(events):
        if e["ev"] == "request" and ok(i) and e["raw"] and e["obs"]["kind"] == "chart" and len(e["obs"]["rows"]) > 2:
            for x in prefix(i):
                put(x, None)
            g = copy.deepcopy(e)
            g["obs"]["rows"] = g["obs"]["rows"][1:]
            put(g, "chart-mismatch")
            g = copy.deepcopy(e)
            g["obs"]["rows"][-1]["i"] += 1
            put(g, "chart-mismatch")
            break
    # (3) a line chart with a series missing / two rows swapped against x
    for i, e in enumerate(events):
        if e["ev"] == "request" and ok(i) and not e["raw"] and e["obs"]["kind"] == "chart" and len(e["obs"]["rows"]) > 1 \
                and e["obs"]["rows"][0]["i"] != e["obs"]["rows"][-1]["i"]:
            for x in prefix(i):
                put(x, None)
            g = copy.deepcopy(e)
            g["obs"]["rows"][0], g["obs"]["rows"][-1] = g["obs"]["rows"][-1], g["obs"]["rows"][0]
            put(g, "chart-mismatch")
            g = copy.deepcopy(e)
            g["obs"]["prefixes"] = g["obs"]["prefixes"][:-1]
            put(g, "chart-mismatch")
            break
    # (4) a filter output outside its window / of the wrong length; an index sequence with a hole
    for i, e in enumerate(events):
        if e["ev"] == "filter" and ok(i) and len(e["xs"]) > 3:
            g = copy.deepcopy(e)
            g["obs"]["kza"][1] = 1000 * (max(e["xs"]) + 1)
            put(g, "filter-law")
            g = copy.deepcopy(e)
            g["obs"]["ma"] = g["obs"]["ma"][:-1]
            put(g, "filter-law")
            break
    for i, e in enumerate(events):
        if e["ev"] == "colindex" and ok(i) and len(e["idx"]) > 2:
            g = copy.deepcopy(e)
            g["idx"][-1] += 5
            put(g, "colindex-mismatch")
            break
    nbad = len([c for c in want.values() if c])
    if nbad < 6:
        if ctx.violations:
            # a tree on which most recorded events already deviate leaves too few accepted events to corrupt;
            # the verdict of this run is the violation, not the control
            ctx.cov["negative_control"] = "skipped: only %d accepted events to corrupt on a deviating tree" % nbad
            return
        raise vlib.Infra("negative control: could build only %d corrupted events from the recorded trace" % nbad)
    out.append({"ev": "reset"})
    p = ctx.write_ndjson("trend-trace-corrupted.ndjson", out)
    got = classify(ctx, p, count=False)
    for i, cls in want.items():
        if cls is not None and got.get(i) != cls:
            raise vlib.Infra("negative control: corrupted event %d (%s) classified %s, expected %s" % (i, out[i - 1]["ev"], got.get(i), cls))
    ctx.cov["negative_control"] = "%d corrupted events rejected" % nbad
