------------------------------- MODULE Benchstat -------------------------------
(* benchstat as a RELATION  inputs x flags -> tables / rows / columns / cells.      *)
(*                                                                                  *)
(* Inputs: 1..MaxArgs command-line arguments (`path` or `label=path`, duplicate     *)
(* paths allowed), each distinct path a sequence of abstract lines                  *)
(*   set  `k: v`      del `k:`      meta `Unit u assume=a`      bench `BenchmarkN.. *)
(*   iters v1 u1 [v2 u2]`                                                           *)
(* Flags: -table / -row / -col / -ignore projections and -filter from menus (the    *)
(* menu ids ARE the flag texts; Expr / Keep below give their parsed meaning, the    *)
(* expression syntax itself is C07's business), -alpha and -confidence tokens.      *)
(*                                                                                  *)
(* Compute(A, C, FL) derives, declaratively (cmd/benchstat/main.go,                 *)
(* internal/benchtab/builder.go, benchproc/projection.go, benchfmt/files.go):       *)
(*   the filtered measurements (one per value of a benchmark line that survives     *)
(*   the filter, with the line's file configuration, name, file label and unit);    *)
(*   their table / row / column tuples by the projection semantics of Projection    *)
(*   (parser-wide exclusions, .config group growing in order of first appearance,   *)
(*   .unit appended last to the table projection);                                  *)
(*   Cells = the grouping of measurements by (table, row, col) tuple;               *)
(*   the documented orders (first observation / alpha / fixed list) => column       *)
(*   order => baseline = first column;                                              *)
(*   per cell the set of keys that were neither projected nor ignored and on which  *)
(*   its members differ ("benchmarks vary in ...");                                 *)
(*   per column whether its benchmark set differs from the baseline column's.       *)
(* It also transcribes the code's accumulation (Builder.Add: one map entry per      *)
(* (tableKey, rowKey, colKey), values appended, residue keys collected per cell;    *)
(* NonSingularFields over the residue projection; summarizeCol's counting test)     *)
(* and compares both sides: Partition, WarnExact, Defaults, DiffersExact.           *)
(*                                                                                  *)
(* CountOnly = TRUE re-enables the code's deviation as shipped: the "benchmark set  *)
(* differs from baseline" test only counts baseline pairings, so a column whose     *)
(* benchmark set is a strict SUPERSET of the baseline's is not reported.            *)
(*                                                                                  *)
(* The input is built step by step (so that -simulate yields random inputs and a    *)
(* small configuration can be enumerated); everything is computed once, in the      *)
(* final step, into `out`.                                                          *)
EXTENDS Integers, Sequences, FiniteSets, TLC

CONSTANTS
  MaxArgs, MinLines, MaxLines, PathSet, LabelSet, CfgKeys, CfgVals, Bases, XVals, GVals,
  RawUnits, MetaVals, ValSet, MaxVals, KindTokens,
  TableMenu, RowMenu, ColMenu, IgnoreMenu, FilterMenu, AlphaMenu, ConfMenu,
  CountOnly

\* ------------------------------------------------------------------ helpers
Range(s) == {s[i] : i \in 1..Len(s)}
Min(S) == CHOOSE x \in S : \A y \in S : x <= y
Sign(a, b) == IF a < b THEN 0 - 1 ELSE IF a > b THEN 1 ELSE 0

\* a real tuple <<Op(1), ..., Op(n)>> (evaluated once, unlike [i \in 1..n |-> ...])
MkSeq(n, Op(_)) ==
  LET g[i \in 0..n] == IF i = 0 THEN <<>> ELSE Append(g[i-1], Op(i)) IN g[n]
\* concatenation of the n sequences Op(1) .. Op(n)
ConcatN(n, Op(_)) ==
  LET g[i \in 0..n] == IF i = 0 THEN <<>> ELSE g[i-1] \o Op(i) IN g[n]

RECURSIVE DedupeR(_, _)
DedupeR(s, acc) ==
  IF s = <<>> THEN acc
  ELSE DedupeR(Tail(s), IF \E i \in 1..Len(acc) : acc[i] = Head(s) THEN acc ELSE Append(acc, Head(s)))
\* distinct elements in order of first appearance
Dedupe(s) == DedupeR(s, <<>>)

\* ------------------------------------------------------------------ vocabulary
Tidy(u) == IF u = "ns/op" THEN "sec/op" ELSE u          \* benchunit.Tidy on the unit menu

F(k, o) == [key |-> k, ord |-> o]
FixedList == <<"s2", "s1">>
\* parsed meaning of the projection texts of the menus
Expr(id) ==
  CASE id = "" -> <<>>
    [] id = ".config" -> <<F(".config", "first")>>
    [] id = ".fullname" -> <<F(".fullname", "first")>>
    [] id = ".file" -> <<F(".file", "first")>>
    [] id = ".name" -> <<F(".name", "first")>>
    [] id = "c1" -> <<F("c1", "first")>>
    [] id = "c2" -> <<F("c2", "first")>>
    [] id = "/x" -> <<F("/x", "first")>>
    [] id = "/gomaxprocs" -> <<F("/gomaxprocs", "first")>>
    [] id = "c2,.config" -> <<F("c2", "first"), F(".config", "first")>>
    [] id = ".name,/gomaxprocs" -> <<F(".name", "first"), F("/gomaxprocs", "first")>>
    [] id = ".fullname,c2" -> <<F(".fullname", "first"), F("c2", "first")>>
    [] id = "/x@(s2 s1)" -> <<F("/x", "fixed")>>
    [] id = "c1@alpha,.file" -> <<F("c1", "alpha"), F(".file", "first")>>
    [] id = ".name,c1" -> <<F(".name", "first"), F("c1", "first")>>

IsNameKey(k) == k \in {".name", "/x", "/gomaxprocs"}
\* bytewise order of the configuration values (single lower-case letters; "" = missing sorts first)
Letters == <<"a", "b", "c", "d", "e", "f", "g", "h", "i", "j", "k", "l", "m",
            "n", "o", "p", "q", "r", "s", "t", "u", "v", "w", "x", "y", "z">>
AlphaRank(v) == IF v = "" THEN 0 ELSE CHOOSE i \in 1..Len(Letters) : Letters[i] = v
Pos(s, v) == CHOOSE i \in 1..Len(s) : s[i] = v

\* file configuration: sequence of [k, v] in the order of Result.Config
CfgHas(cfg, k) == \E i \in 1..Len(cfg) : cfg[i].k = k
CfgGet(cfg, k) == IF CfgHas(cfg, k) THEN cfg[CHOOSE i \in 1..Len(cfg) : cfg[i].k = k].v ELSE ""
CfgSet(cfg, k, v) ==
  IF CfgHas(cfg, k) THEN MkSeq(Len(cfg), LAMBDA i : IF cfg[i].k = k THEN [k |-> k, v |-> v] ELSE cfg[i])
  ELSE Append(cfg, [k |-> k, v |-> v])
\* Result.deleteConfig: the last entry moves into the hole
CfgDel(cfg, k) ==
  IF ~CfgHas(cfg, k) THEN cfg
  ELSE LET p == CHOOSE i \in 1..Len(cfg) : cfg[i].k = k
           n == Len(cfg)
       IN MkSeq(n - 1, LAMBDA i : IF i = p THEN cfg[n] ELSE cfg[i])
CfgFun(cfg) == [k \in {cfg[i].k : i \in 1..Len(cfg)} |-> CfgGet(cfg, k)]

\* names: base[/x=X][-G]; nx = individually projected name keys (removed from .fullname)
FullName(r, nx) ==
  (IF ".name" \in nx THEN "*" ELSE r.base)
  \o (IF r.x # "" /\ "/x" \notin nx THEN "/x=" \o r.x ELSE "")
  \o (IF r.g # "" /\ "/gomaxprocs" \notin nx THEN "-" \o r.g ELSE "")

Extract(k, r, nx) ==
  CASE k = ".name" -> r.base
    [] k = "/x" -> r.x
    [] k = "/gomaxprocs" -> r.g
    [] k = ".fullname" -> FullName(r, nx)
    [] k = ".file" -> r.label
    [] OTHER -> CfgGet(r.cfg, k)

\* meaning of the filter texts: is the value with written unit `raw` of result r kept?
Keep(fid, r, raw) ==
  CASE fid = "*" -> TRUE
    [] fid = "c1:a" -> CfgGet(r.cfg, "c1") = "a"
    [] fid = "-.name:N2" -> r.base # "N2"
    [] fid = ".unit:ns/op" -> raw = "ns/op"
    [] fid = "-.unit:B/op" -> raw # "B/op"
    [] fid = "/x:s1 OR .unit:frobs" -> (r.x = "s1" \/ raw = "frobs")
    [] fid = ".file:L1" -> r.label = "L1"

\* ------------------------------------------------------------------ lines
Line(kind, key, val, base, x, g, vals) ==
  [kind |-> kind, key |-> key, val |-> val, base |-> base, x |-> x, g |-> g, vals |-> vals]
ValSeqs == UNION {[1..n -> [v : ValSet, u : RawUnits]] : n \in 1..MaxVals}
SetLines == {Line("set", k, v, "", "", "", <<>>) : k \in CfgKeys, v \in CfgVals}
DelLines == {Line("del", k, "", "", "", "", <<>>) : k \in CfgKeys}
MetaLines == {Line("meta", u, a, "", "", "", <<>>) : u \in RawUnits, a \in MetaVals}
BenchLines == {Line("bench", "", "", b, x, g, vs) : b \in Bases, x \in XVals, g \in GVals, vs \in ValSeqs}

KindOf(tok) ==
  CASE tok \in {"set", "set2"} -> "set"
    [] tok = "del" -> "del"
    [] tok = "meta" -> "meta"
    [] tok \in {"b1", "b2", "b3", "b4"} -> "bench"
    [] tok \in {"r1", "r2", "r3", "r4"} -> "rep"

\* "rep": another run of the benchmark last written to that file
LastBench(lines) ==
  LET bs == {i \in 1..Len(lines) : lines[i].kind = "bench"} IN
  IF bs = {} THEN 0 ELSE CHOOSE i \in bs : \A j \in bs : j <= i
LinesOfKind(kind, lines) ==
  CASE kind = "set" -> SetLines
    [] kind = "del" -> DelLines
    [] kind = "meta" -> MetaLines
    [] kind = "bench" -> BenchLines
    [] kind = "rep" -> IF LastBench(lines) = 0 THEN BenchLines
                       ELSE LET l == lines[LastBench(lines)] IN
                            {Line("bench", "", "", l.base, l.x, l.g, vs) : vs \in ValSeqs}

\* ------------------------------------------------------------------ documented key order
\* flat: fields [name, ord, grp]; items: sequence of [t |-> tuple, ri |-> result number] in
\* projection order; firstRes: config key -> number of the first result that carries it.
\* Result: the distinct tuples sorted by the documented order (benchproc/sort.go):
\* lexicographic over the flattened fields; "first" = rank of the first KEY holding the value,
\* where a field of the .config group only exists from the first result carrying its key (a
\* value never observed since - only the missing value can be - sorts first); "alpha" =
\* bytewise; "fixed" = position in the list.
OrderedKeys(flat, items, firstRes) ==
  LET ks == Dedupe(MkSeq(Len(items), LAMBDA i : items[i].t))
      n == Len(ks)
      nf == Len(flat)
      born == MkSeq(nf, LAMBDA i :
                IF flat[i].grp
                THEN Len(Dedupe(MkSeq(Cardinality({q \in 1..Len(items) : items[q].ri < firstRes[flat[i].name]}),
                                      LAMBDA q : items[q].t)))
                ELSE 0)
      rank == MkSeq(n, LAMBDA j : MkSeq(nf, LAMBDA i :
                LET js == {q \in (born[i] + 1)..n : ks[q][i] = ks[j][i]} IN
                IF js = {} THEN 0 ELSE Min(js)))
      cmp(i, a, b) ==
        CASE flat[i].ord = "first" -> Sign(rank[a][i], rank[b][i])
          [] flat[i].ord = "alpha" -> Sign(AlphaRank(ks[a][i]), AlphaRank(ks[b][i]))
          [] flat[i].ord = "fixed" -> Sign(Pos(FixedList, ks[a][i]), Pos(FixedList, ks[b][i]))
      less(a, b) ==
        LET d == {i \in 1..nf : ks[a][i] # ks[b][i]} IN
        IF d = {} THEN FALSE ELSE cmp(Min(d), a, b) < 0
      perm == SortSeq(MkSeq(n, LAMBDA j : j), less)
  IN MkSeq(n, LAMBDA j : ks[perm[j]])

\* ------------------------------------------------------------------ the relation
Compute(A, C, FL) ==
  LET
    \* ---- benchfmt.Files: labels, per-file configuration, results in reading order
    SameUnl(i) == {j \in 1..Len(A) : A[j].label = "" /\ A[j].path = A[i].path}
    LabelOf(i) ==
      IF A[i].label # "" THEN A[i].label
      ELSE IF Cardinality(SameUnl(i)) = 1 THEN A[i].path
      ELSE A[i].path \o "#" \o ToString(Cardinality({j \in SameUnl(i) : j < i}))
    ReadArg(i) ==
      LET lines == C[A[i].path]
          st[n \in 0..Len(lines)] ==
            IF n = 0 THEN [cfg |-> <<>>, rs |-> <<>>]
            ELSE LET p == st[n-1]
                     l == lines[n]
                 IN CASE l.kind = "set" -> [p EXCEPT !.cfg = CfgSet(p.cfg, l.key, l.val)]
                      [] l.kind = "del" -> [p EXCEPT !.cfg = CfgDel(p.cfg, l.key)]
                      [] l.kind = "meta" -> p
                      [] l.kind = "bench" ->
                           [p EXCEPT !.rs = Append(p.rs,
                              [arg |-> i, line |-> n, label |-> LabelOf(i), cfg |-> p.cfg,
                               base |-> l.base, x |-> l.x, g |-> l.g, vals |-> l.vals])]
      IN st[Len(lines)].rs
    stream == ConcatN(Len(A), LAMBDA i : ReadArg(i))
    \* unit metadata: carries across files, the first setting of a (tidied) unit wins
    metas == ConcatN(Len(A), LAMBDA i : SelectSeq(C[A[i].path], LAMBDA l : l.kind = "meta"))
    Exact(u) ==
      LET ms == SelectSeq(metas, LAMBDA l : Tidy(l.key) = u) IN
      IF ms = <<>> THEN FALSE ELSE ms[1].val = "exact"

    \* ---- the parser shared by the four projection flags
    specT == Expr(FL.table)
    specR == Expr(FL.row)
    specC == Expr(FL.col)
    specI == Expr(FL.ignore)
    KeysOf(s) == {s[i].key : i \in 1..Len(s)}
    named == KeysOf(specT) \cup KeysOf(specR) \cup KeysOf(specC) \cup KeysOf(specI)
    cx == named \cap CfgKeys
    nx == {k \in named : IsNameKey(k)}
    haveCfg == ".config" \in named
    haveFull == ".fullname" \in named
    FixedOKIn(s, r) == \A i \in 1..Len(s) : s[i].ord = "fixed" => Extract(s[i].key, r, nx) \in Range(FixedList)
    FixedOK(r) == FixedOKIn(specT, r) /\ FixedOKIn(specR, r) /\ FixedOKIn(specC, r) /\ FixedOKIn(specI, r)

    \* ---- filtering: results with the values that survive; results without values are dropped
    Kept(r) == IF FixedOK(r) THEN SelectSeq(r.vals, LAMBDA v : Keep(FL.filter, r, v.u)) ELSE <<>>
    acc == SelectSeq(MkSeq(Len(stream), LAMBDA i : [stream[i] EXCEPT !.vals = Kept(stream[i])]),
                     LAMBDA r : r.vals # <<>>)
    nres == Len(acc)
    \* the filtered measurements
    meas == ConcatN(nres, LAMBDA n : MkSeq(Len(acc[n].vals), LAMBDA j :
              [ri |-> n, v |-> acc[n].vals[j].v, raw |-> acc[n].vals[j].u, u |-> Tidy(acc[n].vals[j].u)]))
    nm == Len(meas)

    \* ---- projections
    CfgKeySeq(r) == MkSeq(Len(r.cfg), LAMBDA i : r.cfg[i].k)
    cfgFields ==      \* sub-fields of every .config group: keys not named individually, by first appearance
      LET g[n \in 0..nres] ==
            IF n = 0 THEN <<>>
            ELSE LET prev == g[n-1] IN
                 prev \o SelectSeq(CfgKeySeq(acc[n]), LAMBDA k : k \notin cx /\ k \notin Range(prev))
      IN g[nres]
    firstRes == [k \in Range(cfgFields) |-> Min({n \in 1..nres : CfgHas(acc[n].cfg, k)})]
    Group(ord) == MkSeq(Len(cfgFields), LAMBDA j : [name |-> cfgFields[j], ord |-> ord, grp |-> TRUE])
    FlatOf(s) == ConcatN(Len(s), LAMBDA i :
                   IF s[i].key = ".config" THEN Group(s[i].ord)
                   ELSE <<[name |-> s[i].key, ord |-> s[i].ord, grp |-> FALSE]>>)
    flatT == FlatOf(specT) \o <<[name |-> ".unit", ord |-> "first", grp |-> FALSE]>>
    flatR == FlatOf(specR)
    flatC == FlatOf(specC)
    flatX == (IF haveCfg THEN <<>> ELSE Group("first"))
             \o (IF haveFull THEN <<>> ELSE <<[name |-> ".fullname", ord |-> "first", grp |-> FALSE]>>)
    Tup(flat, r, u) == MkSeq(Len(flat), LAMBDA i : IF flat[i].name = ".unit" THEN u ELSE Extract(flat[i].name, r, nx))
    TT == MkSeq(nm, LAMBDA m : Tup(flatT, acc[meas[m].ri], meas[m].u))
    TR == MkSeq(nres, LAMBDA n : Tup(flatR, acc[n], ""))
    TC == MkSeq(nres, LAMBDA n : Tup(flatC, acc[n], ""))
    TX == MkSeq(nres, LAMBDA n : Tup(flatX, acc[n], ""))
    keyOf == MkSeq(nm, LAMBDA m : <<TT[m], TR[meas[m].ri], TC[meas[m].ri]>>)
    KeyOf(m) == keyOf[m]

    \* ---- declarative cells: the grouping (memberSeq: the fibres of KeyOf, tabulated once)
    cellKeys == {KeyOf(m) : m \in 1..nm}
    keySeq == Dedupe(keyOf)
    memberSeq == MkSeq(Len(keySeq), LAMBDA j : {m \in 1..nm : keyOf[m] = keySeq[j]})
    Members(key) == memberSeq[Pos(keySeq, key)]

    \* ---- operational cells: Builder.Add
    opcells ==
      LET g[m \in 0..nm] ==
            IF m = 0 THEN <<>>
            ELSE LET c == g[m-1]
                     key == KeyOf(m)
                     val == <<meas[m].v, meas[m].raw>>
                     rx == TX[meas[m].ri]
                 IN IF key \in DOMAIN c
                    THEN [c EXCEPT ![key] = [vals |-> Append(@.vals, val), res |-> @.res \cup {rx}]]
                    ELSE c @@ (key :> [vals |-> <<val>>, res |-> {rx}])
      IN g[nm]

    \* ---- "benchmarks vary in": declarative reading of the statement ...
    InGrouping(k) == k \in KeysOf(specT) \cup KeysOf(specR) \cup KeysOf(specC)
    Ignored(k) == k \in KeysOf(specI)
    CfgCovered(k) == InGrouping(k) \/ InGrouping(".config") \/ Ignored(k) \/ Ignored(".config")
    NameCovered == InGrouping(".fullname") \/ Ignored(".fullname")
    RestName(r) == FullName(r, {k \in {".name", "/x", "/gomaxprocs"} : InGrouping(k) \/ Ignored(k)})
    DeclVary(key) ==
      LET rs == {meas[m].ri : m \in Members(key)} IN
      {k \in CfgKeys : ~CfgCovered(k) /\ \E a, b \in rs : CfgGet(acc[a].cfg, k) # CfgGet(acc[b].cfg, k)}
      \cup (IF ~NameCovered /\ \E a, b \in rs : RestName(acc[a]) # RestName(acc[b]) THEN {".fullname"} ELSE {})
    \* ... and the code's: NonSingularFields over the residue keys collected in the cell
    OpVary(key) ==
      {flatX[i].name : i \in {i \in 1..Len(flatX) : \E a, b \in opcells[key].res : a[i] # b[i]}}

    \* ---- orders
    itemsT == MkSeq(nm, LAMBDA m : [t |-> TT[m], ri |-> meas[m].ri])
    itemsR == MkSeq(nres, LAMBDA n : [t |-> TR[n], ri |-> n])
    itemsC == MkSeq(nres, LAMBDA n : [t |-> TC[n], ri |-> n])
    tablesSorted == OrderedKeys(flatT, itemsT, firstRes)
    rowsSorted == OrderedKeys(flatR, itemsR, firstRes)
    colsSorted == OrderedKeys(flatC, itemsC, firstRes)

    \* ---- one table
    TableOut(T) ==
      LET mem == {m \in 1..nm : TT[m] = T}
          rows == SelectSeq(rowsSorted, LAMBDA t : \E m \in mem : TR[meas[m].ri] = t)
          cols == SelectSeq(colsSorted, LAMBDA t : \E m \in mem : TC[meas[m].ri] = t)
          In(m, ri, ci) == m \in mem /\ TR[meas[m].ri] = rows[ri] /\ TC[meas[m].ri] = cols[ci]
          Has(ri, ci) == \E m \in 1..nm : In(m, ri, ci)
          RowsOf(ci) == {ri \in 1..Len(rows) : Has(ri, ci)}
          \* benchmark set of a column = the rows in which it has a cell
          DeclDiffers(ci) == ci > 1 /\ RowsOf(ci) # RowsOf(1)
          \* summarizeCol: number of baseline cells vs number of cells of this column that have a baseline
          OpDiffers(ci) ==
            ci > 1 /\ LET nBase == Cardinality(RowsOf(1))
                          nPair == Cardinality(RowsOf(ci) \cap RowsOf(1))
                      IN IF CountOnly THEN nBase # nPair
                         ELSE (nBase # nPair \/ Cardinality(RowsOf(ci)) # nBase)
          pairs == SelectSeq(ConcatN(Len(rows), LAMBDA ri : MkSeq(Len(cols), LAMBDA ci : <<ri, ci>>)),
                             LAMBDA p : Has(p[1], p[2]))
          CellOut(p) ==
            LET ms == SelectSeq(MkSeq(nm, LAMBDA m : m), LAMBDA m : In(m, p[1], p[2])) IN
            [r |-> p[1], c |-> p[2],
             s |-> MkSeq(Len(ms), LAMBDA q : [v |-> meas[ms[q]].v, u |-> meas[ms[q]].raw]),
             vary |-> DeclVary(<<T, rows[p[1]], cols[p[2]]>>)]
      IN [key |-> MkSeq(Len(flatT) - 1, LAMBDA i : [n |-> flatT[i].name, v |-> T[i]]),
          unit |-> T[Len(flatT)],
          exact |-> Exact(T[Len(flatT)]),
          colf |-> MkSeq(Len(flatC), LAMBDA i : flatC[i].name),
          cols |-> cols,
          rows |-> rows,
          cells |-> MkSeq(Len(pairs), LAMBDA q : CellOut(pairs[q])),
          differs |-> MkSeq(Len(cols), LAMBDA ci : DeclDiffers(ci)),
          differsOK |-> \A ci \in 1..Len(cols) : OpDiffers(ci) = DeclDiffers(ci)]

    tables == MkSeq(Len(tablesSorted), LAMBDA t : TableOut(tablesSorted[t]))

    \* ---- the properties (evaluated here, once; the invariants below read them)
    Count(s, x) == Cardinality({i \in 1..Len(s) : s[i] = x})
    partition ==
      /\ DOMAIN opcells = cellKeys
      /\ \A m \in 1..nm : Cardinality({key \in cellKeys : m \in Members(key)}) = 1
      /\ \A key \in cellKeys :
           /\ Members(key) # {}
           /\ Len(opcells[key].vals) = Cardinality(Members(key))
           /\ \A x \in Range(opcells[key].vals) :
                Count(opcells[key].vals, x) = Cardinality({m \in Members(key) : <<meas[m].v, meas[m].raw>> = x})
      \* and what is printed is the same grouping
      /\ \A t \in 1..Len(tables) : \A q \in 1..Len(tables[t].cells) : tables[t].cells[q].s # <<>>
    warnExact == \A key \in cellKeys : OpVary(key) = DeclVary(key)
    isDefault == FL.table = ".config" /\ FL.row = ".fullname" /\ FL.col = ".file" /\ FL.ignore = ""
    defaults ==
      isDefault =>
        \A m1, m2 \in 1..nm :
          LET r1 == acc[meas[m1].ri]
              r2 == acc[meas[m2].ri]
          IN /\ (TT[m1] = TT[m2]) <=> (CfgFun(r1.cfg) = CfgFun(r2.cfg) /\ meas[m1].u = meas[m2].u)
             /\ (TR[meas[m1].ri] = TR[meas[m2].ri]) <=> (r1.base = r2.base /\ r1.x = r2.x /\ r1.g = r2.g)
             /\ (TC[meas[m1].ri] = TC[meas[m2].ri]) <=> (r1.label = r2.label)
    differsExact == \A t \in 1..Len(tables) : tables[t].differsOK
  IN [tables |-> tables, nmeas |-> nm, ncells |-> Cardinality(cellKeys),
      labels |-> MkSeq(Len(A), LAMBDA i : LabelOf(i)),
      inv |-> [partition |-> partition, warnExact |-> warnExact, defaults |-> defaults, differsExact |-> differsExact]]

\* ------------------------------------------------------------------ building an input
VARIABLES
  shape,    \* [na, nl]: number of arguments and total number of lines (chosen initially)
  args,     \* command-line arguments: sequence of [path, label]
  content,  \* path -> lines
  pend,     \* the file and kind of the next line (weights the random choice), or "-"
  flags,    \* the flag values chosen so far
  fi,       \* number of flags chosen
  phase,    \* "args" | "lines" | "flags" | "done"
  out       \* Compute(args, content, flags) once phase = "done", else "-"

vars == <<shape, args, content, pend, flags, fi, phase, out>>

FlagNames == <<"alpha", "conf", "filter", "ignore", "table", "row", "col">>
MenuOf(n) ==
  CASE n = 1 -> AlphaMenu [] n = 2 -> ConfMenu [] n = 3 -> FilterMenu [] n = 4 -> IgnoreMenu
    [] n = 5 -> TableMenu [] n = 6 -> RowMenu [] n = 7 -> ColMenu

NoPend == [p |-> "-", k |-> "-"]
RECURSIVE SumLen(_, _)
SumLen(c, S) == IF S = {} THEN 0 ELSE LET x == CHOOSE x \in S : TRUE IN Len(c[x]) + SumLen(c, S \ {x})
TotalLines == SumLen(content, PathSet)

Init ==
  /\ shape \in [na : 1..MaxArgs, nl : MinLines..MaxLines]
  /\ args = <<>>
  /\ content = [p \in PathSet |-> <<>>]
  /\ pend = NoPend
  /\ flags = [table |-> "-", row |-> "-", col |-> "-", ignore |-> "-", filter |-> "-", alpha |-> "-", conf |-> "-"]
  /\ fi = 0
  /\ phase = "args"
  /\ out = "-"

AddArg ==
  /\ phase = "args"
  /\ \E p \in PathSet, l \in LabelSet : args' = Append(args, [path |-> p, label |-> l])
  /\ phase' = IF Len(args) + 1 = shape.na THEN "lines" ELSE "args"
  /\ UNCHANGED <<shape, content, pend, flags, fi, out>>

PickKind ==
  /\ phase = "lines" /\ pend = NoPend /\ TotalLines < shape.nl
  /\ \E p \in {args[i].path : i \in 1..Len(args)}, k \in KindTokens : pend' = [p |-> p, k |-> k]
  /\ UNCHANGED <<shape, args, content, flags, fi, phase, out>>

AddLine ==
  /\ phase = "lines" /\ pend # NoPend
  /\ \E l \in LinesOfKind(KindOf(pend.k), content[pend.p]) :
       content' = [content EXCEPT ![pend.p] = Append(@, l)]
  /\ pend' = NoPend
  /\ UNCHANGED <<shape, args, flags, fi, phase, out>>

LinesDone ==
  /\ phase = "lines" /\ pend = NoPend /\ TotalLines = shape.nl
  /\ phase' = "flags"
  /\ UNCHANGED <<shape, args, content, pend, flags, fi, out>>

ChooseFlag ==
  /\ phase = "flags"
  /\ \E v \in MenuOf(fi + 1) :
       LET nf == [flags EXCEPT ![FlagNames[fi + 1]] = v] IN
       /\ flags' = nf
       /\ IF fi + 1 = Len(FlagNames)
          THEN phase' = "done" /\ out' = Compute(args, content, nf)
          ELSE UNCHANGED <<phase, out>>
  /\ fi' = fi + 1
  /\ UNCHANGED <<shape, args, content, pend>>

Next == AddArg \/ PickKind \/ AddLine \/ LinesDone \/ ChooseFlag
Spec == Init /\ [][Next]_vars

\* ------------------------------------------------------------------ properties (C14)
Done == phase = "done"
\* every filtered measurement is in exactly one cell, every cell is non-empty, and the code's
\* accumulation puts exactly the members of the grouping, each once, into each cell
Partition == Done => out.inv.partition
\* a cell warns about exactly the keys, neither projected nor ignored, on which its members differ
WarnExact == Done => out.inv.warnExact
\* default flags: table = unit + file configuration, row = full name, column = file
Defaults == Done => out.inv.defaults
\* "benchmark set differs from baseline" exactly when the column's set of rows is not the baseline's
DiffersExact == Done => out.inv.differsExact
TypeOK == phase \in {"args", "lines", "flags", "done"} /\ Len(args) <= MaxArgs /\ fi \in 0..7
=============================================================================
