----------------------------- MODULE Benchstat_gen -----------------------------
(* Generator (mode G) for Benchstat: every completed input (arguments, file        *)
(* contents, flags) is printed as one replay case together with the model's        *)
(* DECLARATIVE expectation: the tables in order with their key tuples and unit,    *)
(* the unit's assumption, column tuples and row tuples in order, the cells that    *)
(* exist with their samples (value token + written unit), the keys each cell must  *)
(* warn about, and per column whether its benchmark set differs from the           *)
(* baseline's.  Numbers are not part of the model: the harness evaluates the       *)
(* unit's assumption on the model's samples.                                       *)
EXTENDS Benchstat, Json

Used == {args[i].path : i \in 1..Len(args)}
Case == [tag |-> "case",
         args |-> args,
         content |-> [p \in Used |-> content[p]],
         flags |-> flags,
         expect |-> [tables |-> out.tables, labels |-> out.labels, nmeas |-> out.nmeas, ncells |-> out.ncells]]

EmitInv == Done => PrintT(ToJson(Case))
=============================================================================
