SPECIFICATION DeepSpec
CONSTANTS
  MaxArgs = 6
  MinLines = 4
  MaxLines = 12
  PathSet = {"p1", "p2", "p3", "p4", "p5", "p6"}
  LabelSet = {"", "L1", "L2"}
  CfgKeys = {"c1", "c2", "c3", "c4"}
  CfgVals <- DCfgVals
  Bases <- DBases
  XVals <- DXVals
  GVals <- DGVals
  RawUnits = {"ns/op", "B/op", "frobs"}
  MetaVals = {"exact", "nothing"}
  ValSet = {0, 1, 2, 3, 4, 5, 6, 7, 8, 9, 10, 11, 12}
  MaxVals = 3
  KindTokens = {"set", "del", "meta", "b1", "r1", "burst", "burst2", "sweep", "sweep2", "sweep3", "sweep4", "pass", "fan", "ladder"}
  BurstSizes = {2, 5, 7, 8, 9, 16, 17, 20, 21, 31, 32, 33, 50, 51, 64, 65}
  SweepSizes = {2, 3, 5, 8, 9, 10, 13, 17, 20, 27, 33, 36, 40}
  NestSizes = {3, 8, 9, 16, 17, 32}
  PassSizes = {2, 3, 7, 9, 11, 17}
  FanSizes = {3, 5, 12, 27, 40}
  LadderSizes = {5, 9, 10, 11, 12, 13, 21}
  LadderExact = {TRUE, FALSE}
  LineCap = 100
  TableMenu = {".config", "", "c1", ".name", "c2,.config"}
  RowMenu = {".fullname", ".name", "/x", ".name,/gomaxprocs", ".fullname,c2"}
  ColMenu = {".file", "c1", "/x@(s2 s1)", ".config", "c1@alpha,.file", "/gomaxprocs", ""}
  IgnoreMenu = {"", ".file", "c2", ".config", "/x", ".fullname", ".name,c1"}
  FilterMenu = {"*", "-.name:N2", ".unit:ns/op", "-.unit:B/op", "/x:s1 OR .unit:frobs"}
  AlphaMenu = {"0.05", "0.2", "1"}
  ConfMenu = {"0.95", "0.8", "0.5"}
  CountOnly = FALSE
INVARIANTS EmitInv TypeOK Partition WarnExact Defaults DiffersExact
CHECK_DEADLOCK FALSE
