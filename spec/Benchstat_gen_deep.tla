-------------------------- MODULE Benchstat_gen_deep --------------------------
(* Deep generator (mode G) for Benchstat: LONG inputs.  The relation Compute and     *)
(* its four properties are those of Benchstat.tla, unchanged; only the way an input   *)
(* is built differs.  Besides single lines, one step may append a whole piece of      *)
(* HISTORY to a file, as benchmark logs have them:                                    *)
(*   burst  n further runs of the benchmark last written (cells with many samples,    *)
(*          n on both sides of every size at which an implementation might switch     *)
(*          representation: 8/9, 16/17, 20/21, 32/33, 50/51, 64/65);                  *)
(*   sweep  n times `k: v_i` + one run of the last benchmark, v_i running through     *)
(*          the value vocabulary (one benchmark measured under many settings of a     *)
(*          configuration key - run, commit, date: many tables / columns, or one     *)
(*          cell that merges many distinct configurations); nested: a second key      *)
(*          changes only after every m-th run (m = 8, 9, 16, 17, 32, 33, ...), so a   *)
(*          key may differ only among the later configurations of a cell;             *)
(*   pass   n rounds over the last w benchmarks (`go test -count n`: the samples of   *)
(*          a cell arrive interleaved with those of other cells);                     *)
(*   fan    n benchmarks with distinct names (many rows / many cells);                *)
(*   ladder n benchmarks with distinct names and pairwise distinct value ranges,     *)
(*          optionally of a unit declared assume=exact (tables with n DISTINCT        *)
(*          warnings: footnote numbers past 9 and past 99).                           *)
(* Vocabularies are larger (6 paths, 4 configuration keys x 26 values, 144 names,      *)
(* 13 value tokens, up to 3 values per line).  Every completed input is printed as    *)
(* a replay case with the model's declarative expectation, exactly as Benchstat_gen   *)
(* does; -simulate only.                                                              *)
EXTENDS Benchstat, Json

CONSTANTS BurstSizes, SweepSizes, NestSizes, PassSizes, FanSizes, LadderSizes, LadderExact, LineCap

\* shape.nl is the number of building steps here (a step appends one line or one piece of
\* history); a file set that reaches LineCap lines is complete as well
VARIABLE steps

BaseSeq == <<"N1", "N2", "N3", "N4", "N5", "N6", "N7", "N8", "N9", "N10", "N11", "N12">>
XSeq == <<"", "s1", "s2", "s3">>
GSeq == <<"", "4", "8">>
DBases == Range(BaseSeq)
DXVals == Range(XSeq)
DGVals == Range(GSeq)
DCfgVals == Range(Letters)
NV == Cardinality(ValSet)
ASSUME ValSet = 0..(NV - 1) /\ NV >= 3 /\ "ns/op" \in RawUnits

PlainTokens == {"set", "set2", "del", "meta", "b1", "b2", "r1", "r2"}
DeepOnly == KindTokens \ PlainTokens
ASSUME DeepOnly \subseteq {"burst", "burst2", "sweep", "sweep2", "sweep3", "sweep4", "pass", "fan", "ladder", "ladder2", "ladder3"}

UnitCombos ==
  {us \in {<<"ns/op">>, <<"B/op">>, <<"frobs">>, <<"ns/op", "B/op">>, <<"B/op", "ns/op">>, <<"ns/op", "frobs">>,
           <<"ns/op", "ns/op">>, <<"ns/op", "B/op", "frobs">>} : Range(us) \subseteq RawUnits}

\* value tokens by formula: z = 1 avoids the token 0 (no zero measurement)
ValAt(z, i) == IF z = 1 THEN 1 + (i % (NV - 1)) ELSE i % NV
ValsOf(us, z, i) == MkSeq(Len(us), LAMBDA q : [v |-> ValAt(z, i + 2 * q), u |-> us[q]])
UnitsOf(l) == MkSeq(Len(l.vals), LAMBDA q : l.vals[q].u)
BenchLike(l, z, i) == Line("bench", "", "", l.base, l.x, l.g, ValsOf(UnitsOf(l), z, i))
NameAt(i) ==
  LET nb == Len(BaseSeq)
      nx == Len(XSeq)
      ng == Len(GSeq)
  IN [base |-> BaseSeq[(i % nb) + 1], x |-> XSeq[((i \div nb) % nx) + 1], g |-> GSeq[((i \div (nb * nx)) % ng) + 1]]
NNames == Len(BaseSeq) * Len(XSeq) * Len(GSeq)
CfgValSeq == SelectSeq(Letters, LAMBDA c : c \in CfgVals)

BurstLines(l, n, s, t, z) == MkSeq(n, LAMBDA j : BenchLike(l, z, s + j * t))
SweepLines(l, n, k, s, z) ==
  ConcatN(n, LAMBDA i : <<Line("set", k, CfgValSeq[((s + i) % Len(CfgValSeq)) + 1], "", "", "", <<>>),
                          BenchLike(l, z, s + i)>>)
\* nested sweep: k1 changes with every run, k2 only after every m runs (run number within a commit, ...);
\* during the first m runs k2 keeps what it had (possibly nothing)
Sweep2Lines(l, n, k1, k2, m, s, z) ==
  ConcatN(n, LAMBDA i :
    (IF (i - 1) % m = 0 /\ i > 1
     THEN <<Line("set", k2, CfgValSeq[((s + ((i - 1) \div m)) % Len(CfgValSeq)) + 1], "", "", "", <<>>)>> ELSE <<>>)
    \o <<Line("set", k1, CfgValSeq[((s + i) % Len(CfgValSeq)) + 1], "", "", "", <<>>), BenchLike(l, z, s + i)>>)
BenchIdx(lines) == SelectSeq(MkSeq(Len(lines), LAMBDA i : i), LAMBDA i : lines[i].kind = "bench")
PassLines(lines, tmpl, w, n, s, z) ==
  LET bi == BenchIdx(lines)
      m == IF Len(bi) < w THEN Len(bi) ELSE w
  IN IF m = 0 THEN BurstLines(tmpl, n, s, 1, z)
     ELSE ConcatN(n, LAMBDA r : MkSeq(m, LAMBDA q : BenchLike(lines[bi[Len(bi) - m + q]], z, s + r + 3 * q)))
FanLines(l, n, s, z) ==
  MkSeq(n, LAMBDA i : LET nm == NameAt(s + i) IN
                      Line("bench", "", "", nm.base, nm.x, nm.g, ValsOf(UnitsOf(l), z, s + i)))

\* ladder: n benchmarks with distinct names, each run r times with its OWN pair of values (lo_i, hi_i)
\* (pairwise distinct over i), blocked or in r passes; with e the unit is first declared assume=exact,
\* so that every row has a warning of its own ("values range from lo_i to hi_i"): tables with n
\* DISTINCT footnotes, n on both sides of 10 and 100
LadderVal(i, j) == IF j = 2 THEN 12 + (i \div 11) ELSE 1 + (i % 11)
LadderLine(i, j, s, u) ==
  LET nm == NameAt(s + i) IN Line("bench", "", "", nm.base, nm.x, nm.g, <<[v |-> LadderVal(i, j), u |-> u]>>)
LadderLines(n, s, u, r, e, o) ==
  (IF e THEN <<Line("meta", u, "exact", "", "", "", <<>>)>> ELSE <<>>)
  \o (IF o = 0 THEN ConcatN(n, LAMBDA i : MkSeq(r, LAMBDA j : LadderLine(i, j, s, u)))
      ELSE ConcatN(r, LAMBDA j : MkSeq(n, LAMBDA i : LadderLine(i, j, s, u))))

PlainBench == {LET nm == NameAt(i) IN Line("bench", "", "", nm.base, nm.x, nm.g, ValsOf(us, z, s)) :
                 i \in 0..(NNames - 1), us \in UnitCombos, z \in {0, 1}, s \in {0, 4, 9}}
PlainRep(l) == {Line("bench", "", "", l.base, l.x, l.g, ValsOf(us, z, s)) : us \in UnitCombos, z \in {0, 1}, s \in 0..(NV - 1)}

DeepAddLine ==
  /\ phase = "lines" /\ pend # NoPend
  /\ LET lines == content[pend.p]
         has == LastBench(lines) # 0
         tmpl == IF has THEN lines[LastBench(lines)]
                 ELSE Line("bench", "", "", BaseSeq[1], "", "", <<[v |-> 1, u |-> "ns/op"]>>)
         app(more) == content' = [content EXCEPT ![pend.p] = @ \o more]
     IN CASE pend.k \in {"burst", "burst2"} ->
               \E n \in BurstSizes, s \in 0..2, t \in {1, 3}, z \in {0, 1} : app(BurstLines(tmpl, n, s, t, z))
          [] pend.k = "sweep" ->
               \E n \in SweepSizes, k \in CfgKeys, s \in 0..2, z \in {0, 1} : app(SweepLines(tmpl, n, k, s, z))
          [] pend.k \in {"sweep2", "sweep3", "sweep4"} ->
               \E n \in SweepSizes, k1 \in CfgKeys, k2 \in CfgKeys, m \in NestSizes, s \in {0, 2}, z \in {0, 1} :
                  k1 # k2 /\ m < n /\ app(Sweep2Lines(tmpl, n, k1, k2, m, s, z))
          [] pend.k = "pass" ->
               \E w \in {2, 3, 5}, n \in PassSizes, s \in 0..2, z \in {0, 1} : app(PassLines(lines, tmpl, w, n, s, z))
          [] pend.k = "fan" ->
               \E n \in FanSizes, s \in {0, 5, 17, 30}, z \in {0, 1} : app(FanLines(tmpl, n, s, z))
          [] pend.k \in {"ladder", "ladder2", "ladder3"} ->
               \E n \in LadderSizes, s \in {0, 7}, u \in RawUnits, r \in {2, 3}, e \in LadderExact, o \in {0, 1} :
                  app(LadderLines(n, s, u, r, e, o))
          [] pend.k \in {"b1", "b2"} -> \E l \in PlainBench : app(<<l>>)
          [] pend.k \in {"r1", "r2"} -> \E l \in (IF has THEN PlainRep(tmpl) ELSE PlainBench) : app(<<l>>)
          [] OTHER -> \E l \in LinesOfKind(KindOf(pend.k), lines) : app(<<l>>)
  /\ pend' = NoPend
  /\ steps' = steps + 1
  /\ UNCHANGED <<shape, args, flags, fi, phase, out>>

Full == steps >= shape.nl \/ TotalLines >= LineCap
DeepPickKind ==
  /\ phase = "lines" /\ pend = NoPend /\ ~Full
  /\ \E p \in {args[i].path : i \in 1..Len(args)}, k \in KindTokens : pend' = [p |-> p, k |-> k]
  /\ UNCHANGED <<shape, args, content, flags, fi, phase, out, steps>>

DeepLinesDone ==
  /\ phase = "lines" /\ pend = NoPend /\ Full
  /\ phase' = "flags"
  /\ UNCHANGED <<shape, args, content, pend, flags, fi, out, steps>>

DeepNext ==
  \/ (AddArg /\ UNCHANGED steps) \/ DeepPickKind \/ DeepAddLine \/ DeepLinesDone \/ (ChooseFlag /\ UNCHANGED steps)
DeepSpec == Init /\ steps = 0 /\ [][DeepNext]_<<vars, steps>>

Used == {args[i].path : i \in 1..Len(args)}
Case == [tag |-> "case",
         args |-> args,
         content |-> [p \in Used |-> content[p]],
         flags |-> flags,
         expect |-> [tables |-> out.tables, labels |-> out.labels, nmeas |-> out.nmeas, ncells |-> out.ncells]]

EmitInv == Done => PrintT(ToJson(Case))
=============================================================================
