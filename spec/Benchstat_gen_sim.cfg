SPECIFICATION Spec
CONSTANTS
  MaxArgs = 3
  MinLines = 2
  MaxLines = 12
  PathSet = {"p1", "p2", "p3"}
  LabelSet = {"", "L1", "L2"}
  CfgKeys = {"c1", "c2"}
  CfgVals = {"a", "b"}
  Bases = {"N1", "N2"}
  XVals = {"", "s1", "s2"}
  GVals = {"", "4"}
  RawUnits = {"ns/op", "B/op", "frobs"}
  MetaVals = {"exact", "nothing"}
  ValSet = {0, 1, 2, 3}
  MaxVals = 2
  KindTokens = {"set", "set2", "del", "meta", "b1", "b2", "b3", "b4", "r1", "r2", "r3", "r4"}
  TableMenu = {".config", "", "c1", ".name", "c2,.config"}
  RowMenu = {".fullname", ".name", "/x", ".name,/gomaxprocs", ".fullname,c2"}
  ColMenu = {".file", "c1", "/x@(s2 s1)", ".config", "c1@alpha,.file", "/gomaxprocs", ""}
  IgnoreMenu = {"", ".file", "c2", ".config", "/x", ".fullname", ".name,c1"}
  FilterMenu = {"*", "c1:a", "-.name:N2", ".unit:ns/op", "-.unit:B/op", "/x:s1 OR .unit:frobs", ".file:L1"}
  AlphaMenu = {"0.05", "0.2", "1"}
  ConfMenu = {"0.95", "0.8", "0.5"}
  CountOnly = FALSE
INVARIANTS EmitInv TypeOK Partition WarnExact Defaults DiffersExact
CHECK_DEADLOCK FALSE
