SPECIFICATION Spec
CONSTANTS
  MaxArgs = 2
  MinLines = 1
  MaxLines = 3
  PathSet = {"p1"}
  LabelSet = {"", "L1"}
  CfgKeys = {"c1"}
  CfgVals = {"a"}
  Bases = {"N1"}
  XVals = {"", "s1"}
  GVals = {""}
  RawUnits = {"ns/op", "frobs"}
  MetaVals = {"exact"}
  ValSet = {2}
  MaxVals = 1
  KindTokens = {"set", "del", "b1"}
  TableMenu = {".config", ""}
  RowMenu = {".fullname", ".name"}
  ColMenu = {".file", "c1"}
  IgnoreMenu = {"", "c1"}
  FilterMenu = {"*"}
  AlphaMenu = {"0.05"}
  ConfMenu = {"0.95"}
  CountOnly = FALSE
INVARIANTS EmitInv TypeOK Partition WarnExact Defaults DiffersExact
CHECK_DEADLOCK FALSE
