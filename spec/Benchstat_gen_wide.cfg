SPECIFICATION DeepSpec
CONSTANTS
  MaxArgs = 2
  MinLines = 2
  MaxLines = 4
  PathSet = {"p1", "p2"}
  LabelSet = {"", "L1", "L2"}
  CfgKeys = {"c1", "c2", "c3", "c4"}
  CfgVals <- DCfgVals
  Bases <- DBases
  XVals <- DXVals
  GVals <- DGVals
  RawUnits = {"ns/op", "B/op", "frobs"}
  MetaVals = {"exact", "nothing"}
  ValSet = {0, 1, 2, 3, 4, 5, 6, 7, 8, 9, 10, 11, 12}
  MaxVals = 3
  KindTokens = {"ladder", "ladder2", "ladder3", "set", "sweep2", "r1"}
  BurstSizes = {2, 5, 7, 8, 9, 16, 17, 20, 21, 31, 32, 33, 50, 51, 64, 65}
  SweepSizes = {2, 3, 5, 8, 9, 10, 13, 17, 20, 27, 33, 36, 40}
  NestSizes = {3, 8, 9, 16, 17, 32}
  PassSizes = {2, 3, 7, 9, 11, 17}
  FanSizes = {3, 5, 12, 27, 40}
  LadderSizes = {98, 101, 110, 111, 112, 123, 131}
  LadderExact = {TRUE}
  LineCap = 260
  TableMenu = {".config", ""}
  RowMenu = {".fullname", ".fullname,c2"}
  ColMenu = {".file", "c1", "/x@(s2 s1)", ".config", "c1@alpha,.file", "/gomaxprocs", ""}
  IgnoreMenu = {"", ".file", "c2"}
  FilterMenu = {"*", "-.name:N2"}
  AlphaMenu = {"0.05", "1"}
  ConfMenu = {"0.95", "0.5"}
  CountOnly = FALSE
INVARIANTS EmitInv TypeOK Partition WarnExact Defaults DiffersExact
CHECK_DEADLOCK FALSE
