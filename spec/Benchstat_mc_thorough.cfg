SPECIFICATION Spec
CONSTANTS
  MaxArgs = 2
  MinLines = 1
  MaxLines = 3
  PathSet = {"p1", "p2"}
  LabelSet = {""}
  CfgKeys = {"c1", "c2"}
  CfgVals = {"a"}
  Bases = {"N1"}
  XVals = {"", "s1"}
  GVals = {""}
  RawUnits = {"ns/op", "frobs"}
  MetaVals = {"exact"}
  ValSet = {1}
  MaxVals = 1
  KindTokens = {"set", "del", "b1"}
  TableMenu = {".config", "", "c2,.config"}
  RowMenu = {".fullname", ".name"}
  ColMenu = {".file", "/x", "c1"}
  IgnoreMenu = {"", "c1", ".config"}
  FilterMenu = {"*", ".unit:ns/op"}
  AlphaMenu = {"0.05"}
  ConfMenu = {"0.95"}
  CountOnly = FALSE
INVARIANTS TypeOK Partition WarnExact Defaults DiffersExact
CHECK_DEADLOCK FALSE
