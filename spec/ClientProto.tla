------------------------------- MODULE ClientProto -------------------------------
(* One upload seen from the CLIENT side of the storage protocol                    *)
(* (golang.org/x/perf/storage, client.go): the caller's Upload object, the          *)
(* goroutine that NewUpload starts to run the HTTP round trip, the pipe between     *)
(* them, the connection, and the storage server (storage/app /upload) reduced to    *)
(* what it answers.                                                                 *)
(*                                                                                  *)
(* Caller actions - one per public call; the two calls that wait for the goroutine  *)
(* are split into call / return:                                                    *)
(*   NewUpload                    builds the request, starts the goroutine          *)
(*   CreateFile, Write(rec|junk)  append a part header / a chunk to the pipe        *)
(*   CommitCall .. CommitRet      "commit" field, closing boundary, close the pipe, *)
(*                                then wait for the goroutine's verdict             *)
(*   AbortCall .. AbortRet        "abort" field (the server answers it with an      *)
(*                                error), close the pipe, wait for the verdict      *)
(*   Cancel                       the context given to NewUpload is cancelled       *)
(* Internal actions: SrvAuth, SrvStep (the server consumes one item of the body),   *)
(* SrvEOF, Cut (the connection breaks where the fault plan says), ReplyArrive,      *)
(* GoCancelled / GoConnLost (the round trip ends with an error), PipeClose (the     *)
(* transport closes the reading end of the pipe after a failure - at an arbitrary   *)
(* later moment, which is why a Write after a failure may or may not fail).         *)
(*                                                                                  *)
(* The contract (package documentation: "The upload must have Abort or Commit       *)
(* called on it", "Use CreateFile to upload one or more files, then call Commit or   *)
(* Abort", "err is the first observed error", "Abort attempts to cancel the          *)
(* in-progress upload") as invariants:                                              *)
(*   CommitOkStored      Commit returned nil  =>  the server committed exactly the   *)
(*                       files and records the caller wrote, and a status is there   *)
(*   StoredOnlyOnCommit  the server committed =>  the caller called Commit (and had  *)
(*                       not called Abort before), and what is stored is what the    *)
(*                       caller wrote                                                *)
(*   ErrNotStored        Commit returned an error and the data is stored all the     *)
(*                       same  =>  the server's 200 was lost on the way (connection  *)
(*                       cut / context cancelled after the complete body was sent):  *)
(*                       the only in-doubt case                                      *)
(*   FailedWriteNoSuccess  a CreateFile/Write that failed is never followed by a     *)
(*                       successful Commit                                           *)
(*   WriteErrHasCause    a Write fails only after something went wrong               *)
(*   NoHang, NoPanic     every call returns                                          *)
(*   NoLeak              the goroutine ends once its verdict has been collected      *)
(*   Sticky              after a failure every later CreateFile / Commit fails       *)
(*   EveryCallReturns    (liveness) a caller waiting in Commit / Abort gets out      *)
(*                                                                                  *)
(* Deviations of the code from this contract are named switches (FALSE = contract): *)
(*   AbortBlocksWhenDone  Abort on an upload whose verdict has been collected (or    *)
(*                        that never had a goroutine) waits on a nil channel         *)
(*   PanicWhenDone        Commit / CreateFile after a successful Commit use the      *)
(*                        multipart writer that Commit set to nil                    *)
(*   DecodeErrLeaks       an undecodable 200 response: the goroutine reports the     *)
(*                        error and then tries to report success as well             *)
EXTENDS Naturals, Sequences, FiniteSets, TLC

CONSTANTS
  MaxFiles,            \* CreateFile calls per upload
  MaxWrites,           \* Write calls per file
  MaxPost,             \* calls made after the upload has finished
  MaxAt,               \* fault positions 1..MaxAt in the request stream
  PlanKinds,           \* subset of {"none","badurl","auth","fsfail","cut","cutreply"}
  CancelKinds,         \* plan kinds under which the caller may cancel the context
  AbortBlocksWhenDone, PanicWhenDone, DecodeErrLeaks

VARIABLES
  \* ---- the Upload object (fields of storage.Upload)
  obj,       \* "none" (NewUpload not called) | "bad" (request could not be built: Upload{err}) | "live"
  mpw,       \* TRUE while u.mpw / u.pw are non-nil (Commit and Abort set both to nil)
  errch,     \* TRUE while u.errCh is non-nil (set to nil when the verdict has been received)
  uerr,      \* u.err != nil
  status,    \* u.status set by the goroutine
  \* ---- the caller
  cur,       \* the caller holds a file writer from CreateFile
  created,   \* CreateFile calls so far
  nwr,       \* Write calls on the current file
  posts,     \* calls after the upload finished
  waiting,   \* "none" | "commit" | "abort": blocked on <-u.errCh inside that call
  widx,      \* index in hist of the call that is waiting
  hung,      \* the caller is blocked for ever
  panicked,  \* the call panicked
  ctx,       \* "live" | "cancelled"
  \* ---- pipe, goroutine, connection, server
  stream,    \* items the caller got into the pipe: "hdr" | "rec" | "junk" | "commit" | "abort" | "close"
  pipeR,     \* "open" | "closed": reading end of the pipe (closed by the transport after a failure)
  g,         \* goroutine: "none" | "inflight" | "send_ok" | "send_err" | "send_err_leak" | "done" | "stuck"
  rt,        \* round trip: "running" | "ok" | "failed"
  conn,      \* "up" | "cut"
  fwd,       \* items that reached the server before the connection broke
  srvPos,    \* items the server has consumed
  srvSt,     \* "reading" | "replied" | "dead"
  srvFiles,  \* records per file received so far
  outcome,   \* "none" | "committed" | "aborted"
  reply,     \* "none" | "ok" | "err": answer on its way back
  plan,      \* [kind, at]: the fault plan of this behaviour
  \* ---- history (not part of the VIEW in mode M)
  hist,      \* caller-visible events [op, res]
  cfiles,    \* records per file the caller wrote successfully
  wfail,     \* some CreateFile / Write failed while the upload was in progress
  commitRes, \* "none" | "ok" | "err": result of the first Commit
  commitCalled, abortFirst

vars == <<obj, mpw, errch, uerr, status, cur, created, nwr, posts, waiting, widx, hung, panicked, ctx,
          stream, pipeR, g, rt, conn, fwd, srvPos, srvSt, srvFiles, outcome, reply, plan,
          hist, cfiles, wfail, commitRes, commitCalled, abortFirst>>

\* everything but the history: the VIEW of mode M
view == <<obj, mpw, errch, uerr, status, cur, created, nwr, posts, waiting, hung, panicked, ctx,
          stream, pipeR, g, rt, conn, fwd, srvPos, srvSt, srvFiles, outcome, reply, plan,
          wfail, commitRes, commitCalled, abortFirst, cfiles>>

objVars  == <<obj, mpw, errch, uerr, status>>
callVars == <<cur, created, nwr, posts, waiting, widx, hung, panicked>>
netVars  == <<g, rt, conn, fwd, srvPos, srvSt, srvFiles, outcome, reply>>
histVars == <<cfiles, wfail, commitRes, commitCalled, abortFirst>>

AllPlans ==
  {[kind |-> k, at |-> 0] : k \in PlanKinds \cap {"none", "badurl", "auth"}}
  \cup {[kind |-> "fsfail", at |-> a] : a \in IF "fsfail" \in PlanKinds THEN 1..MaxFiles ELSE {}}
  \cup {[kind |-> "cut", at |-> a] : a \in IF "cut" \in PlanKinds THEN 1..MaxAt ELSE {}}
  \cup {[kind |-> "cutreply", at |-> a] : a \in IF "cutreply" \in PlanKinds THEN 0..1 ELSE {}}

\* everything but the fault plan (a state function, so that the trace spec can prime it)
Blank ==
  /\ obj = "none" /\ mpw = FALSE /\ errch = FALSE /\ uerr = FALSE /\ status = FALSE
  /\ cur = FALSE /\ created = 0 /\ nwr = 0 /\ posts = 0 /\ waiting = "none" /\ widx = 0
  /\ hung = FALSE /\ panicked = FALSE /\ ctx = "live"
  /\ stream = <<>> /\ pipeR = "open" /\ g = "none" /\ rt = "running" /\ conn = "up" /\ fwd = 0
  /\ srvPos = 0 /\ srvSt = "reading" /\ srvFiles = <<>> /\ outcome = "none" /\ reply = "none"
  /\ hist = <<>> /\ cfiles = <<>> /\ wfail = FALSE /\ commitRes = "none"
  /\ commitCalled = FALSE /\ abortFirst = FALSE

Init == plan \in AllPlans /\ Blank

Ev(op, res) == [op |-> op, res |-> res]
Ret(op, res) == hist' = Append(hist, Ev(op, res))

\* the upload is over for the caller: a Commit or Abort has returned, or there never was a request
Finished == obj # "none" /\ ~errch /\ waiting = "none"
\* the caller can make a call
Callable == obj # "none" /\ waiting = "none" /\ ~hung /\ ~panicked
\* budget for calls after the end
PostOk == Finished => posts < MaxPost
CountPost == posts' = IF Finished THEN posts + 1 ELSE posts

\* ------------------------------------------------------------------ caller
NewUpload ==
  /\ obj = "none"
  /\ IF plan.kind = "badurl"
     THEN /\ obj' = "bad" /\ uerr' = TRUE           \* http.NewRequest failed: &Upload{err: err}
          /\ UNCHANGED <<mpw, errch, g>>
     ELSE /\ obj' = "live" /\ mpw' = TRUE /\ errch' = TRUE /\ g' = "inflight"
          /\ UNCHANGED uerr
  /\ Ret("new", "-")
  /\ UNCHANGED <<status, callVars, ctx, stream, pipeR, rt, conn, fwd, srvPos, srvSt, srvFiles, outcome, reply, plan, histVars>>

CreateFile ==
  /\ Callable /\ PostOk /\ created < MaxFiles
  /\ created' = created + 1 /\ CountPost
  /\ nwr' = 0                                       \* (bounds only) writes are counted per CreateFile call
  /\ IF uerr
     THEN /\ Ret("create", "err")                   \* the first observed error is returned from now on
          /\ UNCHANGED <<cur, panicked, stream, cfiles, wfail>>
     ELSE IF ~mpw
     THEN \* the upload was committed: there is nothing a new file could be added to
          IF PanicWhenDone
          THEN /\ panicked' = TRUE /\ Ret("create", "panic") /\ UNCHANGED <<cur, stream, cfiles, wfail>>
          ELSE /\ Ret("create", "err") /\ UNCHANGED <<cur, panicked, stream, cfiles, wfail>>
     ELSE IF pipeR = "closed"
     THEN /\ Ret("create", "err") /\ wfail' = TRUE  \* the part header could not be written
          /\ UNCHANGED <<cur, panicked, stream, cfiles>>
     ELSE /\ stream' = Append(stream, "hdr") /\ cur' = TRUE
          /\ cfiles' = Append(cfiles, 0)
          /\ Ret("create", "ok") /\ UNCHANGED <<panicked, wfail>>
  /\ UNCHANGED <<objVars, waiting, widx, hung, ctx, pipeR, netVars, plan, commitRes, commitCalled, abortFirst>>

\* a Write on the writer of the last successful CreateFile; "nw": the caller holds no writer (every
\* CreateFile so far failed), nothing is called - kept as a step so that the calls a caller can make
\* do not depend on earlier results
Write(k) ==
  /\ Callable /\ PostOk /\ created > 0 /\ nwr < MaxWrites
  /\ nwr' = nwr + 1 /\ CountPost
  /\ IF ~cur
     THEN /\ Ret("w" \o k, "nw") /\ UNCHANGED <<stream, cfiles, wfail>>
     ELSE IF ~mpw
     THEN /\ Ret("w" \o k, "err")                    \* Commit / Abort ended the part this writer belongs to
          /\ UNCHANGED <<stream, cfiles, wfail>>
     ELSE IF pipeR = "closed"
     THEN /\ Ret("w" \o k, "err") /\ wfail' = TRUE /\ UNCHANGED <<stream, cfiles>>
     ELSE /\ stream' = Append(stream, k)
          /\ cfiles' = IF k = "rec" THEN [cfiles EXCEPT ![Len(cfiles)] = @ + 1] ELSE cfiles
          /\ Ret("w" \o k, "ok") /\ UNCHANGED wfail
  /\ UNCHANGED <<objVars, cur, created, waiting, widx, hung, panicked, ctx, pipeR, netVars, plan, commitRes, commitCalled, abortFirst>>

NoteCommit(r) == commitRes' = IF commitRes = "none" THEN r ELSE commitRes

CommitCall ==
  /\ Callable /\ PostOk /\ CountPost
  /\ commitCalled' = (commitCalled \/ ~abortFirst)
  /\ IF uerr
     THEN /\ Ret("commit", "err") /\ NoteCommit("err")
          /\ UNCHANGED <<mpw, uerr, waiting, widx, panicked, stream>>
     ELSE IF ~mpw
     THEN \* second Commit after a successful one: free (the same status again, or an error), but it returns
          IF PanicWhenDone
          THEN /\ panicked' = TRUE /\ Ret("commit", "panic") /\ UNCHANGED <<mpw, uerr, waiting, widx, stream, commitRes>>
          ELSE /\ \E r \in {"ok", "err"} : Ret("commit", r)
               /\ UNCHANGED <<mpw, uerr, waiting, widx, panicked, stream, commitRes>>
     ELSE /\ IF pipeR = "closed"
             THEN /\ uerr' = TRUE /\ UNCHANGED stream  \* WriteField / Close failed: u.err set, Abort() inline
             ELSE /\ stream' = stream \o <<"commit", "close">> /\ UNCHANGED uerr
          /\ mpw' = FALSE /\ waiting' = "commit" /\ widx' = Len(hist) + 1
          /\ Ret("commit", "?") /\ UNCHANGED <<panicked, commitRes>>
  /\ UNCHANGED <<obj, errch, status, cur, created, nwr, hung, ctx, pipeR, netVars, plan, cfiles, wfail, abortFirst>>

Handover == g' = CASE g = "send_err_leak" -> "stuck" [] OTHER -> "done"

CommitRet ==
  /\ waiting = "commit" /\ g \in {"send_ok", "send_err", "send_err_leak"}
  /\ LET r == IF uerr \/ g # "send_ok" THEN "err" ELSE "ok" IN
     /\ uerr' = (r = "err") /\ NoteCommit(r)
     /\ hist' = [hist EXCEPT ![widx].res = r]
  /\ errch' = FALSE /\ waiting' = "none" /\ Handover
  /\ UNCHANGED <<obj, mpw, status, cur, created, nwr, posts, widx, hung, panicked, ctx, stream, pipeR,
                 rt, conn, fwd, srvPos, srvSt, srvFiles, outcome, reply, plan, cfiles, wfail, commitCalled, abortFirst>>

AbortCall ==
  /\ Callable /\ PostOk /\ CountPost
  /\ abortFirst' = (abortFirst \/ ~commitCalled)
  /\ IF mpw /\ pipeR = "open" THEN stream' = stream \o <<"abort", "close">> ELSE UNCHANGED stream
  /\ mpw' = FALSE
  /\ IF errch
     THEN /\ waiting' = "abort" /\ widx' = Len(hist) + 1 /\ Ret("abort", "?") /\ UNCHANGED hung
     ELSE \* nothing left to wait for: Abort returns (the recorded error, or nil)
          IF AbortBlocksWhenDone
          THEN /\ hung' = TRUE /\ Ret("abort", "hang") /\ UNCHANGED <<waiting, widx>>
          ELSE /\ Ret("abort", "-") /\ UNCHANGED <<waiting, widx, hung>>
  /\ UNCHANGED <<obj, errch, uerr, status, cur, created, nwr, panicked, ctx, pipeR, netVars, plan, cfiles, wfail, commitRes, commitCalled>>

AbortRet ==
  /\ waiting = "abort" /\ g \in {"send_ok", "send_err", "send_err_leak"}
  /\ uerr' = (uerr \/ g # "send_ok")
  /\ hist' = [hist EXCEPT ![widx].res = "-"]          \* what Abort returns is not prescribed
  /\ errch' = FALSE /\ waiting' = "none" /\ Handover
  /\ UNCHANGED <<obj, mpw, status, cur, created, nwr, posts, widx, hung, panicked, ctx, stream, pipeR,
                 rt, conn, fwd, srvPos, srvSt, srvFiles, outcome, reply, plan, histVars>>

\* the caller's context is cancelled: while it is between calls or while it waits in Commit / Abort
Cancel ==
  /\ obj = "live" /\ ctx = "live" /\ errch /\ ~hung /\ ~panicked
  /\ plan.kind \in CancelKinds
  /\ ctx' = "cancelled" /\ Ret("cancel", "-")
  /\ UNCHANGED <<objVars, callVars, stream, pipeR, netVars, plan, histVars>>

\* ------------------------------------------------------------------ goroutine, connection, server
Limit == IF conn = "up" THEN Len(stream) ELSE fwd

\* the authentication hook refuses the request before the body is looked at
SrvAuth ==
  /\ plan.kind = "auth" /\ g = "inflight" /\ conn = "up" /\ srvSt = "reading"
  /\ srvSt' = "replied" /\ reply' = "err" /\ outcome' = "aborted"
  /\ UNCHANGED <<objVars, callVars, ctx, stream, pipeR, g, rt, conn, fwd, srvPos, srvFiles, plan, hist, histVars>>

LastEmpty == Len(srvFiles) > 0 /\ srvFiles[Len(srvFiles)] = 0
Reject == srvSt' = "replied" /\ reply' = "err" /\ outcome' = "aborted" /\ UNCHANGED srvFiles

\* the server consumes the next item of the body; a part ends where the next boundary begins,
\* so a file without benchmark lines is noticed when the following item arrives
SrvStep ==
  /\ plan.kind # "auth" /\ srvSt = "reading" /\ srvPos < Limit
  /\ srvPos' = srvPos + 1
  /\ LET it == stream[srvPos + 1] IN
     CASE it = "hdr" ->
            IF LastEmpty \/ (plan.kind = "fsfail" /\ plan.at = Len(srvFiles) + 1)
            THEN Reject
            ELSE srvFiles' = Append(srvFiles, 0) /\ UNCHANGED <<srvSt, reply, outcome>>
       [] it = "rec"  -> srvFiles' = [srvFiles EXCEPT ![Len(srvFiles)] = @ + 1] /\ UNCHANGED <<srvSt, reply, outcome>>
       [] it = "junk" -> UNCHANGED <<srvFiles, srvSt, reply, outcome>>
       [] it = "commit" -> IF LastEmpty THEN Reject ELSE UNCHANGED <<srvFiles, srvSt, reply, outcome>>
       [] it = "abort" -> Reject                        \* "unexpected field"
       [] it = "close" ->
            IF LastEmpty \/ Len(srvFiles) = 0
            THEN Reject                                  \* "no valid benchmark lines found" / "no files processed"
            ELSE srvSt' = "replied" /\ reply' = "ok" /\ outcome' = "committed" /\ UNCHANGED srvFiles
  /\ UNCHANGED <<objVars, callVars, ctx, stream, pipeR, g, rt, conn, fwd, plan, hist, histVars>>

\* the body ends where the connection broke
SrvEOF ==
  /\ conn = "cut" /\ srvSt = "reading" /\ srvPos = fwd
  /\ srvSt' = "dead" /\ outcome' = "aborted"
  /\ UNCHANGED <<objVars, callVars, ctx, stream, pipeR, g, rt, conn, fwd, srvPos, srvFiles, reply, plan, hist, histVars>>

Max(a, b) == IF a > b THEN a ELSE b

\* the connection breaks once item plan.at has been sent
Cut ==
  /\ plan.kind = "cut" /\ conn = "up" /\ g = "inflight" /\ Len(stream) >= plan.at
  /\ conn' = "cut"
  /\ \E f \in Max(plan.at, srvPos)..Len(stream) : fwd' = f
  /\ UNCHANGED <<objVars, callVars, ctx, stream, pipeR, g, rt, srvPos, srvSt, srvFiles, outcome, reply, plan,
                 hist, cfiles, wfail, commitRes, commitCalled, abortFirst>>

GoConnLost ==
  /\ conn = "cut" /\ g = "inflight"
  /\ g' = "send_err" /\ rt' = "failed"
  /\ UNCHANGED <<objVars, callVars, ctx, stream, pipeR, conn, fwd, srvPos, srvSt, srvFiles, outcome, reply, plan, hist, histVars>>

\* ctxhttp.Do notices the cancellation: the request is torn down
GoCancelled ==
  /\ ctx = "cancelled" /\ g = "inflight" /\ conn = "up"
  /\ g' = "send_err" /\ rt' = "failed" /\ conn' = "cut"
  /\ \E f \in srvPos..Len(stream) : fwd' = f
  /\ UNCHANGED <<objVars, callVars, ctx, stream, pipeR, srvPos, srvSt, srvFiles, outcome, reply, plan,
                 hist, cfiles, wfail, commitRes, commitCalled, abortFirst>>

ReplyArrive ==
  /\ conn = "up" /\ reply # "none" /\ g = "inflight"
  /\ IF plan.kind = "cutreply"
     THEN /\ conn' = "cut" /\ fwd' = srvPos /\ rt' = "failed"
                  /\ g' = IF plan.at = 1 /\ reply = "ok" /\ DecodeErrLeaks THEN "send_err_leak" ELSE "send_err"
          /\ UNCHANGED status
     ELSE /\ g' = IF reply = "ok" THEN "send_ok" ELSE "send_err"
          /\ rt' = IF reply = "ok" THEN "ok" ELSE "failed"
          /\ status' = (reply = "ok")
          /\ UNCHANGED <<conn, fwd>>
  /\ reply' = "none"
  /\ UNCHANGED <<obj, mpw, errch, uerr, callVars, ctx, stream, pipeR, srvPos, srvSt, srvFiles, outcome, plan,
                 hist, cfiles, wfail, commitRes, commitCalled, abortFirst>>

\* after a failed round trip the transport closes the request body - some time later
PipeClose ==
  /\ rt = "failed" /\ pipeR = "open"
  /\ pipeR' = "closed"
  /\ UNCHANGED <<objVars, callVars, ctx, stream, netVars, plan, hist, histVars>>

Internal == SrvAuth \/ SrvStep \/ SrvEOF \/ Cut \/ GoConnLost \/ GoCancelled \/ ReplyArrive \/ PipeClose
Caller == NewUpload \/ CreateFile \/ Write("rec") \/ Write("junk") \/ CommitCall \/ CommitRet \/ AbortCall \/ AbortRet \/ Cancel
Next == Caller \/ Internal
Spec == Init /\ [][Next]_vars /\ WF_vars(Internal) /\ WF_vars(CommitRet) /\ WF_vars(AbortRet)

\* guards of the internal actions (Quiescent is used by the generator)
CanInternal ==
  \/ (plan.kind = "auth" /\ g = "inflight" /\ conn = "up" /\ srvSt = "reading")
  \/ (plan.kind # "auth" /\ srvSt = "reading" /\ srvPos < Limit)
  \/ (conn = "cut" /\ srvSt = "reading" /\ srvPos = fwd)
  \/ (plan.kind = "cut" /\ conn = "up" /\ g = "inflight" /\ Len(stream) >= plan.at)
  \/ (conn = "cut" /\ g = "inflight")
  \/ (ctx = "cancelled" /\ g = "inflight" /\ conn = "up")
  \/ (conn = "up" /\ reply # "none" /\ g = "inflight")
  \/ (rt = "failed" /\ pipeR = "open")
Quiescent == ~CanInternal /\ ~(waiting # "none" /\ g \in {"send_ok", "send_err", "send_err_leak"})

\* ------------------------------------------------------------------ properties
Items == {"hdr", "rec", "junk", "commit", "abort", "close"}
TypeOK ==
  /\ obj \in {"none", "bad", "live"} /\ mpw \in BOOLEAN /\ errch \in BOOLEAN /\ uerr \in BOOLEAN /\ status \in BOOLEAN
  /\ cur \in BOOLEAN /\ created \in 0..MaxFiles /\ nwr \in 0..MaxWrites /\ posts \in 0..MaxPost
  /\ waiting \in {"none", "commit", "abort"} /\ hung \in BOOLEAN /\ panicked \in BOOLEAN
  /\ ctx \in {"live", "cancelled"} /\ \A i \in 1..Len(stream) : stream[i] \in Items
  /\ pipeR \in {"open", "closed"}
  /\ g \in {"none", "inflight", "send_ok", "send_err", "send_err_leak", "done", "stuck"}
  /\ rt \in {"running", "ok", "failed"} /\ conn \in {"up", "cut"} /\ srvPos <= Len(stream)
  /\ srvSt \in {"reading", "replied", "dead"} /\ outcome \in {"none", "committed", "aborted"}
  /\ reply \in {"none", "ok", "err"} /\ commitRes \in {"none", "ok", "err"}

CommitOkStored     == commitRes = "ok" => (outcome = "committed" /\ status /\ srvFiles = cfiles)
StoredOnlyOnCommit == outcome = "committed" => (commitCalled /\ ~abortFirst /\ srvFiles = cfiles
                                                 /\ Len(cfiles) > 0 /\ \A i \in 1..Len(cfiles) : cfiles[i] > 0)
ErrNotStored       == (commitRes = "err" /\ outcome = "committed") => conn = "cut"
FailedWriteNoSuccess == wfail => commitRes # "ok"
WriteErrHasCause   == wfail => (rt = "failed")
NoHang  == ~hung
NoPanic == ~panicked
NoLeak  == g # "stuck"
\* the Upload object's own bookkeeping
ObjConsistent ==
  /\ (errch => obj = "live") /\ (status => g \in {"send_ok", "done"})
  /\ (waiting # "none" => errch /\ ~mpw)
  /\ (obj = "live" /\ ~errch => g \in {"done", "stuck"})     \* verdict collected exactly once
  /\ (g \in {"done", "stuck"} => ~errch)
\* a caller blocked in Commit / Abort can still be served
WaitServed == waiting # "none" => g \in {"inflight", "send_ok", "send_err", "send_err_leak"}

Sticky == [][(uerr /\ Finished) => (uerr' /\ (commitRes = "err" => commitRes' = "err"))]_vars
EveryCallReturns == (waiting # "none") ~> (waiting = "none")
GoroutineEnds == (obj = "live" /\ ~errch) ~> (g = "done")
=============================================================================
