----------------------------- MODULE ClientProtoRead -----------------------------
(* The two streaming readers of the storage client (storage/client.go):             *)
(*   Client.Query        -> *Query       Next / Result / Err / Close  over /search    *)
(*   Client.ListUploads  -> *UploadList  Next / Info   / Err / Close  over /uploads   *)
(* as one protocol state machine of a reader object, against a server answer that    *)
(* is complete, an HTTP error status, a refused connection, or a body cut off by     *)
(* the connection after k complete items (exactly between two items, or inside the   *)
(* next one), and a context that is cancelled before the call.                       *)
(*                                                                                  *)
(* Contract (doc comments of Query / UploadList: "Next ... returns false when there  *)
(* are no more results, either by reaching the end of the input or an error", "Err   *)
(* returns the first error encountered during the query", "Close frees resources     *)
(* associated with the query", "making sure to call Close when done"):               *)
(*   Prefix      the items handed out are the server's items, in order, each one     *)
(*               whole: Next is true exactly while a complete item is left           *)
(*   NextStaysFalse                                                                  *)
(*   ErrAtEnd    once Next has returned false, Err is nil if and only if the whole   *)
(*               answer was delivered (no silent truncation, no spurious error)      *)
(*   ErrEarly    an HTTP error status / refused connection / cancelled context is    *)
(*               reported by Err from the start                                      *)
(*   BodyClosed  after Close (and after a call that failed outright) no response     *)
(*               body is left open; Close may be called twice                        *)
(* Named deviations (FALSE = contract):                                              *)
(*   TornTail       Query hands out the torn beginning of the item the connection    *)
(*                  broke in, as one more result, before reporting the error         *)
(*   ListLeaksBody  ListUploads does not close the body of a non-200 answer          *)
EXTENDS Naturals, Sequences, FiniteSets, TLC

CONSTANTS MaxItems, MaxCalls, Kinds, TornTail, ListLeaksBody

VARIABLES
  kind,      \* "query" | "list"
  ans,       \* the server's answer: [t: "ok"|"status"|"refused"|"cancelled"|"cut", n, k, torn]
  st,        \* "none" | "open" | "ended" (Next has returned false)
  closed,    \* Close has been called
  pos,       \* items handed out
  tornOut,   \* a torn item was handed out
  body,      \* "none" | "open" | "closed": the HTTP response body
  calls,     \* calls made
  hist       \* [op, res]

vars == <<kind, ans, st, closed, pos, tornOut, body, calls, hist>>
view == <<kind, ans, st, closed, pos, tornOut, body, calls>>

Answers ==
  {[t |-> "ok", n |-> n, k |-> n, torn |-> FALSE] : n \in 0..MaxItems}
  \cup {[t |-> x, n |-> 0, k |-> 0, torn |-> FALSE] : x \in {"status", "refused", "cancelled"}}
  \cup {[t |-> "cut", n |-> n, k |-> k, torn |-> b] : n \in 1..MaxItems, k \in 0..(MaxItems - 1), b \in BOOLEAN}

Init ==
  /\ kind \in Kinds
  /\ ans \in {a \in Answers : a.k <= a.n /\ (a.t = "cut" => a.k < a.n)}
  /\ st = "none" /\ closed = FALSE /\ pos = 0 /\ tornOut = FALSE /\ body = "none" /\ calls = 0 /\ hist = <<>>

Ret(op, res) == hist' = Append(hist, [op |-> op, res |-> res])
Failed == ans.t \in {"status", "refused", "cancelled"}
\* complete items that can be handed out
Avail == IF Failed THEN 0 ELSE ans.k
\* the torn item is handed out as well (deviation; only the line-oriented reader can do it)
Torn == TornTail /\ kind = "query" /\ ans.t = "cut" /\ ans.torn

\* Client.Query / Client.ListUploads: the request is made, the reader object returned
Open ==
  /\ st = "none"
  /\ st' = "open"
  /\ body' = CASE ans.t \in {"refused", "cancelled"} -> "none"          \* there is no response
               [] ans.t = "status" -> IF ListLeaksBody /\ kind = "list" THEN "open" ELSE "closed"
               [] OTHER -> "open"
  /\ Ret("open", "-")
  /\ UNCHANGED <<kind, ans, closed, pos, tornOut, calls>>

CanCall == st # "none" /\ calls < MaxCalls

Next ==
  /\ CanCall /\ ~closed
  /\ calls' = calls + 1
  /\ IF st = "open" /\ pos < Avail
     THEN /\ pos' = pos + 1 /\ Ret("next", "item") /\ UNCHANGED <<st, tornOut>>
     ELSE IF st = "open" /\ pos = Avail /\ Torn /\ ~tornOut
     THEN /\ tornOut' = TRUE /\ Ret("next", "torn") /\ UNCHANGED <<st, pos>>
     ELSE /\ st' = "ended" /\ Ret("next", "false") /\ UNCHANGED <<pos, tornOut>>
  /\ UNCHANGED <<kind, ans, closed, body>>

\* Err: prescribed at the start for outright failures and after the end; in the middle of a
\* cut answer the reader may or may not have met the error already
ErrCall ==
  /\ CanCall
  /\ calls' = calls + 1
  /\ \E r \in {"nil", "err"} :
       /\ (Failed => r = "err")
       /\ (ans.t = "ok" => r = "nil")
       /\ (ans.t = "cut" /\ st = "ended" => r = "err")
       /\ (ans.t = "cut" /\ st = "open" /\ ~closed /\ pos < Avail => r = "nil")   \* nothing has gone wrong yet
       /\ Ret("err", r)
  /\ UNCHANGED <<kind, ans, st, closed, pos, tornOut, body>>

Close ==
  /\ CanCall
  /\ calls' = calls + 1
  /\ closed' = TRUE
  /\ body' = IF body = "open" /\ ~(ListLeaksBody /\ kind = "list" /\ ans.t = "status") THEN "closed" ELSE body
  /\ Ret("close", "-")
  /\ UNCHANGED <<kind, ans, st, pos, tornOut>>

Step == Open \/ Next \/ ErrCall \/ Close
Spec == Init /\ [][Step]_vars

\* ------------------------------------------------------------------ properties
TypeOK == /\ kind \in {"query", "list"} /\ st \in {"none", "open", "ended"} /\ closed \in BOOLEAN
          /\ pos \in 0..MaxItems /\ body \in {"none", "open", "closed"} /\ calls \in 0..MaxCalls
Prefix == pos <= Avail /\ ~tornOut
Items(h) == {i \in 1..Len(h) : h[i].op = "next" /\ h[i].res # "false"}
Falses(h) == {i \in 1..Len(h) : h[i].op = "next" /\ h[i].res = "false"}
NextStaysFalse == \A i \in Falses(hist) : \A j \in Items(hist) : j < i
AllBeforeEnd == st = "ended" => pos = Avail
ErrAtEnd == \A i \in 1..Len(hist) :
              (hist[i].op = "err" /\ \E j \in Falses(hist) : j < i) => ((hist[i].res = "nil") <=> (ans.t = "ok"))
ErrEarly == \A i \in 1..Len(hist) : (hist[i].op = "err" /\ Failed) => hist[i].res = "err"
BodyClosed == (closed \/ (st # "none" /\ Failed)) => body # "open"
=============================================================================
