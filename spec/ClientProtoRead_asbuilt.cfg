SPECIFICATION Spec
CONSTANTS
  MaxItems = 2
  MaxCalls = 5
  Kinds = {"query", "list"}
  TornTail = TRUE
  ListLeaksBody = TRUE
VIEW view
INVARIANTS TypeOK Prefix NextStaysFalse AllBeforeEnd ErrAtEnd ErrEarly BodyClosed
CHECK_DEADLOCK FALSE
