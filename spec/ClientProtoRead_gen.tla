--------------------------- MODULE ClientProtoRead_gen ---------------------------
(* Mode G for ClientProtoRead: every sequence of MaxCalls calls on a reader, for    *)
(* every kind of reader and every server answer, with the result the contract       *)
(* gives each call (the driver groups the printed lines by (kind, answer, calls):    *)
(* where the contract leaves Err free, both values remain).                          *)
EXTENDS ClientProtoRead, Json

EmitRead == (calls = MaxCalls \/ (closed /\ calls >= 2)) =>
  PrintT(ToJson([tag |-> "read", kind |-> kind, ans |-> ans, hist |-> hist]))
=============================================================================
