INIT Init
NEXT Step
CONSTANTS
  MaxItems = 2
  MaxCalls = 4
  Kinds = {"query", "list"}
  TornTail = FALSE
  ListLeaksBody = FALSE
INVARIANTS EmitRead
CHECK_DEADLOCK FALSE
