INIT Init
NEXT Step
CONSTANTS
  MaxItems = 3
  MaxCalls = 5
  Kinds = {"query", "list"}
  TornTail = FALSE
  ListLeaksBody = FALSE
INVARIANTS EmitRead
CHECK_DEADLOCK FALSE
