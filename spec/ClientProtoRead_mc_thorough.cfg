SPECIFICATION Spec
CONSTANTS
  MaxItems = 3
  MaxCalls = 7
  Kinds = {"query", "list"}
  TornTail = FALSE
  ListLeaksBody = FALSE
VIEW view
INVARIANTS TypeOK Prefix NextStaysFalse AllBeforeEnd ErrAtEnd ErrEarly BodyClosed
CHECK_DEADLOCK FALSE
