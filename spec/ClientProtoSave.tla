----------------------------- MODULE ClientProtoSave -----------------------------
(* cmd/benchsave as a relation between its command line / environment and what it   *)
(* leaves behind, written from its documentation:                                    *)
(*     benchsave [-v] [-header file] [-server url] file...                           *)
(*     "Benchsave will upload the input files to the specified server and print a    *)
(*      URL where they can be viewed."   -header: "insert file at the beginning of   *)
(*      each uploaded file"              -v: "print verbose log messages"            *)
(*                                                                                  *)
(* One input = one initial state: the list of file arguments (each: given with a     *)
(* directory or not, present or missing, with or without benchmark lines), the       *)
(* -header file (none / missing / a configuration line followed by 0..3 newlines /   *)
(* empty), -v, and the server (accepts and supplies a view URL whose page is         *)
(* text/plain, accepts with an HTML page, accepts without a view URL, refuses with   *)
(* 403, is not listening, or the URL does not parse).                                *)
(*                                                                                  *)
(* The declarative side (Expect) is the contract:                                    *)
(*   success  <=>  there is at least one file argument, the header file (if any) and *)
(*                 every input file can be read, every file holds a benchmark line,  *)
(*                 and the server accepts                                            *)
(*   success   =>  exit status 0; ONE upload holding the files in argument order     *)
(*                 under their base names, each = header lines, a blank line, the    *)
(*                 file; the view URL (if the server supplies one) is the last line   *)
(*                 of standard output, preceded by the page if it is text/plain;     *)
(*                 with -v a "N file(s) uploaded" line on standard error             *)
(*   ~success  =>  non-zero exit status, a diagnostic on standard error, no URL on   *)
(*                 standard output, nothing stored                                   *)
(*   and benchsave terminates.                                                       *)
(* The operational side (AsBuiltExit0, AsBuiltEnds) transcribes main(): a failure     *)
(* while the files are written ends in `log.Print(err); u.Abort(); return` - exit   *)
(* status 0 - and only a failing Commit in log.Fatalf; an unparsable server URL     *)
(* makes u.Abort() wait for ever.  Switches: ExitZeroOnWriteError, HangOnBadURL.     *)
EXTENDS Naturals, Sequences, FiniteSets, TLC

CONSTANTS MaxArgs, FileKinds, Headers, Servers, Verbose, ExitZeroOnWriteError, HangOnBadURL

VARIABLES args, header, server, verbose
vars == <<args, header, server, verbose>>

\* file kinds: "plain" a.txt, "subdir" d/a.txt (same base name), "other" b.txt, "missing", "junk" (no benchmark line)
SeqsUpTo(S, n) == UNION {[1..m -> S] : m \in 0..n}

Init ==
  /\ args \in SeqsUpTo(FileKinds, MaxArgs)
  /\ header \in Headers        \* "none" | "missing" | "nl0" | "nl1" | "nl3" | "empty"
  /\ server \in Servers        \* "view" | "html" | "noview" | "refuse" | "down" | "badurl"
  /\ verbose \in Verbose
Next == UNCHANGED vars
Spec == Init /\ [][Next]_vars

Readable(k) == k # "missing"
Valid(k) == k \in {"plain", "subdir", "other"}
Accepting == server \in {"view", "html", "noview"}
BaseName(k) == IF k = "other" THEN "b.txt" ELSE "a.txt"

Success ==
  /\ Len(args) > 0 /\ header # "missing"
  /\ \A i \in 1..Len(args) : Readable(args[i]) /\ Valid(args[i])
  /\ Accepting

\* ---- the contract
Expect ==
  [ exit0   |-> Success,
    stored  |-> IF Success THEN [i \in 1..Len(args) |-> BaseName(args[i])] ELSE <<>>,
    withHdr |-> Success /\ header \in {"nl0", "nl1", "nl3"},
    url     |-> Success /\ server \in {"view", "html"},
    page    |-> Success /\ server = "view",
    vline   |-> Success /\ verbose,
    diag    |-> ~Success,
    ends    |-> TRUE ]

\* ---- main() as written
\* where the failure surfaces: usage / header, while writing the files, or in Commit
FirstBad == IF \E i \in 1..Len(args) : ~Readable(args[i])
            THEN CHOOSE i \in 1..Len(args) : ~Readable(args[i]) /\ \A j \in 1..(i-1) : Readable(args[j])
            ELSE 0
\* the stages at which main() can notice the failure (a set: the server's refusal reaches the
\* writer at a moment that depends on timing)
Stages ==
  IF Len(args) = 0 \/ header = "missing" THEN {"fatal"}
  ELSE IF server = "badurl" THEN {"write"}                   \* CreateFile returns NewUpload's error
  ELSE IF FirstBad # 0 THEN {"write"}
  ELSE IF server \in {"refuse", "down"} THEN {"write", "commit"}
  ELSE IF \E i \in 1..Len(args) : ~Valid(args[i]) THEN {"write", "commit"}
  ELSE {"ok"}

AsBuiltExit0(stage) == stage = "ok" \/ (stage = "write" /\ ExitZeroOnWriteError)
AsBuiltEnds(stage)  == ~(stage = "write" /\ server = "badurl" /\ HangOnBadURL)

\* the program's exit status agrees with the contract at whatever stage the failure is noticed
ExitStatusRight == \A s \in Stages : AsBuiltEnds(s) => (AsBuiltExit0(s) <=> Expect.exit0)
Terminates      == \A s \in Stages : AsBuiltEnds(s)
StagesSound     == ("ok" \in Stages) <=> Success
=============================================================================
