--------------------------- MODULE ClientProtoSave_gen ---------------------------
(* Mode G for ClientProtoSave: one replay case per command line, with what the      *)
(* contract expects of it.                                                           *)
EXTENDS ClientProtoSave, Json

EmitSave == PrintT(ToJson([tag |-> "save", args |-> args, header |-> header, server |-> server,
                           verbose |-> verbose, expect |-> Expect]))
=============================================================================
