SPECIFICATION Spec
CONSTANTS
  MaxArgs = 2
  FileKinds = {"plain", "subdir", "missing", "junk"}
  Headers = {"none", "missing", "nl0", "nl3"}
  Servers = {"view", "noview", "refuse", "down", "badurl"}
  Verbose = {TRUE, FALSE}
  ExitZeroOnWriteError = FALSE
  HangOnBadURL = FALSE
INVARIANTS EmitSave
CHECK_DEADLOCK FALSE
