SPECIFICATION Spec
CONSTANTS
  MaxArgs = 2
  FileKinds = {"plain", "subdir", "other", "missing", "junk"}
  Headers = {"none", "missing", "nl0", "nl1", "nl3", "empty"}
  Servers = {"view", "html", "noview", "refuse", "down", "badurl"}
  Verbose = {TRUE, FALSE}
  ExitZeroOnWriteError = FALSE
  HangOnBadURL = FALSE
INVARIANTS EmitSave
CHECK_DEADLOCK FALSE
