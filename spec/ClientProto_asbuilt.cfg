SPECIFICATION Spec
CONSTANTS
  MaxFiles = 2
  MaxWrites = 1
  MaxPost = 2
  MaxAt = 6
  PlanKinds = {"none", "badurl", "auth", "fsfail", "cut", "cutreply"}
  CancelKinds = {"none", "auth", "fsfail", "cut", "cutreply"}
  AbortBlocksWhenDone = TRUE
  PanicWhenDone = TRUE
  DecodeErrLeaks = TRUE
VIEW view
INVARIANTS TypeOK CommitOkStored StoredOnlyOnCommit ErrNotStored FailedWriteNoSuccess WriteErrHasCause NoHang NoPanic NoLeak ObjConsistent WaitServed
PROPERTIES Sticky EveryCallReturns GoroutineEnds
CHECK_DEADLOCK FALSE
