----------------------------- MODULE ClientProto_gen -----------------------------
(* Mode G for ClientProto: the caller-visible history is part of the state here    *)
(* (no VIEW), so TLC keeps every distinct sequence of calls and results under      *)
(* every interleaving with the server, the connection and the goroutine.  Every    *)
(* quiescent state in which the upload is over for the caller is printed as        *)
(*   [plan, hist = the calls with the result the contract gives each, stored]      *)
(* The driver groups the printed lines by (plan, sequence of calls): the set of    *)
(* (results, stored) that remain is what the real client may show for that         *)
(* sequence under that fault plan - timing decides which one (a Write after a      *)
(* failure may or may not fail; a cancellation may or may not overtake the         *)
(* server's answer).  The harness replays the calls against the real client, a     *)
(* real storage server and a fault-injecting TCP relay and demands that what it    *)
(* sees is a member of the set, after every step.                                  *)
EXTENDS ClientProto, Json

Terminal == (Finished \/ hung \/ panicked) /\ Quiescent
EmitCase == Terminal =>
  PrintT(ToJson([tag |-> "case", plan |-> plan, hist |-> hist, stored |-> (outcome = "committed")]))
=============================================================================
