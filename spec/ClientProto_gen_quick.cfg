INIT Init
NEXT Next
CONSTANTS
  MaxFiles = 2
  MaxWrites = 1
  MaxPost = 1
  MaxAt = 6
  PlanKinds = {"none", "badurl", "auth", "fsfail", "cut", "cutreply"}
  CancelKinds = {"none", "cutreply"}
  AbortBlocksWhenDone = FALSE
  PanicWhenDone = FALSE
  DecodeErrLeaks = FALSE
INVARIANTS EmitCase
CHECK_DEADLOCK FALSE
