INIT Init
NEXT Next
CONSTANTS
  MaxFiles = 2
  MaxWrites = 2
  MaxPost = 1
  MaxAt = 8
  PlanKinds = {"none", "badurl", "auth", "fsfail", "cut", "cutreply"}
  CancelKinds = {"none", "auth", "fsfail", "cut", "cutreply"}
  AbortBlocksWhenDone = FALSE
  PanicWhenDone = FALSE
  DecodeErrLeaks = FALSE
INVARIANTS EmitCase
CHECK_DEADLOCK FALSE
