SPECIFICATION Spec
CONSTANTS
  MaxFiles = 2
  MaxWrites = 2
  MaxPost = 2
  MaxAt = 8
  PlanKinds = {"none", "badurl", "auth", "fsfail", "cut", "cutreply"}
  CancelKinds = {"none", "auth", "fsfail", "cut", "cutreply"}
  AbortBlocksWhenDone = FALSE
  PanicWhenDone = FALSE
  DecodeErrLeaks = FALSE
VIEW view
INVARIANTS TypeOK CommitOkStored StoredOnlyOnCommit ErrNotStored FailedWriteNoSuccess WriteErrHasCause NoHang NoPanic NoLeak ObjConsistent WaitServed
PROPERTIES Sticky EveryCallReturns GoroutineEnds
CHECK_DEADLOCK FALSE
