SPECIFICATION TSpec
CONSTANTS
  MaxFiles = 12
  MaxWrites = 40
  MaxPost = 60
  MaxAt = 60
  PlanKinds = {"none", "badurl", "auth", "fsfail", "cut", "cutreply"}
  CancelKinds = {"none", "badurl", "auth", "fsfail", "cut", "cutreply"}
  AbortBlocksWhenDone = FALSE
  PanicWhenDone = FALSE
  DecodeErrLeaks = FALSE
INVARIANTS CommitOkStored StoredOnlyOnCommit ErrNotStored FailedWriteNoSuccess NoHang NoPanic
CONSTRAINT HW
POSTCONDITION Post
CHECK_DEADLOCK FALSE
