---------------------------- MODULE ClientProto_trace ----------------------------
(* Mode T for ClientProto: the harness drives the real storage.Client with a        *)
(* seeded random caller (more files and writes than TLC enumerates, random fault     *)
(* plan, random pauses, cancellation at a random moment) against a real storage      *)
(* server behind the fault-injecting relay and logs one event per call:              *)
(*   reset {plan}            a new upload under this fault plan                      *)
(*   new | create {res} | w {kind,res} | cancel                                      *)
(*   commit.call / commit.ret {res}     abort.call / abort.ret                       *)
(*   end {stored}            what the server shows once everything has settled       *)
(* Each event must be the corresponding action of ClientProto with the logged        *)
(* result; the server, the connection and the goroutine move by silent steps in      *)
(* between, so an event is accepted if SOME interleaving explains it.                *)
EXTENDS ClientProto, Json

TraceLog == ndJsonDeserialize("trace.ndjson")
VARIABLE l
tvars == <<vars, l>>
Evt == TraceLog[l]
Is(e) == l <= Len(TraceLog) /\ Evt.ev = e
LastRes == hist'[Len(hist')].res

TInit == l = 1 /\ plan = [kind |-> "none", at |-> 0] /\ Blank

\* Blank, primed
BlankNext ==
  /\ obj' = "none" /\ mpw' = FALSE /\ errch' = FALSE /\ uerr' = FALSE /\ status' = FALSE
  /\ cur' = FALSE /\ created' = 0 /\ nwr' = 0 /\ posts' = 0 /\ waiting' = "none" /\ widx' = 0
  /\ hung' = FALSE /\ panicked' = FALSE /\ ctx' = "live"
  /\ stream' = <<>> /\ pipeR' = "open" /\ g' = "none" /\ rt' = "running" /\ conn' = "up" /\ fwd' = 0
  /\ srvPos' = 0 /\ srvSt' = "reading" /\ srvFiles' = <<>> /\ outcome' = "none" /\ reply' = "none"
  /\ hist' = <<>> /\ cfiles' = <<>> /\ wfail' = FALSE /\ commitRes' = "none"
  /\ commitCalled' = FALSE /\ abortFirst' = FALSE
TReset == Is("reset") /\ BlankNext /\ plan' = [kind |-> Evt.plan.kind, at |-> Evt.plan.at] /\ l' = l + 1
TNew == Is("new") /\ NewUpload /\ l' = l + 1
TCreate == Is("create") /\ CreateFile /\ LastRes = Evt.res /\ l' = l + 1
TWrite == Is("w") /\ Write(Evt.kind) /\ LastRes = Evt.res /\ l' = l + 1
TCancel == Is("cancel") /\ Cancel /\ l' = l + 1
TCommitCall == Is("commit.call") /\ CommitCall /\ l' = l + 1
TCommitRet ==
  /\ Is("commit.ret") /\ l' = l + 1
  /\ IF waiting = "commit"
     THEN CommitRet /\ hist'[widx].res = Evt.res
     ELSE /\ waiting = "none" /\ Len(hist) > 0
          /\ hist[Len(hist)].op = "commit" /\ hist[Len(hist)].res = Evt.res
          /\ UNCHANGED vars
TAbortCall == Is("abort.call") /\ AbortCall /\ l' = l + 1
TAbortRet ==
  /\ Is("abort.ret") /\ l' = l + 1
  /\ IF waiting = "abort" THEN AbortRet
     ELSE waiting = "none" /\ ~hung /\ Len(hist) > 0 /\ hist[Len(hist)].op = "abort" /\ UNCHANGED vars
TEnd ==
  /\ Is("end") /\ Quiescent /\ waiting = "none"
  /\ (outcome = "committed") = Evt.stored
  /\ UNCHANGED vars /\ l' = l + 1
TSilent == Internal /\ UNCHANGED l

TNext == TReset \/ TNew \/ TCreate \/ TWrite \/ TCancel \/ TCommitCall \/ TCommitRet \/ TAbortCall \/ TAbortRet \/ TEnd \/ TSilent
TSpec == TInit /\ [][TNext]_tvars

HW == IF l > TLCGet(1) THEN TLCSet(1, l) ELSE TRUE
Post == PrintT("TRACE hwm=" \o ToString(TLCGet(1) - 1) \o " len=" \o ToString(Len(TraceLog)))
ASSUME TLCSet(1, 0)
=============================================================================
