------------------------------ MODULE CompareFront ------------------------------
(* The comparison front end of the performance dashboard (golang.org/x/perf/       *)
(* analysis/app, compare.go): how the results fetched for a user query are put     *)
(* into groups and which labels are shown once for all groups.                     *)
(*                                                                                 *)
(* One request, structured like fetchCompareResults / compareQuery:                *)
(*   Parse(n)     parseQueryString gave n sub-queries (the text side is            *)
(*                CompareFrontText); group 1 is opened                             *)
(*   Add(lab)     the storage server delivers the next result of the current       *)
(*                sub-query; resultGroup.add counts its labels                     *)
(*   EndGroup     the answer is exhausted; the next sub-query is sent              *)
(*   Decide       nothing found at all -> error; one sub-query -> the heuristics   *)
(*                may choose a label to split on ("single CL -> split by file      *)
(*                name", "single upload with several files -> split by file")      *)
(*   SplitStep    splitOn's loop, one result per step: the result goes to the      *)
(*                group of its value, a new group is opened for a new value        *)
(*   SplitFinish  the new groups are ordered by value                              *)
(*   SummFirst / SummPrune / SummLabels   compareQuery's three loops: candidates   *)
(*                from the first group, pruning by every later group, the list     *)
(*                of labels that are shown per group                               *)
(*                                                                                 *)
(* A result is its label function (key -> value, NoVal = the result has no such    *)
(* label; the reader never delivers an empty value) and its arrival number.        *)
(* Values are symbol sequences (CompareFrontLex) so that quoting and bytewise      *)
(* order can be stated.  The storage server is free: ANY results in ANY order.     *)
(*                                                                                 *)
(* The contract (invariants below), written from the doc comments:                 *)
(*   LVRight       LabelValues "is the count of results found with each distinct   *)
(*                 (key, value) pair; a value of "" counts results missing that    *)
(*                 key" - for every group at every moment                          *)
(*   Partition     every fetched result is in exactly one group, groups keep the   *)
(*                 arrival order                                                   *)
(*   SplitRight    which label is split on; "groups sharing a common value for     *)
(*                 key": one group per value, all results of that value; groups    *)
(*                 in bytewise order of the value - nothing depends on the order   *)
(*                 of arrival except the order inside a group                      *)
(*   QSelects      a split group's Q is "the (partial) query string that resulted  *)
(*                 in this group": read as query words it is the one filter        *)
(*                 key:value, which selects exactly the group                      *)
(*   CommonRight   commonLabels "are the key: value of every label that has an     *)
(*                 identical value on every result"; Labels are all other keys     *)
(*   ErrorRight    an error iff no sub-query returned anything                     *)
(*                                                                                 *)
(* Named deviations of the code as built (FALSE = documented behaviour):           *)
(*   SplitQRaw              splitOn writes Q as key ":" value without quoting      *)
(*   EmptyGroupDropsCommon  a sub-query without results makes compareQuery drop    *)
(*                          every common label                                     *)
EXTENDS CompareFrontLex

CONSTANTS Dom,        \* [key |-> set of values]; the keys of the model are DOMAIN Dom
          Required,   \* keys every result has (the storage server sets upload, upload-part on every result)
          MaxQ, MaxRes, MaxPer,
          SplitQRaw, EmptyGroupDropsCommon

VARIABLES phase, nq, fetched, fgrp, groups, cur, skey, spos, sgroups, svalues, common, labels, gi, hist
vars == <<phase, nq, fetched, fgrp, groups, cur, skey, spos, sgroups, svalues, common, labels, gi>>
View == vars      \* hist (the actions taken) is not part of the state

Keys == DOMAIN Dom
Labs == {f \in [Keys -> UNION {Dom[k] : k \in Keys} \cup {NoVal}] :
           \A k \in Keys : f[k] \in Dom[k] \cup (IF k \in Required THEN {} ELSE {NoVal})}
Has(lab, k) == k \in Keys /\ lab[k] # NoVal
ValOf(lab, k) == IF k \in Keys THEN lab[k] ELSE NoVal
EmptyFn == <<>>

QTok(j) == <<"q" \o ToString(j)>>
NewGroup(q) == [q |-> q, res |-> <<>>, lv |-> EmptyFn]
LabsOf(g) == [i \in 1..Len(g.res) |-> fetched[g.res[i]]]

-----------------------------------------------------------------------------
\* Declarative: the label algebra of CompareFrontLex (CountsL, AgreeL, DifferL,
\* SplitKeyL, CommonL, SelectedL) applied to the fetched results

Counts(ls) == CountsL(ls)
SplitKeyDecl(ls) == SplitKeyL(ls)
CommonDecl(ls) == CommonL(ls)
\* arrival numbers of the results selected by query text q
Selected(q) == SelectedL(q, fetched)

\* the forms a split group's Q may take (all read back as the single word key:value);
\* as built: the raw concatenation
SplitQForms(key, v) ==
  IF SplitQRaw THEN {<<key, COLON>> \o v}
  ELSE {<<key, COLON>> \o QuoteDecl(v), QuoteDecl(<<key, COLON>> \o v)}

-----------------------------------------------------------------------------
\* Operational pieces

Inc(f, v) == IF v \in DOMAIN f THEN [f EXCEPT ![v] = @ + 1] ELSE [x \in DOMAIN f \cup {v} |-> IF x = v THEN 1 ELSE f[x]]

\* resultGroup.add: first the labels of the result (a key seen for the first time
\* starts with all earlier results counted as missing), then every known key the
\* result does not have
AddOp(g, i, lab) ==
  LET n == Len(g.res) + 1
      present == {k \in Keys : Has(lab, k)}
      lv1 == [k \in DOMAIN g.lv \cup present |->
                IF k \in present
                THEN Inc(IF k \in DOMAIN g.lv THEN g.lv[k]
                         ELSE IF n > 1 THEN [x \in {NoVal} |-> n - 1] ELSE EmptyFn, lab[k])
                ELSE g.lv[k]]
      lv2 == [k \in DOMAIN lv1 |-> IF k \notin present THEN Inc(lv1[k], NoVal) ELSE lv1[k]]
  IN [g EXCEPT !.res = Append(@, i), !.lv = lv2]

NVals(lv, k) == IF k \in DOMAIN lv THEN Cardinality(DOMAIN lv[k]) ELSE 0
SplitKeyOp(lv) ==
  IF NVals(lv, "cl") = 1 /\ NVals(lv, "ps") = 1 /\ NVals(lv, "upload-file") > 1 THEN "upload-file"
  ELSE IF NVals(lv, "upload") = 1 /\ NVals(lv, "upload-part") > 1 THEN "upload-part"
  ELSE ""

\* groups that take part in the computation of the common labels
Counted(g) == EmptyGroupDropsCommon \/ Len(g.res) > 0
CountedIdx == {i \in 1..Len(groups) : Counted(groups[i])}

-----------------------------------------------------------------------------
Init ==
  /\ phase = "idle" /\ nq = 0 /\ fetched = <<>> /\ fgrp = <<>> /\ groups = <<>> /\ cur = NewGroup(<<>>)
  /\ skey = "" /\ spos = 0 /\ sgroups = EmptyFn /\ svalues = <<>>
  /\ common = EmptyFn /\ labels = {} /\ gi = 0 /\ hist = <<>>

Parse(n) ==
  /\ phase = "idle"
  /\ phase' = "fetch" /\ nq' = n /\ cur' = NewGroup(QTok(1))
  /\ hist' = Append(hist, "Parse")
  /\ UNCHANGED <<fetched, fgrp, groups, skey, spos, sgroups, svalues, common, labels, gi>>

Add(lab) ==
  /\ phase = "fetch" /\ Len(fetched) < MaxRes /\ Len(cur.res) < MaxPer
  /\ fetched' = Append(fetched, lab)
  /\ fgrp' = Append(fgrp, Len(groups) + 1)
  /\ cur' = AddOp(cur, Len(fetched) + 1, lab)
  /\ hist' = Append(hist, "Add")
  /\ UNCHANGED <<phase, nq, groups, skey, spos, sgroups, svalues, common, labels, gi>>

EndGroup ==
  /\ phase = "fetch"
  /\ groups' = Append(groups, cur)
  /\ IF Len(groups) + 1 = nq
       THEN phase' = "decide" /\ cur' = NewGroup(<<>>)
       ELSE phase' = phase /\ cur' = NewGroup(QTok(Len(groups) + 2))
  /\ hist' = Append(hist, "EndGroup")
  /\ UNCHANGED <<nq, fetched, fgrp, skey, spos, sgroups, svalues, common, labels, gi>>

Decide ==
  /\ phase = "decide"
  /\ IF Len(fetched) = 0
       THEN phase' = "error" /\ skey' = "" /\ hist' = Append(hist, "DecideError")
     ELSE IF nq = 1 /\ SplitKeyOp(groups[1].lv) # ""
       THEN phase' = "split" /\ skey' = SplitKeyOp(groups[1].lv) /\ hist' = Append(hist, "DecideSplit")
     ELSE phase' = "summ" /\ skey' = "" /\ hist' = Append(hist, "DecideKeep")
  /\ spos' = 1
  /\ UNCHANGED <<nq, fetched, fgrp, groups, cur, sgroups, svalues, common, labels, gi>>

SplitStep ==
  /\ phase = "split" /\ spos <= Len(groups[1].res)
  /\ LET i == groups[1].res[spos]
         v == fetched[i][skey]
     IN IF v \in DOMAIN sgroups
          THEN /\ sgroups' = [sgroups EXCEPT ![v] = AddOp(@, i, fetched[i])]
               /\ svalues' = svalues
               /\ hist' = Append(hist, "SplitStepOld")
          ELSE /\ \E q \in SplitQForms(skey, v) :
                    sgroups' = [x \in DOMAIN sgroups \cup {v} |->
                                  IF x = v THEN AddOp(NewGroup(q), i, fetched[i]) ELSE sgroups[x]]
               /\ svalues' = Append(svalues, v)
               /\ hist' = Append(hist, "SplitStepNew")
  /\ spos' = spos + 1
  /\ UNCHANGED <<phase, nq, fetched, fgrp, groups, cur, skey, common, labels, gi>>

SplitFinish ==
  /\ phase = "split" /\ spos > Len(groups[1].res)
  /\ LET order == SortVals({svalues[i] : i \in 1..Len(svalues)})
     IN groups' = [n \in 1..Len(order) |-> sgroups[order[n]]]
  /\ phase' = "summ"
  /\ hist' = Append(hist, "SplitFinish")
  /\ UNCHANGED <<nq, fetched, fgrp, cur, skey, spos, sgroups, svalues, common, labels, gi>>

\* "Scan the first group for common labels."
SummFirst ==
  /\ phase = "summ" /\ gi = 0
  /\ LET first == IF CountedIdx = {} THEN 0 ELSE CHOOSE i \in CountedIdx : \A j \in CountedIdx : i <= j
         lv == IF first = 0 THEN EmptyFn ELSE groups[first].lv
     IN /\ common' = [k \in {k \in DOMAIN lv : Cardinality(DOMAIN lv[k]) = 1} |-> CHOOSE v \in DOMAIN lv[k] : TRUE]
        /\ gi' = IF first = 0 THEN Len(groups) + 1 ELSE first + 1
  /\ hist' = Append(hist, "SummFirst")
  /\ UNCHANGED <<phase, nq, fetched, fgrp, groups, cur, skey, spos, sgroups, svalues, labels>>

\* "Remove any labels not common in later groups."
SummPrune ==
  /\ phase = "summ" /\ gi > 0 /\ gi <= Len(groups)
  /\ LET lv == groups[gi].lv IN
     common' = IF Counted(groups[gi])
               THEN [k \in {k \in DOMAIN common : NVals(lv, k) = 1 /\ common[k] \in DOMAIN lv[k]} |-> common[k]]
               ELSE common
  /\ gi' = gi + 1
  /\ hist' = Append(hist, IF Len(groups[gi].res) = 0 THEN "SummPruneEmpty" ELSE "SummPrune")
  /\ UNCHANGED <<phase, nq, fetched, fgrp, groups, cur, skey, spos, sgroups, svalues, labels>>

\* "List all labels present and not in commonLabels."
SummLabels ==
  /\ phase = "summ" /\ gi > Len(groups)
  /\ labels' = UNION {DOMAIN groups[i].lv : i \in 1..Len(groups)} \ DOMAIN common
  /\ phase' = "done"
  /\ hist' = Append(hist, "SummLabels")
  /\ UNCHANGED <<nq, fetched, fgrp, groups, cur, skey, spos, sgroups, svalues, common, gi>>

Next == \/ \E n \in 1..MaxQ : Parse(n)
        \/ \E lab \in Labs : Add(lab)
        \/ EndGroup \/ Decide \/ SplitStep \/ SplitFinish \/ SummFirst \/ SummPrune \/ SummLabels
Spec == Init /\ [][Next]_<<vars, hist>>

-----------------------------------------------------------------------------
\* The contract

AllGroups == {groups[i] : i \in 1..Len(groups)} \cup {cur} \cup {sgroups[v] : v \in DOMAIN sgroups}

LVRight == \A g \in AllGroups : g.lv = Counts(LabsOf(g))

\* no value is ever listed with a count of zero (the page would show it)
NoZeroCount == \A g \in AllGroups : \A k \in DOMAIN g.lv : \A v \in DOMAIN g.lv[k] : g.lv[k][v] > 0

Grouped == phase \in {"summ", "done"}

Partition ==
  Grouped =>
    /\ \A i \in 1..Len(fetched) : Cardinality({<<n, m>> \in (1..Len(groups)) \X (1..MaxRes) :
                                                 m <= Len(groups[n].res) /\ groups[n].res[m] = i}) = 1
    /\ \A n \in 1..Len(groups) : \A a, b \in 1..Len(groups[n].res) : a < b => groups[n].res[a] < groups[n].res[b]

\* several sub-queries: one group per sub-query, in the order of the query, with what it returned
QueryGroups ==
  (Grouped /\ nq > 1) =>
    /\ Len(groups) = nq
    /\ \A n \in 1..nq : groups[n].q = QTok(n) /\ \A m \in 1..Len(groups[n].res) : fgrp[groups[n].res[m]] = n

SplitRight ==
  (Grouped /\ nq = 1) =>
    LET key == SplitKeyDecl(fetched) IN
    IF key = "" THEN Len(groups) = 1 /\ groups[1].q = QTok(1)
    ELSE /\ skey = key
         /\ Len(groups) = Cardinality({fetched[i][key] : i \in 1..Len(fetched)})
         /\ \A n \in 1..Len(groups) :
              LET v == fetched[groups[n].res[1]][key] IN
              /\ {groups[n].res[m] : m \in 1..Len(groups[n].res)} = {i \in 1..Len(fetched) : fetched[i][key] = v}
              /\ n < Len(groups) => SeqLess(v, fetched[groups[n + 1].res[1]][key])

\* a split group's own query selects the group (a group of results WITHOUT the label
\* cannot be selected by any query: no demand)
QSelects ==
  (Grouped /\ nq = 1 /\ skey # "") =>
    \A n \in 1..Len(groups) :
      fetched[groups[n].res[1]][skey] # NoVal =>
        Selected(groups[n].q) = {groups[n].res[m] : m \in 1..Len(groups[n].res)}

CommonRight ==
  phase = "done" =>
    /\ common = CommonDecl(fetched)
    /\ labels = KeysL(fetched) \ DOMAIN common

ErrorRight == /\ phase = "error" => Len(fetched) = 0
              /\ phase \in {"split", "summ", "done"} => Len(fetched) > 0

\* the labels table: TopN(n) lists the n most frequent values (ties: smaller value
\* first) and one more line with the total of the rest
TopTotals ==
  phase = "done" => \A n \in 1..Len(groups) : \A k \in DOMAIN groups[n].lv :
     SumCounts(TopDecl(groups[n].lv[k], 1)) = Len(groups[n].res)

-----------------------------------------------------------------------------
\* Model domains (chosen by the configurations with  Dom <- ...)
V1 == <<"1">>
V2 == <<"2">>
VA == <<"a">>
VB == <<"b">>
VAB == <<"a", SP, "b">>      \* a file name with a blank: needs quoting; sorts between a and b
VQ == <<"a", DQ, BS>>        \* quote and backslash
\* the five labels the heuristics look at
DomSplit == [cl |-> {V1, V2}, ps |-> {V1}, upload |-> {V1}] @@ ("upload-file" :> {VA, VAB}) @@ ("upload-part" :> {V1, V2})
DomSplitWide == [cl |-> {V1, V2}, ps |-> {V1, V2}, upload |-> {V1, V2}] @@ ("upload-file" :> {VA, VAB, VB}) @@ ("upload-part" :> {V1, V2})
DomFileQ == [cl |-> {V1}, ps |-> {V1}] @@ ("upload-file" :> {VA, VAB, VQ})
DomFile == [cl |-> {V1, V2}, ps |-> {V1, V2}] @@ ("upload-file" :> {VA, VAB, VQ, VB})
DomPart == [upload |-> {V1, V2}, cl |-> {V1}] @@ ("upload-part" :> {V1, V2, <<"1", "0">>}) @@ ("upload-file" :> {VA})
\* larger than exhaustive exploration allows (simulation): one CL, several files
DomSimFile == [cl |-> {V1}, ps |-> {V1}, upload |-> {V1, V2}, k1 |-> {VA, VB}]
              @@ ("upload-file" :> {VA, VAB, VQ, VB}) @@ ("upload-part" :> {V1, V2, <<"1", "0">>})
ReqSimFile == {"cl", "ps"}
\* one or two uploads with several parts
DomSimPart == [cl |-> {V1, V2}, upload |-> {V1}, k1 |-> {VA, VAB}]
              @@ ("upload-file" :> {VA, VB}) @@ ("upload-part" :> {V1, V2, <<"1", "0">>, <<"1", "/", "0">>})
ReqSimPart == {"upload", "upload-part"}
ReqNone == {}
\* ordinary labels, several sub-queries
DomGen == [k1 |-> {VA, VB}, k2 |-> {VA, VAB}]
DomGen3 == [k1 |-> {VA, VB}, k2 |-> {VA, VAB}, k3 |-> {V1}]
=============================================================================
