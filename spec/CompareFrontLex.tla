---------------------------- MODULE CompareFrontLex ----------------------------
(* Text-level definitions of the analysis front end (analysis/app/parse.go,       *)
(* compare.go): how the user's query text is read.  Pure operators, no state;      *)
(* used by CompareFrontText (function-style checks) and CompareFront (grouping).   *)
(*                                                                                 *)
(* Text is a sequence of one-character strings ("symbols").  A symbol that is not  *)
(* one of the characters distinguished below stands for any ordinary character     *)
(* (a multi-character string such as "upload-file" may be used as ONE symbol for   *)
(* a run of ordinary characters).                                                  *)
(*                                                                                 *)
(* Lexical reading (the same as storage/query.SplitWords, "shell syntax"):         *)
(*   outside quotes   \c  literal c      "  opens a quoted stretch                 *)
(*                    blank / tab  separates words        c  literal c             *)
(*   inside quotes    \c  literal c      "  closes the stretch     c  literal c    *)
(* A RAW WORD is a maximal non-empty stretch of text between separators, quotes    *)
(* and backslashes included.  parseQueryString's documentation:                    *)
(*     prefix | one vs two  - parsed as "prefix", {"one", "two"}                   *)
(*     prefix one vs two    - parsed as "", {"prefix one", "two"}                  *)
(*     anything else        - parsed as "", {"anything else"}                      *)
(*     The vs and | separators must not be quoted.                                 *)
(* i.e. a separator is a raw word that is exactly  |  or  vs.                      *)
EXTENDS Integers, Sequences, FiniteSets, TLC

BS == "\\"
DQ == "\""
SP == " "
TB == "\t"
PIPE == "|"
COLON == ":"
Blank(c) == c = SP \/ c = TB
VS == <<"v", "s">>

-----------------------------------------------------------------------------
\* positions of the separating blanks of s (unquoted, not escaped)
RECURSIVE SepScan(_, _, _)
SepScan(s, i, quoted) ==
  IF i > Len(s) THEN {}
  ELSE IF s[i] = BS THEN SepScan(s, i + 2, quoted)
  ELSE IF s[i] = DQ THEN SepScan(s, i + 1, ~quoted)
  ELSE IF Blank(s[i]) /\ ~quoted THEN {i} \cup SepScan(s, i + 1, quoted)
  ELSE SepScan(s, i + 1, quoted)
Seps(s) == SepScan(s, 1, FALSE)

RECURSIVE SortNat(_)
SortNat(S) == IF S = {} THEN <<>>
              ELSE LET m == CHOOSE x \in S : \A y \in S : x <= y IN <<m>> \o SortNat(S \ {m})

\* the raw words of s, in text order
RawWords(s) ==
  LET seps == Seps(s)
      starts == {i \in 1..Len(s) : i \notin seps /\ (i = 1 \/ (i - 1) \in seps)}
      EndOf(i) == CHOOSE j \in i..Len(s) : /\ \A m \in i..j : m \notin seps
                                           /\ (j = Len(s) \/ (j + 1) \in seps)
      st == SortNat(starts)
  IN [n \in 1..Len(st) |-> SubSeq(s, st[n], EndOf(st[n]))]

\* the characters a stretch of text stands for once quotes and backslashes are read
RECURSIVE Lits(_, _, _)
Lits(s, i, quoted) ==
  IF i > Len(s) THEN <<>>
  ELSE IF s[i] = BS THEN (IF i + 1 > Len(s) THEN <<>> ELSE <<s[i + 1]>> \o Lits(s, i + 2, quoted))
  ELSE IF s[i] = DQ THEN Lits(s, i + 1, ~quoted)
  ELSE <<s[i]>> \o Lits(s, i + 1, quoted)
Unq(w) == Lits(w, 1, FALSE)

NonEmpty(ws) == SelectSeq(ws, LAMBDA w : w # <<>>)
RECURSIVE Flat(_)
Flat(ss) == IF ss = <<>> THEN <<>> ELSE Head(ss) \o Flat(Tail(ss))
RECURSIVE JoinSP(_)
JoinSP(ws) == IF ws = <<>> THEN <<>>
              ELSE IF Len(ws) = 1 THEN ws[1] ELSE ws[1] \o <<SP>> \o JoinSP(Tail(ws))

\* what the storage server makes of a query text: its words (query.SplitWords)
StoreWords(s) == LET rw == RawWords(s) IN NonEmpty([i \in 1..Len(rw) |-> Unq(rw[i])])

-----------------------------------------------------------------------------
\* Declarative reading of a user query (parseQueryString)

IsPipe(w) == w = <<PIPE>>
IsVs(w) == w = VS

\* split a word sequence at the vs words
RECURSIVE Segs(_, _)
Segs(ws, cur) ==
  IF ws = <<>> THEN <<cur>>
  ELSE IF IsVs(Head(ws)) THEN <<cur>> \o Segs(Tail(ws), <<>>)
  ELSE Segs(Tail(ws), Append(cur, Head(ws)))

FirstPipe(W) == LET P == {i \in 1..Len(W) : IsPipe(W[i])}
                IN IF P = {} THEN 0 ELSE CHOOSE i \in P : \A j \in P : i <= j

\* prefix / queries as sequences of raw words; `documented` says whether the text has
\* one of the documented shapes with all parts non-empty: no vs before the first |,
\* a non-empty prefix before it, no empty sub-query.  Outside of that the
\* documentation is silent and the implementation is free.
ParseDecl(s) ==
  LET W == RawWords(s)
      p == FirstPipe(W)
      segs == Segs(SubSeq(W, p + 1, Len(W)), <<>>)
  IN [prefix |-> SubSeq(W, 1, p - 1),
      queries |-> segs,
      documented |-> /\ (p = 0 \/ (p > 1 /\ \A i \in 1..(p - 1) : ~IsVs(W[i])))
                     /\ \A j \in 1..Len(segs) : segs[j] # <<>>]

\* x holds the words of y except for some separator words (as bags: where the
\* documentation is silent the prefix may come from the middle of the text)
Occ(ws, w) == Cardinality({i \in 1..Len(ws) : ws[i] = w})
DropsOnlySeps(x, y) ==
  \A w \in {x[i] : i \in 1..Len(x)} \cup {y[i] : i \in 1..Len(y)} :
     IF IsPipe(w) \/ IsVs(w) THEN Occ(x, w) <= Occ(y, w) ELSE Occ(x, w) = Occ(y, w)

\* the filter words the storage server sees for sub-query j of a parsed query
\* (fetchCompareResults sends  prefix + " " + sub-query)
Eff(p, j) == NonEmpty([i \in 1..Len(p.prefix \o p.queries[j]) |-> Unq((p.prefix \o p.queries[j])[i])])

-----------------------------------------------------------------------------
\* Operational: the loop of parseQueryString (byte index r, re-slicing of q at every
\* blank, the comparisons of the text in front of the blank with "|" and "vs")

RECURSIVE PLoop(_)
PLoop(st) ==
  IF st.r > Len(st.q) THEN st
  ELSE LET c == st.q[st.r] IN
    IF c = DQ /\ st.quoting THEN PLoop([st EXCEPT !.quoting = FALSE, !.r = @ + 1])
    ELSE IF st.quoting THEN PLoop([st EXCEPT !.r = @ + (IF c = BS THEN 2 ELSE 1)])
    ELSE IF c = DQ THEN PLoop([st EXCEPT !.quoting = TRUE, !.r = @ + 1])
    ELSE IF Blank(c) THEN
      LET part == SubSeq(st.q, 1, st.r - 1)
          rest == SubSeq(st.q, st.r + 1, Len(st.q))
          st2 == IF part = <<PIPE>> /\ st.prefix = <<>>
                   THEN [st EXCEPT !.prefix = JoinSP(st.parts), !.parts = <<>>]
                 ELSE IF part = VS
                   THEN [st EXCEPT !.queries = Append(@, JoinSP(st.parts)), !.parts = <<>>]
                 ELSE [st EXCEPT !.parts = Append(@, part)]
      IN PLoop([st2 EXCEPT !.q = rest, !.r = 1])
    ELSE PLoop([st EXCEPT !.r = @ + (IF c = BS THEN 2 ELSE 1)])

\* returns the prefix and the queries as TEXTS
ParseOp(s) ==
  LET fin == PLoop([q |-> s, r |-> 1, quoting |-> FALSE, parts |-> <<>>, prefix |-> <<>>, queries |-> <<>>])
      parts2 == IF Len(fin.q) > 0 THEN Append(fin.parts, fin.q) ELSE fin.parts
  IN [prefix |-> fin.prefix,
      queries |-> IF parts2 # <<>> THEN Append(fin.queries, JoinSP(parts2)) ELSE fin.queries]

-----------------------------------------------------------------------------
\* Quoting of one filter word (addToQuery; also what a group's own query needs)

NeedsQuoting(w) == \E i \in 1..Len(w) : w[i] \in {SP, TB, BS, DQ}
RECURSIVE Escaped(_)
Escaped(w) == IF w = <<>> THEN <<>>
              ELSE (IF Head(w) \in {BS, DQ} THEN <<BS, Head(w)>> ELSE <<Head(w)>>) \o Escaped(Tail(w))
QuoteDecl(w) == IF NeedsQuoting(w) THEN <<DQ>> \o Escaped(w) \o <<DQ>> ELSE w

\* addToQuery(query, add): "returns a new query string with add applied as a filter".
\* The filter belongs into the prefix: in front of an existing prefix if the query has
\* a | separator, otherwise as a new prefix.  bySubstring = TRUE is the code as built:
\* it looks for the CHARACTER | anywhere in the text instead of the separator word.
HasPipeSep(q, bySubstring) ==
  IF bySubstring THEN \E i \in 1..Len(q) : q[i] = PIPE
  ELSE FirstPipe(RawWords(q)) > 0
AddToQuery(q, w, bySubstring) ==
  IF HasPipeSep(q, bySubstring) THEN QuoteDecl(w) \o <<SP>> \o q
  ELSE QuoteDecl(w) \o <<SP, PIPE, SP>> \o q

-----------------------------------------------------------------------------
\* Bytewise order of values (the order of the groups after a split): symbols in
\* ASCII order; a proper prefix is smaller.
SymOrder == <<TB, SP, DQ, "-", "/", "0", "1", "2", "3", COLON, "=", BS, "a", "b", "c", "s", "v", PIPE>>
Rank(c) == CHOOSE i \in 1..Len(SymOrder) : SymOrder[i] = c
SeqLess(x, y) ==
  \E i \in 1..(Len(x) + 1) :
     /\ \A j \in 1..(i - 1) : j <= Len(y) /\ x[j] = y[j]
     /\ \/ i = Len(x) + 1 /\ Len(y) >= i
        \/ i <= Len(x) /\ i <= Len(y) /\ Rank(x[i]) < Rank(y[i])
RECURSIVE SortVals(_)
SortVals(S) == IF S = {} THEN <<>>
               ELSE LET m == CHOOSE x \in S : \A y \in S \ {x} : SeqLess(x, y) IN <<m>> \o SortVals(S \ {m})

-----------------------------------------------------------------------------
\* Label algebra (pure): a result is a label function key -> value; a key outside its
\* domain or mapped to NoVal is a label the result does not have.  Values are symbol
\* sequences.  ls is a sequence of label functions.

NoVal == <<>>
HasL(lab, k) == k \in DOMAIN lab /\ lab[k] # NoVal
ValL(lab, k) == IF k \in DOMAIN lab THEN lab[k] ELSE NoVal
KeysL(ls) == {k \in UNION {DOMAIN ls[i] : i \in 1..Len(ls)} : \E i \in 1..Len(ls) : HasL(ls[i], k)}

\* resultGroup.LabelValues: "the count of results found with each distinct (key, value)
\* pair found in labels. A value of "" counts results missing that key."
CountsL(ls) ==
  [k \in KeysL(ls) |-> LET vs == {ValL(ls[i], k) : i \in 1..Len(ls)} IN
                       [v \in vs |-> Cardinality({i \in 1..Len(ls) : ValL(ls[i], k) = v})]]

\* all results have label k, with one value
AgreeL(ls, k) == Len(ls) > 0 /\ HasL(ls[1], k) /\ \A i \in 1..Len(ls) : ValL(ls[i], k) = ls[1][k]
\* the results differ in k (a missing label differs from every value)
DifferL(ls, k) == \E i, j \in 1..Len(ls) : ValL(ls[i], k) # ValL(ls[j], k)

\* fetchCompareResults, one sub-query: "Matching a single CL -> split by filename";
\* "Matching a single upload with multiple files -> split by file"
SplitKeyL(ls) ==
  IF AgreeL(ls, "cl") /\ AgreeL(ls, "ps") /\ DifferL(ls, "upload-file") THEN "upload-file"
  ELSE IF AgreeL(ls, "upload") /\ DifferL(ls, "upload-part") THEN "upload-part"
  ELSE ""

\* compareQuery: "commonLabels are the key: value of every label that has an identical
\* value on every result"
CommonL(ls) == [k \in {k \in KeysL(ls) : AgreeL(ls, k)} |-> ls[1][k]]

\* the filter a query word stands for: the text before the first ":" is the key
RECURSIVE ConcatStr(_)
ConcatStr(w) == IF w = <<>> THEN "" ELSE Head(w) \o ConcatStr(Tail(w))
TermOf(w) == LET P == {i \in 1..Len(w) : w[i] = COLON}
                 c == IF P = {} THEN 0 ELSE CHOOSE i \in P : \A j \in P : i <= j
             IN [ok |-> c > 1, key |-> IF c > 1 THEN ConcatStr(SubSeq(w, 1, c - 1)) ELSE "", val |-> SubSeq(w, c + 1, Len(w))]
\* indices of the results of ls selected by query text q (every word a filter key:value;
\* a label that is absent matches nothing)
SelectedL(q, ls) ==
  LET ws == StoreWords(q) IN
  {i \in 1..Len(ls) : \A n \in 1..Len(ws) : /\ TermOf(ws[n]).ok /\ TermOf(ws[n]).val # NoVal
                                            /\ ValL(ls[i], TermOf(ws[n]).key) = TermOf(ws[n]).val}

\* valueSet.TopN(n): the n most frequent values (ties: smaller value first) "and if any
\* labels were omitted, an extra entry" with the total of the rest
\* rk: a function value -> rank giving the bytewise order of the values
RECURSIVE TopOrder(_, _, _)
TopOrder(vs, S, rk) ==
  IF S = {} THEN <<>>
  ELSE LET m == CHOOSE x \in S : \A y \in S \ {x} : vs[x] > vs[y] \/ (vs[x] = vs[y] /\ rk[x] < rk[y])
       IN <<[v |-> m, c |-> vs[m], rest |-> FALSE]>> \o TopOrder(vs, S \ {m}, rk)
RECURSIVE SumCounts(_)
SumCounts(rs) == IF rs = <<>> THEN 0 ELSE Head(rs).c + SumCounts(Tail(rs))
TopDeclBy(vs, n, rk) ==
  LET all == TopOrder(vs, DOMAIN vs, rk) IN
  IF Len(all) <= n THEN all
  ELSE SubSeq(all, 1, n) \o <<[v |-> <<>>, c |-> SumCounts(SubSeq(all, n + 1, Len(all))), rest |-> TRUE]>>
RankOf(S) == LET o == SortVals(S) IN [v \in S |-> CHOOSE i \in 1..Len(o) : o[i] = v]
TopDecl(vs, n) == TopDeclBy(vs, n, RankOf(DOMAIN vs))
=============================================================================
