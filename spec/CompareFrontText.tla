---------------------------- MODULE CompareFrontText ----------------------------
(* Function-style part of the CompareFront family: the text functions of the       *)
(* analysis front end, each checked as  declarative definition = transcription of  *)
(* the code's algorithm  on every text of a small universe.                         *)
(*                                                                                 *)
(*   mode "chars" / "words"   parseQueryString and addToQuery                       *)
(*        (texts = all character strings up to MaxChars, and all blank-joined       *)
(*        sequences of up to MaxWords words of WordSet: separators, quoted and      *)
(*        escaped separators, separators glued to other characters, empty words)    *)
(*   mode "name"              elideKeyValues on every benchmark name up to MaxName  *)
(*        characters of { a / = - 1 } with every set of keys to elide               *)
(*   mode "qk"                queryKeys on every sub-query text up to MaxQK         *)
(*                                                                                 *)
(* Every text is reachable by appending one chunk per step (so TLC's workers share *)
(* the universe); the invariants are evaluated on every text.                       *)
EXTENDS CompareFrontLex

CONSTANTS MaxChars, MaxWords, MaxName, MaxQK,
          WithTab,            \* blanks between words may be tabs
          FullWords,          \* the larger word set
          PipeBySubstring     \* deviation switch (FALSE = documented behaviour), see AddToQuery

VARIABLES mode, txt, n, keys
vars == <<mode, txt, n, keys>>

QChars == {"a", SP, BS, DQ, PIPE, "v", "s"}
WordSetSmall == { <<>>, <<"a">>, VS, <<PIPE>>, <<DQ, "v", "s", DQ>>, <<BS, PIPE>>, <<"a", PIPE, "a">> }
WordSetFull == WordSetSmall \cup { <<DQ, PIPE, DQ>>, <<"a", BS, SP, "v", "s">>, <<DQ, "a", SP, "v", "s", SP, "a", DQ>> }
WordSet == IF FullWords THEN WordSetFull ELSE WordSetSmall
WordBlanks == IF WithTab THEN {SP, TB} ELSE {SP}

\* filter words added through a link of the rendered page (label:value)
AddWords == { <<"k", COLON, "a">>, <<"k", COLON, "a", SP, "b">>, <<"k", COLON, DQ, BS>> }

\* ---- benchmark names
NameChars == {"a", "/", "=", "-", "1"}
KName == <<"name">>
KProcs == <<"gomaxprocs">>
KSub(i) == <<"sub", ToString(i)>>
KeyUniverse == {KName, KProcs, KSub(1), KSub(2), <<"a">>}

\* ---- sub-query words for queryKeys; "A" stands for an upper-case letter
QKChars == {"a", COLON, ">", "A", SP, DQ}

Init == /\ txt = <<>> /\ n = 0
        /\ \/ mode \in {"chars", "words", "qk"} /\ keys = {}
           \/ mode = "name" /\ keys \in SUBSET KeyUniverse
Next == /\ UNCHANGED <<mode, keys>>
        /\ n' = n + 1
        /\ \/ mode = "chars" /\ n < MaxChars /\ \E c \in QChars : txt' = Append(txt, c)
           \/ mode = "words" /\ n < MaxWords /\ \E w \in WordSet : \E b \in WordBlanks :
                 txt' = IF n = 0 THEN w ELSE txt \o <<b>> \o w
           \/ mode = "name" /\ n < MaxName /\ \E c \in NameChars : txt' = Append(txt, c)
           \/ mode = "qk" /\ n < MaxQK /\ \E c \in QKChars : txt' = Append(txt, c)
Spec == Init /\ [][Next]_vars

IsQuery == mode \in {"chars", "words"}

-----------------------------------------------------------------------------
\* parseQueryString

\* the loop finds the documented prefix and sub-queries (compared word by word: the
\* amount of blank space between words is not prescribed)
ParseAgrees ==
  IsQuery =>
    LET d == ParseDecl(txt)
        o == ParseOp(txt)
    IN d.documented =>
         /\ RawWords(o.prefix) = d.prefix
         /\ Len(o.queries) = Len(d.queries)
         /\ \A j \in 1..Len(d.queries) : RawWords(o.queries[j]) = d.queries[j]

\* on EVERY text: no word of the user's query is lost or invented: the prefix and the
\* sub-queries hold the text's words except for some separators
ParseConserves ==
  IsQuery =>
    LET o == ParseOp(txt)
        out == RawWords(o.prefix) \o Flat([j \in 1..Len(o.queries) |-> RawWords(o.queries[j])])
    IN DropsOnlySeps(out, RawWords(txt))

\* addToQuery: the added word filters EVERY group of the new query and nothing else
\* changes.  (The links of the rendered page are built this way.)
FilterReachesEveryGroup ==
  IsQuery =>
    LET d == ParseDecl(txt) IN
    d.documented =>
      \A w \in AddWords :
        LET p2 == ParseDecl(AddToQuery(txt, w, PipeBySubstring)) IN
        /\ p2.documented
        /\ Len(p2.queries) = Len(d.queries)
        /\ \A j \in 1..Len(d.queries) : Eff(p2, j) = <<w>> \o Eff(d, j)

\* the same with the code's own parser
FilterReachesEveryGroupOp ==
  IsQuery =>
    LET d == ParseDecl(txt) IN
    d.documented =>
      \A w \in AddWords :
        LET o2 == ParseOp(AddToQuery(txt, w, PipeBySubstring)) IN
        /\ Len(o2.queries) = Len(d.queries)
        /\ \A j \in 1..Len(d.queries) :
             StoreWords(o2.prefix \o <<SP>> \o o2.queries[j]) = <<w>> \o Eff(d, j)

-----------------------------------------------------------------------------
\* elideKeyValues.  Name labels are the ones storage/benchfmt derives from a benchmark
\* name: "-N" at the end is gomaxprocs, the part before the first "/" is name, a
\* later part "k=v" is label k, a later part without "=" is sub<i>.

Digits == {"0", "1", "2", "3"}
IsNum(t) == t # <<>> /\ \A i \in 1..Len(t) : t[i] \in Digits
LastIdx(s, c) == LET P == {i \in 1..Len(s) : s[i] = c} IN IF P = {} THEN 0 ELSE CHOOSE i \in P : \A j \in P : j <= i
FirstIdx(s, c) == LET P == {i \in 1..Len(s) : s[i] = c} IN IF P = {} THEN 0 ELSE CHOOSE i \in P : \A j \in P : i <= j
HasProcs(nm) == LastIdx(nm, "-") > 0 /\ IsNum(SubSeq(nm, LastIdx(nm, "-") + 1, Len(nm)))
Stem(nm) == IF HasProcs(nm) THEN SubSeq(nm, 1, LastIdx(nm, "-") - 1) ELSE nm
ProcsOf(nm) == SubSeq(nm, LastIdx(nm, "-") + 1, Len(nm))

RECURSIVE SplitAt(_, _, _)
SplitAt(s, c, cur) == IF s = <<>> THEN <<cur>>
                      ELSE IF Head(s) = c THEN <<cur>> \o SplitAt(Tail(s), c, <<>>)
                      ELSE SplitAt(Tail(s), c, Append(cur, Head(s)))
PartsOf(nm) == SplitAt(Stem(nm), "/", <<>>)      \* PartsOf(nm)[1] is the base name
RECURSIVE JoinWith(_, _)
JoinWith(ps, c) == IF Len(ps) = 1 THEN ps[1] ELSE ps[1] \o <<c>> \o JoinWith(Tail(ps), c)

PartKey(p, i) == IF FirstIdx(p, "=") > 0 THEN SubSeq(p, 1, FirstIdx(p, "=") - 1) ELSE KSub(i - 1)
PartVal(p) == IF FirstIdx(p, "=") > 0 THEN SubSeq(p, FirstIdx(p, "=") + 1, Len(p)) ELSE p

\* the name labels of nm as a set of <<key, value>> (empty values are no labels)
NameLabels(nm) ==
  LET ps == PartsOf(nm) IN
  {x \in ({<<KName, ps[1]>>} \cup {<<PartKey(ps[i], i), PartVal(ps[i])>> : i \in 2..Len(ps)}
          \cup (IF HasProcs(nm) THEN {<<KProcs, ProcsOf(nm)>>} ELSE {})) : x[2] # <<>>}
NameKeys(nm) == {x[1] : x \in NameLabels(nm)}

\* declarative: the value of every key in ks is replaced by "*", everything else stays
ElideDecl(nm, ks) ==
  LET ps == PartsOf(nm)
      ps2 == [i \in 1..Len(ps) |->
                IF i = 1 THEN (IF KName \in ks THEN <<"*">> ELSE ps[1])
                ELSE IF PartKey(ps[i], i) \in ks
                     THEN (IF FirstIdx(ps[i], "=") > 0 THEN PartKey(ps[i], i) \o <<"=", "*">> ELSE <<"*">>)
                     ELSE ps[i]]
  IN JoinWith(ps2, "/") \o (IF HasProcs(nm) THEN (IF KProcs \in ks THEN <<"-", "*">> ELSE <<"-">> \o ProcsOf(nm)) ELSE <<>>)

\* operational: the code works on the first field INCLUDING the word Benchmark (one
\* symbol here), tests every part for "=" before it asks whether it is the first part
BM == "Benchmark"
ElideOp(nm, ks) ==
  LET content == <<BM>> \o nm
      d == LastIdx(content, "-")
      procs == d > 0 /\ IsNum(SubSeq(content, d + 1, Len(content)))
      c2 == IF procs THEN SubSeq(content, 1, d - 1) ELSE content
      end == IF procs THEN (IF KProcs \in ks THEN <<"-", "*">> ELSE SubSeq(content, d, Len(content))) ELSE <<>>
      ps == SplitAt(c2, "/", <<>>)
      ps2 == [i \in 1..Len(ps) |->
                LET eq == FirstIdx(ps[i], "=") IN
                IF eq > 0 THEN (IF SubSeq(ps[i], 1, eq - 1) \in ks THEN SubSeq(ps[i], 1, eq - 1) \o <<"=", "*">> ELSE ps[i])
                ELSE IF i = 1 THEN (IF KName \in ks THEN <<BM, "*">> ELSE ps[i])
                ELSE IF KSub(i - 1) \in ks THEN <<"*">> ELSE ps[i]]
  IN JoinWith(ps2, "/") \o end

\* domain: the base name (a Go identifier) contains no "="
NameInDomain == FirstIdx(PartsOf(txt)[1], "=") = 0

ElideAgrees == (mode = "name" /\ NameInDomain) => ElideOp(txt, keys) = <<BM>> \o ElideDecl(txt, keys)
\* nothing to elide: the line is untouched
ElideIdentity == (mode = "name" /\ NameInDomain /\ KName \notin keys /\ keys \cap NameKeys(txt) = {}
                  /\ \A i \in 2..Len(PartsOf(txt)) : PartKey(PartsOf(txt)[i], i) \notin keys)
                 => ElideDecl(txt, keys) = txt
\* the result does not depend on the elided values: eliding twice changes nothing
\* (with "-*" in place of -N the name no longer ends in a number, see below)
ElideIdempotent == (mode = "name" /\ NameInDomain /\ KProcs \notin keys) => ElideDecl(ElideDecl(txt, keys), keys) = ElideDecl(txt, keys)
\* labels that are not elided keep their values (unless gomaxprocs is elided: "-*" then
\* reads as part of the last part)
ElideKeepsOthers == (mode = "name" /\ NameInDomain /\ KProcs \notin keys)
                    => {x \in NameLabels(ElideDecl(txt, keys)) : x[1] \notin keys} = {x \in NameLabels(txt) : x[1] \notin keys}

-----------------------------------------------------------------------------
\* queryKeys: "the keys that are exact-matched by q": the words key:value whose key has
\* no upper-case letter, blank, < or >.
KeyBreak == {COLON, ">", "<", SP, TB, "A"}
QueryKeysDecl(q) ==
  LET ws == StoreWords(q) IN
  UNION {{SubSeq(ws[i], 1, m - 1) : m \in {m \in 1..Len(ws[i]) : /\ ws[i][m] = COLON
                                                                  /\ \A x \in 1..(m - 1) : ws[i][x] \notin KeyBreak}}
         : i \in 1..Len(ws)}
QueryKeysOp(q) ==
  LET ws == StoreWords(q)
      Brk(w) == LET P == {i \in 1..Len(w) : w[i] \in KeyBreak} IN IF P = {} THEN 0 ELSE CHOOSE i \in P : \A j \in P : i <= j
  IN {SubSeq(ws[i], 1, Brk(ws[i]) - 1) : i \in {i \in 1..Len(ws) : Brk(ws[i]) > 0 /\ ws[i][Brk(ws[i])] = COLON}}
QueryKeysAgree == mode = "qk" => QueryKeysOp(txt) = QueryKeysDecl(txt)

-----------------------------------------------------------------------------
\* linkify: "returns a link related to the label's value. If no such link exists, it
\* returns an empty string. For example, "cl: 1234" is linked to golang.org/cl/1234."
\* gerrit: the value appended (escaped) to https://golang.org/cl/ ; self: the value of
\* the repo label is the link; none: no link (ps, try: "TODO" in the code).
LinkLabels == {"cl", "commit", "ps", "repo", "try", "k"}
LinkKind(label) == IF label \in {"cl", "commit"} THEN "gerrit" ELSE IF label = "repo" THEN "self" ELSE "none"
=============================================================================
