SPECIFICATION Spec
CONSTANTS
  MaxChars = 6
  MaxWords = 4
  MaxName = 0
  MaxQK = 0
  WithTab = FALSE
  FullWords = FALSE
  PipeBySubstring = TRUE
INVARIANTS FilterReachesEveryGroup
CHECK_DEADLOCK FALSE
