-------------------------- MODULE CompareFrontText_gen --------------------------
(* Generator wrapper (mode G) for CompareFrontText: one replay case per text.      *)
(*   parse  what parseQueryString must return for a text of a documented shape     *)
(*          (prefix and sub-queries as raw words), the text's raw words (for the   *)
(*          conservation check on every text), and for every added filter word     *)
(*          the filter words every sub-query of addToQuery's result must send to   *)
(*          the storage server                                                     *)
(*   elide  what elideKeyValues must return for a benchmark name and a key set     *)
(*   qkeys  what queryKeys must return                                             *)
(*   link   what kind of link linkify must return for a label                      *)
(* All expectations are the DECLARATIVE definitions.                               *)
EXTENDS CompareFrontText, Json

RECURSIVE SetAsSeq(_)
SetAsSeq(S) == IF S = {} THEN <<>> ELSE LET x == CHOOSE x \in S : TRUE IN <<x>> \o SetAsSeq(S \ {x})

AddSeq == SetAsSeq(AddWords)

ParseCase ==
  LET d == ParseDecl(txt) IN
  [tag |-> "case", kind |-> "parse", text |-> txt, documented |-> d.documented,
   words |-> RawWords(txt), prefix |-> d.prefix, queries |-> d.queries,
   adds |-> IF d.documented
            THEN [a \in 1..Len(AddSeq) |-> [word |-> AddSeq[a],
                                           eff |-> [j \in 1..Len(d.queries) |-> <<AddSeq[a]>> \o Eff(d, j)]]]
            ELSE <<>>]

ElideCase == [tag |-> "case", kind |-> "elide", name |-> txt, keys |-> SetAsSeq(keys), expect |-> ElideDecl(txt, keys)]
QKCase == [tag |-> "case", kind |-> "qkeys", text |-> txt, expect |-> SetAsSeq(QueryKeysDecl(txt))]

Emit == /\ IsQuery => PrintT(ToJson(ParseCase))
        /\ (mode = "name" /\ NameInDomain) => PrintT(ToJson(ElideCase))
        /\ mode = "qk" => PrintT(ToJson(QKCase))
        /\ (mode = "qk" /\ n = 0) => \A lb \in LinkLabels :
              PrintT(ToJson([tag |-> "case", kind |-> "link", label |-> lb, linkkind |-> LinkKind(lb)]))
=============================================================================
