SPECIFICATION Spec
CONSTANTS
  MaxChars = 5
  MaxWords = 5
  MaxName = 4
  MaxQK = 4
  WithTab = FALSE
  FullWords = FALSE
  PipeBySubstring = FALSE
INVARIANTS Emit
CHECK_DEADLOCK FALSE
