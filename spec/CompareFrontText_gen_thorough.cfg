SPECIFICATION Spec
CONSTANTS
  MaxChars = 6
  MaxWords = 5
  MaxName = 5
  MaxQK = 5
  WithTab = FALSE
  FullWords = TRUE
  PipeBySubstring = FALSE
INVARIANTS Emit
CHECK_DEADLOCK FALSE
