SPECIFICATION Spec
CONSTANTS
  MaxChars = 5
  MaxWords = 5
  MaxName = 4
  MaxQK = 5
  WithTab = FALSE
  FullWords = FALSE
  PipeBySubstring = FALSE
INVARIANTS ParseAgrees ParseConserves FilterReachesEveryGroup FilterReachesEveryGroupOp
           ElideAgrees ElideIdentity ElideIdempotent ElideKeepsOthers QueryKeysAgree
CHECK_DEADLOCK FALSE
