SPECIFICATION Spec
CONSTANTS
  MaxChars = 7
  MaxWords = 5
  MaxName = 6
  MaxQK = 6
  WithTab = TRUE
  FullWords = FALSE
  PipeBySubstring = FALSE
INVARIANTS ParseAgrees ParseConserves FilterReachesEveryGroup FilterReachesEveryGroupOp
           ElideAgrees ElideIdentity ElideIdempotent ElideKeepsOthers QueryKeysAgree
CHECK_DEADLOCK FALSE
