SPECIFICATION Spec
CONSTANTS
  MaxChars = 0
  MaxWords = 6
  MaxName = 0
  MaxQK = 0
  WithTab = FALSE
  FullWords = TRUE
  PipeBySubstring = FALSE
INVARIANTS ParseAgrees ParseConserves FilterReachesEveryGroup FilterReachesEveryGroupOp
CHECK_DEADLOCK FALSE
