SPECIFICATION Spec
CONSTANTS
  Dom <- DomFileQ
  Required <- ReqNone
  MaxQ = 1
  MaxRes = 2
  MaxPer = 2
  SplitQRaw = TRUE
  EmptyGroupDropsCommon = FALSE
VIEW View
INVARIANTS LVRight NoZeroCount Partition QueryGroups SplitRight QSelects CommonRight ErrorRight TopTotals
CHECK_DEADLOCK FALSE
