SPECIFICATION Spec
CONSTANTS
  Dom <- DomGen
  Required <- ReqNone
  MaxQ = 2
  MaxRes = 2
  MaxPer = 2
  SplitQRaw = FALSE
  EmptyGroupDropsCommon = TRUE
VIEW View
INVARIANTS LVRight NoZeroCount Partition QueryGroups SplitRight QSelects CommonRight ErrorRight TopTotals
CHECK_DEADLOCK FALSE
