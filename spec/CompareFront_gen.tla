---------------------------- MODULE CompareFront_gen ----------------------------
(* Generator wrapper (mode G) for CompareFront: one replay case per finished       *)
(* request (phase done / error).  The case carries the results in the order the    *)
(* storage server delivered them and what the DECLARATIVE side of the              *)
(* specification demands: LabelValues of the receiving group after every add, the   *)
(* label split on, the groups (arrival numbers, the words their Q must read as,     *)
(* LabelValues, the two-line TopN table), the common labels and the per-group       *)
(* labels.  The harness drives resultGroup.add / splitOn step by step and the whole *)
(* request through compareQuery with a storage server that answers in that order.   *)
EXTENDS CompareFront, Json

IdsWhere(P(_)) == SortNat({i \in 1..Len(fetched) : P(i)})
LabsAt(ids) == [m \in 1..Len(ids) |-> fetched[ids[m]]]

\* functions over values (symbol sequences) as arrays of records
RECURSIVE SetAsSeq(_)
SetAsSeq(S) == IF S = {} THEN <<>> ELSE LET x == CHOOSE x \in S : TRUE IN <<x>> \o SetAsSeq(S \ {x})
LVJson(lv) == [k \in DOMAIN lv |-> SetAsSeq({[v |-> v, c |-> lv[k][v]] : v \in DOMAIN lv[k]})]
TopJson(lv, n) == [k \in DOMAIN lv |-> TopDecl(lv[k], n)]

GroupJson(ids, qwords, qfree) ==
  LET lv == Counts(LabsAt(ids)) IN
  [ids |-> ids, qwords |-> qwords, qfree |-> qfree, lv |-> LVJson(lv), top |-> TopJson(lv, 2)]

GroupsDecl ==
  IF nq > 1 THEN [n \in 1..nq |-> GroupJson(IdsWhere(LAMBDA i : fgrp[i] = n), <<QTok(n)>>, FALSE)]
  ELSE LET key == SplitKeyDecl(fetched) IN
       IF key = "" THEN <<GroupJson(IdsWhere(LAMBDA i : TRUE), <<QTok(1)>>, FALSE)>>
       ELSE LET order == SortVals({fetched[i][key] : i \in 1..Len(fetched)}) IN
            [n \in 1..Len(order) |-> GroupJson(IdsWhere(LAMBDA i : fetched[i][key] = order[n]),
                                               << <<key, COLON>> \o order[n] >>, order[n] = NoVal)]

CaseOf ==
  [tag |-> "case", kind |-> "flow", nq |-> nq, path |-> hist,
   fetched |-> [i \in 1..Len(fetched) |-> [g |-> fgrp[i], labels |-> fetched[i]]],
   steps |-> [i \in 1..Len(fetched) |->
                LVJson(Counts(LabsAt(IdsWhere(LAMBDA j : j <= i /\ fgrp[j] = fgrp[i]))))],
   error |-> Len(fetched) = 0,
   split |-> IF nq = 1 THEN SplitKeyDecl(fetched) ELSE "",
   groups |-> IF Len(fetched) = 0 THEN <<>> ELSE GroupsDecl,
   common |-> CommonDecl(fetched),
   labels |-> SetAsSeq(KeysL(fetched) \ DOMAIN CommonDecl(fetched))]

Emit == phase \in {"done", "error"} => PrintT(ToJson(CaseOf))
=============================================================================
