SPECIFICATION Spec
CONSTANTS
  Dom <- DomGen
  Required <- ReqNone
  MaxQ = 3
  MaxRes = 3
  MaxPer = 2
  SplitQRaw = FALSE
  EmptyGroupDropsCommon = FALSE
VIEW View
INVARIANTS Emit
CHECK_DEADLOCK FALSE
