SPECIFICATION Spec
CONSTANTS
  Dom <- DomGen3
  Required <- ReqNone
  MaxQ = 3
  MaxRes = 8
  MaxPer = 4
  SplitQRaw = FALSE
  EmptyGroupDropsCommon = FALSE
VIEW View
INVARIANTS Emit
CHECK_DEADLOCK FALSE
