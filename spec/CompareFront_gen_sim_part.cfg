SPECIFICATION Spec
CONSTANTS
  Dom <- DomSimPart
  Required <- ReqSimPart
  MaxQ = 1
  MaxRes = 6
  MaxPer = 6
  SplitQRaw = FALSE
  EmptyGroupDropsCommon = FALSE
VIEW View
INVARIANTS Emit
CHECK_DEADLOCK FALSE
