SPECIFICATION Spec
CONSTANTS
  Dom <- DomSplit
  Required <- ReqNone
  MaxQ = 1
  MaxRes = 2
  MaxPer = 2
  SplitQRaw = FALSE
  EmptyGroupDropsCommon = FALSE
VIEW View
INVARIANTS Emit
CHECK_DEADLOCK FALSE
