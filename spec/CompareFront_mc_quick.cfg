SPECIFICATION Spec
CONSTANTS
  Dom <- DomSplit
  Required <- ReqNone
  MaxQ = 1
  MaxRes = 2
  MaxPer = 2
  SplitQRaw = FALSE
  EmptyGroupDropsCommon = FALSE
VIEW View
INVARIANTS LVRight NoZeroCount Partition QueryGroups SplitRight QSelects CommonRight ErrorRight TopTotals
CHECK_DEADLOCK FALSE
