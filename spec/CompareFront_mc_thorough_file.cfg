SPECIFICATION Spec
CONSTANTS
  Dom <- DomFile
  Required <- ReqNone
  MaxQ = 1
  MaxRes = 3
  MaxPer = 3
  SplitQRaw = FALSE
  EmptyGroupDropsCommon = FALSE
VIEW View
INVARIANTS LVRight NoZeroCount Partition QueryGroups SplitRight QSelects CommonRight ErrorRight TopTotals
CHECK_DEADLOCK FALSE
