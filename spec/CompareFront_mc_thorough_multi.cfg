SPECIFICATION Spec
CONSTANTS
  Dom <- DomGen3
  Required <- ReqNone
  MaxQ = 3
  MaxRes = 4
  MaxPer = 2
  SplitQRaw = FALSE
  EmptyGroupDropsCommon = FALSE
VIEW View
INVARIANTS LVRight NoZeroCount Partition QueryGroups SplitRight QSelects CommonRight ErrorRight TopTotals
CHECK_DEADLOCK FALSE
