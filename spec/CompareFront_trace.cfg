SPECIFICATION TSpec
CONSTRAINT HW
POSTCONDITION Post
CHECK_DEADLOCK FALSE
