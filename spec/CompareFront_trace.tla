--------------------------- MODULE CompareFront_trace ---------------------------
(* Trace validation (mode T) for the CompareFront family: events recorded from     *)
(* the real analysis front end (larger than TLC's bounds: ~20 label keys, values    *)
(* that need quoting, dozens of results, long queries) are judged one by one with   *)
(* the DECLARATIVE definitions of CompareFrontLex.                                  *)
(*                                                                                 *)
(*   newgroup            a fresh resultGroup                                        *)
(*   add      labels, lv           resultGroup.add was called; lv = LabelValues     *)
(*   split    key, groups, vals    splitOn(key) on the current group                *)
(*   request  nq, subq, fetched, obs, vals   a whole compareQuery against a         *)
(*            storage server that delivered `fetched` in this order                 *)
(*   page     nq, subq, fetched, obs, vals, links   the HTTP handler `compare`      *)
(*            against the real storage server (storage/app on sqlite + MemFS):      *)
(*            `fetched` is what the server returns for the sub-queries (any order), *)
(*            obs is the structure of the rendered page, links what following the   *)
(*            page's per-value links selected                                       *)
(*   parse    text, prefix, queries          parseQueryString                       *)
(*   addq     text, word, result             addToQuery                             *)
(*   reset    start of the next independent trace                                   *)
(*                                                                                 *)
(* Every event gets a class ("ok" or the name of a deviation class), printed as     *)
(* {tag: "tv", i: line, class}; the trace is always consumed to its end.            *)
(* Strings travel as arrays of one-character strings; `vals` lists the distinct     *)
(* values with their bytewise rank (Go string comparison, trusted).                 *)
EXTENDS CompareFrontLex, Json

TraceLog == ndJsonDeserialize("trace.ndjson")

VARIABLES l, cur
tvars == <<l, cur>>

Ev == TraceLog[l]
IsEv(name) == l <= Len(TraceLog) /\ Ev.ev = name

ToSetOf(s) == {s[i] : i \in 1..Len(s)}
\* JSON objects with no members arrive as the empty sequence
Obj(x) == IF DOMAIN x = {} THEN <<>> ELSE x
LVCounts(j) == LET o == Obj(j) IN
  [k \in DOMAIN o |-> [v \in {o[k][i].v : i \in 1..Len(o[k])} |-> o[k][CHOOSE i \in 1..Len(o[k]) : o[k][i].v = v].c]]
NoDupValues(j) == LET o == Obj(j) IN \A k \in DOMAIN o : \A a, b \in 1..Len(o[k]) : o[k][a].v = o[k][b].v => a = b

RankFn(vals) == [v \in {vals[i].v : i \in 1..Len(vals)} |-> vals[CHOOSE i \in 1..Len(vals) : vals[i].v = v].r]
IsPrefix(x, y) == Len(x) < Len(y) /\ SubSeq(y, 1, Len(x)) = x
RankSane(vals) == \A a, b \in 1..Len(vals) :
   /\ (a # b => vals[a].v # vals[b].v /\ vals[a].r # vals[b].r)
   /\ (IsPrefix(vals[a].v, vals[b].v) => vals[a].r < vals[b].r)

RECURSIVE SortBy(_, _)
SortBy(S, rk) == IF S = {} THEN <<>>
                 ELSE LET m == CHOOSE x \in S : \A y \in S : rk[x] <= rk[y] IN <<m>> \o SortBy(S \ {m}, rk)

KeyCharsFile == <<"u", "p", "l", "o", "a", "d", "-", "f", "i", "l", "e">>
KeyCharsPart == <<"u", "p", "l", "o", "a", "d", "-", "p", "a", "r", "t">>
LabsOfEv(f) == [i \in 1..Len(f) |-> Obj(f[i].labels)]
IdxWhere(n, P(_)) == SortNat({i \in 1..n : P(i)})

\* the groups the contract demands: index lists into the fetched results, and for a
\* split the key and the value of each group
ExpGroups(nq, f, rk) ==  \* keyc: the characters of the key split on
  LET labs == LabsOfEv(f) IN
  IF nq > 1 THEN [j \in 1..nq |-> [idx |-> IdxWhere(Len(f), LAMBDA i : f[i].g = j), split |-> FALSE, val |-> NoVal, keyc |-> <<>>]]
  ELSE LET key == SplitKeyL(labs) IN
       IF key = "" THEN <<[idx |-> IdxWhere(Len(f), LAMBDA i : TRUE), split |-> FALSE, val |-> NoVal, keyc |-> <<>>]>>
       ELSE LET order == SortBy({ValL(labs[i], key) : i \in 1..Len(f)}, rk) IN
            [n \in 1..Len(order) |-> [idx |-> IdxWhere(Len(f), LAMBDA i : ValL(labs[i], key) = order[n]),
                                      split |-> TRUE, val |-> order[n],
                                      keyc |-> IF key = "upload-file" THEN KeyCharsFile ELSE KeyCharsPart]]
SubLabs(labs, idx) == [m \in 1..Len(idx) |-> labs[idx[m]]]

-----------------------------------------------------------------------------
\* Every event is judged and gets a class: "ok" or the name of the deviation.  The
\* classes of the three named deviations demand that the observed value is exactly
\* what the as-built switch predicts.

Verdict(class) == PrintT(ToJson([tag |-> "tv", i |-> l, class |-> class]))

TInit == l = 1 /\ cur = <<>>

TReset == (IsEv("reset") \/ IsEv("newgroup")) /\ cur' = <<>> /\ l' = l + 1

TAdd ==
  /\ IsEv("add")
  /\ cur' = Append(cur, Obj(Ev.labels))
  /\ Verdict(IF NoDupValues(Ev.lv) /\ LVCounts(Ev.lv) = CountsL(cur') THEN "ok" ELSE "add-labelvalues")
  /\ l' = l + 1

\* observed groups g (idx, lv, q) of a split on key (with characters keyc) against labs
SplitClass(gs, labs, key, keyc, rk) ==
  LET order == SortBy({ValL(labs[i], key) : i \in 1..Len(labs)}, rk)
      Members(n) == IdxWhere(Len(labs), LAMBDA i : ValL(labs[i], key) = order[n])
  IN IF Len(gs) # Len(order) THEN "split-groups"
     ELSE IF \E n \in 1..Len(order) : ToSetOf(gs[n].idx) # ToSetOf(Members(n)) THEN
            (IF {ToSetOf(gs[n].idx) : n \in 1..Len(gs)} = {ToSetOf(Members(n)) : n \in 1..Len(order)}
             THEN "group-order" ELSE "split-groups")
     ELSE IF \E n \in 1..Len(order) : gs[n].idx # Members(n) THEN "group-result-order"
     ELSE IF \E n \in 1..Len(order) : ~NoDupValues(gs[n].lv) \/ LVCounts(gs[n].lv) # CountsL(SubLabs(labs, gs[n].idx))
       THEN "labelvalues"
     ELSE IF \A n \in 1..Len(order) : order[n] = NoVal \/ SelectedL(gs[n].q, labs) = ToSetOf(gs[n].idx) THEN "ok"
     ELSE IF \A n \in 1..Len(order) : gs[n].q = keyc \o <<COLON>> \o order[n] THEN "split-group-query-not-quoted"
     ELSE "group-query"

TSplit ==
  /\ IsEv("split")
  /\ Verdict(IF ~RankSane(Ev.vals) THEN "harness-ranks"
             ELSE SplitClass(Ev.groups, cur, Ev.key, Ev.keyc, RankFn(Ev.vals)))
  /\ UNCHANGED cur /\ l' = l + 1

\* the observed groups against the expected ones
GroupsClass(gs, exp, labs, subq) ==
  IF Len(gs) # Len(exp) THEN (IF Len(subq) = 1 THEN "split-choice" ELSE "group-count")
  ELSE IF \E n \in 1..Len(exp) : ToSetOf(gs[n].idx) # ToSetOf(exp[n].idx) THEN
         (IF {ToSetOf(gs[n].idx) : n \in 1..Len(gs)} = {ToSetOf(exp[n].idx) : n \in 1..Len(exp)}
          THEN "group-order" ELSE "group-membership")
  ELSE IF \E n \in 1..Len(exp) : gs[n].idx # exp[n].idx THEN "group-result-order"
  ELSE IF \E n \in 1..Len(exp) : ~NoDupValues(gs[n].lv) \/ LVCounts(gs[n].lv) # CountsL(SubLabs(labs, exp[n].idx))
    THEN "labelvalues"
  ELSE IF \A n \in 1..Len(exp) :
            IF exp[n].split THEN exp[n].val = NoVal \/ SelectedL(gs[n].q, labs) = ToSetOf(exp[n].idx)
            ELSE StoreWords(gs[n].q) = StoreWords(subq[n])
    THEN "ok"
  ELSE IF \A n \in 1..Len(exp) : exp[n].split /\ gs[n].q = exp[n].keyc \o <<COLON>> \o exp[n].val
    THEN "split-group-query-not-quoted"
  ELSE "group-query"

\* common labels and the list of the other labels
SummaryClass(common, shown, exp, labs) ==
  LET com == CommonL(labs) IN
  IF Obj(common) # com THEN
     (IF Obj(common) = <<>> /\ \E n \in 1..Len(exp) : exp[n].idx = <<>>
      THEN "common-labels-dropped-by-empty-group" ELSE "common-labels")
  ELSE IF shown # KeysL(labs) \ DOMAIN com THEN "labels-list"
  ELSE "ok"
\* with all common labels dropped every label is listed
SummaryAsBuiltLabels(shown, labs) == shown = KeysL(labs)

FirstNotOk(cs) == IF \A i \in 1..Len(cs) : cs[i] = "ok" THEN "ok" ELSE cs[CHOOSE i \in 1..Len(cs) : cs[i] # "ok" /\ \A j \in 1..(i - 1) : cs[j] = "ok"]

RequestClass ==
  LET labs == LabsOfEv(Ev.fetched)
      rk == RankFn(Ev.vals)
  IN IF ~RankSane(Ev.vals) THEN "harness-ranks"
     ELSE IF Len(Ev.fetched) = 0 THEN (IF Ev.obs.error THEN "ok" ELSE "error-flag")
     ELSE IF Ev.obs.error THEN "error-flag"
     ELSE LET exp == ExpGroups(Ev.nq, Ev.fetched, rk)
              sc == SummaryClass(Ev.obs.common, ToSetOf(Ev.obs.labels), exp, labs)
          IN FirstNotOk(<<GroupsClass(Ev.obs.groups, exp, labs, Ev.subq),
                          IF sc = "common-labels-dropped-by-empty-group" /\ ~SummaryAsBuiltLabels(ToSetOf(Ev.obs.labels), labs)
                            THEN "labels-list" ELSE sc>>)

TRequest ==
  /\ IsEv("request")
  /\ Verdict(RequestClass)
  /\ UNCHANGED cur /\ l' = l + 1

\* rows of the labels table for one group: TopN(4) of the group's value counts
RowsOk(rows, vs, rk) ==
  LET exp == TopDeclBy(vs, 4, rk) IN
  /\ Len(rows) = Len(exp)
  /\ \A m \in 1..Len(exp) : /\ rows[m].c = exp[m].c
                            /\ rows[m].rest = exp[m].rest
                            /\ (exp[m].rest \/ rows[m].v = exp[m].v)

PageClass ==
  LET labs == LabsOfEv(Ev.fetched)
      rk == RankFn(Ev.vals)
  IN IF ~RankSane(Ev.vals) THEN "harness-ranks"
     ELSE IF Len(Ev.fetched) = 0 THEN (IF Ev.obs.error THEN "ok" ELSE "error-flag")
     ELSE IF Ev.obs.error THEN "error-flag"
     ELSE LET exp == ExpGroups(Ev.nq, Ev.fetched, rk)
              rows == Obj(Ev.obs.rows)
              shown == DOMAIN rows
              sc == SummaryClass(Ev.obs.common, shown, exp, labs)
              titles == Ev.obs.titles
              tc == IF Ev.obs.notitles THEN "ok"   \* no label is shown per group: the page has no titles
                    ELSE IF Len(titles) # Len(exp) THEN (IF Ev.nq = 1 THEN "split-choice" ELSE "group-count")
                    ELSE IF \A n \in 1..Len(exp) :
                              IF exp[n].split THEN exp[n].val = NoVal \/ SelectedL(titles[n], labs) = ToSetOf(exp[n].idx)
                              ELSE StoreWords(titles[n]) = StoreWords(Ev.subq[n])
                      THEN "ok"
                    ELSE IF \A n \in 1..Len(exp) : exp[n].split /\ titles[n] = exp[n].keyc \o <<COLON>> \o exp[n].val
                      THEN "split-group-query-not-quoted"
                    ELSE "group-query"
              rc == IF ~Ev.obs.notitles /\ Len(titles) # Len(exp) THEN "ok"
                    ELSE IF \A k \in shown : /\ Len(rows[k]) = Len(exp)
                                             /\ \A n \in 1..Len(exp) :
                                                  LET lv == CountsL(SubLabs(labs, exp[n].idx)) IN
                                                  IF k \in DOMAIN lv THEN RowsOk(rows[k][n], lv[k], rk) ELSE rows[k][n] = <<>>
                      THEN "ok" ELSE "page-rows"
              \* following the link of value v of label k: every sub-query filtered by k = v
              lc == IF \A x \in 1..Len(Ev.links) :
                         /\ Ev.links[x].nq2 = Ev.nq
                         /\ \A j \in 1..Ev.nq :
                              ToSetOf(Ev.links[x].sel[j]) = {i \in 1..Len(labs) : Ev.fetched[i].g = j
                                                               /\ ValL(labs[i], Ev.links[x].label) = Ev.links[x].v}
                      THEN "ok" ELSE "link-selection"
          IN FirstNotOk(<<tc, rc,
                          IF sc = "common-labels-dropped-by-empty-group" /\ ~SummaryAsBuiltLabels(shown, labs) THEN "labels-list" ELSE sc,
                          lc>>)

TPage ==
  /\ IsEv("page")
  /\ Verdict(PageClass)
  /\ UNCHANGED cur /\ l' = l + 1

ParseClass ==
  LET d == ParseDecl(Ev.text)
      out == RawWords(Ev.prefix) \o Flat([j \in 1..Len(Ev.queries) |-> RawWords(Ev.queries[j])])
  IN IF ~DropsOnlySeps(out, RawWords(Ev.text)) THEN "parse-loses-words"
     ELSE IF ~d.documented THEN "ok"
     ELSE IF /\ RawWords(Ev.prefix) = d.prefix
             /\ Len(Ev.queries) = Len(d.queries)
             /\ \A j \in 1..Len(d.queries) : RawWords(Ev.queries[j]) = d.queries[j]
       THEN "ok" ELSE "parse-documented-shape"

TParse ==
  /\ IsEv("parse")
  /\ Verdict(ParseClass)
  /\ UNCHANGED cur /\ l' = l + 1

AddQClass ==
  LET d == ParseDecl(Ev.text)
      p2 == ParseDecl(Ev.result)
  IN IF ~d.documented THEN "ok"
     ELSE IF /\ p2.documented
             /\ Len(p2.queries) = Len(d.queries)
             /\ \A j \in 1..Len(d.queries) : Eff(p2, j) = <<Ev.word>> \o Eff(d, j)
       THEN "ok"
     ELSE IF Ev.result = AddToQuery(Ev.text, Ev.word, TRUE) /\ FirstPipe(RawWords(Ev.text)) = 0
       THEN "addtoquery-pipe-inside-word"
     ELSE "addtoquery-filter"

TAddQ ==
  /\ IsEv("addq")
  /\ Verdict(AddQClass)
  /\ UNCHANGED cur /\ l' = l + 1

TNext == TReset \/ TAdd \/ TSplit \/ TRequest \/ TPage \/ TParse \/ TAddQ
TSpec == TInit /\ [][TNext]_tvars

HW == IF l > TLCGet(1) THEN TLCSet(1, l) ELSE TRUE
Post == PrintT("TRACE hwm=" \o ToString(TLCGet(1) - 1) \o " len=" \o ToString(Len(TraceLog)))
ASSUME TLCSet(1, 0)
=============================================================================
