-------------------------------- MODULE FilterSem --------------------------------
(* Filter semantics of golang.org/x/perf/benchproc (property C06).                 *)
(*                                                                                 *)
(* Two descriptions of "which measurements of a result does a filter expression     *)
(* keep", and the invariants that tie them together:                                *)
(*                                                                                 *)
(*   DECLARATIVE   Holds(e, r, i): structural recursion over the expression with    *)
(*                 the ordinary boolean connectives.  This is what the property      *)
(*                 statement says and what every expected value handed to the real   *)
(*                 code (modes G and T) is computed from.                            *)
(*                                                                                 *)
(*   OPERATIONAL   a transcription of benchproc/filter.go: NewFilter compiles the    *)
(*                 tree into closures that return (mask | nil, bool); a nil mask     *)
(*                 means "the bool speaks for the whole result".  NOT complements    *)
(*                 every word of a mask in place, AND / OR fold left over their      *)
(*                 operands, adopt the first mask BY REFERENCE, combine later masks  *)
(*                 into it IN PLACE and return early on a deciding boolean.  Masks   *)
(*                 are sequences of W-bit words (W = 32 in the code, 2 here); the     *)
(*                 measurement count n is applied only by Match.All/Any/Test.         *)
(*                 Match.Apply compacts Result.Values in place.                      *)
(*                 Masks and the Values slice live in a small store, so that         *)
(*                 in-place mutation of a shared object is expressible; references    *)
(*                 are indices into the store.                                       *)
(*                                                                                 *)
(* Every (expression, result) pair is one state; `out` is what the operational side  *)
(* observes for it (Filter.Match twice, then Filter.Apply).                          *)
(*                                                                                 *)
(* SharedLeafMasks = TRUE is a negative control, not a finding: it makes a .unit      *)
(* leaf hand out the same mask object on every evaluation (a cache), which the        *)
(* in-place combination then corrupts; FilterSem_neg_shared.cfg shows that the        *)
(* invariants notice.  The code as shipped allocates a fresh mask per evaluation      *)
(* (SharedLeafMasks = FALSE).                                                        *)
EXTENDS Integers, Sequences, FiniteSets, TLC

CONSTANTS
  W,                \* bits per mask word
  Domain,           \* which finite domain mode M explores, see ExprSet / ResultSet at the end
  SharedLeafMasks   \* negative control, FALSE = the code as shipped

Elems(s) == {s[x] : x \in 1..Len(s)}
Get(f, k) == IF k \in DOMAIN f THEN f[k] ELSE ""      \* a missing key extracts as the empty value

-----------------------------------------------------------------------------
(* Expressions.  Uniform record shape so that sets of expressions are sets of one  *)
(* record type:  op    "true" | "not" | "and" | "or" | "cfg" | "name" | "sub" |     *)
(*                     "full" | "unit" | "unitre" | "in"                            *)
(*               kind  for "in": which kind of key ("cfg" | "name" | "sub" | "full") *)
(*               k     key (file-configuration key, or sub-name key without "/")     *)
(*               v     literal value / unit                                         *)
(*               vs    sequence of values: the fixed list of "in"; for "unitre" the  *)
(*                     LANGUAGE of the regular expression over UnitUniverse          *)
(*               args  operands                                                     *)
Node(op, kind, k, v, vs, args) == [op |-> op, kind |-> kind, k |-> k, v |-> v, vs |-> vs, args |-> args]
True        == Node("true", "", "", "", <<>>, <<>>)       \* "*"  (the parser's AND of nothing)
Not(x)      == Node("not", "", "", "", <<>>, <<x>>)       \* "-x"
And(es)     == Node("and", "", "", "", <<>>, es)          \* juxtaposition / AND
Or(es)      == Node("or", "", "", "", <<>>, es)           \* OR, key:(a OR b)
Cfg(k, v)   == Node("cfg", "", k, v, <<>>, <<>>)          \* k:v      file configuration
Name(v)     == Node("name", "", "", v, <<>>, <<>>)        \* .name:v
Sub(k, v)   == Node("sub", "", k, v, <<>>, <<>>)          \* /k:v     name configuration
Full(v)     == Node("full", "", "", v, <<>>, <<>>)        \* .fullname:v   (only results that carry a `full` field: mode T)
Unit(u)     == Node("unit", "", "", u, <<>>, <<>>)        \* .unit:u
UnitRe(us)  == Node("unitre", "", "", "", us, <<>>)       \* .unit:/re/ with L(re) \cap UnitUniverse = Elems(us)
In(kind, k, vs) == Node("in", kind, k, "", vs, <<>>)      \* fixed-list projection  key@(v1 v2 ...)

(* Regular expressions.  The specification has no regexp engine.  A regexp term is   *)
(* represented by its language over a finite universe of strings:                    *)
(*   UnitRe(us)  stands for ANY regular expression re such that                      *)
(*               {u \in UnitUniverse : re matches u} = Elems(us).                    *)
(* The harness realises it as the anchored alternation ^(?:u1|...|uk)$ of the units   *)
(* in us and, where Elems(us) is exactly the set of universe members beginning with   *)
(* some prefix p, also as ^p; it checks the side condition with Go's regexp package   *)
(* (trusted) before use.  A literal value v may also be spelled /^(?:v)$/ with v      *)
(* quoted by regexp.QuoteMeta; its language is {v} over any universe.                 *)
Filler == "widgets"      \* a unit that no term mentions and no regexp language contains
UnitUniverse == {"sec/op", "ns/op", "B/op", "B/s", "MB/s", Filler}

(* Results: file configuration (key -> value), base name, name configuration        *)
(* (sub key -> value), in recorded events also the full name, measurements             *)
(* [unit, orig, id].  `unit` is the base (tidied)    *)
(* unit, `orig` the written unit when the reader rescaled the value ("" otherwise),   *)
(* `id` the measurement's original position, carried along so that "the same           *)
(* measurements in their original order" can be stated.                               *)
Written(m) == IF m.orig = "" THEN m.unit ELSE m.orig
Extract(r, kind, k) ==
  CASE kind = "cfg"  -> Get(r.cfg, k)
    [] kind = "name" -> r.name
    [] kind = "sub"  -> Get(r.sub, k)
    [] kind = "full" -> r.full

-----------------------------------------------------------------------------
(* DECLARATIVE side *)

RECURSIVE HoldsM(_, _, _)
HoldsM(x, r, m) ==     \* does expression x hold for measurement record m of result r
  CASE x.op = "true"   -> TRUE
    [] x.op = "not"    -> ~HoldsM(x.args[1], r, m)
    [] x.op = "and"    -> \A j \in 1..Len(x.args) : HoldsM(x.args[j], r, m)
    [] x.op = "or"     -> \E j \in 1..Len(x.args) : HoldsM(x.args[j], r, m)
    [] x.op = "cfg"    -> Get(r.cfg, x.k) = x.v
    [] x.op = "name"   -> r.name = x.v
    [] x.op = "sub"    -> Get(r.sub, x.k) = x.v
    [] x.op = "full"   -> r.full = x.v
    [] x.op = "unit"   -> m.unit = x.v \/ Written(m) = x.v            \* base OR written unit
    [] x.op = "unitre" -> m.unit \in Elems(x.vs) \/ Written(m) \in Elems(x.vs)
    [] x.op = "in"     -> Extract(r, x.kind, x.k) \in Elems(x.vs)

Holds(x, r, i) == HoldsM(x, r, r.meas[i])                           \* i in 1..Len(r.meas)

DBits(x, r) == [i \in 1..Len(r.meas) |-> Holds(x, r, i)]
DAll(x, r)  == \A i \in 1..Len(r.meas) : Holds(x, r, i)
DAny(x, r)  == \E i \in 1..Len(r.meas) : Holds(x, r, i)
DKeep(x, r) == SelectSeq(r.meas, LAMBDA m : HoldsM(x, r, m))        \* what Apply must leave

-----------------------------------------------------------------------------
(* OPERATIONAL side: benchproc/filter.go *)

(* type mask []uint32 -- here: a sequence of words, a word is the set of its 1 bits *)
Bits == 0..(W - 1)
NWords(n) == (n + W - 1) \div W                                    \* newMask: (n+31)/32
NewMask(n) == [w \in 1..NWords(n) |-> {}]
MaskSet(m, i) == [m EXCEPT ![(i \div W) + 1] = @ \cup {i % W}]      \* m[i/32] |= 1 << (i%32)
MaskAnd(m, n) == [w \in 1..Len(m) |-> m[w] \cap n[w]]              \* for i := range m { m[i] &= n[i] }
MaskOr(m, n)  == [w \in 1..Len(m) |-> m[w] \cup n[w]]
MaskNot(m)    == [w \in 1..Len(m) |-> Bits \ m[w]]                  \* ALL W bits, also those above n

(* The store: h     mask objects, a reference is an index, 0 is nil                 *)
(*            vals  the backing array of Result.Values                              *)
(*            cache only used by the negative control: leaf -> reference             *)
NewStore(meas) == [h |-> <<>>, vals |-> meas, cache |-> <<>>]
Ret(m, x, st) == [m |-> m, x |-> x, st |-> st]

LeafMatchString(x, s) == IF x.op = "unitre" THEN s \in Elems(x.vs) ELSE s = x.v

\* the .unit closure (filter.go:60-68)
UnitLeafMask(x, vals) ==
  LET f[i \in 0..Len(vals)] ==
        IF i = 0 THEN NewMask(Len(vals))
        ELSE IF LeafMatchString(x, vals[i].unit)
                \/ (vals[i].orig # "" /\ LeafMatchString(x, vals[i].orig))
             THEN MaskSet(f[i-1], i-1)
             ELSE f[i-1]
  IN f[Len(vals)]

RECURSIVE Eval(_, _, _), AndLoop(_, _, _, _, _), OrLoop(_, _, _, _, _)

\* one compiled closure applied to a result: returns [m: reference or 0, x: bool, st: store]
Eval(x, r, st) ==
  CASE x.op \in {"unit", "unitre"} ->
         IF SharedLeafMasks /\ x \in DOMAIN st.cache
         THEN Ret(st.cache[x], FALSE, st)
         ELSE LET ref == Len(st.h) + 1
                  st1 == [st EXCEPT !.h = Append(@, UnitLeafMask(x, st.vals))]
              IN Ret(ref, FALSE, IF SharedLeafMasks THEN [st1 EXCEPT !.cache = (x :> ref) @@ @] ELSE st1)
    [] x.op = "cfg"  -> Ret(0, Get(r.cfg, x.k) = x.v, st)           \* q.Match(ext(res))
    [] x.op = "name" -> Ret(0, r.name = x.v, st)
    [] x.op = "sub"  -> Ret(0, Get(r.sub, x.k) = x.v, st)
    [] x.op = "full" -> Ret(0, r.full = x.v, st)
    [] x.op = "in"   -> Ret(0, Extract(r, x.kind, x.k) \in Elems(x.vs), st)   \* projection.go:164-167
    [] x.op = "true" -> Ret(0, TRUE, st)                            \* FilterOp{OpAnd, nil}: the loop body never runs
    [] x.op = "not"  ->
         LET s == Eval(x.args[1], r, st) IN
         IF s.m = 0 THEN Ret(0, ~s.x, s.st)
         ELSE Ret(s.m, FALSE, [s.st EXCEPT !.h[s.m] = MaskNot(@)])   \* m.not(); return m, false
    [] x.op = "and"  -> AndLoop(x.args, 1, 0, r, st)
    [] x.op = "or"   -> OrLoop(x.args, 1, 0, r, st)

\* filter.go:113-130
AndLoop(subs, i, m, r, st) ==
  IF i > Len(subs) THEN Ret(m, TRUE, st)
  ELSE LET s == Eval(subs[i], r, st) IN
       IF s.m = 0 THEN (IF ~s.x THEN Ret(0, FALSE, s.st)            \* short-circuit
                        ELSE AndLoop(subs, i + 1, m, r, s.st))
       ELSE IF m = 0 THEN AndLoop(subs, i + 1, s.m, r, s.st)        \* m = m2   (adopted, not copied)
       ELSE AndLoop(subs, i + 1, m, r, [s.st EXCEPT !.h[m] = MaskAnd(@, s.st.h[s.m])])   \* m.and(m2)

\* filter.go:132-149
OrLoop(subs, i, m, r, st) ==
  IF i > Len(subs) THEN Ret(m, FALSE, st)
  ELSE LET s == Eval(subs[i], r, st) IN
       IF s.m = 0 THEN (IF s.x THEN Ret(0, TRUE, s.st)              \* short-circuit
                        ELSE OrLoop(subs, i + 1, m, r, s.st))
       ELSE IF m = 0 THEN OrLoop(subs, i + 1, s.m, r, s.st)
       ELSE OrLoop(subs, i + 1, m, r, [s.st EXCEPT !.h[m] = MaskOr(@, s.st.h[s.m])])

\* Filter.Match: Match{len(res.Values), m, x}
DoMatch(x, r, st) ==
  LET s == Eval(x, r, st) IN [n |-> Len(s.st.vals), m |-> s.m, x |-> s.x, st |-> s.st]

\* 0xffffffff << s for a W-bit word: the bits at positions >= s (none when s >= W)
HighBits(s) == {b \in Bits : b >= s}

MAll(M, h) ==
  IF M.m = 0 THEN M.x
  ELSE \A w \in 1..Len(h[M.m]) : h[M.m][w] \cup HighBits(M.n - (w - 1) * W) = Bits
MAny(M, h) ==
  IF M.m = 0 THEN M.x
  ELSE \E w \in 1..Len(h[M.m]) : h[M.m][w] \ HighBits(M.n - (w - 1) * W) # {}
MTest(M, h, i) ==                                                   \* i is 0-based as in the code
  IF i < 0 \/ i >= M.n THEN FALSE
  ELSE IF M.m = 0 THEN M.x
  ELSE (i % W) \in h[M.m][(i \div W) + 1]

\* Match.Apply: returns [ok, st]
MApply(M, st) ==
  IF MAll(M, st.h) THEN [ok |-> TRUE, st |-> st]
  ELSE IF ~MAny(M, st.h) THEN [ok |-> FALSE, st |-> [st EXCEPT !.vals = <<>>]]
  ELSE LET n == Len(st.vals)
           \* for i, val := range res.Values { if m.Test(i) { res.Values[j] = val; j++ } }
           f[i \in 0..n] ==
             IF i = 0 THEN [vals |-> st.vals, j |-> 0]
             ELSE IF MTest(M, st.h, i - 1)
                  THEN [vals |-> [f[i-1].vals EXCEPT ![f[i-1].j + 1] = f[i-1].vals[i]], j |-> f[i-1].j + 1]
                  ELSE f[i-1]
       IN [ok |-> f[n].j > 0, st |-> [st EXCEPT !.vals = SubSeq(f[n].vals, 1, f[n].j)]]

TestBits(M, h) == [i \in 1..M.n |-> MTest(M, h, i - 1)]

\* What a caller observes: Filter.Match, then Filter.Apply (= Match again + Match.Apply) on
\* the same Filter, all on one store.
Run(x, r) ==
  LET st0 == NewStore(r.meas)
      M1  == DoMatch(x, r, st0)
      M2  == DoMatch(x, r, M1.st)
      ap  == MApply(M2, M2.st)      \* Filter.Apply = Match (here: the second one) + Match.Apply
  IN [ bits   |-> TestBits(M1, M1.st.h), all |-> MAll(M1, M1.st.h), any |-> MAny(M1, M1.st.h),
       outer  |-> <<MTest(M1, M1.st.h, -1), MTest(M1, M1.st.h, M1.n)>>,
       bits2  |-> TestBits(M2, M2.st.h), all2 |-> MAll(M2, M2.st.h), any2 |-> MAny(M2, M2.st.h),
       \* the first Match object, looked at again after the second evaluation
       bits1b |-> TestBits(M1, M2.st.h), all1b |-> MAll(M1, M2.st.h), any1b |-> MAny(M1, M2.st.h),
       valsAfterMatch |-> M2.st.vals,
       applied |-> ap.st.vals, ok |-> ap.ok ]

-----------------------------------------------------------------------------
VARIABLES e, r0, out, stage
RECURSIVE ExprIn(_, _), ResultSet(_)     \* defined at the end
vars == <<e, r0, out, stage>>

(* TLC computes initial states in one thread, so only the expression is chosen in   *)
(* Init; the result is chosen (and the operational side run) in the single step that  *)
(* follows, which the workers share.  stage = 1 marks a complete (e, r0, out).         *)
Init == /\ ExprIn(e, Domain)
        /\ r0 = 0 /\ out = 0 /\ stage = 0
Pick == /\ stage = 0
        /\ r0' \in ResultSet(Domain)
        /\ out' = Run(e, r0')
        /\ stage' = 1
        /\ UNCHANGED e
Next == Pick
Spec == Init /\ [][Next]_vars

(* Properties (C06) *)
TestOK     == stage = 1 => (out.bits = DBits(e, r0) /\ out.outer = <<FALSE, FALSE>>)
AllOK      == stage = 1 => out.all = DAll(e, r0)
AnyOK      == stage = 1 => out.any = DAny(e, r0)
MatchPure  == stage = 1 => out.valsAfterMatch = r0.meas
ApplyOK    == stage = 1 => (out.applied = DKeep(e, r0) /\ out.ok = (DKeep(e, r0) # <<>>))
Repeatable == stage = 1 => /\ out.bits2 = out.bits /\ out.all2 = out.all /\ out.any2 = out.any
                           /\ out.bits1b = out.bits /\ out.all1b = out.all /\ out.any1b = out.any

-----------------------------------------------------------------------------
(* Finite domains for mode M *)

RECURSIVE ExprsUpTo(_, _, _)
\* all expressions over `atoms` of depth <= d whose AND/OR nodes have an arity in `ars`
ExprsUpTo(atoms, d, ars) ==
  IF d = 0 THEN atoms
  ELSE LET S == ExprsUpTo(atoms, d - 1, ars) IN
       atoms \cup {Not(x) : x \in S}
             \cup UNION {{And(t) : t \in [1..a -> S]} \cup {Or(t) : t \in [1..a -> S]} : a \in ars}

\* expressions of depth <= d+1 whose top node is a binary AND/OR with one operand of
\* depth <= d and the other of depth <= 1 (either order), or a NOT of depth <= d
OneDeep(atoms, d) ==
  LET S == ExprsUpTo(atoms, d, {2})
      L == ExprsUpTo(atoms, 1, {2})
  IN {Not(x) : x \in S}
     \cup {And(<<x, y>>) : x \in S, y \in L} \cup {And(<<y, x>>) : x \in S, y \in L}
     \cup {Or(<<x, y>>) : x \in S, y \in L}  \cup {Or(<<y, x>>) : x \in S, y \in L}

KA == [unit |-> "sec/op", orig |-> "ns/op"]      \* a rescaled measurement
KB == [unit |-> "B/op", orig |-> ""]             \* a plain one
WithIds(s) == [i \in 1..Len(s) |-> [unit |-> s[i].unit, orig |-> s[i].orig, id |-> i]]
MeasSeqs(kinds, ns) == UNION {[1..n -> kinds] : n \in ns}
MkRes(cfg, name, sub, ks) == [cfg |-> cfg, name |-> name, sub |-> sub, meas |-> WithIds(ks)]

B1 == Cfg("k1", "v1")
B2 == Name("N1")
U1 == Unit("ns/op")          \* matches KA through the written unit only
U2 == Unit("B/op")
U3 == UnitRe(<<"sec/op", "B/op">>)
Lits(atoms) == atoms \cup {Not(x) : x \in atoms}
Alt(n, first) == [i \in 1..n |-> IF (i % 2 = 1) = first THEN KA ELSE KB]

(* The sets below take a parameter only because TLC evaluates parameterless constant  *)
(* definitions eagerly at start-up.                                                   *)
\* every measurement sequence of length 1..2W+1 over the two kinds, B1 true and false
ResultsA(d) == {MkRes("k1" :> c, "N1", "s1" :> "x", ks) : c \in {"v1", "v2"}, ks \in MeasSeqs({KA, KB}, 1..(2 * W + 1))}
\* the same with B2 varying as well
ResultsB(d) == {MkRes("k1" :> c, n, "s1" :> "x", ks) : c \in {"v1", "v2"}, n \in {"N1", "N2"}, ks \in MeasSeqs({KA, KB}, 1..(2 * W + 1))}
\* word-boundary lengths only, alternating kinds
ResultsC(d) == {MkRes("k1" :> c, "N1", "s1" :> "x", Alt(n, f)) : c \in {"v1", "v2"}, n \in {1, W, W + 1, 2 * W, 2 * W + 1}, f \in BOOLEAN}
\* a full word, a word and one bit, two words and one bit
ResultsD(d) == {MkRes("k1" :> c, "N1", "s1" :> "x", Alt(n, f)) : c \in {"v1", "v2"}, n \in {W, W + 1, 2 * W + 1}, f \in BOOLEAN}

AtomsQ == {True, B1, U1, U2}
AtomsT == {True, B1, B2, U1, U2, U3}

(* The expression domains are written as enumeration predicates (x = ... under bounded  *)
(* quantifiers) rather than as sets: TLC then enumerates them directly and removes        *)
(* duplicates by fingerprint, instead of building and normalising sets of 10^5 records.    *)
IsNot(x, S)    == \E y \in S : x = Not(y)
IsOp(x, S, a)  == \/ \E t \in [1..a -> S] : x = And(t)
                  \/ \E t \in [1..a -> S] : x = Or(t)
\* x ranges over ExprsUpTo(atoms, d + 1, {2})
UpTo(x, atoms, d) == LET S == ExprsUpTo(atoms, d, {2}) IN x \in atoms \/ IsNot(x, S) \/ IsOp(x, S, 2)
\* x ranges over OneDeep(atoms, d)
IsOneDeep(x, atoms, d) ==
  LET S == ExprsUpTo(atoms, d, {2})
      L == ExprsUpTo(atoms, 1, {2})
  IN \/ IsNot(x, S)
     \/ \E y \in S, z \in L : x = And(<<y, z>>) \/ x = And(<<z, y>>) \/ x = Or(<<y, z>>) \/ x = Or(<<z, y>>)

ExprIn(x, d) ==
  \* quick: every expression of depth <= 2 with binary AND/OR over 4 atoms, plus unary OR
  \* (key:(a)) and ternary AND/OR over atoms and negated atoms
  \/ d \in {"quick", "neg"} /\ \/ UpTo(x, AtomsQ, 1)
                               \/ \E y \in AtomsQ : x = Or(<<y>>)
                               \/ IsOp(x, Lits(AtomsQ), 3)
  \* thorough 1: depth <= 2, binary, six atoms (two independent whole-result terms, a regexp)
  \/ d = "thorough1" /\ UpTo(x, AtomsT, 1)
  \* thorough 1b: ternary nodes over all expressions of depth <= 1 over three atoms
  \/ d = "thorough1b" /\ IsOp(x, ExprsUpTo({B1, U1, U2}, 1, {2}), 3)
  \* thorough 2: depth 3 over {B1, U1, U2}, one operand of the top node of depth <= 1
  \/ d = "thorough2" /\ IsOneDeep(x, {B1, U1, U2}, 2)
  \* thorough 3: every binary expression of depth <= 3 over {B1, U1}
  \/ d = "thorough3" /\ UpTo(x, {B1, U1}, 2)

ResultSet(d) ==
  CASE d = "neg" -> ResultsC(d)
    [] d = "quick" -> ResultsA(d)
    [] d = "thorough1" -> ResultsB(d)
    [] d \in {"thorough1b", "thorough2", "thorough3"} -> ResultsD(d)
=============================================================================
