------------------------------ MODULE FilterSem_gen ------------------------------
(* Generator wrapper (mode G) for FilterSem.  One replay case per expression: the   *)
(* expression tree and, for every result of the fixed list GenResults, what the      *)
(* DECLARATIVE side (Holds) says a filter with that meaning must answer on the        *)
(* result BLOWN UP to the real mask word size.                                       *)
(*                                                                                  *)
(* Blow-up (model word size W = 2, real word size RW = 32).  Model measurement i     *)
(* (0-based) sits in model word i \div W at bit i % W.  It is placed at real position  *)
(*     RealPos(i) = RW * (i \div W) + (IF i % W = 0 THEN 0 ELSE RW - 1)               *)
(* i.e. model positions 0,1,2,3,4 go to 0,31,32,63,64: first and last bit of the      *)
(* same word.  The real result has RealN(n) = RealPos(n-1) + 1 measurements; every     *)
(* position that is not the image of a model measurement carries the unit Filler,      *)
(* which no term mentions and no regexp language contains.  The harness may in          *)
(* addition overwrite fillers by COPIES of model measurements of the same result        *)
(* (never all of them); a copy has the expected bit of its original.                    *)
(* Because Holds(e, r, p) depends on p only through the measurement at p, the expected  *)
(* answers for the blown-up result are                                                 *)
(*     Test(RealPos(i)) = Holds(e, r, i)      Test(filler position) = HoldsM(e, r, F)   *)
(*     All = DAll /\ (n >= 2 => fill)         Any = DAny \/ (n >= 2 /\ fill)            *)
(*     Apply keeps the positions whose expected bit is TRUE, in order; ok = Any          *)
(* BlowUpOK checks these formulas against a direct evaluation of Holds on the           *)
(* constructed blown-up result for all expressions of depth <= 1.                       *)
EXTENDS FilterSem, Json, SequencesExt

RW == 32
RealPos(i) == RW * (i \div W) + (IF i % W = 0 THEN 0 ELSE RW - 1)
RealN(n) == RealPos(n - 1) + 1
FillerM == [unit |-> Filler, orig |-> "", id |-> 0]

KC == [unit |-> "B/s", orig |-> "MB/s"]          \* another rescaled pair
KP == [unit |-> "ns/op", orig |-> ""]            \* built through the API in an untidied unit
KS == [unit |-> "sec/op", orig |-> ""]           \* written in the base unit already

GenResults == <<
  MkRes("k1" :> "v1",                 "N1", "s1" :> "x", <<KA>>),
  MkRes("k1" :> "v2" @@ "k2" :> "v9", "N2", "s1" :> "y", <<KB>>),
  MkRes("k1" :> "v1",                 "N2", <<>>,        <<KA, KB>>),
  MkRes(<<>>,                         "N1", "s1" :> "x", <<KB, KA, KC>>),
  MkRes("k1" :> "v1" @@ "k2" :> "v9", "N1", "s1" :> "y", <<KA, KA, KB, KB>>),
  MkRes("k1" :> "v2",                 "N1", "s1" :> "x", <<KA, KB, KA, KB, KA>>),
  MkRes("k1" :> "v1",                 "N1", "s1" :> "x", <<KB, KB, KB, KB, KA>>),
  MkRes("k1" :> "v3",                 "N2", "s1" :> "x", <<KA, KB, KB, KA, KB>>),
  MkRes("k1" :> "v1" @@ "k2" :> "",   "N1", <<>>,        <<KP, KS, KC, KB, KP>>),
  MkRes("k1" :> "v2",                 "N2", "s1" :> "x", <<KS, KB, KC>>) >>

C1 == Cfg("k1", "v1")
C2 == Cfg("k2", "")                   \* true when k2 is absent (or empty)
C3 == Cfg("k1", "v2")
N1a == Name("N1")
N2a == Name("N2")
S1 == Sub("s1", "x")
S2 == Sub("s1", "y")
Ua == Unit("ns/op")
Ub == Unit("B/op")
Uc == Unit("sec/op")
Ud == Unit("zz/op")                   \* a unit no measurement has
Ra == UnitRe(<<"sec/op", "B/s">>)
Rb == UnitRe(<<"B/op", "B/s">>)       \* = the universe members with prefix "B/"
Rc == UnitRe(<<"ns/op">>)

I1 == In("cfg", "k1", <<"v1", "v3">>)
I2 == In("cfg", "k2", <<"v9">>)       \* a missing key is not in the list
I3 == In("name", "", <<"N2", "N1">>)
I4 == In("sub", "s1", <<"y">>)
I5 == In("cfg", "k2", <<"", "v8">>)   \* the empty value listed explicitly
InAtoms == {I1, I2, I3, I4, I5}

GAtomsQ == {True, C1, C2, N1a, S1, Ua, Ub, Ra}
GAtomsT == {True, C1, C2, N1a, S1, Ua, Ub, Ra, Rb, I1}
SmallAtoms == {C1, Ua, Ub, Rb}

\* same-key disjunctions (spelled key:(a OR b) by the harness) alone, negated and in context
SameKeyOrs == {Or(<<C1, C3>>), Or(<<N1a, N2a>>), Or(<<S1, S2>>), Or(<<Ua, Ub, Uc>>), Or(<<Ra, Ub>>),
               Or(<<C1>>), Or(<<Ua>>), Or(<<Rc>>), Or(<<Ud, Ua>>), Or(<<C3, C1, C2>>)}
Context(xs, ys) == xs \cup {Not(x) : x \in xs}
                   \cup {And(<<x, y>>) : x \in xs, y \in ys} \cup {And(<<y, x>>) : x \in xs, y \in ys}
                   \cup {Or(<<x, y>>) : x \in xs, y \in ys} \cup {Or(<<y, x>>) : x \in xs, y \in ys}
                   \cup {Not(And(<<x, y>>)) : x \in xs, y \in ys}

\* fixed-list projections: the code builds AND(in_1, ..., in_k, filter); a second Parse on the
\* same filter nests
ProjExprs(fs) == {And(<<i, f>>) : i \in InAtoms, f \in fs}
                 \cup {And(<<I1, I3, f>>) : f \in fs} \cup {And(<<I4, And(<<I1, f>>)>>) : f \in fs}

GenIn(x, d) ==
  \/ d = "quick" /\ \/ UpTo(x, GAtomsQ, 1)
                    \/ x \in Context(SameKeyOrs, {C1, Ua, Not(Ub)})
                    \/ IsOp(x, Lits(SmallAtoms), 3)
                    \/ x \in ProjExprs(ExprsUpTo({True, C3, Ua, Ub}, 1, {2}))
  \/ d = "thorough" /\ \/ UpTo(x, GAtomsT, 1)
                       \/ x \in Context(SameKeyOrs, ExprsUpTo(SmallAtoms, 1, {2}))
                       \/ IsOp(x, ExprsUpTo({C1, Ua, Ub}, 1, {2}), 3)
                       \/ IsOneDeep(x, {C1, Ua}, 2)
                       \/ x \in ProjExprs(ExprsUpTo({True, C3, N2a, Ua, Ub, Ra}, 1, {2}))

\* expected answers for the blown-up result, from the declarative side only
HasFill(r) == Len(r.meas) >= 2
Expect(x, r) ==
  LET fill == HoldsM(x, r, FillerM)
      n == Len(r.meas)
  IN [b  |-> DBits(x, r),
      f  |-> fill,
      a  |-> DAll(x, r) /\ (HasFill(r) => fill),
      y  |-> DAny(x, r) \/ (HasFill(r) /\ fill)]

\* the blown-up result itself, for BlowUpOK
Big(r) ==
  LET n == Len(r.meas)
      src(p) == {i \in 1..n : RealPos(i - 1) = p}
  IN [r EXCEPT !.meas = [p \in 1..RealN(n) |->
         IF src(p - 1) = {} THEN FillerM ELSE r.meas[CHOOSE i \in src(p - 1) : TRUE]]]
BigBits(x, r) ==
  LET ex == Expect(x, r)
      n == Len(r.meas)
      src(p) == {i \in 1..n : RealPos(i - 1) = p}
  IN [p \in 1..RealN(n) |-> IF src(p - 1) = {} THEN ex.f ELSE ex.b[CHOOSE i \in src(p - 1) : TRUE]]
Shallow(x) == x.op \notin {"not", "and", "or"} \/ \A j \in 1..Len(x.args) : x.args[j].op \notin {"not", "and", "or"}
BlowUpOK ==
  (stage = 1 /\ Shallow(e)) =>
    \A j \in 1..Len(GenResults) :
      LET r == GenResults[j]  ex == Expect(e, r)  big == Big(r) IN
        /\ DBits(e, big) = BigBits(e, r)
        /\ DAll(e, big) = ex.a
        /\ DAny(e, big) = ex.y

\* compact JSON forms
RECURSIVE J(_)
J(x) ==
  CASE x.op = "true" -> [op |-> "true"]
    [] x.op \in {"not", "and", "or"} -> [op |-> x.op, args |-> [j \in 1..Len(x.args) |-> J(x.args[j])]]
    [] x.op \in {"cfg", "sub"} -> [op |-> x.op, k |-> x.k, v |-> x.v]
    [] x.op \in {"name", "unit"} -> [op |-> x.op, v |-> x.v]
    [] x.op = "unitre" -> [op |-> x.op, vs |-> x.vs]
    [] x.op = "in" -> [op |-> x.op, kind |-> x.kind, k |-> x.k, vs |-> x.vs]

Layout(r) == [N |-> RealN(Len(r.meas)), pos |-> [i \in 1..Len(r.meas) |-> RealPos(i - 1)]]

GInit == /\ GenIn(e, Domain)
         /\ r0 = 0 /\ out = 0 /\ stage = 0
\* TLC computes (and checks) initial states in one thread; the silent step to stage 1 hands
\* the evaluation of the invariants below to the workers
GNext == stage = 0 /\ stage' = 1 /\ UNCHANGED <<e, r0, out>>
GSpec == GInit /\ [][GNext]_vars

\* the operational side agrees on the generator's domain as well (model results, not blown up)
GenModelOK ==
  stage = 1 =>
  \A j \in 1..Len(GenResults) :
    LET r == GenResults[j]  o == Run(e, r) IN
      /\ o.bits = DBits(e, r) /\ o.all = DAll(e, r) /\ o.any = DAny(e, r)
      /\ o.applied = DKeep(e, r) /\ o.ok = (DKeep(e, r) # <<>>)
      /\ o.valsAfterMatch = r.meas
      /\ o.bits2 = o.bits /\ o.bits1b = o.bits

Emit == stage = 1 => PrintT(ToJson([tag |-> "case", e |-> J(e),
                       o |-> [j \in 1..Len(GenResults) |-> Expect(e, GenResults[j])]]))

ASSUME PrintT(ToJson([tag |-> "results", filler |-> Filler, universe |-> SetToSeq(UnitUniverse),
                      rs |-> GenResults, layout |-> [j \in 1..Len(GenResults) |-> Layout(GenResults[j])]]))
=============================================================================
