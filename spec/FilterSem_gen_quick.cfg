SPECIFICATION GSpec
CONSTANTS
  W = 2
  Domain = "quick"
  SharedLeafMasks = FALSE
INVARIANTS BlowUpOK Emit
CHECK_DEADLOCK FALSE
