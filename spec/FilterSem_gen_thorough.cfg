SPECIFICATION GSpec
CONSTANTS
  W = 2
  Domain = "thorough"
  SharedLeafMasks = FALSE
INVARIANTS BlowUpOK GenModelOK Emit
CHECK_DEADLOCK FALSE
