SPECIFICATION Spec
CONSTANTS
  W = 2
  ExprSet <- ExprsQuick
  ResultSet <- ResultsA
  SharedLeafMasks = FALSE
INVARIANTS TestOK AllOK AnyOK MatchPure ApplyOK Repeatable
CHECK_DEADLOCK FALSE
