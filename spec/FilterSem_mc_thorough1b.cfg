SPECIFICATION Spec
CONSTANTS
  W = 2
  Domain = "thorough1b"
  SharedLeafMasks = FALSE
INVARIANTS TestOK AllOK AnyOK MatchPure ApplyOK Repeatable
CHECK_DEADLOCK FALSE
