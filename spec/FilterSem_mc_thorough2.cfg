SPECIFICATION Spec
CONSTANTS
  W = 2
  Domain = "thorough2"
  SharedLeafMasks = FALSE
INVARIANTS TestOK AllOK AnyOK MatchPure ApplyOK Repeatable
CHECK_DEADLOCK FALSE
