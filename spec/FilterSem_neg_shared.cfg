SPECIFICATION Spec
CONSTANTS
  W = 2
  Domain = "neg"
  SharedLeafMasks = TRUE
INVARIANTS TestOK AllOK AnyOK MatchPure ApplyOK Repeatable
CHECK_DEADLOCK FALSE
