SPECIFICATION Spec
CONSTANTS
  W = 2
  ExprSet <- ExprsQuick
  ResultSet <- ResultsC
  SharedLeafMasks = TRUE
INVARIANTS TestOK AllOK AnyOK MatchPure ApplyOK Repeatable
CHECK_DEADLOCK FALSE
