SPECIFICATION TSpec
CONSTANTS
  W = 2
  Domain = "none"
  SharedLeafMasks = FALSE
CONSTRAINT HW
POSTCONDITION Post
CHECK_DEADLOCK FALSE
