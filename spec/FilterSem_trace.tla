----------------------------- MODULE FilterSem_trace -----------------------------
(* Trace validation (mode T) for FilterSem: the specification as an oracle for       *)
(* events recorded from the real benchproc.Filter.  Every event is a one-step trace:  *)
(*                                                                                  *)
(*   {"ev": "eval", "t": k, "q": <the filter text that was run>,                      *)
(*    "expr": <expression tree, FilterSem's record shape>,                            *)
(*    "res":  {"cfg": {key: value}, "name": s, "sub": {key: value}, "full": s,        *)
(*             "meas": [{"unit": u, "orig": o, "id": position 1..n}]},                *)
(*    "bits": [Match.Test(i)], "all": Match.All(), "any": Match.Any(),                *)
(*    "outer": Match.Test(-1) or Match.Test(n),                                      *)
(*    "pure": the result was deep-equal to its copy after Match,                      *)
(*    "again": a second Match gave the same bits/all/any,                             *)
(*    "kept": [id of every measurement left by Apply, in order; 0 = not an original    *)
(*            measurement of the result], "ok": Apply's return value,                 *)
(*    "err": "" or the error / panic text of the evaluation}                          *)
(*                                                                                  *)
(* Regexp terms arrive as their language over the finite universe of values the        *)
(* recorder draws from (op "unitre" for .unit, op "in" for whole-result keys); that     *)
(* language is computed by the recorder with Go's regexp package (trusted).             *)
(*                                                                                  *)
(* An event is consumable iff it is exactly what the DECLARATIVE side (Holds) demands; *)
(* acceptance = every line consumed (high-water mark, as FmtStream_trace).             *)
EXTENDS FilterSem, Json

TraceLog == ndJsonDeserialize("trace.ndjson")

VARIABLE l
tvars == <<vars, l>>

Conforms(ev) ==
  LET x == ev.expr
      r == ev.res
      n == Len(r.meas)
  IN /\ ev.err = ""
     /\ n >= 1
     /\ \A i \in 1..n : r.meas[i].id = i
     /\ Len(ev.bits) = n
     /\ \A i \in 1..n : ev.bits[i] = Holds(x, r, i)
     /\ ev.all = DAll(x, r)
     /\ ev.any = DAny(x, r)
     /\ ev.outer = FALSE
     /\ ev.pure = TRUE
     /\ ev.again = TRUE
     /\ LET keep == DKeep(x, r) IN
          /\ Len(ev.kept) = Len(keep)
          /\ \A j \in 1..Len(keep) : ev.kept[j] = keep[j].id
          /\ ev.ok = (keep # <<>>)

\* an "apply" event was observed through the benchfilter binary: only what Apply keeps is visible
ConformsApply(ev) ==
  LET keep == DKeep(ev.expr, ev.res) IN
  /\ ev.err = ""
  /\ \A i \in 1..Len(ev.res.meas) : ev.res.meas[i].id = i
  /\ Len(ev.kept) = Len(keep)
  /\ \A j \in 1..Len(keep) : ev.kept[j] = keep[j].id
  /\ ev.ok = (keep # <<>>)

TInit == /\ l = 1 /\ e = 0 /\ r0 = 0 /\ out = 0 /\ stage = 0
TStep == /\ l <= Len(TraceLog)
         /\ IF TraceLog[l].ev = "apply" THEN ConformsApply(TraceLog[l]) ELSE Conforms(TraceLog[l])
         /\ l' = l + 1
         /\ UNCHANGED vars
TSpec == TInit /\ [][TStep]_tvars

HW == IF l > TLCGet(1) THEN TLCSet(1, l) ELSE TRUE
Post == PrintT("TRACE hwm=" \o ToString(TLCGet(1) - 1) \o " len=" \o ToString(Len(TraceLog)))
ASSUME TLCSet(1, 0)
=============================================================================
