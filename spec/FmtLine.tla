--------------------------------- MODULE FmtLine ---------------------------------
(* Character-level rules of the Go benchmark format for ONE line of input, as     *)
(* the property C02 states them ("what the format prescribes line by line"):      *)
(*                                                                                 *)
(*   Benchmark<name> <iters> <value> <unit> [<value> <unit>]...    result or error *)
(*   Benchmark<name>                      (nothing else)          ignored          *)
(*   Unit <unit> <key>=<value>...                                  unit metadata   *)
(*   <key>: <value>  |  <key>:                                     configuration   *)
(*   anything else                                                 ignored         *)
(*                                                                                 *)
(* A line is a sequence of characters; characters are one-character strings with   *)
(* ASCII placeholders for the classes the format distinguishes:                    *)
(*   "@" a multi-byte lower-case letter   "~" a non-ASCII Unicode space            *)
(*   "#" a byte that is not valid UTF-8        ">" the tab character                *)
(* Input lines are built from TOKENS ("Benchmark" and "Unit" are single tokens so  *)
(* that short token sequences reach every kind of line) and expanded to chars.     *)
(*                                                                                 *)
(* The module has a declarative side (Classify, written from the format rules via  *)
(* field splitting) and an operational transcription of the two scanners of        *)
(* benchfmt/reader.go (KVScan = parseKeyValueLine's loop, SplitFieldOp =           *)
(* splitField); TLC checks that they agree on every line (OpAgrees).               *)
EXTENDS Naturals, Sequences, FiniteSets, TLC

CONSTANTS A1, N1, A2, N2, A3, N3, A4, N4,  \* token alphabets and length bounds (generation)
          Lower, Upper, Digits,            \* character classes: sets of one-character strings
          AsciiBlank, WS,                  \* space/tab;  every white-space character (AsciiBlank is a subset)
          BenchChars, UnitChars            \* the literal prefixes as character sequences

\* the classes of the placeholder alphabet used for generation (cfg: Lower <- GenLower ...)
GenLower  == {"a", "a0", "@", "e", "n", "c", "h", "m", "r", "k", "i", "t"}
GenUpper  == {"Z", "B", "U"}
GenDigits == {"1"}
GenAsciiBlank == {" ", ">"}
GenWS     == {" ", ">", "~"}
GenBenchChars == <<"B", "e", "n", "c", "h", "m", "a0", "r", "k">>   \* "a0": the letter a of the literal prefix
GenUnitChars  == <<"U", "n", "i", "t">>

RECURSIVE Expand(_)
Expand(toks) ==
  IF toks = <<>> THEN <<>>
  ELSE (IF Head(toks) = "Benchmark" THEN BenchChars
        ELSE IF Head(toks) = "Unit" THEN UnitChars
        ELSE <<Head(toks)>>) \o Expand(Tail(toks))

DropN(s, n) == SubSeq(s, n + 1, Len(s))
HasPrefix(s, p) == Len(s) >= Len(p) /\ SubSeq(s, 1, Len(p)) = p

\* ---- field splitting (declarative): fields are the maximal runs of non-blank characters
RECURSIVE TakeNonWS(_), DropWS(_), Fields(_)
TakeNonWS(s) == IF s = <<>> \/ Head(s) \in WS THEN <<>> ELSE <<Head(s)>> \o TakeNonWS(Tail(s))
DropWS(s) == IF s # <<>> /\ Head(s) \in WS THEN DropWS(Tail(s)) ELSE s
Fields(s) == LET t == DropWS(s) IN
             IF t = <<>> THEN <<>>
             ELSE LET f == TakeNonWS(t) IN <<f>> \o Fields(DropN(t, Len(f)))

IsDigits(f) == f # <<>> /\ \A i \in 1..Len(f) : f[i] \in Digits

\* first index of character c in f, 0 if absent
IndexOf(f, c) == IF \E i \in 1..Len(f) : f[i] = c
                 THEN CHOOSE i \in 1..Len(f) : f[i] = c /\ \A j \in 1..(i-1) : f[j] # c
                 ELSE 0

Err == [kind |-> "error"]

-----------------------------------------------------------------------------
\* Benchmark lines

\* value/unit pairs from the fields after the iteration count
RECURSIVE Pairs(_)
Pairs(fs) ==          \* returns <<ok, seq of [v, u]>>
  IF fs = <<>> THEN <<TRUE, <<>>>>
  ELSE IF ~IsDigits(fs[1]) THEN <<FALSE, <<>>>>            \* measurement is not a number
  ELSE IF Len(fs) = 1 THEN <<FALSE, <<>>>>                 \* missing unit
  ELSE LET r == Pairs(DropN(fs, 2)) IN
       <<r[1], <<[v |-> fs[1], u |-> fs[2]]>> \o r[2]>>

BenchLine(L) ==
  LET rest  == DropN(L, Len(BenchChars))
      name  == TakeNonWS(rest)
      after == DropN(rest, Len(name))
      fs    == Fields(after)
  IN IF after = <<>> THEN [kind |-> "ignored"]             \* the name alone: go test -v chatter
     ELSE IF fs = <<>> THEN Err                            \* missing iteration count
     ELSE IF ~IsDigits(fs[1]) THEN Err                     \* iteration count is not an integer
     ELSE IF Len(fs) = 1 THEN Err                          \* missing measurements
     ELSE LET p == Pairs(DropN(fs, 1)) IN
          IF ~p[1] THEN Err
          ELSE [kind |-> "result", name |-> name, iters |-> fs[1], vals |-> p[2]]

-----------------------------------------------------------------------------
\* Unit lines

IsUnitLine(L) == HasPrefix(L, UnitChars) /\ (Len(L) = Len(UnitChars) \/ L[Len(UnitChars) + 1] \in WS)

\* records produced by the key=value fields, first value per key wins
RECURSIVE UnitItems(_, _)
UnitItems(fs, seen) ==
  IF fs = <<>> THEN <<>>
  ELSE LET f  == fs[1]
           eq == IndexOf(f, "=")
       IN IF eq <= 1 THEN <<Err>> \o UnitItems(Tail(fs), seen)               \* expected key=value
          ELSE LET k == SubSeq(f, 1, eq - 1)
                   v == SubSeq(f, eq + 1, Len(f))
               IN IF k \notin DOMAIN seen
                  THEN <<[kind |-> "unit", key |-> k, val |-> v]>>
                       \o UnitItems(Tail(fs), [x \in DOMAIN seen \cup {k} |-> IF x = k THEN v ELSE seen[x]])
                  ELSE IF seen[k] = v THEN UnitItems(Tail(fs), seen)         \* repetition ignored
                  ELSE <<Err>> \o UnitItems(Tail(fs), seen)                  \* conflict

\* have(u): the metadata already known for unit u (key -> value); one line on its own: none
UnitLineWith(L, have(_)) ==
  LET fs == Fields(DropN(L, Len(UnitChars))) IN
  IF fs = <<>> THEN [kind |-> "unitline", unit |-> <<>>, recs |-> <<Err>>]   \* missing unit
  ELSE [kind |-> "unitline", unit |-> fs[1], recs |-> UnitItems(Tail(fs), have(fs[1]))]
NoMeta(u) == <<>>
UnitLine(L) == UnitLineWith(L, NoMeta)

-----------------------------------------------------------------------------
\* key: value lines (declarative)

KVLine(L) ==
  LET p == IndexOf(L, ":") IN
  IF p <= 1 THEN [kind |-> "ignored"]
  ELSE IF L[1] \notin Lower THEN [kind |-> "ignored"]
  ELSE IF \E i \in 1..(p-1) : L[i] \in WS \cup Upper THEN [kind |-> "ignored"]
  ELSE LET key == SubSeq(L, 1, p - 1)
           raw == DropN(L, p)
       IN IF raw = <<>> THEN [kind |-> "del", key |-> key]
          ELSE IF raw[1] \notin AsciiBlank THEN [kind |-> "ignored"]
          ELSE LET RECURSIVE Strip(_)
                   Strip(s) == IF s # <<>> /\ Head(s) \in AsciiBlank THEN Strip(Tail(s)) ELSE s
                   val == Strip(raw)
               IN IF val = <<>> THEN [kind |-> "del", key |-> key]
                  ELSE [kind |-> "set", key |-> key, val |-> val]

ClassifyWith(L, have(_)) ==
  IF HasPrefix(L, BenchChars) THEN BenchLine(L)
  ELSE IF IsUnitLine(L) THEN UnitLineWith(L, have)
  ELSE KVLine(L)
Classify(L) == ClassifyWith(L, NoMeta)

-----------------------------------------------------------------------------
\* operational transcriptions of the scanners in benchfmt/reader.go

\* splitField: field = bytes before the first blank; rest = after that blank and
\* all blanks following it
SplitFieldOp(x) ==
  LET RECURSIVE Scan(_)
      Scan(i) == IF i > Len(x) THEN i ELSE IF x[i] \in WS THEN i ELSE Scan(i + 1)
      i0 == Scan(1)
      field == SubSeq(x, 1, i0 - 1)
      rest0 == IF i0 > Len(x) THEN <<>> ELSE DropN(x, i0)
      RECURSIVE StripWS(_)
      StripWS(s) == IF s # <<>> /\ Head(s) \in WS THEN StripWS(Tail(s)) ELSE s
  IN <<field, StripWS(rest0)>>

RECURSIVE FieldsOp(_)
FieldsOp(s) == IF s = <<>> THEN <<>>
               ELSE LET r == SplitFieldOp(s) IN
                    (IF r[1] = <<>> THEN <<>> ELSE <<r[1]>>) \o FieldsOp(r[2])

\* parseKeyValueLine: rune loop, then the value rules
KVScan(L) ==
  LET RECURSIVE Loop(_)
      Loop(i) ==       \* returns 0 = not a key/value line, else the index of the colon
        IF i > Len(L) THEN 0
        ELSE IF i = 1 /\ L[i] \notin Lower THEN 0
        ELSE IF L[i] \in WS \cup Upper THEN 0
        ELSE IF i > 1 /\ L[i] = ":" THEN i
        ELSE Loop(i + 1)
      p == Loop(1)
  IN IF p = 0 THEN [kind |-> "ignored"]
     ELSE LET key == SubSeq(L, 1, p - 1)
              val0 == DropN(L, p)
              RECURSIVE Strip(_)
              Strip(s) == IF s # <<>> /\ Head(s) \in AsciiBlank THEN Strip(Tail(s)) ELSE s
          IN IF val0 = <<>> THEN [kind |-> "del", key |-> key]
             ELSE IF Strip(val0) = val0 THEN [kind |-> "ignored"]
             ELSE IF Strip(val0) = <<>> THEN [kind |-> "del", key |-> key]
             ELSE [kind |-> "set", key |-> key, val |-> Strip(val0)]

-----------------------------------------------------------------------------
RECURSIVE LinesOver(_, _)
LinesOver(A, n) == IF n = 0 THEN {<<>>} ELSE LET S == LinesOver(A, n - 1) IN S \cup {Append(s, a) : s \in S, a \in A}

VARIABLE toks
Init == toks \in LinesOver(A1, N1) \cup LinesOver(A2, N2) \cup LinesOver(A3, N3) \cup LinesOver(A4, N4)
Next == UNCHANGED toks
Spec == Init /\ [][Next]_toks

Line == Expand(toks)

\* the two descriptions agree on every line
OpAgrees ==
  /\ KVScan(Line) = KVLine(Line)
  /\ FieldsOp(DropWS(Line)) = Fields(Line)

\* the classification is total and well-typed
Total == Classify(Line).kind \in {"result", "error", "ignored", "unitline", "set", "del"}

\* benchmark and unit lines are never also configuration lines
Disjoint == (HasPrefix(Line, BenchChars) \/ IsUnitLine(Line)) => KVLine(Line).kind = "ignored"
=============================================================================
