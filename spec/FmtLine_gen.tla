-------------------------------- MODULE FmtLine_gen --------------------------------
(* Generator (mode G) for FmtLine: every line of the configured token alphabets is  *)
(* printed with its declarative classification; the harness feeds the line to the   *)
(* real benchfmt.Reader (between a preceding configuration line and a following     *)
(* probe benchmark line) and compares records, positions and configuration.        *)
EXTENDS FmtLine, Json

Case ==
  LET c == Classify(Line) IN
  [tag |-> "line", toks |-> toks, kind |-> c.kind,
   name  |-> IF c.kind = "result" THEN c.name ELSE <<>>,
   iters |-> IF c.kind = "result" THEN c.iters ELSE <<>>,
   vals  |-> IF c.kind = "result" THEN c.vals ELSE <<>>,
   unit  |-> IF c.kind = "unitline" THEN c.unit ELSE <<>>,
   recs  |-> IF c.kind = "unitline"
             THEN [i \in 1..Len(c.recs) |->
                     IF c.recs[i].kind = "unit" THEN [kind |-> "unit", key |-> c.recs[i].key, val |-> c.recs[i].val]
                     ELSE [kind |-> "error", key |-> <<>>, val |-> <<>>]]
             ELSE <<>>,
   key   |-> IF c.kind \in {"set", "del"} THEN c.key ELSE <<>>,
   val   |-> IF c.kind = "set" THEN c.val ELSE <<>>]

EmitInv == PrintT(ToJson(Case))
=============================================================================
