SPECIFICATION Spec
CONSTANTS
  A1 = {"Benchmark", "Unit", "a", "Z", "1", ":", " ", ">", "=", "@", "~", "#"}
  N1 = 5
  A2 = {"Benchmark", "a", "1", " "}
  N2 = 8
  A3 = {"Unit", "a", "=", " ", "1"}
  N3 = 7
  A4 = {"a", ":", " ", "Z", ">", "~"}
  N4 = 7
  Lower <- GenLower
  Upper <- GenUpper
  Digits <- GenDigits
  AsciiBlank <- GenAsciiBlank
  WS <- GenWS
  BenchChars <- GenBenchChars
  UnitChars <- GenUnitChars
INVARIANTS EmitInv OpAgrees Total Disjoint
CHECK_DEADLOCK FALSE
