SPECIFICATION Spec
CONSTANTS
  A1 = {"Benchmark", "Unit", "a", "Z", "1", ":", " ", ">", "=", "@", "~", "#"}
  N1 = 4
  A2 = {"Benchmark", "a", "1", " "}
  N2 = 6
  A3 = {"Unit", "a", "=", " ", "1"}
  N3 = 6
  A4 = {"a", ":", " ", "Z", ">", "~"}
  N4 = 6
  Lower <- GenLower
  Upper <- GenUpper
  Digits <- GenDigits
  AsciiBlank <- GenAsciiBlank
  WS <- GenWS
  BenchChars <- GenBenchChars
  UnitChars <- GenUnitChars
INVARIANTS OpAgrees Total Disjoint
CHECK_DEADLOCK FALSE
