-------------------------------- MODULE FmtReader --------------------------------
(* The benchfmt Reader as a state machine over abstract lines, read through       *)
(* benchfmt.Files (one reused Reader, several inputs).                             *)
(*                                                                                 *)
(* Two descriptions of the configuration are carried side by side:                 *)
(*   cfg          declarative: the format's scoping rule - the latest value per    *)
(*                key, a key set to the empty value removed                        *)
(*   slots, pos   operational: Result.Config as the code keeps it - a slice with   *)
(*                an index map, new keys appended (reusing old slots), deletion by *)
(*                swapping with the last element and fixing up the index           *)
(* and SlotsMatchCfg says they always agree.  One action per kind of input line    *)
(* (one iteration of Reader.Scan's loop), plus NextFile (Reader.Reset through      *)
(* Files.Scan).                                                                    *)
EXTENDS Naturals, Sequences, FiniteSets, TLC

CONSTANTS Keys, Vals,        \* file configuration alphabet
          UnitNames, UnitVals, \* unit metadata: units (already tidied names) and values of key "better"
          MaxFiles, MaxLines,
          DupMode,
          NoIndexFixup       \* deviation switch: swap-delete without fixing the index of the moved key

FileKey == ".file"

\* menu of command-line inputs: records [path, label] (label "" = unlabelled).
\* DupMode = FALSE: three different files, one given as label=path.
\* DupMode = TRUE: the same file several times, plain and labelled (disambiguation
\* by #N); the generator then fixes the file's content (FmtReader_gen.tla).
Inputs == IF DupMode
          THEN {[path |-> "p", label |-> ""], [path |-> "p", label |-> "L"]}
          ELSE {[path |-> "p", label |-> ""], [path |-> "q", label |-> ""], [path |-> "r", label |-> "L"]}

\* --- labels: what benchfmt.Files installs as the internal .file configuration
Unlabelled(fs) == {i \in 1..Len(fs) : fs[i].label = ""}
SamePath(fs, i) == {j \in Unlabelled(fs) : fs[j].path = fs[i].path}
LabelOf(fs, i) ==
  \* n = 0: the label is `base` itself; n = m+1: the label is base#m
  IF fs[i].label # "" THEN [base |-> fs[i].label, n |-> 0]
  ELSE IF Cardinality(SamePath(fs, i)) = 1 THEN [base |-> fs[i].path, n |-> 0]
  ELSE [base |-> fs[i].path, n |-> 1 + Cardinality({j \in SamePath(fs, i) : j < i})]

VARIABLES
  files,    \* the inputs given on the command line (chosen initially)
  fileNo,   \* index of the input being read (1-based)
  line,     \* lines consumed from it
  cfg,      \* declarative file configuration: key -> value
  slots,    \* operational: sequence of [k, v] (internal .file label included)
  pos,      \* operational: key -> index into slots
  units,    \* unit metadata, <<unit, key>> -> value; survives NextFile
  out       \* records produced by the last line

vars == <<files, fileNo, line, cfg, slots, pos, units, out>>

\* DupMode: any sequence over the menu; otherwise every input a different file
FileSeqs == {fs \in UNION {[1..n -> Inputs] : n \in 1..MaxFiles} :
               DupMode \/ \A i, j \in 1..Len(fs) : i # j => fs[i].path # fs[j].path}

LabelEntry(fs, i) == [k |-> FileKey, v |-> LabelOf(fs, i)]

Init ==
  /\ files \in FileSeqs
  /\ fileNo = 1 /\ line = 0
  /\ cfg = <<>>
  /\ slots = <<LabelEntry(files, 1)>>
  /\ pos = [x \in {FileKey} |-> 1]
  /\ units = <<>>
  /\ out = <<>>

-----------------------------------------------------------------------------
\* operational configuration store (Result.ensureConfig / deleteConfig)

SlotSet(k, v) ==
  IF k \in DOMAIN pos
  THEN /\ slots' = [slots EXCEPT ![pos[k]] = [k |-> k, v |-> v]]
       /\ pos' = pos
  ELSE /\ slots' = Append(slots, [k |-> k, v |-> v])
       /\ pos' = [x \in DOMAIN pos \cup {k} |-> IF x = k THEN Len(slots) + 1 ELSE pos[x]]

SlotDel(k) ==
  IF k \notin DOMAIN pos THEN UNCHANGED <<slots, pos>>
  ELSE LET p == pos[k]
           last == slots[Len(slots)]
           swapped == [slots EXCEPT ![p] = last]
       IN /\ slots' = SubSeq(swapped, 1, Len(slots) - 1)
          /\ pos' = [x \in DOMAIN pos \ {k} |->
                       IF x = last.k /\ ~NoIndexFixup THEN p ELSE pos[x]]

\* the configuration a caller sees in the Result: the slots, looked up through
\* the index exactly as Result.GetConfig / ConfigIndex do
SlotView == [k \in DOMAIN pos |-> slots[pos[k]].v]
SlotFileView == [k \in DOMAIN pos \ {FileKey} |-> slots[pos[k]].v]

Where == [file |-> fileNo, line |-> line + 1]

CanRead == line < MaxLines

-----------------------------------------------------------------------------
\* one action per kind of line

LineSet(k, v) ==
  /\ CanRead /\ line' = line + 1
  /\ cfg' = [x \in DOMAIN cfg \cup {k} |-> IF x = k THEN v ELSE cfg[x]]
  /\ SlotSet(k, v)
  /\ out' = <<>>
  /\ UNCHANGED <<files, fileNo, units>>

LineDel(k) ==
  /\ CanRead /\ line' = line + 1
  /\ cfg' = [x \in DOMAIN cfg \ {k} |-> cfg[x]]
  /\ SlotDel(k)
  /\ out' = <<>>
  /\ UNCHANGED <<files, fileNo, units>>

\* a well-formed benchmark line: one result carrying the configuration in effect
LineBench ==
  /\ CanRead /\ line' = line + 1
  /\ out' = << [kind |-> "result", at |-> Where, cfg |-> SlotFileView,
                label |-> IF FileKey \in DOMAIN pos /\ pos[FileKey] <= Len(slots)
                          THEN slots[pos[FileKey]].v ELSE [base |-> "?", n |-> 0]] >>
  /\ UNCHANGED <<files, fileNo, cfg, slots, pos, units>>

\* a malformed benchmark line: a positioned, non-fatal error
LineBenchErr ==
  /\ CanRead /\ line' = line + 1
  /\ out' = << [kind |-> "error", at |-> Where] >>
  /\ UNCHANGED <<files, fileNo, cfg, slots, pos, units>>

\* foreign lines, blank lines, "BenchmarkName" alone: ignored
LineIgnored ==
  /\ CanRead /\ line' = line + 1
  /\ out' = <<>>
  /\ UNCHANGED <<files, fileNo, cfg, slots, pos, units>>

\* "Unit u better=v": first value wins; repetition ignored; conflict is an error
LineUnit(u, v) ==
  /\ CanRead /\ line' = line + 1
  /\ LET key == <<u, "better">> IN
       IF key \notin DOMAIN units
       THEN /\ units' = [x \in DOMAIN units \cup {key} |-> IF x = key THEN v ELSE units[x]]
            /\ out' = << [kind |-> "unit", at |-> Where, unit |-> u, val |-> v] >>
       ELSE /\ units' = units
            /\ out' = IF units[key] = v THEN <<>> ELSE << [kind |-> "error", at |-> Where] >>
  /\ UNCHANGED <<files, fileNo, cfg, slots, pos>>

\* a unit line with two metadata fields: several records from one line
LineUnit2(u, v1, v2) ==
  /\ CanRead /\ line' = line + 1
  /\ LET key == <<u, "better">>
         first == IF key \in DOMAIN units THEN units[key] ELSE v1
         r1 == IF key \notin DOMAIN units THEN << [kind |-> "unit", at |-> Where, unit |-> u, val |-> v1] >>
               ELSE IF units[key] = v1 THEN <<>> ELSE << [kind |-> "error", at |-> Where] >>
         r2 == IF first = v2 THEN <<>> ELSE << [kind |-> "error", at |-> Where] >>
     IN /\ units' = [x \in DOMAIN units \cup {key} |-> IF x = key THEN first ELSE units[x]]
        /\ out' = r1 \o r2
  /\ UNCHANGED <<files, fileNo, cfg, slots, pos>>

\* Files.Scan moves to the next input: Reader.Reset wipes configuration and the
\* line counter, installs the label, keeps unit metadata
NextFile ==
  /\ fileNo < Len(files)
  /\ fileNo' = fileNo + 1 /\ line' = 0
  /\ cfg' = <<>>
  /\ slots' = <<LabelEntry(files, fileNo + 1)>>
  /\ pos' = [x \in {FileKey} |-> 1]
  /\ out' = <<>>
  /\ UNCHANGED <<files, units>>

Next ==
  \/ \E k \in Keys, v \in Vals : LineSet(k, v)
  \/ \E k \in Keys : LineDel(k)
  \/ LineBench \/ LineBenchErr \/ LineIgnored
  \/ \E u \in UnitNames, v \in UnitVals : LineUnit(u, v)
  \/ \E u \in UnitNames, v1, v2 \in UnitVals : LineUnit2(u, v1, v2)
  \/ NextFile

Spec == Init /\ [][Next]_vars

-----------------------------------------------------------------------------
\* Properties (C02)

\* the operational store always presents the declarative configuration
SlotsMatchCfg == SlotFileView = cfg

IndexSound ==
  /\ DOMAIN pos = {slots[i].k : i \in 1..Len(slots)}
  /\ \A k \in DOMAIN pos : pos[k] \in 1..Len(slots) /\ slots[pos[k]].k = k
  /\ Cardinality(DOMAIN pos) = Len(slots)

\* every result carries exactly the configuration in effect and its own file's label
Snapshot ==
  \A i \in 1..Len(out) : out[i].kind = "result" =>
     /\ out[i].cfg = cfg
     /\ out[i].label = LabelOf(files, fileNo)
     /\ out[i].at.file = fileNo /\ out[i].at.line = line

\* labels of different inputs are different (duplicates disambiguated) unless the
\* user gave the same explicit label twice
LabelsDistinct ==
  \A i, j \in 1..Len(files) : (i # j /\ files[i].label = "" /\ files[j].label = "")
      => LabelOf(files, i) # LabelOf(files, j)

\* configuration does not leak from one input into the next: right after a switch
\* nothing is set
NoLeakAcrossFiles == (line = 0) => (cfg = <<>> /\ SlotFileView = <<>>)

\* (UnitsPersist is an action property: NextFile leaves units unchanged)
UnitsPersist == [][fileNo' # fileNo => units' = units]_vars

TypeOK == fileNo \in 1..Len(files) /\ line \in 0..MaxLines
=============================================================================
