---- MODULE FmtReader_TTrace_1790874071 ----
EXTENDS Sequences, TLCExt, FmtReader, Toolbox, Naturals, TLC

_expression ==
    LET FmtReader_TEExpression == INSTANCE FmtReader_TEExpression
    IN FmtReader_TEExpression!expression
----

_trace ==
    LET FmtReader_TETrace == INSTANCE FmtReader_TETrace
    IN FmtReader_TETrace!trace
----

_inv ==
    ~(
        TLCGet("level") = Len(_TETrace)
        /\
        slots = (<<[k |-> ".file", v |-> [base |-> "q", n |-> 0]], [k |-> "k2", v |-> "v2"]>>)
        /\
        pos = (("k2" :> 3 @@ ".file" :> 1))
        /\
        cfg = ([k2 |-> "v2"])
        /\
        fileNo = (1)
        /\
        line = (3)
        /\
        files = (<<[path |-> "q", label |-> ""]>>)
        /\
        units = (<<>>)
        /\
        out = (<<>>)
    )
----

_init ==
    /\ line = _TETrace[1].line
    /\ slots = _TETrace[1].slots
    /\ out = _TETrace[1].out
    /\ units = _TETrace[1].units
    /\ pos = _TETrace[1].pos
    /\ files = _TETrace[1].files
    /\ cfg = _TETrace[1].cfg
    /\ fileNo = _TETrace[1].fileNo
----

_next ==
    /\ \E i,j \in DOMAIN _TETrace:
        /\ \/ /\ j = i + 1
              /\ i = TLCGet("level")
        /\ line  = _TETrace[i].line
        /\ line' = _TETrace[j].line
        /\ slots  = _TETrace[i].slots
        /\ slots' = _TETrace[j].slots
        /\ out  = _TETrace[i].out
        /\ out' = _TETrace[j].out
        /\ units  = _TETrace[i].units
        /\ units' = _TETrace[j].units
        /\ pos  = _TETrace[i].pos
        /\ pos' = _TETrace[j].pos
        /\ files  = _TETrace[i].files
        /\ files' = _TETrace[j].files
        /\ cfg  = _TETrace[i].cfg
        /\ cfg' = _TETrace[j].cfg
        /\ fileNo  = _TETrace[i].fileNo
        /\ fileNo' = _TETrace[j].fileNo

\* Uncomment the ASSUME below to write the states of the error trace
\* to the given file in Json format. Note that you can pass any tuple
\* to `JsonSerialize`. For example, a sub-sequence of _TETrace.
    \* ASSUME
    \*     LET J == INSTANCE Json
    \*         IN J!JsonSerialize("FmtReader_TTrace_1790874071.json", _TETrace)

=============================================================================

 Note that you can extract this module `FmtReader_TEExpression`
  to a dedicated file to reuse `expression` (the module in the 
  dedicated `FmtReader_TEExpression.tla` file takes precedence 
  over the module `FmtReader_TEExpression` below).

---- MODULE FmtReader_TEExpression ----
EXTENDS Sequences, TLCExt, FmtReader, Toolbox, Naturals, TLC

expression == 
    [
        \* To hide variables of the `FmtReader` spec from the error trace,
        \* remove the variables below.  The trace will be written in the order
        \* of the fields of this record.
        line |-> line
        ,slots |-> slots
        ,out |-> out
        ,units |-> units
        ,pos |-> pos
        ,files |-> files
        ,cfg |-> cfg
        ,fileNo |-> fileNo
        
        \* Put additional constant-, state-, and action-level expressions here:
        \* ,_stateNumber |-> _TEPosition
        \* ,_lineUnchanged |-> line = line'
        
        \* Format the `line` variable as Json value.
        \* ,_lineJson |->
        \*     LET J == INSTANCE Json
        \*     IN J!ToJson(line)
        
        \* Lastly, you may build expressions over arbitrary sets of states by
        \* leveraging the _TETrace operator.  For example, this is how to
        \* count the number of times a spec variable changed up to the current
        \* state in the trace.
        \* ,_lineModCount |->
        \*     LET F[s \in DOMAIN _TETrace] ==
        \*         IF s = 1 THEN 0
        \*         ELSE IF _TETrace[s].line # _TETrace[s-1].line
        \*             THEN 1 + F[s-1] ELSE F[s-1]
        \*     IN F[_TEPosition - 1]
    ]

=============================================================================



Parsing and semantic processing can take forever if the trace below is long.
 In this case, it is advised to uncomment the module below to deserialize the
 trace from a generated binary file.

\*
\*---- MODULE FmtReader_TETrace ----
\*EXTENDS IOUtils, FmtReader, TLC
\*
\*trace == IODeserialize("FmtReader_TTrace_1790874071.bin", TRUE)
\*
\*=============================================================================
\*

---- MODULE FmtReader_TETrace ----
EXTENDS FmtReader, TLC

trace == 
    <<
    ([slots |-> <<[k |-> ".file", v |-> [base |-> "q", n |-> 0]]>>,pos |-> (".file" :> 1),cfg |-> <<>>,fileNo |-> 1,line |-> 0,files |-> <<[path |-> "q", label |-> ""]>>,units |-> <<>>,out |-> <<>>]),
    ([slots |-> <<[k |-> ".file", v |-> [base |-> "q", n |-> 0]], [k |-> "k1", v |-> "v1"]>>,pos |-> ("k1" :> 2 @@ ".file" :> 1),cfg |-> [k1 |-> "v1"],fileNo |-> 1,line |-> 1,files |-> <<[path |-> "q", label |-> ""]>>,units |-> <<>>,out |-> <<>>]),
    ([slots |-> <<[k |-> ".file", v |-> [base |-> "q", n |-> 0]], [k |-> "k1", v |-> "v1"], [k |-> "k2", v |-> "v2"]>>,pos |-> ("k1" :> 2 @@ "k2" :> 3 @@ ".file" :> 1),cfg |-> [k1 |-> "v1", k2 |-> "v2"],fileNo |-> 1,line |-> 2,files |-> <<[path |-> "q", label |-> ""]>>,units |-> <<>>,out |-> <<>>]),
    ([slots |-> <<[k |-> ".file", v |-> [base |-> "q", n |-> 0]], [k |-> "k2", v |-> "v2"]>>,pos |-> ("k2" :> 3 @@ ".file" :> 1),cfg |-> [k2 |-> "v2"],fileNo |-> 1,line |-> 3,files |-> <<[path |-> "q", label |-> ""]>>,units |-> <<>>,out |-> <<>>])
    >>
----


=============================================================================

---- CONFIG FmtReader_TTrace_1790874071 ----
CONSTANTS
    Keys = { "k1" , "k2" }
    Vals = { "v1" , "v2" }
    UnitNames = { "u1" }
    UnitVals = { "higher" , "lower" }
    MaxFiles = 3
    MaxLines = 4
    NoIndexFixup = TRUE

INVARIANT
    _inv

CHECK_DEADLOCK
    \* CHECK_DEADLOCK off because of PROPERTY or INVARIANT above.
    FALSE

INIT
    _init

NEXT
    _next

CONSTANT
    _TETrace <- _trace

ALIAS
    _expression
=============================================================================
\* Generated on Thu Oct 01 17:01:12 UTC 2026