------------------------------ MODULE FmtReader_gen ------------------------------
(* Generator wrapper (mode G) for FmtReader: one replay case per explored          *)
(* transition that produces a record, i.e. the command-line inputs, the            *)
(* BFS-shortest sequence of abstract lines / file switches reaching the source     *)
(* state, and that line - every step annotated with the records a reader must      *)
(* return for it (declarative configuration `cfg`, label, position).               *)
EXTENDS FmtReader, Json

CONSTANT MaxContent   \* DupMode: length bound of the (fixed) content of the duplicated file

VARIABLES hist, content
gvars == <<vars, hist, content>>

\* DupMode: the inputs all name the same file, so they all have the same lines.
\* The content is chosen initially and never changes; a line action is enabled
\* only if it is the next line of that content, and the reader moves on to the
\* next input exactly at the end of it.
StepKinds ==
  {<<"set", k, v, "">> : k \in Keys, v \in Vals} \cup {<<"del", k, "", "">> : k \in Keys}
  \cup {<<"bench", "", "", "">>, <<"bencherr", "", "", "">>, <<"ignored", "", "", "">>}
  \cup {<<"unit", u, v, "">> : u \in UnitNames, v \in UnitVals}
  \cup {<<"unit2", u, v, w>> : u \in UnitNames, v \in UnitVals, w \in UnitVals}
Contents == UNION {[1..n -> StepKinds] : n \in 0..MaxContent}
Allowed(s) == ~DupMode \/ (line + 1 <= Len(content) /\ content[line + 1] = s)

\* expected records use the DECLARATIVE configuration
Expect(o) == [i \in 1..Len(o) |->
   IF o[i].kind = "result"
   THEN [kind |-> "result", file |-> o[i].at.file, line |-> o[i].at.line, cfg |-> cfg',
         label |-> LabelOf(files, fileNo').base, labeln |-> LabelOf(files, fileNo').n, unit |-> "", val |-> ""]
   ELSE IF o[i].kind = "unit"
   THEN [kind |-> "unit", file |-> o[i].at.file, line |-> o[i].at.line, cfg |-> <<>>, label |-> "", labeln |-> 0,
         unit |-> o[i].unit, val |-> o[i].val]
   ELSE [kind |-> "error", file |-> o[i].at.file, line |-> o[i].at.line, cfg |-> <<>>, label |-> "", labeln |-> 0,
         unit |-> "", val |-> ""]]

Step(a, k, v, w) == [a |-> a, k |-> k, v |-> v, w |-> w, out |-> Expect(out')]

GInit == Init /\ hist = <<>> /\ content \in (IF DupMode THEN Contents ELSE {<<>>})

GNext ==
  /\ UNCHANGED content
  /\ \/ \E k \in Keys, v \in Vals : Allowed(<<"set", k, v, "">>) /\ LineSet(k, v) /\ hist' = Append(hist, Step("set", k, v, ""))
     \/ \E k \in Keys : Allowed(<<"del", k, "", "">>) /\ LineDel(k) /\ hist' = Append(hist, Step("del", k, "", ""))
     \/ Allowed(<<"bench", "", "", "">>) /\ LineBench /\ hist' = Append(hist, Step("bench", "", "", ""))
     \/ Allowed(<<"bencherr", "", "", "">>) /\ LineBenchErr /\ hist' = Append(hist, Step("bencherr", "", "", ""))
     \/ Allowed(<<"ignored", "", "", "">>) /\ LineIgnored /\ hist' = Append(hist, Step("ignored", "", "", ""))
     \/ \E u \in UnitNames, v \in UnitVals : Allowed(<<"unit", u, v, "">>) /\ LineUnit(u, v) /\ hist' = Append(hist, Step("unit", u, v, ""))
     \/ \E u \in UnitNames, v1, v2 \in UnitVals : Allowed(<<"unit2", u, v1, v2>>) /\ LineUnit2(u, v1, v2) /\ hist' = Append(hist, Step("unit2", u, v1, v2))
     \/ (DupMode => line = Len(content)) /\ NextFile /\ hist' = Append(hist, Step("nextfile", "", "", ""))

GSpec == GInit /\ [][GNext]_gvars
View == <<vars, content>>

FilesJson == [i \in 1..Len(files) |-> files[i]]

Emit ==
  IF out' # <<>>
  THEN PrintT(ToJson([tag |-> "case", files |-> FilesJson, path |-> hist']))
  ELSE TRUE
=============================================================================
