SPECIFICATION GSpec
CONSTANTS
  Keys = {"k1"}
  Vals = {"v1"}
  UnitNames = {"u1"}
  UnitVals = {"higher", "lower"}
  MaxFiles = 3
  MaxLines = 2
  MaxContent = 2
  DupMode = TRUE
  NoIndexFixup = FALSE
VIEW View
ACTION_CONSTRAINT Emit
INVARIANTS SlotsMatchCfg Snapshot
CHECK_DEADLOCK FALSE
