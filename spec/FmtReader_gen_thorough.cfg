SPECIFICATION GSpec
CONSTANTS
  Keys = {"k1", "k2"}
  Vals = {"v1", "v2"}
  UnitNames = {"u1"}
  UnitVals = {"higher", "lower"}
  MaxFiles = 3
  MaxLines = 5
  MaxContent = 0
  DupMode = FALSE
  NoIndexFixup = FALSE
VIEW View
ACTION_CONSTRAINT Emit
INVARIANTS SlotsMatchCfg Snapshot
CHECK_DEADLOCK FALSE
