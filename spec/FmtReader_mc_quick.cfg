SPECIFICATION Spec
CONSTANTS
  Keys = {"k1", "k2"}
  Vals = {"v1", "v2"}
  UnitNames = {"u1"}
  UnitVals = {"higher", "lower"}
  MaxFiles = 3
  MaxLines = 4
  DupMode = FALSE
  NoIndexFixup = FALSE
INVARIANTS TypeOK SlotsMatchCfg IndexSound Snapshot LabelsDistinct NoLeakAcrossFiles
PROPERTY UnitsPersist
CHECK_DEADLOCK FALSE
