SPECIFICATION Spec
CONSTANTS
  Keys = {"k1", "k2"}
  Vals = {"v1", "v2"}
  UnitNames = {"u1", "u2"}
  UnitVals = {"higher", "lower"}
  MaxFiles = 3
  MaxLines = 5
  DupMode = FALSE
  NoIndexFixup = FALSE
INVARIANTS TypeOK SlotsMatchCfg IndexSound Snapshot LabelsDistinct NoLeakAcrossFiles
PROPERTY UnitsPersist
CHECK_DEADLOCK FALSE
