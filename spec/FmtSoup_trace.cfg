SPECIFICATION TSpec
CONSTANTS
  A1 = {}
  N1 = 0
  A2 = {}
  N2 = 0
  A3 = {}
  N3 = 0
  A4 = {}
  N4 = 0
  Lower <- TrLower
  Upper <- TrUpper
  Digits <- TrDigits
  AsciiBlank <- TrAsciiBlank
  WS <- TrWS
  BenchChars <- TrBenchChars
  UnitChars <- TrUnitChars
CONSTRAINT HW
POSTCONDITION Post
CHECK_DEADLOCK FALSE
