------------------------------ MODULE FmtSoup_trace ------------------------------
(* Trace validation (mode T) for the reader on arbitrary text ("byte soups"): the    *)
(* harness feeds generated files - valid and invalid UTF-8, every kind of Unicode    *)
(* blank, thousands of distinct keys and units (more than the reader's intern table  *)
(* holds), long lines, interleaved configuration / unit / benchmark / foreign lines,  *)
(* several files through one reused reader - to the real benchfmt reader and logs,    *)
(* per input line, the line as a sequence of one-rune strings and the records the     *)
(* reader returned for it.  TLC classifies every line with FmtLine's declarative      *)
(* rules (the character classes of all runes in the trace are supplied by the         *)
(* harness from Go's unicode tables), carries the configuration, unit metadata and    *)
(* line counter across lines and files as the format prescribes, and demands that     *)
(* the logged records are exactly the prescribed ones.                                *)
EXTENDS FmtLine, Json, SequencesExt

TraceLog == ndJsonDeserialize("trace.ndjson")

\* first event: the character classes
Hdr == TraceLog[1]
TrLower == ToSet(Hdr.lower)
TrUpper == ToSet(Hdr.upper)
TrDigits == ToSet(Hdr.digits)
TrAsciiBlank == {" ", "\t"}
TrWS == ToSet(Hdr.ws)
TrBenchChars == <<"B", "e", "n", "c", "h", "m", "a", "r", "k">>
TrUnitChars == <<"U", "n", "i", "t">>

VARIABLES l, cfg, units, lineno, fileno
tvars == <<toks, l, cfg, units, lineno, fileno>>

Ev == TraceLog[l]

TInit == toks = <<>> /\ l = 2 /\ cfg = <<>> /\ units = <<>> /\ lineno = 0 /\ fileno = 0

\* metadata already known for unit u: key -> value
Have(u) == [k \in {x[2] : x \in {y \in DOMAIN units : y[1] = u}} |-> units[<<u, k>>]]

\* expected records of a line, in the shape the harness logs
Pairs2Set(c) == {<<k, c[k]>> : k \in DOMAIN c}
ExpRecs(c) ==
  CASE c.kind = "result" ->
         << [kind |-> "result", line |-> lineno + 1, file |-> fileno, name |-> c.name, iters |-> c.iters,
             nvals |-> Len(c.vals), cfg |-> Pairs2Set(cfg)] >>
    [] c.kind = "error" -> << [kind |-> "error", line |-> lineno + 1, file |-> fileno] >>
    [] c.kind = "unitline" ->
         [i \in 1..Len(c.recs) |->
            IF c.recs[i].kind = "unit"
            THEN [kind |-> "unit", line |-> lineno + 1, file |-> fileno, unit |-> c.unit, key |-> c.recs[i].key, val |-> c.recs[i].val]
            ELSE [kind |-> "error", line |-> lineno + 1, file |-> fileno]]
    [] OTHER -> <<>>

\* the same shape from the logged records
GotRec(r) ==
  CASE r.kind = "result" -> [kind |-> "result", line |-> r.line, file |-> r.file, name |-> r.name, iters |-> r.iters,
                             nvals |-> r.nvals, cfg |-> {<<p[1], p[2]>> : p \in ToSet(r.cfg)}]
    [] r.kind = "unit" -> [kind |-> "unit", line |-> r.line, file |-> r.file, unit |-> r.unit, key |-> r.key, val |-> r.val]
    [] OTHER -> [kind |-> "error", line |-> r.line, file |-> r.file]
GotRecs(rs) == [i \in 1..Len(rs) |-> GotRec(rs[i])]

NewUnits(c) ==
  IF c.kind # "unitline" THEN units
  ELSE LET add == {i \in 1..Len(c.recs) : c.recs[i].kind = "unit"}
           ks == {<<c.unit, c.recs[i].key>> : i \in add}
       IN [x \in DOMAIN units \cup ks |->
             IF x \in DOMAIN units THEN units[x]
             ELSE LET i == CHOOSE j \in add : c.recs[j].key = x[2] IN c.recs[i].val]

TLine ==
  /\ l <= Len(TraceLog) /\ Ev.ev = "line"
  /\ LET c == ClassifyWith(Ev.chars, Have) IN
       /\ GotRecs(Ev.recs) = ExpRecs(c)
       /\ cfg' = IF c.kind = "set" THEN [k \in DOMAIN cfg \cup {c.key} |-> IF k = c.key THEN c.val ELSE cfg[k]]
                 ELSE IF c.kind = "del" THEN [k \in DOMAIN cfg \ {c.key} |-> cfg[k]]
                 ELSE cfg
       /\ units' = NewUnits(c)
  /\ lineno' = lineno + 1
  /\ l' = l + 1
  /\ UNCHANGED <<toks, fileno>>

\* next input file: configuration and line counter start afresh, unit metadata stays
TFile ==
  /\ l <= Len(TraceLog) /\ Ev.ev = "file"
  /\ cfg' = <<>> /\ lineno' = 0 /\ fileno' = Ev.file
  /\ l' = l + 1
  /\ UNCHANGED <<toks, units>>

\* next independent trace (a fresh reader)
TReset ==
  /\ l <= Len(TraceLog) /\ Ev.ev = "reset"
  /\ cfg' = <<>> /\ units' = <<>> /\ lineno' = 0 /\ fileno' = 0
  /\ l' = l + 1
  /\ UNCHANGED toks

TNext == TLine \/ TFile \/ TReset
TSpec == TInit /\ [][TNext]_tvars

HW == IF l > TLCGet(1) THEN TLCSet(1, l) ELSE TRUE
Post == PrintT("TRACE hwm=" \o ToString(TLCGet(1) - 1) \o " len=" \o ToString(Len(TraceLog)))
ASSUME TLCSet(1, 0)
=============================================================================
