-------------------------------- MODULE FmtStream --------------------------------
(* Closed loop of the Go benchmark format: a caller edits the configuration of a  *)
(* result, the format Writer (benchfmt/writer.go) emits the lines it believes a    *)
(* reader of its output still needs, and a Reader (benchfmt/reader.go) of that     *)
(* output consumes them line by line.                                              *)
(*                                                                                 *)
(* One action per step of the code:                                                *)
(*   Edit        caller changes one key of its Result (add / change / delete /     *)
(*               re-add / switch between file and internal)                        *)
(*   WriteResult Writer.Write of a Result: quick equality test, walk of the known     *)
(*               keys in emission order (deletions, changes), new keys, blank      *)
(*               line, benchmark line.  Internal keys are remembered, not emitted. *)
(*   WriteUnit   Writer.Write of a UnitMetadata                                     *)
(*   ReadLine    one iteration of Reader.Scan's line loop                          *)
(*                                                                                 *)
(* FlipStale = TRUE re-enables the deviation found in the code as shipped: a key   *)
(* that was emitted as file configuration and then becomes internal is silently    *)
(* dropped from the writer's output, so the reader keeps the stale value           *)
(* (FmtStream_asbuilt.cfg reproduces the 4-step counterexample).                   *)
EXTENDS Naturals, Sequences, FiniteSets, TLC

CONSTANTS Keys, Vals, Meas, UnitNames, UnitVals, FlipStale

NoRec == [cfg |-> <<>>, m |-> "none"]

Entry == [val : Vals, file : BOOLEAN]
FilePart(c) == [k \in {x \in DOMAIN c : c[x].file} |-> c[k].val]
InternalKeys(c) == {x \in DOMAIN c : ~c[x].file}

\* unit tidying as far as this module needs it: the metadata map is keyed by the
\* tidied unit (Units.tla has the real rule); here "ns" stands for any unit that
\* tidying rewrites and tidies to "sec".
TidyU(u) == IF u = "ns" THEN "sec" ELSE u

\* lines of the wire, uniform shape
SetL(k, v)     == [t |-> "set",   k |-> k,  v |-> v,  u |-> "", tu |-> ""]
DelL(k)        == [t |-> "del",   k |-> k,  v |-> "", u |-> "", tu |-> ""]
BlankL         == [t |-> "blank", k |-> "", v |-> "", u |-> "", tu |-> ""]
BenchL(m)      == [t |-> "bench", k |-> "", v |-> m,  u |-> "", tu |-> ""]
UnitL(u, k, v) == [t |-> "unit",  k |-> k,  v |-> v,  u |-> u,  tu |-> TidyU(u)]

Perms(S) == {p \in [1..Cardinality(S) -> S] : \A i, j \in 1..Cardinality(S) : i # j => p[i] # p[j]}

VARIABLES
  res,      \* caller's Result.Config: function from a subset of Keys to Entry
  wcfg,     \* Writer.fileConfig: the writer's belief of what it has emitted/seen
  worder,   \* Writer.order
  wfirst,   \* Writer.first
  wunits,   \* ghost: unit metadata handed to the writer so far  <<unit, key>> -> value
  wire,     \* lines emitted and not yet consumed by the reader
  rcfg,     \* Reader: file configuration in effect, key -> value
  runits,   \* Reader.units, keyed by <<tidied unit, key>>
  wrote,    \* ghost: what the last WriteResult was given (file part, measurement token)
  winternal,\* ghost: keys that were internal in the result last written
  got       \* last result record the reader produced

vars == <<res, wcfg, worder, wfirst, wunits, wire, rcfg, runits, wrote, winternal, got>>

Init ==
  /\ res = <<>> /\ wcfg = <<>> /\ worder = <<>> /\ wfirst = TRUE /\ wunits = <<>>
  /\ wire = <<>> /\ rcfg = <<>> /\ runits = <<>>
  /\ wrote = NoRec /\ winternal = {} /\ got = NoRec

-----------------------------------------------------------------------------
\* Caller

SetKey(k, e) ==
  /\ wire = <<>>
  /\ (IF k \in DOMAIN res THEN res[k] # e ELSE TRUE)
  /\ res' = [x \in DOMAIN res \cup {k} |-> IF x = k THEN e ELSE res[x]]
  /\ UNCHANGED <<wcfg, worder, wfirst, wunits, wire, rcfg, runits, wrote, winternal, got>>

DelKey(k) ==
  /\ wire = <<>>
  /\ k \in DOMAIN res
  /\ res' = [x \in DOMAIN res \ {k} |-> res[x]]
  /\ UNCHANGED <<wcfg, worder, wfirst, wunits, wire, rcfg, runits, wrote, winternal, got>>

-----------------------------------------------------------------------------
\* Writer

RECURSIVE KnownLines(_)
KnownLines(ord) ==
  IF ord = <<>> THEN <<>> ELSE
  LET k == Head(ord) IN
    (IF k \notin DOMAIN res THEN <<DelL(k)>>                      \* key was deleted
     ELSE IF wcfg[k] = res[k] THEN <<>>                           \* unchanged
     ELSE IF res[k].file THEN <<SetL(k, res[k].val)>>             \* changed, file key
     ELSE IF wcfg[k].file /\ ~FlipStale THEN <<DelL(k)>>          \* file key became internal: retract it
     ELSE <<>>)                                                   \* internal: remembered, not emitted
    \o KnownLines(Tail(ord))

NewLines(perm) ==
  LET f[i \in 0..Len(perm)] ==
        IF i = 0 THEN <<>>
        ELSE f[i-1] \o (IF res[perm[i]].file THEN <<SetL(perm[i], res[perm[i]].val)>> ELSE <<>>)
  IN f[Len(perm)]

WriteResult(m, perm) ==
  /\ wire = <<>>
  /\ LET need == wcfg # res
         cfgLines == IF ~need THEN <<>>
                     ELSE (IF ~wfirst THEN <<BlankL>> ELSE <<>>)
                          \o KnownLines(worder) \o NewLines(perm) \o <<BlankL>>
     IN /\ wire' = cfgLines \o <<BenchL(m)>>
        /\ worder' = IF need THEN SelectSeq(worder, LAMBDA k : k \in DOMAIN res) \o perm ELSE worder
  /\ wcfg' = res
  /\ wfirst' = FALSE
  /\ wrote' = [cfg |-> FilePart(res), m |-> m]
  /\ winternal' = InternalKeys(res)
  /\ UNCHANGED <<res, wunits, rcfg, runits, got>>

\* Domain: a stream of unit metadata as a reader would produce it - no second
\* record for a (unit, key) that already has one.
WriteUnit(u, k, v) ==
  /\ wire = <<>>
  /\ <<TidyU(u), k>> \notin DOMAIN wunits
  /\ wunits' = [x \in DOMAIN wunits \cup {<<TidyU(u), k>>} |-> IF x = <<TidyU(u), k>> THEN [orig |-> u, val |-> v] ELSE wunits[x]]
  /\ wire' = <<UnitL(u, k, v)>>
  /\ UNCHANGED <<res, wcfg, worder, wfirst, rcfg, runits, wrote, winternal, got>>

-----------------------------------------------------------------------------
\* Reader (the format's scoping rules; FmtReader.tla refines this with slots,
\* files, errors and clones)

ReadCfg(c, l) ==
  IF l.t = "set" THEN [x \in DOMAIN c \cup {l.k} |-> IF x = l.k THEN l.v ELSE c[x]]
  ELSE IF l.t = "del" THEN [x \in DOMAIN c \ {l.k} |-> c[x]]
  ELSE c

ReadUnits(um, l) ==
  IF l.t = "unit" /\ <<l.tu, l.k>> \notin DOMAIN um
  THEN [x \in DOMAIN um \cup {<<l.tu, l.k>>} |-> IF x = <<l.tu, l.k>> THEN [orig |-> l.u, val |-> l.v] ELSE um[x]]
  ELSE um        \* duplicate: ignored; conflict: error record, first value kept

ReadLine ==
  /\ wire # <<>>
  /\ LET l == Head(wire) IN
       /\ wire' = Tail(wire)
       /\ rcfg' = ReadCfg(rcfg, l)
       /\ runits' = ReadUnits(runits, l)
       /\ got' = IF l.t = "bench" THEN [cfg |-> rcfg, m |-> l.v] ELSE got
  /\ UNCHANGED <<res, wcfg, worder, wfirst, wunits, wrote, winternal>>

-----------------------------------------------------------------------------
Next ==
  \/ \E k \in Keys, e \in Entry : SetKey(k, e)
  \/ \E k \in Keys : DelKey(k)
  \/ \E m \in Meas : \E perm \in Perms(DOMAIN res \ DOMAIN wcfg) : WriteResult(m, perm)
  \/ \E u \in UnitNames, k \in {"better"}, v \in UnitVals : WriteUnit(u, k, v)
  \/ ReadLine

Spec == Init /\ [][Next]_vars

-----------------------------------------------------------------------------
\* Properties (C01)

Drained == wire = <<>>

\* the inductive core: whenever the reader has caught up, it holds exactly the
\* file part of what the writer believes
BeliefSound == Drained => rcfg = FilePart(wcfg)

\* what is read back is what was written: file configuration and measurements
RoundTrip == Drained => (got.cfg = wrote.cfg /\ got.m = wrote.m)

\* tool-internal configuration never reappears as file configuration
NoInternalLeak == Drained => (DOMAIN got.cfg \cap winternal = {})

UnitsRoundTrip == Drained => runits = wunits

TypeOK ==
  /\ DOMAIN res \subseteq Keys /\ DOMAIN wcfg \subseteq Keys
  /\ \A k \in DOMAIN res : res[k] \in Entry
  /\ \A i \in 1..Len(worder) : worder[i] \in DOMAIN wcfg
  /\ Len(worder) = Cardinality(DOMAIN wcfg)

=============================================================================
