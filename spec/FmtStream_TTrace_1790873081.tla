---- MODULE FmtStream_TTrace_1790873081 ----
EXTENDS Sequences, TLCExt, Toolbox, Naturals, TLC, FmtStream

_expression ==
    LET FmtStream_TEExpression == INSTANCE FmtStream_TEExpression
    IN FmtStream_TEExpression!expression
----

_trace ==
    LET FmtStream_TETrace == INSTANCE FmtStream_TETrace
    IN FmtStream_TETrace!trace
----

_inv ==
    ~(
        TLCGet("level") = Len(_TETrace)
        /\
        res = ([k1 |-> [val |-> "v1", file |-> FALSE]])
        /\
        runits = (<<>>)
        /\
        wire = (<<>>)
        /\
        worder = (<<"k1">>)
        /\
        wfirst = (FALSE)
        /\
        wrote = ([cfg |-> <<>>, m |-> "m1"])
        /\
        rcfg = ([k1 |-> "v1"])
        /\
        wcfg = ([k1 |-> [val |-> "v1", file |-> FALSE]])
        /\
        winternal = ({"k1"})
        /\
        wunits = (<<>>)
        /\
        got = ([cfg |-> [k1 |-> "v1"], m |-> "m1"])
    )
----

_init ==
    /\ wrote = _TETrace[1].wrote
    /\ wcfg = _TETrace[1].wcfg
    /\ wire = _TETrace[1].wire
    /\ winternal = _TETrace[1].winternal
    /\ rcfg = _TETrace[1].rcfg
    /\ worder = _TETrace[1].worder
    /\ res = _TETrace[1].res
    /\ wunits = _TETrace[1].wunits
    /\ got = _TETrace[1].got
    /\ runits = _TETrace[1].runits
    /\ wfirst = _TETrace[1].wfirst
----

_next ==
    /\ \E i,j \in DOMAIN _TETrace:
        /\ \/ /\ j = i + 1
              /\ i = TLCGet("level")
        /\ wrote  = _TETrace[i].wrote
        /\ wrote' = _TETrace[j].wrote
        /\ wcfg  = _TETrace[i].wcfg
        /\ wcfg' = _TETrace[j].wcfg
        /\ wire  = _TETrace[i].wire
        /\ wire' = _TETrace[j].wire
        /\ winternal  = _TETrace[i].winternal
        /\ winternal' = _TETrace[j].winternal
        /\ rcfg  = _TETrace[i].rcfg
        /\ rcfg' = _TETrace[j].rcfg
        /\ worder  = _TETrace[i].worder
        /\ worder' = _TETrace[j].worder
        /\ res  = _TETrace[i].res
        /\ res' = _TETrace[j].res
        /\ wunits  = _TETrace[i].wunits
        /\ wunits' = _TETrace[j].wunits
        /\ got  = _TETrace[i].got
        /\ got' = _TETrace[j].got
        /\ runits  = _TETrace[i].runits
        /\ runits' = _TETrace[j].runits
        /\ wfirst  = _TETrace[i].wfirst
        /\ wfirst' = _TETrace[j].wfirst

\* Uncomment the ASSUME below to write the states of the error trace
\* to the given file in Json format. Note that you can pass any tuple
\* to `JsonSerialize`. For example, a sub-sequence of _TETrace.
    \* ASSUME
    \*     LET J == INSTANCE Json
    \*         IN J!JsonSerialize("FmtStream_TTrace_1790873081.json", _TETrace)

=============================================================================

 Note that you can extract this module `FmtStream_TEExpression`
  to a dedicated file to reuse `expression` (the module in the 
  dedicated `FmtStream_TEExpression.tla` file takes precedence 
  over the module `FmtStream_TEExpression` below).

---- MODULE FmtStream_TEExpression ----
EXTENDS Sequences, TLCExt, Toolbox, Naturals, TLC, FmtStream

expression == 
    [
        \* To hide variables of the `FmtStream` spec from the error trace,
        \* remove the variables below.  The trace will be written in the order
        \* of the fields of this record.
        wrote |-> wrote
        ,wcfg |-> wcfg
        ,wire |-> wire
        ,winternal |-> winternal
        ,rcfg |-> rcfg
        ,worder |-> worder
        ,res |-> res
        ,wunits |-> wunits
        ,got |-> got
        ,runits |-> runits
        ,wfirst |-> wfirst
        
        \* Put additional constant-, state-, and action-level expressions here:
        \* ,_stateNumber |-> _TEPosition
        \* ,_wroteUnchanged |-> wrote = wrote'
        
        \* Format the `wrote` variable as Json value.
        \* ,_wroteJson |->
        \*     LET J == INSTANCE Json
        \*     IN J!ToJson(wrote)
        
        \* Lastly, you may build expressions over arbitrary sets of states by
        \* leveraging the _TETrace operator.  For example, this is how to
        \* count the number of times a spec variable changed up to the current
        \* state in the trace.
        \* ,_wroteModCount |->
        \*     LET F[s \in DOMAIN _TETrace] ==
        \*         IF s = 1 THEN 0
        \*         ELSE IF _TETrace[s].wrote # _TETrace[s-1].wrote
        \*             THEN 1 + F[s-1] ELSE F[s-1]
        \*     IN F[_TEPosition - 1]
    ]

=============================================================================



Parsing and semantic processing can take forever if the trace below is long.
 In this case, it is advised to uncomment the module below to deserialize the
 trace from a generated binary file.

\*
\*---- MODULE FmtStream_TETrace ----
\*EXTENDS IOUtils, TLC, FmtStream
\*
\*trace == IODeserialize("FmtStream_TTrace_1790873081.bin", TRUE)
\*
\*=============================================================================
\*

---- MODULE FmtStream_TETrace ----
EXTENDS TLC, FmtStream

trace == 
    <<
    ([res |-> <<>>,runits |-> <<>>,wire |-> <<>>,worder |-> <<>>,wfirst |-> TRUE,wrote |-> [cfg |-> <<>>, m |-> "none"],rcfg |-> <<>>,wcfg |-> <<>>,winternal |-> {},wunits |-> <<>>,got |-> [cfg |-> <<>>, m |-> "none"]]),
    ([res |-> [k1 |-> [val |-> "v1", file |-> TRUE]],runits |-> <<>>,wire |-> <<>>,worder |-> <<>>,wfirst |-> TRUE,wrote |-> [cfg |-> <<>>, m |-> "none"],rcfg |-> <<>>,wcfg |-> <<>>,winternal |-> {},wunits |-> <<>>,got |-> [cfg |-> <<>>, m |-> "none"]]),
    ([res |-> [k1 |-> [val |-> "v1", file |-> TRUE]],runits |-> <<>>,wire |-> <<[k |-> "k1", v |-> "v1", t |-> "set", u |-> ""], [k |-> "", v |-> "", t |-> "blank", u |-> ""], [k |-> "", v |-> "m1", t |-> "bench", u |-> ""]>>,worder |-> <<"k1">>,wfirst |-> FALSE,wrote |-> [cfg |-> [k1 |-> "v1"], m |-> "m1"],rcfg |-> <<>>,wcfg |-> [k1 |-> [val |-> "v1", file |-> TRUE]],winternal |-> {},wunits |-> <<>>,got |-> [cfg |-> <<>>, m |-> "none"]]),
    ([res |-> [k1 |-> [val |-> "v1", file |-> TRUE]],runits |-> <<>>,wire |-> <<[k |-> "", v |-> "", t |-> "blank", u |-> ""], [k |-> "", v |-> "m1", t |-> "bench", u |-> ""]>>,worder |-> <<"k1">>,wfirst |-> FALSE,wrote |-> [cfg |-> [k1 |-> "v1"], m |-> "m1"],rcfg |-> [k1 |-> "v1"],wcfg |-> [k1 |-> [val |-> "v1", file |-> TRUE]],winternal |-> {},wunits |-> <<>>,got |-> [cfg |-> <<>>, m |-> "none"]]),
    ([res |-> [k1 |-> [val |-> "v1", file |-> TRUE]],runits |-> <<>>,wire |-> <<[k |-> "", v |-> "m1", t |-> "bench", u |-> ""]>>,worder |-> <<"k1">>,wfirst |-> FALSE,wrote |-> [cfg |-> [k1 |-> "v1"], m |-> "m1"],rcfg |-> [k1 |-> "v1"],wcfg |-> [k1 |-> [val |-> "v1", file |-> TRUE]],winternal |-> {},wunits |-> <<>>,got |-> [cfg |-> <<>>, m |-> "none"]]),
    ([res |-> [k1 |-> [val |-> "v1", file |-> TRUE]],runits |-> <<>>,wire |-> <<>>,worder |-> <<"k1">>,wfirst |-> FALSE,wrote |-> [cfg |-> [k1 |-> "v1"], m |-> "m1"],rcfg |-> [k1 |-> "v1"],wcfg |-> [k1 |-> [val |-> "v1", file |-> TRUE]],winternal |-> {},wunits |-> <<>>,got |-> [cfg |-> [k1 |-> "v1"], m |-> "m1"]]),
    ([res |-> [k1 |-> [val |-> "v1", file |-> FALSE]],runits |-> <<>>,wire |-> <<>>,worder |-> <<"k1">>,wfirst |-> FALSE,wrote |-> [cfg |-> [k1 |-> "v1"], m |-> "m1"],rcfg |-> [k1 |-> "v1"],wcfg |-> [k1 |-> [val |-> "v1", file |-> TRUE]],winternal |-> {},wunits |-> <<>>,got |-> [cfg |-> [k1 |-> "v1"], m |-> "m1"]]),
    ([res |-> [k1 |-> [val |-> "v1", file |-> FALSE]],runits |-> <<>>,wire |-> <<[k |-> "", v |-> "", t |-> "blank", u |-> ""], [k |-> "", v |-> "", t |-> "blank", u |-> ""], [k |-> "", v |-> "m1", t |-> "bench", u |-> ""]>>,worder |-> <<"k1">>,wfirst |-> FALSE,wrote |-> [cfg |-> <<>>, m |-> "m1"],rcfg |-> [k1 |-> "v1"],wcfg |-> [k1 |-> [val |-> "v1", file |-> FALSE]],winternal |-> {"k1"},wunits |-> <<>>,got |-> [cfg |-> [k1 |-> "v1"], m |-> "m1"]]),
    ([res |-> [k1 |-> [val |-> "v1", file |-> FALSE]],runits |-> <<>>,wire |-> <<[k |-> "", v |-> "", t |-> "blank", u |-> ""], [k |-> "", v |-> "m1", t |-> "bench", u |-> ""]>>,worder |-> <<"k1">>,wfirst |-> FALSE,wrote |-> [cfg |-> <<>>, m |-> "m1"],rcfg |-> [k1 |-> "v1"],wcfg |-> [k1 |-> [val |-> "v1", file |-> FALSE]],winternal |-> {"k1"},wunits |-> <<>>,got |-> [cfg |-> [k1 |-> "v1"], m |-> "m1"]]),
    ([res |-> [k1 |-> [val |-> "v1", file |-> FALSE]],runits |-> <<>>,wire |-> <<[k |-> "", v |-> "m1", t |-> "bench", u |-> ""]>>,worder |-> <<"k1">>,wfirst |-> FALSE,wrote |-> [cfg |-> <<>>, m |-> "m1"],rcfg |-> [k1 |-> "v1"],wcfg |-> [k1 |-> [val |-> "v1", file |-> FALSE]],winternal |-> {"k1"},wunits |-> <<>>,got |-> [cfg |-> [k1 |-> "v1"], m |-> "m1"]]),
    ([res |-> [k1 |-> [val |-> "v1", file |-> FALSE]],runits |-> <<>>,wire |-> <<>>,worder |-> <<"k1">>,wfirst |-> FALSE,wrote |-> [cfg |-> <<>>, m |-> "m1"],rcfg |-> [k1 |-> "v1"],wcfg |-> [k1 |-> [val |-> "v1", file |-> FALSE]],winternal |-> {"k1"},wunits |-> <<>>,got |-> [cfg |-> [k1 |-> "v1"], m |-> "m1"]])
    >>
----


=============================================================================

---- CONFIG FmtStream_TTrace_1790873081 ----
CONSTANTS
    Keys = { "k1" , "k2" }
    Vals = { "v1" , "v2" }
    Meas = { "m1" , "m2" }
    UnitNames = { "ns" , "x" }
    UnitVals = { "higher" , "lower" }
    FlipStale = TRUE

INVARIANT
    _inv

CHECK_DEADLOCK
    \* CHECK_DEADLOCK off because of PROPERTY or INVARIANT above.
    FALSE

INIT
    _init

NEXT
    _next

CONSTANT
    _TETrace <- _trace

ALIAS
    _expression
=============================================================================
\* Generated on Thu Oct 01 16:44:43 UTC 2026