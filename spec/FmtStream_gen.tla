------------------------------ MODULE FmtStream_gen ------------------------------
(* Generator wrapper (mode G): explores FmtStream exhaustively with a path       *)
(* variable that is hidden from the VIEW, and prints one replay case per explored *)
(* WriteResult / WriteUnit transition: the BFS-shortest caller history reaching   *)
(* the source state plus that write, each write step carrying the configuration   *)
(* a reader of the output must report (FilePart of the caller's result).          *)
EXTENDS FmtStream, Json, SequencesExt

VARIABLE hist
gvars == <<vars, hist>>

UnitsList(um) == SetToSeq({[unit |-> x[1], key |-> x[2], orig |-> um[x].orig, val |-> um[x].val] : x \in DOMAIN um})

GInit == Init /\ hist = <<>>

GSetKey(k, e) == SetKey(k, e) /\ hist' = Append(hist, [a |-> "set", k |-> k, v |-> e.val, file |-> e.file])
GDelKey(k)    == DelKey(k) /\ hist' = Append(hist, [a |-> "del", k |-> k])
GWrite(m, perm) ==
  /\ WriteResult(m, perm)
  /\ hist' = Append(hist, [a |-> "write", m |-> m, perm |-> perm, expect |-> FilePart(res)])
GUnit(u, k, v) ==
  /\ WriteUnit(u, k, v)
  /\ hist' = Append(hist, [a |-> "unit", u |-> u, k |-> k, v |-> v, expect |-> UnitsList(wunits')])
GRead == ReadLine /\ UNCHANGED hist

GNext ==
  \/ \E k \in Keys, e \in Entry : GSetKey(k, e)
  \/ \E k \in Keys : GDelKey(k)
  \/ \E m \in Meas : \E perm \in Perms(DOMAIN res \ DOMAIN wcfg) : GWrite(m, perm)
  \/ \E u \in UnitNames, k \in {"better"}, v \in UnitVals : GUnit(u, k, v)
  \/ GRead

GSpec == GInit /\ [][GNext]_gvars

View == vars

\* printed for every explored transition whose last step is a write
Emit ==
  IF hist' # hist /\ hist'[Len(hist')].a \in {"write", "unit"}
  THEN PrintT(ToJson([tag |-> "case", path |-> hist']))
  ELSE TRUE
=============================================================================
