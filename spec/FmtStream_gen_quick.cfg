SPECIFICATION GSpec
CONSTANTS
  Keys = {"k1", "k2"}
  Vals = {"v1", "v2"}
  Meas = {"m1", "m2"}
  UnitNames = {"ns", "x"}
  UnitVals = {"higher"}
  FlipStale = FALSE
VIEW View
ACTION_CONSTRAINT Emit
INVARIANTS BeliefSound RoundTrip
CHECK_DEADLOCK FALSE
