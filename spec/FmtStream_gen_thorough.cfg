SPECIFICATION GSpec
CONSTANTS
  Keys = {"k1", "k2", "k3"}
  Vals = {"v1", "v2"}
  Meas = {"m1"}
  UnitNames = {"ns"}
  UnitVals = {"higher"}
  FlipStale = FALSE
VIEW View
ACTION_CONSTRAINT Emit
INVARIANTS BeliefSound RoundTrip
CHECK_DEADLOCK FALSE
