SPECIFICATION Spec
CONSTANTS
  Keys = {"k1", "k2"}
  Vals = {"v1", "v2"}
  Meas = {"m1", "m2"}
  UnitNames = {"ns", "x"}
  UnitVals = {"higher", "lower"}
  FlipStale = FALSE
INVARIANTS TypeOK BeliefSound RoundTrip NoInternalLeak UnitsRoundTrip
CHECK_DEADLOCK FALSE
