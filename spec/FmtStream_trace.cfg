SPECIFICATION TSpec
CONSTANTS
  Keys = {}
  Vals = {}
  Meas = {}
  UnitNames = {}
  UnitVals = {}
  FlipStale = FALSE
INVARIANTS CfgRoundTrip MeasRoundTrip NoInternalLeak UnitsRoundTrip Conform
CONSTRAINT HW
POSTCONDITION Post
CHECK_DEADLOCK FALSE
