----------------------------- MODULE FmtStream_trace -----------------------------
(* Trace validation (mode T) for FmtStream: events recorded from the real Writer   *)
(* and Reader are replayed through the specification's own ReadLine action.         *)
(*                                                                                  *)
(*   write  the caller handed a result (file part `cfg`, internal keys) to the real  *)
(*          Writer, which emitted `lines`; the real Reader, given everything written *)
(*          so far, reported `got` / `gotm` for it.                                  *)
(*   unit   same for a unit-metadata record; `got` lists the reader's metadata.      *)
(*   reset  start of an independent trace.                                           *)
(*                                                                                  *)
(* The logged lines are put on the specification's wire and drained by ReadLine     *)
(* (silent steps).  FmtStream's invariants RoundTrip, NoInternalLeak and            *)
(* UnitsRoundTrip are checked on every state, and Conform demands that the          *)
(* specification's reader reports what the real reader reported.  The writer's      *)
(* choice and order of lines is deliberately NOT prescribed: any output from which  *)
(* the reader rules recover the result is accepted.                                 *)
EXTENDS FmtStream, Json, SequencesExt

TraceLog == ndJsonDeserialize("trace.ndjson")

VARIABLES l, expCfg, expM, expUnits
tvars == <<vars, l, expCfg, expM, expUnits>>

AsLine(x) == [t |-> x.t, k |-> x.k, v |-> x.v, u |-> x.u, tu |-> x.tu]
Lines(s) == [i \in 1..Len(s) |-> AsLine(s[i])]
UnitsSet(um) == {[unit |-> x[1], key |-> x[2], orig |-> um[x].orig, val |-> um[x].val] : x \in DOMAIN um}
OneBenchLast(s) == /\ Len(s) >= 1 /\ s[Len(s)].t = "bench"
                   /\ \A i \in 1..(Len(s)-1) : s[i].t \in {"set", "del", "blank", "unit"}

TInit == Init /\ l = 1 /\ expCfg = <<>> /\ expM = "none" /\ expUnits = {}

Ev == TraceLog[l]

TraceReset ==
  /\ l <= Len(TraceLog) /\ Ev.ev = "reset" /\ Drained
  /\ res' = <<>> /\ wcfg' = <<>> /\ worder' = <<>> /\ wfirst' = TRUE /\ wunits' = <<>>
  /\ wire' = <<>> /\ rcfg' = <<>> /\ runits' = <<>>
  /\ wrote' = NoRec /\ winternal' = {} /\ got' = NoRec
  /\ expCfg' = <<>> /\ expM' = "none" /\ expUnits' = {}
  /\ l' = l + 1

TraceWrite ==
  /\ l <= Len(TraceLog) /\ Ev.ev = "write" /\ Drained
  /\ OneBenchLast(Ev.lines)
  /\ wire' = Lines(Ev.lines)
  /\ wrote' = [cfg |-> Ev.cfg, m |-> Ev.m]
  /\ winternal' = ToSet(Ev.internal)
  /\ expCfg' = Ev.got /\ expM' = Ev.gotm
  /\ l' = l + 1
  /\ UNCHANGED <<res, wcfg, worder, wfirst, wunits, rcfg, runits, got, expUnits>>

\* the bench line of the wire carries the emitted text; what must round-trip is the
\* measurement token, so the reader's token is taken from the event
TraceUnit ==
  /\ l <= Len(TraceLog) /\ Ev.ev = "unit" /\ Drained
  /\ \A i \in 1..Len(Ev.lines) : Ev.lines[i].t = "unit"
  /\ wire' = Lines(Ev.lines)
  /\ wunits' = IF <<Ev.unit, Ev.key>> \in DOMAIN wunits THEN wunits
               ELSE [x \in DOMAIN wunits \cup {<<Ev.unit, Ev.key>>} |->
                       IF x = <<Ev.unit, Ev.key>> THEN [orig |-> Ev.orig, val |-> Ev.val] ELSE wunits[x]]
  /\ expUnits' = ToSet(Ev.got)
  /\ l' = l + 1
  /\ UNCHANGED <<res, wcfg, worder, wfirst, rcfg, runits, wrote, winternal, got, expCfg, expM>>

TraceRead == ReadLine /\ UNCHANGED <<l, expCfg, expM, expUnits>>

TNext == TraceReset \/ TraceWrite \/ TraceUnit \/ TraceRead
TSpec == TInit /\ [][TNext]_tvars

\* the real reader reported what the specification's reader reports
Conform == Drained => /\ got.cfg = expCfg
                      /\ (expUnits # {} => UnitsSet(runits) = expUnits)
\* measurements: what was read back is what was written
MeasRoundTrip == Drained => expM = wrote.m
\* RoundTrip of FmtStream compares got.m with wrote.m; in traces got.m is the emitted
\* text of the benchmark line, so the configuration half is used here
CfgRoundTrip == Drained => got.cfg = wrote.cfg

HW == IF l > TLCGet(1) THEN TLCSet(1, l) ELSE TRUE
Post == PrintT("TRACE hwm=" \o ToString(TLCGet(1) - 1) \o " len=" \o ToString(Len(TraceLog)))
ASSUME TLCSet(1, 0)
=============================================================================
