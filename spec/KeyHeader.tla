------------------------------ MODULE KeyHeader ------------------------------
(* Column header forest of benchproc.NewKeyHeader (property C16): a sequence of   *)
(* keys (tuples of field values, "" = the key has no value for the field) is      *)
(* combined, level by level, into runs of equal values; benchstat prints one      *)
(* header row per level, one header cell per node, spanning the node's columns.   *)
(*                                                                                 *)
(* Function-style family: every key sequence within the constants is a reachable   *)
(* state (keys are appended one at a time), the properties are state invariants.   *)
(*   DECLARATIVE  DeclNodes: at level lv the nodes are the maximal runs of         *)
(*                consecutive keys that agree on fields 0..lv ("a node at level i  *)
(*                represents a subslice of the keys that all have the same values  *)
(*                for fields 0 through i", "child i+1 differs from child i")       *)
(*   OPERATIONAL  OpNodes: transcription of keyheader.go:76-100 - walk(parent)     *)
(*                scans the parent's keys once, extending the current node while   *)
(*                the value of the next field repeats, then recurses into the      *)
(*                children                                                         *)
(* Laws checked on the operational forest:                                         *)
(*   Partition    every column lies under exactly one node of every level          *)
(*   Label        a node's value is the value of its field in all keys it spans    *)
(*   Exact        ... and it spans all of them: neighbouring nodes under the same  *)
(*                parent differ in value                                           *)
(*   Nest         every node lies inside exactly one node of the level above,      *)
(*                which is its parent; children tile their parent                  *)
(*   Agree        OpNodes = DeclNodes                                              *)
(* A node is [lv, val, start, len, par] with 0-based level and start; par is the   *)
(* start of the parent (-1 at the top level).                                      *)
EXTENDS Integers, Sequences, FiniteSets, TLC

CONSTANTS MaxKeys, LevelCounts, Vals

VARIABLE keys
vars == <<keys>>

NK(ks) == Len(ks)
NL(ks) == IF ks = <<>> THEN 0 ELSE Len(ks[1])

\* keys i and j (1-based) agree on the first k fields
SamePrefix(ks, i, j, k) == \A m \in 1..k : ks[i][m] = ks[j][m]

SetMax(S) == CHOOSE x \in S : \A y \in S : y <= x

-----------------------------------------------------------------------------
\* DECLARATIVE

\* start (0-based) of the run of keys agreeing with key s (0-based) on the first k fields
RunStart(ks, s, k) ==
  SetMax({t \in 0..s : /\ (t = 0 \/ ~SamePrefix(ks, t, t + 1, k))
                       /\ \A i \in t..s : SamePrefix(ks, t + 1, i + 1, k)})

DeclNodes(ks) ==
  LET n == NK(ks)
      L == NL(ks)
      IsNode(lv, s, ln) ==
        /\ s + ln <= n
        /\ \A i \in (s + 1)..(s + ln) : SamePrefix(ks, s + 1, i, lv + 1)
        /\ (s = 0 \/ ~SamePrefix(ks, s, s + 1, lv + 1))
        /\ (s + ln = n \/ ~SamePrefix(ks, s + ln, s + ln + 1, lv + 1))
  IN {[lv |-> t[1], val |-> ks[t[2] + 1][t[1] + 1], start |-> t[2], len |-> t[3],
       par |-> IF t[1] = 0 THEN -1 ELSE RunStart(ks, t[2], t[1])] :
        t \in {u \in (0..(L - 1)) \X (0..(n - 1)) \X (1..n) : IsNode(u[1], u[2], u[3])}}

-----------------------------------------------------------------------------
\* OPERATIONAL (keyheader.go:76-100)

\* the children of a node at level plv covering keys [ps, ps+pl): one scan, a new node
\* whenever the value of field plv+1 changes
ChildrenOf(ks, plv, ps, pl) ==
  LET lv == plv + 1
      f[j \in 0..pl] ==
        IF j = 0 THEN <<>>
        ELSE LET prev == f[j-1]
                 val  == ks[ps + j][lv + 1]
             IN IF prev # <<>> /\ prev[Len(prev)].val = val
                THEN [prev EXCEPT ![Len(prev)].len = @ + 1]
                ELSE Append(prev, [lv |-> lv, val |-> val, start |-> ps + j - 1, len |-> 1,
                                   par |-> IF plv = -1 THEN -1 ELSE ps])
  IN f[pl]

RECURSIVE Walk(_, _, _, _)
Walk(ks, plv, ps, pl) ==
  IF plv + 1 = NL(ks) THEN {}
  ELSE LET ch == ChildrenOf(ks, plv, ps, pl) IN
       {ch[k] : k \in DOMAIN ch} \cup UNION {Walk(ks, plv + 1, ch[k].start, ch[k].len) : k \in DOMAIN ch}

OpNodes(ks) == IF ks = <<>> THEN {} ELSE Walk(ks, -1, 0, NK(ks))

-----------------------------------------------------------------------------
\* every key sequence within the constants is reachable by appending keys one at a time
\* (all keys of a sequence have the same number of fields: one Projection)
Init == keys = <<>>
AddKey(k) ==
  /\ Len(keys) < MaxKeys
  /\ (keys # <<>> => Len(k) = Len(keys[1]))
  /\ keys' = Append(keys, k)
Next == \E L \in LevelCounts : \E k \in [1..L -> Vals] : AddKey(k)
Spec == Init /\ [][Next]_vars

Covers(nd, c) == nd.start <= c /\ c < nd.start + nd.len

Partition(F, ks) ==
  \A lv \in 0..(NL(ks) - 1), c \in 0..(NK(ks) - 1) :
     Cardinality({nd \in F : nd.lv = lv /\ Covers(nd, c)}) = 1

Label(F, ks) ==
  \A nd \in F : nd.len >= 1 /\ \A c \in nd.start..(nd.start + nd.len - 1) : ks[c + 1][nd.lv + 1] = nd.val

Exact(F, ks) ==
  \A a, b \in F : (a.lv = b.lv /\ a.par = b.par /\ a.start + a.len = b.start) => a.val # b.val

Nest(F, ks) ==
  /\ \A nd \in F : nd.lv = 0 => nd.par = -1
  /\ \A nd \in F : nd.lv > 0 =>
        LET Ps == {p \in F : p.lv = nd.lv - 1 /\ p.start <= nd.start /\ nd.start + nd.len <= p.start + p.len}
        IN Cardinality(Ps) = 1 /\ \A p \in Ps : p.start = nd.par
  /\ \A p \in F : p.lv < NL(ks) - 1 =>
        \A c \in p.start..(p.start + p.len - 1) : \E nd \in F : nd.lv = p.lv + 1 /\ nd.par = p.start /\ Covers(nd, c)

LawsOf(F, ks) == Partition(F, ks) /\ Label(F, ks) /\ Exact(F, ks) /\ Nest(F, ks)

Laws == LawsOf(OpNodes(keys), keys)

Agree == OpNodes(keys) = DeclNodes(keys)

\* both at once (one evaluation of each forest)
LawsAndAgree == LET F == OpNodes(keys) IN LawsOf(F, keys) /\ F = DeclNodes(keys)
=============================================================================
