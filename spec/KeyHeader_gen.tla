----------------------------- MODULE KeyHeader_gen -----------------------------
(* Generator wrapper (mode G) for KeyHeader: one replay case per key sequence -    *)
(* the keys and the forest the DECLARATIVE definition demands, nodes as            *)
(* [level, value, start, len, parent start].                                       *)
EXTENDS KeyHeader, Json, SequencesExt

CaseOf(D) ==
  [tag |-> "case", kind |-> "keys", nl |-> NL(keys),
   keys |-> keys,
   nodes |-> SetToSeq({<<nd.lv, nd.val, nd.start, nd.len, nd.par>> : nd \in D})]

\* checked as an invariant: the laws hold for the operational forest, it is the
\* declarative one, and the case is printed (PrintT is TRUE)
EmitCase ==
  LET F == OpNodes(keys)
      D == DeclNodes(keys)
  IN LawsOf(F, keys) /\ F = D /\ PrintT(ToJson(CaseOf(D)))
=============================================================================
