----------------------------- MODULE KeyHeader_gen -----------------------------
(* Generator wrapper (mode G) for KeyHeader: one replay case per key sequence -    *)
(* the keys and the forest the DECLARATIVE definition demands, nodes as            *)
(* [level, value, start, len, parent start].                                       *)
EXTENDS KeyHeader, Json, SequencesExt

CaseOf ==
  [tag |-> "case", kind |-> "keys", nl |-> NL(keys),
   keys |-> keys,
   nodes |-> SetToSeq({<<nd.lv, nd.val, nd.start, nd.len, nd.par>> : nd \in DeclNodes(keys)})]

EmitCase == PrintT(ToJson(CaseOf))
=============================================================================
