SPECIFICATION Spec
CONSTANTS
  MaxKeys = 3
  LevelCounts = {1, 2, 3}
  Vals = {"a", "b", ""}
INVARIANTS Laws Agree EmitCase
CHECK_DEADLOCK FALSE
