SPECIFICATION Spec
CONSTANTS
  MaxKeys = 3
  LevelCounts = {1, 2, 3}
  Vals = {"a", "b", ""}
INVARIANTS EmitCase
CHECK_DEADLOCK FALSE
