SPECIFICATION Spec
CONSTANTS
  MaxKeys = 5
  LevelCounts = {1, 2}
  Vals = {"a", "b", ""}
INVARIANTS EmitCase
CHECK_DEADLOCK FALSE
