SPECIFICATION Spec
CONSTANTS
  MaxKeys = 4
  LevelCounts = {1, 2, 3}
  Vals = {"a", "b", ""}
INVARIANTS Laws Agree
CHECK_DEADLOCK FALSE
