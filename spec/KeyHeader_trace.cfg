SPECIFICATION TSpec
CONSTANTS
  MaxKeys = 0
  LevelCounts = {}
  Vals = {}
CONSTRAINT HW
POSTCONDITION Post
CHECK_DEADLOCK FALSE
