---------------------------- MODULE KeyHeader_trace ----------------------------
(* Mode T for KeyHeader, spec-as-oracle: an event carries the column keys of one   *)
(* real benchstat table (from its CSV rendering: one value per column and level)   *)
(* and the header cells of its text rendering as nodes [level, value, start, len]  *)
(* (start/len = the logical columns between the cell's vertical rules).  The       *)
(* verdict says whether the text's header cells are exactly the declarative        *)
(* forest of those keys (hence: every column under exactly one cell per level,     *)
(* each cell spanning exactly the columns of the keys it labels).                  *)
EXTENDS KeyHeader, Json, SequencesExt

TraceLog == ndJsonDeserialize("trace.ndjson")

VARIABLE l
tvars == <<keys, l>>

KeysOf(ev) == [i \in 1..Len(ev.keys) |-> [m \in 1..Len(ev.keys[i]) |-> ev.keys[i][m]]]
NodesOf(ev) == {[lv |-> ev.nodes[i][1], val |-> ev.nodes[i][2], start |-> ev.nodes[i][3], len |-> ev.nodes[i][4]] :
                  i \in 1..Len(ev.nodes)}
Strip(F) == {[lv |-> nd.lv, val |-> nd.val, start |-> nd.start, len |-> nd.len] : nd \in F}

TInit == keys = <<>> /\ l = 1

Judge ==
  /\ l <= Len(TraceLog)
  /\ LET ev == TraceLog[l]
         ks == KeysOf(ev)
         ok == /\ NodesOf(ev) = Strip(DeclNodes(ks))
               /\ Cardinality(NodesOf(ev)) = Len(ev.nodes)
     IN PrintT(ToJson([tag |-> "verdict", t |-> ev.t, fails |-> IF ok THEN <<>> ELSE <<"header">>]))
  /\ l' = l + 1
  /\ UNCHANGED keys

TSpec == TInit /\ [][Judge]_tvars

HW == IF l > TLCGet(1) THEN TLCSet(1, l) ELSE TRUE
Post == PrintT("TRACE hwm=" \o ToString(TLCGet(1) - 1) \o " len=" \o ToString(Len(TraceLog)))
ASSUME TLCSet(1, 0)
=============================================================================
