--------------------------------- MODULE Legacy ---------------------------------
(* Property C17: the tables of the legacy benchstat library (package benchstat:     *)
(* data.go, table.go, delta.go, sort.go) follow its documented statistics.          *)
(*                                                                                  *)
(* INPUT.  A collection is a sequence of 1..3 configurations (AddConfig calls, in   *)
(* that order); a configuration is a sequence of benchmark lines; a line carries a  *)
(* benchmark name token b, a label value g (the label SplitBy names; 0 = label not   *)
(* set) and 1..2 measurements <<unit, value>>.  Units: 1 = ns/op (time metric),      *)
(* 2 = MB/s (the speed metric, higher is better), 3 = a custom unit.  Values are     *)
(* small non-negative integers (planted outliers, zeros, constants).  Settings:     *)
(* test in {u, t, none}, alpha (<<0,1>> = left at its default 1/20), order in        *)
(* {none, name, delta, rname, rdelta}, geomean flag, split flag.                     *)
(*                                                                                  *)
(* The machine only BUILDS inputs (one line per step, following a plan chosen in     *)
(* the initial state, so that exhaustive search enumerates a family of collections   *)
(* and -simulate samples large ones).  Everything the property talks about is a      *)
(* FUNCTION of the collection built so far, derived exactly on integers:             *)
(*                                                                                  *)
(*   quartiles   R8 rule of internal/stats: position h = 1/3 + p(N + 1/3); with     *)
(*               p = 1/4, 3/4 that is (3N+5)/12 and (9N+7)/12 (never integral), so   *)
(*               12*Q = 12*x(k) + r*(x(k+1) - x(k)), k = h div 1, r = 12*(h mod 1),  *)
(*               clamped to the extremes.  Quartiles are carried times 12.           *)
(*   fence       [Q1 - 1.5 IQR, Q3 + 1.5 IQR], carried times 24:                     *)
(*               lo24 = 5*Q1x12 - 3*Q3x12,  hi24 = 5*Q3x12 - 3*Q1x12.                *)
(*   retained    the values v with lo24 <= 24 v <= hi24, IN INPUT ORDER; min, max,   *)
(*               mean = sum / n of those.                                            *)
(*   orders      units, label groups, benchmarks (per group) by first appearance;    *)
(*               configurations in the order they were added.                        *)
(*   comparison  (exactly two configurations) test on the RETAINED samples; gate     *)
(*               p < alpha; delta = (new mean / old mean - 1) * 100; better =        *)
(*               higher for unit 2 only, lower otherwise; notes.                     *)
(*   sort        stable: the unique permutation sorted by the key that keeps equal   *)
(*               keys in their original order.                                       *)
(*   geomean     membership = the present cells with non-zero mean, per column.      *)
(*                                                                                  *)
(* Where the code transcribes an algorithm (sorting the sample, the outlier loop,    *)
(* addString, the if-chain of Tables(), sort.SliceStable's insertion sort, the       *)
(* geomean loop) the module has a declarative definition AND the transcription, and *)
(* TLC checks them equal on every explored collection.                               *)
(*                                                                                  *)
(* Floats.  The code compares floats where the model compares rationals.  Inputs     *)
(* whose verdict would hinge on the last ulp are MARKED, not dropped:                *)
(*   skip = "fence"   a value sits exactly on a fence computed from an interpolated   *)
(*                    quartile (fence = "flat": on a fence whose quartiles do not     *)
(*                    interpolate - exact in floats as long as the values are integers)*)
(*   sig  = "edge"    p equals alpha exactly (judged only if the float p does too)    *)
(*   dfree            the delta value is not fixed by the statement (old mean 0) or   *)
(*                    equality of the means is decided on differently computed floats*)
(*   ordhaz           two rows have equal non-zero delta keys from different samples  *)
(*                                                                                  *)
(* The U-test's exact two-sided p is the declarative brute force of UTest.tla        *)
(* (property C11).  internal/stats is known to deviate from it for samples WITH TIES *)
(* AND UNEQUAL SIZES (known finding of C11); there pex = FALSE tells the harness to  *)
(* take p from the library on the model's retained samples (auxiliary).  The t-test  *)
(* p is always taken that way (C12): the model fixes what is tested, the error cases *)
(* and what is rendered for either outcome of the gate.                              *)
EXTENDS Integers, Sequences, FiniteSets, TLC

CONSTANTS
  Plans        \* set of plans [fam, lens, nb, un, gr, mm, vs]: what a behaviour builds (the input
               \* families are defined at the end of the module and chosen in the cfg files)

-----------------------------------------------------------------------------
\* Arithmetic helpers

Min2(a, b) == IF a <= b THEN a ELSE b
Max2(a, b) == IF a >= b THEN a ELSE b
Abs(a) == IF a < 0 THEN -a ELSE a
Sgn(a) == IF a < 0 THEN -1 ELSE IF a > 0 THEN 1 ELSE 0

\* TLC evaluates a function constructor lazily; Eager(f) is f tabulated once.
Eager(f) == f @@ <<>>

Range(s) == {s[i] : i \in 1..Len(s)}
PSum(s, k) == LET f[i \in 0..k] == IF i = 0 THEN 0 ELSE f[i-1] + s[i] IN f[k]
Sum(s) == PSum(s, Len(s))
SumRange(lo, hi, F(_)) ==
  IF hi < lo THEN 0
  ELSE LET f[i \in lo..hi] == IF i = lo THEN F(i) ELSE f[i-1] + F(i) IN f[hi]
Concat(ss) == LET f[i \in 0..Len(ss)] == IF i = 0 THEN <<>> ELSE f[i-1] \o ss[i] IN f[Len(ss)]
Last(s) == s[Len(s)]

\* r is a subsequence of s, order preserved: there is a strictly increasing embedding.
\* (greedy left-most matching decides it)
IsSubseq(r, s) ==
  LET pos[i \in 0..Len(r)] ==          \* pos[i] = index in s matched by r[i]; Len(s)+1 = no match
        IF i = 0 THEN 0
        ELSE LET q == pos[i-1] IN           \* (bound once: TLC does not memoise recursive functions)
             IF q > Len(s) THEN Len(s) + 1
             ELSE LET C == {j \in (q+1)..Len(s) : s[j] = r[i]}
                  IN IF C = {} THEN Len(s) + 1 ELSE CHOOSE j \in C : \A k \in C : j <= k
  IN pos[Len(r)] <= Len(s)

-----------------------------------------------------------------------------
\* FIRST APPEARANCE

\* operational: addString of data.go, called once per element
Dedup(s) ==
  LET f[i \in 0..Len(s)] ==
        IF i = 0 THEN <<>>
        ELSE LET o == f[i-1] IN
             IF \E j \in 1..Len(o) : o[j] = s[i] THEN o ELSE Append(o, s[i])
  IN f[Len(s)]

\* declarative: no repeats, same elements, ordered by index of first occurrence
FirstIdx(s, x) == CHOOSE i \in 1..Len(s) : s[i] = x /\ \A j \in 1..(i-1) : s[j] # x
IsFirstAppearanceOrder(o, s) ==
  /\ Range(o) = Range(s)
  /\ \A i, j \in 1..Len(o) : i < j => o[i] # o[j] /\ FirstIdx(s, o[i]) < FirstIdx(s, o[j])

-----------------------------------------------------------------------------
\* ONE CELL: quartiles, fence, retained values

\* operational: the insertion of Sample.Sort (any correct sort yields the same sequence)
InsSortInts(s) ==
  LET ins(t, x) ==       \* insert x after the last element <= x
        LET k == Cardinality({j \in 1..Len(t) : t[j] <= x})
        IN [j \in 1..(Len(t) + 1) |-> IF j <= k THEN t[j] ELSE IF j = k + 1 THEN x ELSE t[j-1]]
      f[i \in 0..Len(s)] == IF i = 0 THEN <<>> ELSE LET t0 == f[i-1] IN ins(t0, s[i])
  IN f[Len(s)]

\* declarative: the k-th smallest value, by counting
OrderStat(s, k) ==
  CHOOSE v \in Range(s) : /\ Cardinality({i \in 1..Len(s) : s[i] < v}) < k
                          /\ k <= Cardinality({i \in 1..Len(s) : s[i] <= v})

\* 12 * (R8 quantile at position num/12), X(k) = k-th smallest
QuartX12(N, num, X(_)) ==
  LET k == num \div 12
      r == num % 12
  IN IF k <= 0 THEN 12 * X(1)
     ELSE IF k >= N THEN 12 * X(N)
     ELSE 12 * X(k) + r * (X(k+1) - X(k))

\* the quantile does not interpolate between two different values (then the code's float
\* arithmetic on it is exact for integer values)
QuartFlat(N, num, X(_)) ==
  LET k == num \div 12 IN k <= 0 \/ k >= N \/ X(k) = X(k+1)

Q1Num(N) == 3 * N + 5        \* 12 * (1/3 + (N + 1/3) / 4)
Q3Num(N) == 9 * N + 7        \* 12 * (1/3 + 3 (N + 1/3) / 4)

\* The fence multiplier times two (3 = 1.5 IQR), fixed by the statement.
FenceDecl(vals) ==
  LET N  == Len(vals)
      q1 == QuartX12(N, Q1Num(N), LAMBDA k : OrderStat(vals, k))
      q3 == QuartX12(N, Q3Num(N), LAMBDA k : OrderStat(vals, k))
  IN [q1 |-> q1, q3 |-> q3, lo |-> 2*q1 - 3*(q3 - q1), hi |-> 2*q3 + 3*(q3 - q1)]

FenceOp(vals) ==
  LET N  == Len(vals)
      xs == InsSortInts(vals)
      q1 == QuartX12(N, Q1Num(N), LAMBDA k : xs[k])
      q3 == QuartX12(N, Q3Num(N), LAMBDA k : xs[k])
  IN [q1 |-> q1, q3 |-> q3, lo |-> 5*q1 - 3*q3, hi |-> 5*q3 - 3*q1]

Inside(f, v) == f.lo <= 24 * v /\ 24 * v <= f.hi
OnFence(f, v) == 24 * v = f.lo \/ 24 * v = f.hi

\* declarative: the values inside the fence, at their input positions in increasing order
RetainedDecl(vals) ==
  LET f == FenceDecl(vals)
      I == {i \in 1..Len(vals) : Inside(f, vals[i])}
      nth(j) == CHOOSE i \in I : Cardinality({k \in I : k < i}) = j - 1
  IN [j \in 1..Cardinality(I) |-> vals[nth(j)]]

\* operational: the loop of computeStats
RetainedOp(vals) ==
  LET f == FenceOp(vals)
      g[i \in 0..Len(vals)] ==
        IF i = 0 THEN <<>>
        ELSE LET r == g[i-1] IN IF Inside(f, vals[i]) THEN Append(r, vals[i]) ELSE r
  IN g[Len(vals)]

SeqMin(s) == CHOOSE v \in Range(s) : \A w \in Range(s) : v <= w
SeqMax(s) == CHOOSE v \in Range(s) : \A w \in Range(s) : v >= w

\* What the library must report for a cell with the given measured values (non-empty).
\* haz: a value lies exactly on a fence.  "" no (or the quartiles coincide: the fence is that
\* value itself); "flat": yes, but neither quartile interpolates, so the code's comparison is
\* exact whenever the values are integers (the harness then keeps them integral);
\* "interp": yes, and the float fence may fall on either side of the value - not judged.
CellStats(vals) ==
  LET f  == FenceOp(vals)
      rv == RetainedOp(vals)
      xs == InsSortInts(vals)
      N  == Len(vals)
  IN [has |-> TRUE, vals |-> vals, rv |-> rv,
      min |-> SeqMin(rv), max |-> SeqMax(rv), sum |-> Sum(rv), n |-> Len(rv),
      haz |-> IF f.q1 = f.q3 \/ ~\E i \in 1..N : OnFence(f, vals[i]) THEN ""
              ELSE IF QuartFlat(N, Q1Num(N), LAMBDA k : xs[k]) /\ QuartFlat(N, Q3Num(N), LAMBDA k : xs[k]) THEN "flat"
              ELSE "interp"]

NoCell == [has |-> FALSE]

-----------------------------------------------------------------------------
\* MANN-WHITNEY, exact two-sided p by brute force (definitions of UTest.tla, C11)

\* binomial coefficient, built up as C(n, j) = C(n, j-1) * (n-j+1) / j (exact at every step;
\* the intermediate products stay below 2^31 for n <= 24)
Choose(n, k) ==
  IF k < 0 \/ n < k THEN 0
  ELSE LET kk == Min2(k, n - k)
           c[j \in 0..kk] == IF j = 0 THEN 1 ELSE (c[j-1] * (n - j + 1)) \div j
       IN c[kk]

\* Brute force over all assignment classes: x of the t[k] pooled elements of tie group k
\* (groups in increasing order of value) go to sample 1, in Choose(t[k], x) ways.  An
\* element of sample 1 in group k beats the sample-2 elements of the lower groups
\* (below2 of them) and ties with the t[k] - x of its own group, so the class adds
\* x * (2 * below2 + t[k] - x) to 2U.  Cnt = number of assignments of groups k..K with m
\* elements still to go to sample 1 whose final 2U is <= u (mode "le") or >= u ("ge").
RECURSIVE Cnt(_, _, _, _, _, _, _)
Cnt(t, k, m, below2, acc, u, mode) ==
  IF k > Len(t) THEN (IF m = 0 /\ (IF mode = "le" THEN acc <= u ELSE acc >= u) THEN 1 ELSE 0)
  ELSE SumRange(0, Min2(t[k], m), LAMBDA x :
         Choose(t[k], x) * Cnt(t, k + 1, m - x, below2 + (t[k] - x), acc + x * (2 * below2 + (t[k] - x)), u, mode))

\* 2U of the observed samples: r[k] of group k are in sample 1
U2xOfR(t, r) ==
  LET below2[k \in 1..Len(t)] == IF k = 1 THEN 0 ELSE below2[k-1] + (t[k-1] - r[k-1])
  IN SumRange(1, Len(t), LAMBDA k : r[k] * (2 * below2[k] + (t[k] - r[k])))

\* the sorted distinct values of a set of integers
SortedSeqOfSet(S) ==
  LET rank == Eager([v \in S |-> Cardinality({w \in S : w < v})])          \* (tabulated once: quadratic, not cubic)
  IN Eager([k \in 1..Cardinality(S) |-> CHOOSE v \in S : rank[v] = k - 1])
CountOf(s, v) == Cardinality({i \in 1..Len(s) : s[i] = v})

\* Two-sided exact p of samples a (first) and b: p = min(1, 2 min(P(U <= u), P(U >= u))) = pn / pd
UTestP(a, b) ==
  LET pv == SortedSeqOfSet(Range(a) \cup Range(b))
      K  == Len(pv)
  IN IF K = 1 THEN [err |-> "eq", pn |-> 0, pd |-> 1, pex |-> TRUE]
     ELSE
       LET t   == [k \in 1..K |-> CountOf(a, pv[k]) + CountOf(b, pv[k])]
           r   == [k \in 1..K |-> CountOf(a, pv[k])]
           n1  == Len(a)
           u   == U2xOfR(t, r)
           tot == Choose(Len(a) + Len(b), n1)
           le  == Cnt(t, 1, n1, 0, 0, u, "le")        \* #{assignments with U <= observed U}
           ge  == Cnt(t, 1, n1, 0, 0, u, "ge")        \* #{assignments with U >= observed U}
           ties == \E k \in 1..K : t[k] > 1
       IN [err |-> "", pn |-> Min2(tot, 2 * Min2(le, ge)), pd |-> tot,
           \* the library's value is the exact one unless ties meet unequal sizes (C11)
           pex |-> (~ties) \/ Len(a) = Len(b)]

\* LONG RUNS (more than 20 pooled values: the brute force above is out of TLC's reach, and
\* beyond the exact limits the p-value is a normal approximation, a real number).  The model
\* still fixes everything the p-value is a function of - the error case "all equal", the tie
\* vector of the pooled retained values, 2U of the first sample by the rank definition, and
\* which method the documentation prescribes: the exact distribution for samples of at most
\* 50 values each (25 when there are ties), the tie- and continuity-corrected normal
\* approximation beyond - and the harness evaluates that method independently (counting
\* dynamic programme / Erfc) on these integers: ora = TRUE.
UExactLimit == 50
UTiesExactLimit == 25
UTestBig(a, b) ==
  LET pv == SortedSeqOfSet(Range(a) \cup Range(b))
      K  == Len(pv)
  IN IF K = 1 THEN [err |-> "eq", pn |-> 0, pd |-> 1, pex |-> TRUE, ora |-> FALSE, u2 |-> 0, tv |-> <<>>, exact |-> FALSE]
     ELSE
       LET t   == Eager([k \in 1..K |-> CountOf(a, pv[k]) + CountOf(b, pv[k])])
           ties == \E k \in 1..K : t[k] > 1
           lim == IF ties THEN UTiesExactLimit ELSE UExactLimit
           \* 2U by the definition: pairs (first, second) with the first value larger count 2, tied pairs 1
           u2 == SumRange(1, Len(a), LAMBDA i : 2 * Cardinality({j \in 1..Len(b) : a[i] > b[j]})
                                                  + Cardinality({j \in 1..Len(b) : a[i] = b[j]}))
       IN [err |-> "", pn |-> 0, pd |-> 1, pex |-> FALSE, ora |-> TRUE, u2 |-> u2, tv |-> t,
           exact |-> Len(a) <= lim /\ Len(b) <= lim]
UTestSmall(a, b) == UTestP(a, b) @@ [ora |-> FALSE, u2 |-> 0, tv |-> <<>>, exact |-> TRUE]
UTestAny(a, b) == IF Len(a) + Len(b) <= 20 THEN UTestSmall(a, b) ELSE UTestBig(a, b)

\* Welch t-test: only the error cases are in the model
AllEqual(s) == \A i \in 1..Len(s) : s[i] = s[1]
TTestErr(a, b) ==
  IF Len(a) <= 1 \/ Len(b) <= 1 THEN "few"
  ELSE IF AllEqual(a) /\ AllEqual(b) THEN "zv"
  ELSE ""

-----------------------------------------------------------------------------
\* THE RENDERING DECISION TABLE of one old/new row
\*   err   "" | "eq" (all equal) | "few" (too few samples) | "zv" (zero variance)
\*   none  no test chosen: documented special case p = -1 (always below alpha, no note)
\*   sig   p < alpha
\*   cm    sign of (new mean - old mean)
\*   speed the unit is the MB/s speed metric
\* result: delta "tilde" | "zero" | "pct"; change +1 better / -1 worse / 0; note
\* "reason" | "pn" (p-value and sample sizes) | "none"

RenderDomain ==
  {x \in [err : {"", "eq", "few", "zv"}, none : BOOLEAN, sig : BOOLEAN, cm : {-1, 0, 1}, speed : BOOLEAN] :
     x.none => (x.err = "" /\ x.sig)}

Better(cm, speed) == IF speed THEN cm > 0 ELSE cm < 0

\* declarative: four rules, guard k and outcome k
Guard(k, x) ==
  CASE k = 1 -> x.err # ""
    [] k = 2 -> x.err = "" /\ ~x.sig
    [] k = 3 -> x.err = "" /\ x.sig /\ x.cm = 0
    [] k = 4 -> x.err = "" /\ x.sig /\ x.cm # 0
Out(k, x) ==
  CASE k = 1 -> [delta |-> "tilde", change |-> 0, note |-> "reason"]
    [] k = 2 -> [delta |-> "tilde", change |-> 0, note |-> "pn"]
    [] k = 3 -> [delta |-> "zero", change |-> 0, note |-> IF x.none THEN "none" ELSE "pn"]
    [] k = 4 -> [delta |-> "pct", change |-> IF Better(x.cm, x.speed) THEN 1 ELSE -1,
                 note |-> IF x.none THEN "none" ELSE "pn"]

RenderDecl(x) == Out(CHOOSE k \in 1..4 : Guard(k, x), x)

\* operational: the if-chain of Tables() (table.go), pval = -1 when no test is chosen
RenderOp(x) ==
  LET s0 == [delta |-> "tilde", change |-> 0, note |-> "none"]
      s1 == IF x.err # "" THEN [s0 EXCEPT !.note = "reason"]
            ELSE IF x.sig THEN
              (IF x.cm = 0 THEN [s0 EXCEPT !.delta = "zero"]
               ELSE [s0 EXCEPT !.delta = "pct",
                               \* pct < 0 == (metric != "speed")
                               !.change = IF (x.cm < 0) = (~x.speed) THEN 1 ELSE -1])
            ELSE s0
  IN IF s1.note = "none" /\ ~x.none THEN [s1 EXCEPT !.note = "pn"] ELSE s1

-----------------------------------------------------------------------------
\* STABLE SORT of the rows 1..n.  Lt(i, j): the key of row i is strictly below the key of
\* row j; rev = the Reverse() wrapper of sort.go.

\* declarative: position of row r = 1 + rows that must precede it
RankSort(n, Lt(_, _), rev) ==
  LET before(s, r) == IF rev THEN Lt(r, s) ELSE Lt(s, r)          \* s strictly first by the order
      same(s, r)   == ~before(s, r) /\ ~before(r, s)
      rank(r) == 1 + Cardinality({s \in 1..n : before(s, r) \/ (same(s, r) /\ s < r)})
  IN [p \in 1..n |-> CHOOSE r \in 1..n : rank(r) = p]

\* operational: insertionSort of sort.SliceStable (used below 20 elements) with
\* less(i, j) = order(t, i, j), Reverse(order)(t, i, j) = order(t, j, i)
InsSort(n, Lt(_, _), rev) ==
  LET less(a, b) == IF rev THEN Lt(b, a) ELSE Lt(a, b)
      \* inner loop: move element at position j left while less(it, left neighbour)
      RECURSIVE sink(_, _)
      sink(p, j) == IF j > 1 /\ less(p[j], p[j-1])
                    THEN sink([p EXCEPT ![j] = p[j-1], ![j-1] = p[j]], j - 1)
                    ELSE p
      f[i \in 1..Max2(n, 1)] == IF i = 1 THEN [k \in 1..n |-> k] ELSE LET p0 == f[i-1] IN sink(p0, i)
  IN IF n = 0 THEN <<>> ELSE f[n]

\* rational keys <<num, den>>, den > 0 (products stay below 2^31 for the value ranges used)
KeyLt(a, b) == a[1] * b[2] < b[1] * a[2]
\* (delta keys are carried without the factor 100: only their order matters)

-----------------------------------------------------------------------------
\* THE COLLECTION

VARIABLES
  cfgs,    \* the configurations added so far; the last one is being filled
  set,     \* the settings (NoSet until chosen by the first step)
  plan     \* what this behaviour builds: [lens: lines per configuration, nb: names, un: units,
           \*   gr: label values, mm: max measurements per line, vs: value set per configuration]

vars == <<cfgs, set, plan>>

NoSet == [test |-> "unset"]
NC == Len(cfgs)

\* all measurements in input order: [c, g, b, u, v]; without SplitBy every line is in group 0
Flat ==
  Concat([c \in 1..NC |->
    Concat([i \in 1..Len(cfgs[c]) |->
      LET l == cfgs[c][i] IN
      [k \in 1..Len(l.ms) |-> [c |-> c, g |-> IF set.split THEN l.g ELSE 0, b |-> l.b,
                               u |-> l.ms[k][1], v |-> l.ms[k][2]]]])])

Proj(fl, F(_)) == [i \in 1..Len(fl) |-> F(fl[i])]
UnitOrder(fl)  == Dedup(Proj(fl, LAMBDA m : m.u))
GroupOrder(fl) == Dedup(Proj(fl, LAMBDA m : m.g))
BenchOrder(fl, g) == Dedup(Proj(SelectSeq(fl, LAMBDA m : m.g = g), LAMBDA m : m.b))

\* rows of every table before sorting: groups by first appearance, inside a group the
\* benchmarks by first appearance
RowsOrig(fl) ==
  LET go == GroupOrder(fl)
  IN Concat([k \in 1..Len(go) |-> LET bo == BenchOrder(fl, go[k]) IN [j \in 1..Len(bo) |-> <<go[k], bo[j]>>]])

CellVals(fl, c, g, b, u) ==
  Proj(SelectSeq(fl, LAMBDA m : m.c = c /\ m.g = g /\ m.b = b /\ m.u = u), LAMBDA m : m.v)

Alpha == IF set.alpha[1] = 0 THEN <<1, 20>> ELSE set.alpha

\* comparison of the old (first) and new (second) cell of a row of unit u
RowCmp(old, new, u) ==
  LET a == old.rv
      b == new.rv
      ut == IF set.test = "u" THEN UTestAny(a, b)
            ELSE [err |-> "", pn |-> 0, pd |-> 1, pex |-> FALSE, ora |-> FALSE, u2 |-> 0, tv |-> <<>>, exact |-> FALSE]
      err == CASE set.test = "u" -> ut.err
               [] set.test = "t" -> TTestErr(a, b)
               [] OTHER -> ""
      none == set.test = "none"
      \* is p < alpha?  yes / no / edge (p = alpha exactly) / lib (p comes from the library)
      sig == IF none THEN "yes"
             ELSE IF err # "" THEN "no"
             ELSE IF set.test = "u" /\ ut.pex
               THEN (IF ut.pn * Alpha[2] < Alpha[1] * ut.pd THEN "yes"
                     ELSE IF ut.pn * Alpha[2] = Alpha[1] * ut.pd THEN "edge" ELSE "no")
             ELSE "lib"
      \* new mean - old mean = (new.sum * old.n - old.sum * new.n) / (old.n * new.n)
      diff == new.sum * old.n - old.sum * new.n
      cm == Sgn(diff)
      x(s) == [err |-> err, none |-> none, sig |-> s, cm |-> cm, speed |-> u = 2]
      yes == RenderDecl(x(TRUE))
  IN [k |-> "cmp", err |-> err, sig |-> sig, pn |-> ut.pn, pd |-> ut.pd, pex |-> ut.pex,
      \* long runs: the harness evaluates the prescribed method on (tv, n1, u2)
      ora |-> ut.ora, u2 |-> ut.u2, tv |-> ut.tv, exact |-> ut.exact,
      n1 |-> old.n, n2 |-> new.n, cm |-> cm,
      \* delta = (new mean / old mean - 1) * 100 = 100 * diff / (old.sum * new.n)
      dn |-> 100 * diff, dd |-> old.sum * new.n,
      \* the value is not fixed when the old mean is 0, and equality of the means is a
      \* float matter unless the two retained samples are the same sequence
      dfree |-> old.sum = 0 \/ (cm = 0 /\ a # b),
      \* what is rendered if p < alpha / if not
      yes |-> yes,
      no  |-> IF none THEN yes ELSE RenderDecl(x(FALSE))]

NoCmp == [k |-> "na"]

\* one row of the table of unit u: cells per configuration, presence class, comparison
RowOf(fl, gb, u) ==
  LET cells == [c \in 1..NC |->
                  LET v == CellVals(fl, c, gb[1], gb[2], u) IN IF v = <<>> THEN NoCell ELSE CellStats(v)]
      both  == NC = 2 /\ cells[1].has /\ cells[2].has
      \* With two configurations the library shows a row only when both cells exist
      \* (documented in table.go); the statement does not say, so rows with a missing
      \* side are free there.  Rows without any value of the unit are free everywhere.
      req   == IF NC = 2 THEN both ELSE \E c \in 1..NC : cells[c].has
  IN [g |-> gb[1], b |-> gb[2], req |-> req, cells |-> cells,
      cmp |-> IF both THEN RowCmp(cells[1], cells[2], u) ELSE NoCmp]

\* sort key of a row whose delta is shown: |pct| * change as a rational
DeltaKey(row, shown) ==
  IF row.cmp.k = "cmp" /\ shown /\ row.cmp.yes.delta = "pct" /\ ~row.cmp.dfree
  THEN <<row.cmp.yes.change * Abs(row.cmp.dn \div 100), row.cmp.dd>>
  ELSE <<0, 1>>

IsCmp(row) == row.cmp.k = "cmp"
SigKnown(row) == ~IsCmp(row) \/ row.cmp.sig \in {"yes", "no"}
ByDelta == set.order \in {"delta", "rdelta"}
Rev == set.order \in {"rname", "rdelta"}

\* the key the sort sees, when every gate is decided in the model
ModelKey(rows) ==
  [i \in 1..Len(rows) |->
     IF ByDelta THEN DeltaKey(rows[i], IsCmp(rows[i]) /\ rows[i].cmp.sig = "yes") ELSE <<rows[i].b, 1>>]

TableOf(fl, u) ==
  LET ro   == RowsOrig(fl)
      rows == Eager([i \in 1..Len(ro) |-> RowOf(fl, ro[i], u)])
      n    == Len(rows)
      known == ~ByDelta \/ \A i \in 1..n : SigKnown(rows[i])
      key  == Eager(ModelKey(rows))
      lt(i, j) == KeyLt(key[i], key[j])
      \* float hazards of the delta order: a delta whose value is free, or equal non-zero
      \* keys computed from different samples
      haz == ByDelta /\
             \/ \E i \in 1..n : IsCmp(rows[i]) /\ rows[i].cmp.dfree /\ rows[i].cmp.yes.delta # "tilde"
             \/ \E i, j \in 1..n :
                  /\ i < j /\ IsCmp(rows[i]) /\ IsCmp(rows[j])
                  /\ rows[i].cmp.yes.delta = "pct" /\ rows[j].cmp.yes.delta = "pct"
                  /\ ~KeyLt(DeltaKey(rows[i], TRUE), DeltaKey(rows[j], TRUE))
                  /\ ~KeyLt(DeltaKey(rows[j], TRUE), DeltaKey(rows[i], TRUE))
                  /\ <<rows[i].cells[1].rv, rows[i].cells[2].rv>> # <<rows[j].cells[1].rv, rows[j].cells[2].rv>>
  IN [u |-> u, rows |-> rows,
      \* a table appears for every unit; it is free when all its rows are
      req |-> \E i \in 1..n : rows[i].req,
      \* keys the rows have if their delta is shown (the harness needs them when the
      \* gate of some row is decided by a library p-value)
      keys |-> [i \in 1..n |-> IF ByDelta THEN DeltaKey(rows[i], TRUE) ELSE <<rows[i].b, 1>>],
      ordknown |-> known, ordhaz |-> haz,
      \* expected display order (indices into rows); declarative definition
      order |-> IF set.order = "none" THEN [i \in 1..n |-> i]
                ELSE IF known THEN RankSort(n, lt, Rev) ELSE <<>>,
      \* geomean membership per configuration: present cells with non-zero mean, row order
      geo |-> [c \in 1..NC |-> SelectSeq([i \in 1..n |-> i], LAMBDA i : rows[i].cells[c].has /\ rows[i].cells[c].sum # 0)]]

\* operational geomean membership: the loop of addGeomean
GeoOp(tab, c) ==
  LET f[i \in 0..Len(tab.rows)] ==
        IF i = 0 THEN <<>>
        ELSE LET r == f[i-1] IN
             IF tab.rows[i].cells[c].has /\ tab.rows[i].cells[c].sum # 0 THEN Append(r, i) ELSE r
  IN f[Len(tab.rows)]

Expected ==
  LET fl == Flat
      uo == UnitOrder(fl)
  IN [units |-> uo, groups |-> GroupOrder(fl),
      tables |-> [k \in 1..Len(uo) |-> TableOf(fl, uo[k])]]

TabIdx(e) == 1..Len(e.tables)
RowIdx(t) == 1..Len(t.rows)

\* the worst fence hazard of any cell: "" | "flat" | "interp"
FenceHazard(e) ==
  LET H == UNION {UNION {{e.tables[k].rows[i].cells[c].haz : c \in {c \in 1..NC : e.tables[k].rows[i].cells[c].has}} :
                           i \in RowIdx(e.tables[k])} : k \in TabIdx(e)}
  IN IF "interp" \in H THEN "interp" ELSE IF "flat" \in H THEN "flat" ELSE ""

\* a value exactly on an interpolated fence: the case is marked, the harness does not
\* judge it.  (p exactly alpha is marked per row: sig = "edge".)
SkipReason(e) == IF FenceHazard(e) = "interp" THEN "fence" ELSE ""

-----------------------------------------------------------------------------
\* THE BUILDER

\* ix: 0, or the stride by which the values of a configuration grow with the line number
\* (value = v + ix * lines so far, v from the value set: with value sets inside 0..ix-1 that
\* are disjoint between the configurations, no two values of the collection are equal)
Plan(fam, lens, nb, un, gr, mm, vs) == [fam |-> fam, lens |-> lens, nb |-> nb, un |-> un, gr |-> gr, mm |-> mm, vs |-> vs, w |-> 1, ix |-> 0]
Setting(t, a, o, g, s) == [test |-> t, alpha |-> a, order |-> o, geo |-> g, split |-> s]

AllTests  == {"u", "t", "none"}
AllOrders == {"none", "name", "delta", "rname", "rdelta"}
AlphaGrid == {<<0, 1>>, <<1, 100>>, <<1, 20>>, <<1, 4>>, <<1, 2>>}

\* settings explored with the plans of a family
SettingsOf(fam) ==
  CASE fam = "cell"  -> {Setting("u", <<0, 1>>, "none", TRUE, FALSE)}
    [] fam = "pair"  -> {Setting("u", a, "none", FALSE, FALSE) : a \in {<<1, 20>>, <<1, 4>>, <<1, 2>>}}
                        \cup {Setting("t", a, "none", FALSE, FALSE) : a \in {<<1, 20>>, <<1, 2>>}}
                        \cup {Setting("none", <<0, 1>>, "none", FALSE, FALSE)}
    [] fam = "small" -> {Setting(t, <<1, 2>>, o, TRUE, s) : t \in {"u", "none"}, o \in {"name", "rdelta"}, s \in BOOLEAN}
                        \cup {Setting("none", <<1, 2>>, "none", TRUE, s) : s \in BOOLEAN}
    [] fam = "smallx" -> {Setting(t, <<1, 2>>, o, TRUE, s) : t \in {"u", "none"}, o \in {"name", "delta", "rname", "rdelta"}, s \in BOOLEAN}
                        \cup {Setting("none", <<1, 2>>, "none", g, s) : g \in BOOLEAN, s \in BOOLEAN}
    [] fam = "smally" -> {Setting("none", <<1, 2>>, "rdelta", TRUE, s) : s \in BOOLEAN}
                         \cup {Setting("u", <<1, 2>>, "name", FALSE, s) : s \in BOOLEAN}
    [] fam = "sim"   -> {Setting(t, a, o, g, s) : t \in AllTests, a \in AlphaGrid, o \in AllOrders, g \in BOOLEAN, s \in BOOLEAN}
    [] fam = "wide"  -> {Setting(t, <<1, 2>>, o, g, TRUE) : t \in {"u", "none"}, o \in AllOrders \ {"none"}, g \in BOOLEAN}
    [] fam = "long"  -> {Setting("u", a, "none", g, FALSE) : a \in {<<0, 1>>, <<1, 100>>, <<1, 4>>}, g \in BOOLEAN}
                        \cup {Setting("t", a, "none", g, FALSE) : a \in {<<0, 1>>, <<1, 4>>}, g \in BOOLEAN}

\* "pair": the values of a configuration are entered in non-decreasing order (one
\* representative per multiset)
SortedOnly == plan.fam = "pair"
\* "small": SplitBy is set exactly when the plan uses label values (no idle labels)
Couple == plan.fam \in {"small", "smallx", "smally"}

LineVals == IF plan.ix = 0 THEN plan.vs[NC] ELSE {v + plan.ix * Len(cfgs[NC]) : v \in plan.vs[NC]}
MeasSeqs == UNION {[1..k -> plan.un \X LineVals] : k \in 1..plan.mm}
LineU == {[b |-> b, g |-> g, ms |-> ms] : b \in plan.nb, g \in plan.gr, ms \in MeasSeqs}

Init ==
  /\ plan \in Plans
  /\ set = NoSet
  /\ cfgs = << <<>> >>

PickSet ==
  /\ set = NoSet
  /\ set' \in SettingsOf(plan.fam)
  /\ Couple => (set'.split = (plan.gr # {0}))
  /\ UNCHANGED <<cfgs, plan>>

AddLine(l) ==
  /\ set # NoSet
  /\ Len(cfgs[NC]) < plan.lens[NC]
  /\ IF SortedOnly /\ cfgs[NC] # <<>> THEN Last(cfgs[NC]).ms[1][2] <= l.ms[1][2] ELSE TRUE
  /\ cfgs' = [cfgs EXCEPT ![NC] = Append(@, l)]
  /\ UNCHANGED <<set, plan>>

NewCfg ==
  /\ set # NoSet
  /\ NC < Len(plan.lens)
  /\ Len(cfgs[NC]) = plan.lens[NC]
  /\ cfgs' = Append(cfgs, <<>>)
  /\ UNCHANGED <<set, plan>>

Next == PickSet \/ NewCfg \/ \E l \in LineU : AddLine(l)
Spec == Init /\ [][Next]_vars

Done == set # NoSet /\ NC = Len(plan.lens) /\ Len(cfgs[NC]) = plan.lens[NC]

-----------------------------------------------------------------------------
\* PROPERTIES of the expected output e of a collection

AllCells(e) ==
  UNION {{e.tables[k].rows[i].cells[c] : i \in RowIdx(e.tables[k]), c \in 1..NC} : k \in TabIdx(e)}

\* retained values: subset, input order, non-empty, min <= mean <= max; declarative
\* definitions = transcribed algorithms
CellLemmas(e) ==
  \A cell \in {x \in AllCells(e) : x.has} :
    /\ FenceDecl(cell.vals) = FenceOp(cell.vals)
    /\ RetainedDecl(cell.vals) = cell.rv
    /\ IsSubseq(cell.rv, cell.vals)
    /\ cell.n >= 1 /\ cell.n = Len(cell.rv)
    /\ \A v \in Range(cell.rv) : cell.min <= v /\ v <= cell.max
    /\ cell.min \in Range(cell.rv) /\ cell.max \in Range(cell.rv)
    /\ cell.min * cell.n <= cell.sum /\ cell.sum <= cell.max * cell.n           \* min <= mean <= max
    \* the fence contains the quartiles; nothing between the quartiles is dropped
    /\ LET f == FenceOp(cell.vals) IN
       /\ f.lo <= 2 * f.q1 /\ 2 * f.q3 <= f.hi /\ f.q1 <= f.q3
       /\ \A i \in 1..Len(cell.vals) :
            (2 * f.q1 <= 24 * cell.vals[i] /\ 24 * cell.vals[i] <= 2 * f.q3) => Inside(f, cell.vals[i])

\* every measured value lands in exactly one cell of exactly one table, in input order
Bookkeeping(e) ==
  LET fl == Flat IN
  /\ (fl # <<>>) => /\ IsFirstAppearanceOrder(e.units, Proj(fl, LAMBDA m : m.u))
                    /\ IsFirstAppearanceOrder(e.groups, Proj(fl, LAMBDA m : m.g))
                    /\ \A g \in Range(e.groups) :
                         IsFirstAppearanceOrder(BenchOrder(fl, g), Proj(SelectSeq(fl, LAMBDA m : m.g = g), LAMBDA m : m.b))
  /\ (fl = <<>>) => e.tables = <<>>
  /\ \A k \in TabIdx(e) :
       LET t == e.tables[k] IN
       \* rows are distinct (group, benchmark) pairs and cover what was measured
       /\ \A i, j \in RowIdx(t) : i # j => <<t.rows[i].g, t.rows[i].b>> # <<t.rows[j].g, t.rows[j].b>>
       /\ {<<t.rows[i].g, t.rows[i].b>> : i \in RowIdx(t)} = {<<fl[i].g, fl[i].b>> : i \in 1..Len(fl)}
       \* the cells partition the measurements of the unit
       /\ SumRange(1, Len(t.rows), LAMBDA i : SumRange(1, NC, LAMBDA c :
              IF t.rows[i].cells[c].has THEN Len(t.rows[i].cells[c].vals) ELSE 0))
            = Cardinality({i \in 1..Len(fl) : fl[i].u = t.u})
       /\ \A i \in RowIdx(t) : \A c \in 1..NC :
            t.rows[i].cells[c].has =>
              IsSubseq(t.rows[i].cells[c].vals, Proj(SelectSeq(fl, LAMBDA m : m.c = c /\ m.u = t.u), LAMBDA m : m.v))
       /\ t.req = \E i \in RowIdx(t) : t.rows[i].req

\* rendering: decision table total and disjoint, = the code's if-chain; gate; direction
RenderTableOK ==
  \A x \in RenderDomain :
    /\ Cardinality({k \in 1..4 : Guard(k, x)}) = 1
    /\ RenderDecl(x) = RenderOp(x)
    /\ LET o == RenderDecl(x) IN
       /\ (o.delta = "tilde") = (x.err # "" \/ ~x.sig)                  \* a delta appears only if p < alpha
       /\ (o.delta = "tilde") = (o.note = "reason" \/ (o.note = "pn" /\ ~x.sig))
       /\ (o.delta = "tilde") => o.note \in {"reason", "pn"}            \* "~" comes with the reason or p and sizes
       /\ (o.note = "reason") = (x.err # "")
       /\ (o.change = 1)  = (o.delta = "pct" /\ Better(x.cm, x.speed))
       /\ (o.change = -1) = (o.delta = "pct" /\ ~Better(x.cm, x.speed))
       /\ (o.delta = "zero") = (x.err = "" /\ x.sig /\ x.cm = 0)
ASSUME RenderTableOK

RowsOK(e) ==
  \A k \in TabIdx(e) :
    LET t == e.tables[k] IN
    \A i \in RowIdx(t) :
      LET r == t.rows[i] IN
      /\ IsCmp(r) = (NC = 2 /\ r.cells[1].has /\ r.cells[2].has)
      /\ IsCmp(r) =>
           /\ r.cmp.sig \in {"yes", "no", "edge", "lib"}
           /\ (set.test = "none") => (r.cmp.sig = "yes" /\ r.cmp.yes.note = "none" /\ r.cmp.yes.delta # "tilde")
           /\ (r.cmp.err # "") => (r.cmp.sig = "no" /\ r.cmp.no.note = "reason" /\ r.cmp.no.delta = "tilde")
           /\ (r.cmp.err = "" /\ set.test # "none") => (r.cmp.no.delta = "tilde" /\ r.cmp.no.note = "pn")
           /\ (set.test = "u" /\ r.cmp.err = "" /\ ~r.cmp.ora) => (0 < r.cmp.pn /\ r.cmp.pn <= r.cmp.pd)
           \* long runs: the gate is decided on the harness-evaluated p; 2U within its range, the tie
           \* vector a composition of the pooled size with at least two groups
           /\ r.cmp.ora => /\ set.test = "u" /\ r.cmp.err = "" /\ r.cmp.sig = "lib"
                            /\ 0 <= r.cmp.u2 /\ r.cmp.u2 <= 2 * r.cmp.n1 * r.cmp.n2
                            /\ Len(r.cmp.tv) >= 2 /\ Sum(r.cmp.tv) = r.cmp.n1 + r.cmp.n2
                            /\ \A q \in 1..Len(r.cmp.tv) : r.cmp.tv[q] >= 1
           /\ (r.cmp.yes.delta = "pct") =>
                (r.cmp.cm # 0 /\ r.cmp.yes.change = (IF (r.cmp.cm > 0) = (t.u = 2) THEN 1 ELSE -1))
           /\ (~r.cmp.dfree) => (r.cmp.dd > 0 /\ Sgn(r.cmp.dn) = r.cmp.cm)

\* stable sort: a permutation, sorted, ties in original order
IsStableSorted(p, n, Lt(_, _), rev) ==
  /\ Len(p) = n /\ Range(p) = 1..n
  /\ \A a, b \in 1..n : a < b =>
       LET x == p[a]  y == p[b] IN
       /\ ~(IF rev THEN Lt(x, y) ELSE Lt(y, x))                          \* y does not sort strictly before x
       /\ (~Lt(x, y) /\ ~Lt(y, x)) => x < y                               \* ties keep input order

SortOK(e) ==
  \A k \in TabIdx(e) :
    LET t == e.tables[k] IN
    (t.ordknown /\ set.order # "none") =>
      LET key == ModelKey(t.rows)
          n   == Len(t.rows) IN
      /\ t.order = InsSort(n, LAMBDA i, j : KeyLt(key[i], key[j]), Rev)        \* declarative = transcription
      /\ IsStableSorted(t.order, n, LAMBDA i, j : KeyLt(key[i], key[j]), Rev)

\* the sort lemma on every key vector up to length 5 over four keys
SortLemma ==
  \A n \in 0..5 : \A ks \in [1..n -> {-1, 0, 1, 2}] : \A rev \in BOOLEAN :
    LET p == RankSort(n, LAMBDA i, j : ks[i] < ks[j], rev) IN
    /\ p = InsSort(n, LAMBDA i, j : ks[i] < ks[j], rev)
    /\ IsStableSorted(p, n, LAMBDA i, j : ks[i] < ks[j], rev)
ASSUME SortLemma

GeoOK(e) ==
  \A k \in TabIdx(e) :
    LET t == e.tables[k] IN
    \A c \in 1..NC :
      /\ t.geo[c] = GeoOp(t, c)
      /\ Range(t.geo[c]) = {i \in RowIdx(t) : t.rows[i].cells[c].has /\ t.rows[i].cells[c].sum # 0}
      /\ \A a, b \in 1..Len(t.geo[c]) : a < b => t.geo[c][a] < t.geo[c][b]

TypeOK ==
  /\ (set = NoSet \/ set \in SettingsOf(plan.fam))
  /\ NC \in 1..Len(plan.lens)
  /\ \A c \in 1..NC : Len(cfgs[c]) <= plan.lens[c]
  /\ (set = NoSet) => cfgs = << <<>> >>

Lemmas(e) == CellLemmas(e) /\ Bookkeeping(e) /\ RowsOK(e) /\ SortOK(e) /\ GeoOK(e)

\* one combined invariant; Expected is evaluated once per state (bound by the quantifier)
AllOK == TypeOK /\ (set # NoSet => \A e \in {Expected} : Lemmas(e))
\* the same on finished collections only (for -simulate, where prefixes are not of interest)
AllOKDone == TypeOK /\ (Done => \A e \in {Expected} : Lemmas(e))

-----------------------------------------------------------------------------
\* INPUT FAMILIES (chosen in the cfg files by  Plans <- ...)

\* (1) "cell": every sequence of up to n values; one configuration, one benchmark.
\* Every prefix is a collection of the family.
CellVals4 == {0, 1, 3, 8}
CellVals5 == {0, 1, 4, 10, 40}
CellVals3 == {0, 4, 10}        \* 7 values 0,0,.,.,4,4,10: 10 sits exactly on the upper fence 4 + 1.5 * 4
CellPlans(n, V) == {Plan("cell", <<n>>, {1}, {1}, {0}, 1, <<V>>)}

\* (2) "pair": one old/new row: every pair of multisets (sizes 1..n), tests, alphas, both
\* directions.  The prefixes with a non-empty second configuration belong to the family.
PairVals3 == {0, 1, 3}
PairVals4 == {0, 1, 2, 5}
PairPlans(n, V) == {Plan("pair", <<a, n>>, {1}, {u}, {0}, 1, <<V, V>>) : a \in 1..n, u \in {1, 2}}

\* (3) "small": small collections, exhaustively: bookkeeping, row presence, orders, groups
SmallShapes3 == {<<3>>, <<1, 2>>, <<2, 1>>, <<1, 1, 1>>}
SmallShapes3x == SmallShapes3 \cup {<<0, 3>>}
SmallShapes4 == {<<2, 2>>, <<1, 3>>, <<2, 0, 2>>, <<1, 2, 1>>}
SmallPlans(fam, S, V) ==
  {Plan(fam, l, {1, 2}, {1, 2}, {0}, 1, [c \in 1..Len(l) |-> V]) : l \in S}
  \cup {Plan(fam, l, {1, 2}, {3}, {1, 2}, 1, [c \in 1..Len(l) |-> V]) : l \in S}

QuickPlans == CellPlans(6, CellVals4) \cup CellPlans(7, CellVals3) \cup PairPlans(4, PairVals3) \cup SmallPlans("small", SmallShapes3, {1, 3})

\* thorough: longer cells and a palette with fence hazards; pairs of up to 5 values (outliers
\* inside a comparison) and over 4 values; all orders on 3-line collections incl. an empty
\* first configuration ("smallx"); 4-line collections under two settings ("smally")
ThoroughCellPlans  == CellPlans(7, CellVals4) \cup CellPlans(6, CellVals5) \cup CellPlans(8, CellVals3)
ThoroughPairPlans  == PairPlans(5, PairVals3) \cup PairPlans(4, PairVals4)
ThoroughSmallPlans == SmallPlans("smallx", SmallShapes3x, {1, 3}) \cup SmallPlans("smally", SmallShapes4, {1, 3})
ThoroughPlans == ThoroughCellPlans \cup ThoroughPairPlans \cup ThoroughSmallPlans

\* (4) "sim", "wide": large collections, sampled with -simulate: 1..3 configurations, up to 3 names,
\* 3 units, label groups, 1..2 measurements per line; value sets with an outlier, zeros,
\* a shifted second configuration (so that the tests have something to find), a constant
\* first configuration, zeros and one constant
SimLow  == {0, 1, 2, 3, 5, 9, 60}
SimHigh == {0, 2, 4, 5, 7, 12, 60}
SimZero == {0, 5}
SimShapes1 == {<<5>>, <<7>>, <<4, 4>>, <<5, 5>>, <<6, 6>>, <<8, 8>>, <<5, 7>>, <<7, 3>>, <<0, 5>>, <<6, 0>>,
               <<3, 3, 3>>, <<5, 4, 5>>, <<4, 0, 4>>}          \* one measurement per line
SimShapes2 == {<<3>>, <<5>>, <<3, 3>>, <<4, 4>>, <<5, 5>>, <<5, 3>>, <<2, 5>>, <<0, 4>>, <<3, 3, 3>>, <<4, 0, 3>>}
                                                               \* up to two (a cell holds <= 10 values)
\* "wide": tables of up to 15 rows (5 names x 3 label values; above 12 elements Go's
\* unstable sort is no longer an insertion sort), one unit, many lines, always split and
\* sorted; w only multiplies the plans so that -simulate picks them often enough
SimWide ==
  {[Plan("wide", l, 1..5, {u}, {0, 1, 2}, 1, [c \in 1..Len(l) |-> IF vk = 1 THEN SimLow ELSE IF c = 2 THEN SimHigh ELSE SimLow])
      EXCEPT !.w = w] :
     l \in {<<45>>, <<60>>, <<40, 40>>, <<50, 50>>}, u \in 1..3, vk \in {1, 2}, w \in 1..16}
SimNarrow ==
  {Plan("sim", l[2], nb, un, gr, l[1], [c \in 1..Len(l[2]) |-> CASE vk = 1 -> SimLow
                                                   [] vk = 2 -> (IF c = 2 THEN SimHigh ELSE SimLow)
                                                   [] vk = 3 -> (IF c = 1 THEN {3} ELSE SimLow)
                                                   [] vk = 4 -> SimZero]) :
     l \in ({1} \X SimShapes1) \cup ({2} \X SimShapes2),
     nb \in {{1}, {1, 2}, {1, 2, 3}}, un \in {{1}, {2}, {3}, {1, 2}, {1, 2, 3}},
     gr \in {{0}, {1, 2}, {0, 1}}, vk \in {1, 2, 3, 4}}

SimPlans == SimWide \cup SimNarrow

\* (5) "long": LONG RUNS of one benchmark in two configurations (-count=12 .. 70, equal and
\* lopsided, on both sides of the U-test's limits 25 / 50 and of the sizes where counts of
\* arrangements pass 2^31, 2^53, 2^63), sampled with -simulate.  Value kinds: a few levels with
\* many ties (counter-like metrics) equal / new above / old above; constant and equal (the
\* "all equal" note at any length); two different constants; no two values equal (ix > 0)
\* interleaved / new above / old above; a wide range with occasional ties, equal / shifted.
LongSizes == {12, 15, 16, 20, 21, 25, 26, 30, 38, 40, 50, 51, 60, 64, 70}
LongShapes == {<<n, n>> : n \in LongSizes}
              \cup {<<20, 6>>, <<6, 20>>, <<30, 8>>, <<8, 30>>, <<55, 40>>, <<40, 55>>, <<26, 25>>, <<25, 26>>,
                    <<51, 50>>, <<50, 51>>, <<70, 10>>, <<10, 70>>, <<19, 14>>, <<17, 17>>, <<18, 18>>}
LongKinds ==
  { [ix |-> 0, vs |-> <<10..13, 10..13>>], [ix |-> 0, vs |-> <<10..13, 11..14>>], [ix |-> 0, vs |-> <<11..14, 10..13>>],
    [ix |-> 0, vs |-> <<{7}, {7}>>],       [ix |-> 0, vs |-> <<{7}, {9}>>],        [ix |-> 0, vs |-> <<{9, 10}, {7}>>],
    [ix |-> 0, vs |-> <<{12}, {12}>>],     [ix |-> 0, vs |-> <<{0}, {0}>>],
    [ix |-> 4, vs |-> <<{0, 1}, {2, 3}>>], [ix |-> 4, vs |-> <<{0, 1}, {14, 15}>>], [ix |-> 4, vs |-> <<{14, 15}, {0, 1}>>],
    [ix |-> 4, vs |-> <<{0, 1}, {6, 7}>>], [ix |-> 4, vs |-> <<{6, 7}, {0, 1}>>],
    [ix |-> 0, vs |-> <<100..160, 100..160>>], [ix |-> 0, vs |-> <<100..160, 108..168>>], [ix |-> 0, vs |-> <<108..168, 100..160>>] }
LongPlansOf(S, U) ==
  {[Plan("long", l, {1}, {u}, {0}, 1, k.vs) EXCEPT !.ix = k.ix] : l \in S, u \in U, k \in LongKinds}
LongPlans == LongPlansOf(LongShapes, 1..3)
\* quick tier: fewer shapes (both sides of 25 / 50, the sizes whose arrangement counts pass 2^31 / 2^63, lopsided), two units
LongShapesQuick == {<<n, n>> : n \in {16, 20, 25, 26, 30, 50, 51, 60, 64, 70}} \cup {<<20, 6>>, <<6, 20>>, <<30, 8>>, <<55, 40>>}
LongPlansQuick == LongPlansOf(LongShapesQuick, {1, 2})

=============================================================================
