----------------------------- MODULE LegacyRender -----------------------------
(* The three renderers of the legacy library golang.org/x/perf/benchstat        *)
(* (extension X04): FormatText, FormatCSV (with / without norange), FormatHTML   *)
(* as functions from []*Table to output.                                         *)
(*                                                                               *)
(* STATE + ACTIONS.  The caller's value under construction and the last reply:   *)
(*   StartTable(m)   append(tables, &Table{Metric: m, Configs: cfg, ...})        *)
(*   AddRow(r)       t.Rows = append(t.Rows, &Row{...}) on the last table         *)
(*   RenderText, RenderCSV(norange), RenderHTML                                  *)
(*                   one public call each; `out` holds what the call wrote,      *)
(*                   abstracted the way the harness abstracts real output        *)
(* Every reachable `inp` is a value a caller can build (and, up to the numbers,  *)
(* a value Collection.Tables() can return: all tables share Configs, OldNewDelta *)
(* = two configurations, a Metrics without unit stands for "configuration lacks  *)
(* the benchmark", delta / note / change only in old-new tables).  Rendering     *)
(* does not change the tables.                                                   *)
(*                                                                               *)
(* ABSTRACTION.  Text is a token [t, w]: identity and width in characters.  A    *)
(* metric cell is [v, tv, d, w]: v the mean (as CSV shows it), tv the mean as    *)
(* the row's Scaler formats it, d the variation in percent ("" = none: mean or   *)
(* max is zero), w the width of "mean ±d%"; a cell without variation keeps its   *)
(* place by 5 blanks (pad).  Observed text = lines of [s, e, t] (start, end,     *)
(* token of every maximal piece without two adjacent blanks); observed CSV =     *)
(* lines of field tokens; observed HTML = table class, configuration header,     *)
(* one body per table, each a sequence of tr lines with cells [t, cls, span].    *)
(*                                                                               *)
(* DECLARATIVE part (the contract, from the doc comments and the evident         *)
(* intent): every renderer shows the same logical grid -                         *)
(*   one block per table, in order; a heading naming the metric (text/CSV: "name *)
(*   | metric" for one configuration, "name | old metric | new metric | delta"   *)
(*   for two, "name \ metric | config..." for more; CSV adds the unit and, unless *)
(*   norange, a "±" heading over every range column; HTML: the configuration     *)
(*   names once, then per table the metric spanning the configuration columns    *)
(*   and "delta" for old-new tables);                                            *)
(*   one line per row in table order, preceded by a group header line where      *)
(*   Row.Group differs from the previous row's (first row: from ""); for a       *)
(*   change TO the empty group the header line is optional (there is nothing to  *)
(*   show: text/CSV print an empty line, HTML prints nothing);                   *)
(*   a row shows the benchmark name, per configuration "mean ±diff" (text,       *)
(*   HTML) or mean, diff (CSV; mean only with norange), blank where the          *)
(*   configuration lacks the benchmark, and in old-new tables Row.Delta and      *)
(*   Row.Note verbatim (HTML: tr class better / worse / unchanged from           *)
(*   Row.Change, td class nodelta for "~" else delta, td class note);            *)
(*   text geometry (Geometry): in a block every column starts at one offset,     *)
(*   names / headings / notes are left-aligned at it, means and signed deltas    *)
(*   right-aligned at the column's right edge, neighbouring cells at least two   *)
(*   blanks apart, no column starts further right than the widest cells of the   *)
(*   output's columns before it require.                                         *)
(* Free (the documentation does not say, so the contract does not either):       *)
(* the empty-group header; trailing empty cells of a text/CSV line; where "~"    *)
(* sits inside the delta column; column widths between the block's and the       *)
(* output's widest cell; the HTML group header's colspan between "name +         *)
(* configurations" and "all columns"; the HTML spacer row; the configuration     *)
(* header of a one-configuration HTML table.                                     *)
(*                                                                               *)
(* OPERATIONAL part: transcriptions of toText + FormatText (text.go:17-80,       *)
(* 193-233), toCSV + FormatCSV (text.go:88-110, 238-292) and the template of     *)
(* html.go:15-47.  Invariant Conforms: what the transcription writes is          *)
(* accepted by the declarative side.                                             *)
(*                                                                               *)
(* NAMED DEVIATIONS of the code from its documentation (FALSE = documented):     *)
(*   CsvUnitFromFirstCell  toCSV takes the unit of the heading from              *)
(*        Rows[0].Metrics[0]: when the first row lacks the first configuration   *)
(*        the heading reads "metric ()" although the table has a unit            *)
(*   CsvPmOverNote  newTextRowDelta puts "±" after EVERY heading, also after     *)
(*        "delta", i.e. over the note column; the doc comment of toCSV says "in  *)
(*        the appropriate columns".  Contract-side set Tolerated: deviations the *)
(*        conformance runs accept as built ("pm-over-note").                     *)
(* LegacyRender_asbuilt.cfg switches both on and tolerates nothing: TLC shows    *)
(* the counterexamples.                                                          *)
EXTENDS Integers, Sequences, FiniteSets, TLC

CONSTANTS
  ConfCounts,     \* numbers of configurations (1..3)
  MaxTables, MaxRows, RowBudget,
  NameIds, GroupIds, CellIds, DeltaIds, MetricIds,
  CsvUnitFromFirstCell, CsvPmOverNote,
  Tolerated

VARIABLES inp, out, hist
vars == <<inp, out, hist>>

---------------------------------------------------------------------------
(* tokens of the model; the harness realises each by text of exactly this width *)
Tok(t, w) == [t |-> t, w |-> w]
Blank == Tok("", 0)

NameTok(i)  == CASE i = 1 -> Tok("n1", 1) [] i = 2 -> Tok("n2", 7) [] OTHER -> Tok("n3", 4)
GroupTok(g) == CASE g = 0 -> Blank [] g = 1 -> Tok("g1", 3) [] OTHER -> Tok("g2", 9)
MetricTok(m) == IF m = 1 THEN Tok("m1", 7) ELSE Tok("m2", 3)
UnitOf(m)    == IF m = 1 THEN "u1" ELSE "u2"
ConfTok(i)  == CASE i = 1 -> Tok("k1", 5) [] i = 2 -> Tok("k2", 9) [] OTHER -> Tok("k3", 3)

NoCell == [v |-> "", tv |-> "", d |-> "", w |-> 0]
CellOf(i) == CASE i = 0 -> NoCell
               [] i = 1 -> [v |-> "a", tv |-> "a", d |-> "7",   w |-> 9]     \* 1.50 ± 7%
               [] i = 2 -> [v |-> "b", tv |-> "b", d |-> "",    w |-> 7]     \* 1234.50 (max = 0)
               [] i = 3 -> [v |-> "a", tv |-> "a", d |-> "150", w |-> 10]    \* 1.50 ±150%
               [] OTHER -> [v |-> "z", tv |-> "z", d |-> "",    w |-> 4]     \* 0.00 (mean = 0)

\* delta, note, change of an old-new row (1..7); 0 = not an old-new table
DeltaOf(i) == CASE i = 1 -> [dl |-> Tok("d~", 1), nt |-> Tok("tp", 15), ch |-> 0]
                [] i = 2 -> [dl |-> Tok("d-", 7), nt |-> Tok("tp", 15), ch |-> 1]
                [] i = 3 -> [dl |-> Tok("d+", 6), nt |-> Tok("tq", 11), ch |-> -1]
                [] i = 4 -> [dl |-> Blank,        nt |-> Blank,         ch |-> 0]     \* geomean row without delta
                [] i = 5 -> [dl |-> Tok("d0", 5), nt |-> Tok("tp", 15), ch |-> 0]
                [] i = 6 -> [dl |-> Tok("d-", 7), nt |-> Tok("tq", 11), ch |-> -1]    \* lower is worse (speed)
                [] i = 7 -> [dl |-> Tok("d+", 6), nt |-> Blank,         ch |-> 0]     \* geomean row with delta
                [] OTHER -> [dl |-> Blank,        nt |-> Blank,         ch |-> 0]

---------------------------------------------------------------------------
(* helpers *)
\* (function constructors are lazy in TLC: force them once, then recurse on tuples)
RECURSIVE FlatT(_)
FlatT(ss) == IF ss = <<>> THEN <<>> ELSE Head(ss) \o FlatT(Tail(ss))
Flat(ss) == LET t == TLCEval(ss) IN FlatT(t)

MaxOf(S) == IF S = {} THEN 0 ELSE CHOOSE x \in S : \A y \in S : y <= x
MinOf(S) == CHOOSE x \in S : \A y \in S : x <= y

RECURSIVE SumSeq(_)
SumSeq(s) == IF s = <<>> THEN 0 ELSE Head(s) + SumSeq(Tail(s))

RECURSIVE TrimBlank(_)           \* drop trailing "" of a sequence of strings
TrimBlank(s) == IF s # <<>> /\ s[Len(s)] = "" THEN TrimBlank(SubSeq(s, 1, Len(s) - 1)) ELSE s

NC(in) == Len(in.cfg)
OldNew(in) == NC(in) = 2
NCols(in) == 1 + NC(in) + (IF OldNew(in) THEN 2 ELSE 0)

PrevGroup(tab, i) == IF i = 1 THEN "" ELSE tab.rows[i - 1].g.t
GroupChanges(tab, i) == tab.rows[i].g.t # PrevGroup(tab, i)

\* optional expected lines are skipped when the output does not show them.  exp: lines
\* with fields opt, like; kinds: per observed line "blank" | "spacer" | "other"
RECURSIVE Resolve(_, _)
Resolve(exp, kinds) ==
  IF exp = <<>> THEN <<>>
  ELSE IF Head(exp).opt /\ (kinds = <<>> \/ Head(kinds) # Head(exp).like)
       THEN Resolve(Tail(exp), kinds)
       ELSE <<Head(exp)>> \o Resolve(Tail(exp), IF kinds = <<>> THEN <<>> ELSE Tail(kinds))

---------------------------------------------------------------------------
(* DECLARATIVE: text *)
TC(t, w, al, pad) == [t |-> t, w |-> w, al |-> al, pad |-> pad]
TBlank == TC("", 0, "L", 0)
L(tok) == IF tok.t = "" THEN TBlank ELSE TC(tok.t, tok.w, "L", 0)

CellTC(c) == IF c.tv = "" THEN TBlank
             ELSE TC(c.tv \o "|" \o c.d, c.w, "R", IF c.d = "" THEN 5 ELSE 0)
DeltaTC(dl) == IF dl.t = "" THEN TBlank
               ELSE IF dl.t = "d~" THEN TC("d~", 1, "F", 3)     \* free inside its column
               ELSE TC(dl.t, dl.w, "R", 0)

TextHead(in, tab) ==
  CASE NC(in) = 1 -> <<TC("name", 4, "L", 0), L(tab.m)>>
    [] NC(in) = 2 -> <<TC("name", 4, "L", 0), TC("old|" \o tab.m.t, tab.m.w + 4, "L", 0),
                       TC("new|" \o tab.m.t, tab.m.w + 4, "L", 0), TC("delta", 5, "L", 0)>>
    [] OTHER      -> <<TC("name\\|" \o tab.m.t, tab.m.w + 7, "L", 0)>> \o [i \in 1..NC(in) |-> L(in.cfg[i])]

TextRow(in, r) ==
  <<L(r.n)>> \o [i \in 1..NC(in) |-> CellTC(r.c[i])]
             \o (IF OldNew(in) THEN <<DeltaTC(r.dl), L(r.nt)>> ELSE <<>>)

Line(k, opt, like, blk, cols) == [k |-> k, opt |-> opt, like |-> like, blk |-> blk, cols |-> cols]

TextBlock(in, b) ==
  LET tab == in.tabs[b] IN
  (IF b > 1 THEN <<Line("sep", FALSE, "blank", b, <<>>)>> ELSE <<>>)
  \o <<Line("head", FALSE, "other", b, TextHead(in, tab))>>
  \o Flat([i \in 1..Len(tab.rows) |->
        (IF GroupChanges(tab, i)
         THEN <<Line("group", tab.rows[i].g.t = "", "blank", b, <<L(tab.rows[i].g)>>)>> ELSE <<>>)
        \o <<Line("row", FALSE, "other", b, TextRow(in, tab.rows[i]))>>])

TextLines(in) == Flat([b \in 1..Len(in.tabs) |-> TextBlock(in, b)])

NonBlankIdx(cols) == SelectSeq([i \in 1..Len(cols) |-> i], LAMBDA i : cols[i].t # "")

\* the tokens of an observed line are the non-blank cells of the expected one, in order
TextLineMatches(o, x) ==
  LET idx == NonBlankIdx(x.cols) IN
  /\ Len(o) = Len(idx)
  /\ \A k \in 1..Len(o) : o[k].t = x.cols[idx[k]].t

TextKinds(obs) == [i \in 1..Len(obs) |-> IF obs[i] = <<>> THEN "blank" ELSE "other"]

\* widest cell (with its blank fill) of column j over the whole output
GWidth(exp, j) == MaxOf({x.cols[j].w + x.cols[j].pad : x \in {y \in {exp[i] : i \in 1..Len(exp)} :
                                                              y.k \in {"head", "row"} /\ Len(y.cols) >= j}})

Placed(obs, shown) ==
  UNION {LET x == shown[i]  idx == NonBlankIdx(x.cols) IN
         {[blk |-> x.blk, k |-> x.k, col |-> idx[n], s |-> obs[i][n].s, e |-> obs[i][n].e,
           al |-> x.cols[idx[n]].al, pad |-> x.cols[idx[n]].pad, line |-> i, pos |-> n] : n \in 1..Len(idx)}
         : i \in 1..Len(obs)}

Geometry(obs, shown, exp) ==
  LET P == Placed(obs, shown)
      Cells == {p \in P : p.k \in {"head", "row"}}
      Col(b, j) == {p \in Cells : p.blk = b /\ p.col = j}
      N == MaxOf({Len(exp[i].cols) : i \in 1..Len(exp)})
      G == TLCEval([j \in 1..N |-> GWidth(exp, j)])
      Lim == TLCEval([j \in 1..N |-> SumSeq([i \in 1..(j - 1) |-> G[i] + 2])])
      Limit(j) == Lim[j]
  IN
  /\ \A p \in P : p.e > p.s /\ p.s >= 0
  \* group header lines and names start at the margin
  /\ \A p \in P : (p.k = "group" \/ p.col = 1) => p.s = 0
  \* one line: in order, at least two blanks apart beyond the cell's own blank fill
  /\ \A p \in P, q \in P : (p.line = q.line /\ q.pos = p.pos + 1) => q.s >= p.e + p.pad + 2
  \* one block, one column: one left edge for the left-aligned, one right edge for the right-aligned
  /\ \A p \in Cells :
       LET C == Col(p.blk, p.col) IN
       /\ p.al = "L" => p.s = MinOf({q.s : q \in C})
       /\ p.al = "R" => p.e + p.pad = MaxOf({q.e + q.pad : q \in C})
  \* no padding beyond what the widest cells of the output's columns need
  /\ \A p \in Cells :
       /\ p.al = "L" => p.s <= Limit(p.col)
       /\ p.al # "L" => p.e + p.pad <= Limit(p.col) + G[p.col]

TextShows(obs, in) ==
  LET exp   == TextLines(in)
      shown == Resolve(exp, TextKinds(obs))
  IN /\ Len(shown) = Len(obs)
     /\ \A i \in 1..Len(obs) : TextLineMatches(obs[i], shown[i])
     /\ Geometry(obs, shown, exp)

---------------------------------------------------------------------------
(* DECLARATIVE: CSV.  A line is acceptable if, without trailing empty fields, it is   *)
(* one of `alts`.                                                                      *)
\* the unit in the heading is the table's unit (every metric in a table has it)
FirstCellUnit(tab) == IF tab.rows # <<>> /\ tab.rows[1].c # <<>> /\ tab.rows[1].c[1].v # "" THEN tab.u ELSE ""
UnitsShown(tab) == {tab.u} \cup (IF "csv-unit-first-cell" \in Tolerated THEN {FirstCellUnit(tab)} ELSE {})

CsvHeadFor(in, tab, nr, u) ==
  LET pm == IF nr THEN <<>> ELSE <<"pm">>
      mu == tab.m.t \o "|" \o u IN
  CASE NC(in) = 1 -> {<<"name", mu>> \o pm}
    [] NC(in) = 2 ->
         LET h == <<"name", "old|" \o mu>> \o pm \o <<"new|" \o mu>> \o pm \o <<"delta">> IN
         {h} \cup (IF "pm-over-note" \in Tolerated THEN {h \o pm} ELSE {})
    [] OTHER -> {<<"name\\|" \o mu>> \o Flat([i \in 1..NC(in) |-> <<in.cfg[i].t>> \o pm])}

CsvHeadAlts(in, tab, nr) == UNION {CsvHeadFor(in, tab, nr, u) : u \in UnitsShown(tab)}

CsvRow(in, r, nr) ==
  <<r.n.t>> \o Flat([i \in 1..NC(in) |-> <<r.c[i].v>> \o (IF nr THEN <<>> ELSE <<r.c[i].d>>)])
            \o (IF OldNew(in) THEN <<r.dl.t, r.nt.t>> ELSE <<>>)

CLine(k, opt, blk, alts) == [k |-> k, opt |-> opt, like |-> "blank", blk |-> blk, alts |-> alts]

CsvBlock(in, b, nr) ==
  LET tab == in.tabs[b] IN
  (IF b > 1 THEN <<CLine("sep", FALSE, b, {<<>>})>> ELSE <<>>)
  \o <<CLine("head", FALSE, b, {TrimBlank(h) : h \in CsvHeadAlts(in, tab, nr)})>>
  \o Flat([i \in 1..Len(tab.rows) |->
        (IF GroupChanges(tab, i)
         THEN <<CLine("group", tab.rows[i].g.t = "", b, {TrimBlank(<<tab.rows[i].g.t>>)})>> ELSE <<>>)
        \o <<CLine("row", FALSE, b, {TrimBlank(CsvRow(in, tab.rows[i], nr))})>>])

CsvLines(in, nr) == Flat([b \in 1..Len(in.tabs) |-> CsvBlock(in, b, nr)])

CsvShows(obs, in, nr) ==
  LET shown == Resolve(CsvLines(in, nr), TextKinds(obs)) IN
  /\ Len(shown) = Len(obs)
  /\ \A i \in 1..Len(obs) : TrimBlank(obs[i]) \in shown[i].alts

---------------------------------------------------------------------------
(* DECLARATIVE: HTML *)
HC(t, cls, lo, hi) == [t |-> t, cls |-> cls, lo |-> lo, hi |-> hi]     \* colspan in lo..hi
HLine(k, opt, like, cls, cells) == [k |-> k, opt |-> opt, like |-> like, cls |-> cls, cells |-> cells]

ChangeClass(ch) == CASE ch = 1 -> "better" [] ch = -1 -> "worse" [] OTHER -> "unchanged"
HCellText(c) == IF c.tv = "" THEN "" ELSE c.tv \o "|" \o c.d

HtmlHead(in, tab) ==
  HLine("head", FALSE, "other", "",
        <<HC("", "", 1, 1), HC(tab.m.t, IF NC(in) = 1 THEN "" ELSE "metric", NC(in), NC(in))>>
        \o (IF OldNew(in) THEN <<HC("delta", "", 1, 1)>> ELSE <<>>))

HtmlRow(in, r) ==
  HLine("row", FALSE, "other", IF OldNew(in) THEN ChangeClass(r.ch) ELSE "",
        <<HC(r.n.t, "", 1, 1)>> \o [i \in 1..NC(in) |-> HC(HCellText(r.c[i]), "", 1, 1)]
        \o (IF OldNew(in)
            THEN <<HC(r.dl.t, IF r.dl.t = "d~" THEN "nodelta" ELSE "delta", 1, 1), HC(r.nt.t, "note", 1, 1)>>
            ELSE <<>>))

HtmlBody(in, b) ==
  LET tab == in.tabs[b] IN
  <<HtmlHead(in, tab)>>
  \o Flat([i \in 1..Len(tab.rows) |->
        (IF GroupChanges(tab, i)
         THEN <<HLine("group", tab.rows[i].g.t = "", "blank", "group",
                      <<HC(tab.rows[i].g.t, "", 1 + NC(in), NCols(in))>>)>> ELSE <<>>)
        \o <<HtmlRow(in, tab.rows[i])>>])
  \o <<HLine("spacer", TRUE, "spacer", "", <<>>)>>

HtmlKind(o) == CASE o.k = "spacer" -> "spacer"
                 [] o.k = "group" /\ Len(o.cells) = 1 /\ o.cells[1].t = "" -> "blank"
                 [] OTHER -> "other"

HtmlLineMatches(o, x) ==
  /\ o.k = x.k /\ o.cls = x.cls
  /\ x.k # "spacer" =>
       /\ Len(o.cells) = Len(x.cells)
       /\ \A j \in 1..Len(o.cells) :
            /\ o.cells[j].t = x.cells[j].t /\ o.cells[j].cls = x.cells[j].cls
            /\ o.cells[j].span >= x.cells[j].lo /\ o.cells[j].span <= x.cells[j].hi

HtmlShows(obs, in) ==
  IF in.tabs = <<>> THEN obs.bodies = <<>> /\ obs.cfg = <<>>
  ELSE
  /\ obs.cls = (IF OldNew(in) THEN "oldnew" ELSE "")
  /\ \/ obs.cfg = [i \in 1..NC(in) |-> in.cfg[i].t]
     \/ NC(in) = 1 /\ obs.cfg = <<>>
  /\ Len(obs.bodies) = Len(in.tabs)
  /\ \A b \in 1..Len(in.tabs) :
       LET ob == obs.bodies[b]
           shown == Resolve(HtmlBody(in, b), [i \in 1..Len(ob) |-> HtmlKind(ob[i])])
       IN /\ Len(shown) = Len(ob)
          /\ \A i \in 1..Len(ob) : HtmlLineMatches(ob[i], shown[i])

---------------------------------------------------------------------------
(* OPERATIONAL: toText + FormatText.  A text cell is [t, w] where w counts what  *)
(* utf8.RuneCountInString counts: the blank fill of a mean without variation     *)
(* and of "~   " is part of the string.                                          *)
XC(t, w, vis, al) == [t |-> t, w |-> w, vis |-> vis, al |-> al]    \* vis = visible width

RECURSIVE TrimX(_)               \* textRow.trim
TrimX(cols) == IF cols # <<>> /\ cols[Len(cols)].t = "" THEN TrimX(SubSeq(cols, 1, Len(cols) - 1)) ELSE cols

OpTextCell(c) == IF c.tv = "" THEN XC("", 0, 0, "R")                               \* Metrics.Format: unit ""
                 ELSE IF c.d = "" THEN XC(c.tv \o "|", c.w + 5, c.w, "R")            \* mean + "     "
                 ELSE XC(c.tv \o "|" \o c.d, c.w, c.w, "R")

OpToText(in, tab) ==
  LET head == CASE NC(in) = 1 -> <<XC("name", 4, 4, "L"), XC(tab.m.t, tab.m.w, tab.m.w, "L")>>
                [] NC(in) = 2 -> <<XC("name", 4, 4, "L"), XC("old|" \o tab.m.t, tab.m.w + 4, tab.m.w + 4, "L"),
                                   XC("new|" \o tab.m.t, tab.m.w + 4, tab.m.w + 4, "L"), XC("delta", 5, 5, "L")>>
                [] OTHER -> <<XC("name\\|" \o tab.m.t, tab.m.w + 7, tab.m.w + 7, "L")>>
                            \o [i \in 1..NC(in) |-> XC(in.cfg[i].t, in.cfg[i].w, in.cfg[i].w, "L")]
      rowsOf(i) ==
        LET r == tab.rows[i] IN
        (IF GroupChanges(tab, i) THEN <<TrimX(<<XC(r.g.t, r.g.w, r.g.w, "L")>>)>> ELSE <<>>)
        \o <<TrimX(<<XC(r.n.t, r.n.w, r.n.w, "L")>>
                   \o [j \in 1..NC(in) |-> OpTextCell(r.c[j])]
                   \o (IF NC(in) = 2
                       THEN <<IF r.dl.t = "d~" THEN XC("d~", 4, 1, "R") ELSE XC(r.dl.t, r.dl.w, r.dl.w, "R"),
                              XC(r.nt.t, r.nt.w, r.nt.w, "N")>>
                       ELSE <<>>))>>
  IN <<TrimX(head)>> \o Flat([i \in 1..Len(tab.rows) |-> rowsOf(i)])

OpText(in) ==
  LET tts == TLCEval([b \in 1..Len(in.tabs) |-> OpToText(in, in.tabs[b])])
      all == FlatT(tts)
      \* max[i]: rows of exactly one column are "header rows" and not measured
      MX == TLCEval([j \in 1..NCols(in) |->
              MaxOf({all[i][j].w : i \in {i \in 1..Len(all) : Len(all[i]) # 1 /\ Len(all[i]) >= j}})])
      OFF == TLCEval([j \in 1..NCols(in) |-> SumSeq([i \in 1..(j - 1) |-> MX[i] + 2])])
      mx(j) == MX[j]
      off(j) == OFF[j]
      tok(c, s) == [s |-> s, e |-> s + c.vis, t |-> c.t]
      \* heading line: every column left-aligned
      headLine(row) == SelectSeq([j \in 1..Len(row) |-> tok(row[j], off(j))], LAMBDA x : x.t # "")
      dataLine(row) ==
        IF Len(row) = 1 THEN <<tok(row[1], 0)>>
        ELSE SelectSeq([j \in 1..Len(row) |->
               IF j = 1 THEN tok(row[j], 0)
               ELSE IF j = Len(row) /\ row[j].al = "N" THEN tok(row[j], off(j))     \* "(" : left-aligned note
               ELSE tok(row[j], off(j) + mx(j) - row[j].w)], LAMBDA x : x.t # "")
      block(b) == (IF b > 1 THEN <<<<>>>> ELSE <<>>)
                  \o <<headLine(tts[b][1])>>
                  \o [i \in 1..(Len(tts[b]) - 1) |-> dataLine(tts[b][i + 1])]
  IN Flat([b \in 1..Len(in.tabs) |-> block(b)])

(* OPERATIONAL: toCSV + FormatCSV *)
OpCsvUnit(tab) ==
  IF CsvUnitFromFirstCell THEN FirstCellUnit(tab) ELSE tab.u

\* newTextRowDelta: "±" after each member of cols unless norange
OpRowDelta(nr, label, cols) == <<label>> \o Flat([i \in 1..Len(cols) |-> <<cols[i]>> \o (IF nr THEN <<>> ELSE <<"pm">>)])

OpToCsv(in, tab, nr) ==
  LET mu == tab.m.t \o "|" \o OpCsvUnit(tab)
      head == CASE NC(in) = 1 -> OpRowDelta(nr, "name", <<mu>>)
                [] NC(in) = 2 ->
                     IF CsvPmOverNote THEN OpRowDelta(nr, "name", <<"old|" \o mu, "new|" \o mu, "delta">>)
                     ELSE OpRowDelta(nr, "name", <<"old|" \o mu, "new|" \o mu>>) \o <<"delta">>
                [] OTHER -> OpRowDelta(nr, "name\\|" \o mu, [i \in 1..NC(in) |-> in.cfg[i].t])
      rowsOf(i) ==
        LET r == tab.rows[i] IN
        (IF GroupChanges(tab, i) THEN <<TrimBlank(<<r.g.t>>)>> ELSE <<>>)
        \o <<TrimBlank(<<r.n.t>>
               \o Flat([j \in 1..NC(in) |-> <<r.c[j].v>> \o (IF nr THEN <<>> ELSE <<r.c[j].d>>)])
               \o (IF NC(in) = 2 THEN <<r.dl.t, r.nt.t>> ELSE <<>>))>>
  IN <<TrimBlank(head)>> \o Flat([i \in 1..Len(tab.rows) |-> rowsOf(i)])

OpCsv(in, nr) ==
  Flat([b \in 1..Len(in.tabs) |-> (IF b > 1 THEN <<<<>>>> ELSE <<>>) \o OpToCsv(in, in.tabs[b], nr)])

(* OPERATIONAL: the template of html.go *)
OC(t, cls, span) == [t |-> t, cls |-> cls, span |-> span]
OLine(k, cls, cells) == [k |-> k, cls |-> cls, cells |-> cells]

OpHtmlBody(in, tab) ==
  LET head == IF NC(in) = 1 THEN OLine("head", "", <<OC("", "", 1), OC(tab.m.t, "", 1)>>)
              ELSE OLine("head", "", <<OC("", "", 1), OC(tab.m.t, "metric", NC(in))>>
                                     \o (IF OldNew(in) THEN <<OC("delta", "", 1)>> ELSE <<>>))
      \* htmlGroup starts a new run where the group changes; the header is printed for a
      \* run whose group is not empty (and the table has more than one group)
      rowsOf(i) ==
        LET r == tab.rows[i] IN
        (IF GroupChanges(tab, i) /\ r.g.t # ""
         THEN <<OLine("group", "group", <<OC(r.g.t, "", NC(in) + 1 + (IF OldNew(in) THEN 1 ELSE 0))>>)>> ELSE <<>>)
        \o <<OLine("row", IF OldNew(in) THEN ChangeClass(r.ch) ELSE "",
                   <<OC(r.n.t, "", 1)>> \o [j \in 1..NC(in) |-> OC(HCellText(r.c[j]), "", 1)]
                   \o (IF OldNew(in)
                       THEN <<OC(r.dl.t, IF r.dl.t = "d~" THEN "nodelta" ELSE "delta", 1), OC(r.nt.t, "note", 1)>>
                       ELSE <<>>))>>
  IN <<head>> \o Flat([i \in 1..Len(tab.rows) |-> rowsOf(i)]) \o <<OLine("spacer", "", <<>>)>>

OpHtml(in) ==
  IF in.tabs = <<>> THEN [cls |-> "", cfg |-> <<>>, bodies |-> <<>>]
  ELSE [cls |-> IF OldNew(in) THEN "oldnew" ELSE "",
        cfg |-> IF NC(in) = 1 THEN <<>> ELSE [i \in 1..NC(in) |-> in.cfg[i].t],
        bodies |-> [b \in 1..Len(in.tabs) |-> OpHtmlBody(in, in.tabs[b])]]

---------------------------------------------------------------------------
(* STATE MACHINE *)
NoOut == [r |-> "none", nr |-> FALSE, obs |-> <<>>]

RowOf(nc, n, g, cs, dk) ==
  LET d == DeltaOf(IF nc = 2 THEN dk ELSE 0) IN
  [n |-> NameTok(n), g |-> GroupTok(g), c |-> [i \in 1..nc |-> CellOf(cs[i])], dl |-> d.dl, nt |-> d.nt, ch |-> d.ch]

Init ==
  /\ \E nc \in ConfCounts : inp = [cfg |-> [i \in 1..nc |-> ConfTok(i)], tabs |-> <<>>]
  /\ out = NoOut
  /\ hist = <<>>

TotalRows(in) == SumSeq([b \in 1..Len(in.tabs) |-> Len(in.tabs[b].rows)])
HasCell(tab) == \E i \in 1..Len(tab.rows) : \E j \in 1..Len(tab.rows[i].c) : tab.rows[i].c[j].v # ""
\* what Tables() returns: no table without rows, every table has the unit of some metric in it
WellFormed(in) == \A b \in 1..Len(in.tabs) : in.tabs[b].rows # <<>> /\ HasCell(in.tabs[b])

StartTable(m) ==
  /\ out = NoOut
  /\ Len(inp.tabs) < MaxTables
  /\ TotalRows(inp) < RowBudget
  /\ WellFormed(inp)
  /\ inp' = [inp EXCEPT !.tabs = Append(@, [m |-> MetricTok(m), u |-> UnitOf(m), rows |-> <<>>])]
  /\ hist' = Append(hist, "table")
  /\ UNCHANGED out

AddRow(n, g, cs, dk) ==
  /\ out = NoOut
  /\ inp.tabs # <<>>
  /\ Len(inp.tabs[Len(inp.tabs)].rows) < MaxRows
  /\ TotalRows(inp) < RowBudget
  /\ LET b == Len(inp.tabs) IN
     inp' = [inp EXCEPT !.tabs[b].rows = Append(@, RowOf(NC(inp), n, g, cs, dk))]
  /\ hist' = Append(hist, "row")
  /\ UNCHANGED out

CanRender == out = NoOut /\ WellFormed(inp)

RenderText ==
  /\ CanRender
  /\ out' = [r |-> "text", nr |-> FALSE, obs |-> OpText(inp)]
  /\ hist' = Append(hist, "text")
  /\ UNCHANGED inp

RenderCSV(nr) ==
  /\ CanRender
  /\ out' = [r |-> "csv", nr |-> nr, obs |-> OpCsv(inp, nr)]
  /\ hist' = Append(hist, "csv")
  /\ UNCHANGED inp

RenderHTML ==
  /\ CanRender
  /\ out' = [r |-> "html", nr |-> FALSE, obs |-> OpHtml(inp)]
  /\ hist' = Append(hist, "html")
  /\ UNCHANGED inp

CellVecs(nc) == [1..nc -> CellIds]

\* rows of tables that are not old-new carry no delta: one representative
Next ==
  \/ \E m \in MetricIds : StartTable(m)
  \/ \E n \in NameIds, g \in GroupIds, cs \in CellVecs(NC(inp)),
        dk \in (IF NC(inp) = 2 THEN DeltaIds ELSE {0}) : AddRow(n, g, cs, dk)
  \/ RenderText
  \/ \E nr \in BOOLEAN : RenderCSV(nr)
  \/ RenderHTML

Spec == Init /\ [][Next]_vars

View == <<inp, out>>

---------------------------------------------------------------------------
(* INVARIANTS *)
TypeOK ==
  /\ NC(inp) \in ConfCounts
  /\ out.r \in {"none", "text", "csv", "html"}
  /\ Len(inp.tabs) <= MaxTables
  /\ \A b \in 1..Len(inp.tabs) : \A i \in 1..Len(inp.tabs[b].rows) : Len(inp.tabs[b].rows[i].c) = NC(inp)

\* the reply of every renderer shows the logical grid of the tables it was given
Conforms ==
  CASE out.r = "text" -> TextShows(out.obs, inp)
    [] out.r = "csv"  -> CsvShows(out.obs, inp, out.nr)
    [] out.r = "html" -> HtmlShows(out.obs, inp)
    [] OTHER -> TRUE

\* lemma: the expected line sequences of the three renderers have the same shape
\* (same blocks, same group header places, same rows) - the logical grid is one
Shape(ls) == [i \in 1..Len(ls) |-> <<ls[i].k, ls[i].opt>>]
SameGrid ==
  (out = NoOut /\ WellFormed(inp)) =>
    /\ Shape(TextLines(inp)) = Shape(CsvLines(inp, FALSE))
    /\ Shape(CsvLines(inp, FALSE)) = Shape(CsvLines(inp, TRUE))
    /\ \A b \in 1..Len(inp.tabs) :
         LET hb == HtmlBody(inp, b)
             tb == SelectSeq(TextLines(inp), LAMBDA x : x.blk = b /\ x.k # "sep")
         IN Shape(SubSeq(hb, 1, Len(hb) - 1)) = Shape(tb)

\* rendering is a pure function of the tables (action property)
Pure == [][out' # out => inp' = inp]_vars
=============================================================================
