--------------------------- MODULE LegacyRender_gen ---------------------------
(* Generator wrapper (mode G) for LegacyRender: the caller's side of the model   *)
(* alone (StartTable / AddRow, no render step - the real renderers are run by    *)
(* the harness), every value a caller can build within the constants.  For every *)
(* well-formed value one replay case is printed:                                 *)
(*   cfg, tabs   the value (tokens [t, w]; cells [v, tv, d, w])                  *)
(*   text        what FormatText must show: lines [kind, optional, block,        *)
(*               cells [t, w, alignment, blank fill]] and gw, the widest cell of *)
(*               every column over the whole output (bound of the padding)       *)
(*   csv, csvnr  what FormatCSV must show (norange false / true): lines          *)
(*               [kind, optional, acceptable field sequences]                    *)
(*   html        what FormatHTML must show: table class, configuration header,   *)
(*               bodies of lines [kind, optional, like, class, cells [t, class,  *)
(*               least colspan, greatest colspan]]                               *)
(* All of it comes from the declarative side of LegacyRender.tla (TextLines,     *)
(* CsvLines, HtmlBody); the lemma SameGrid is checked on every printed value.    *)
EXTENDS LegacyRender, Json

B(b) == IF b THEN 1 ELSE 0
T2(tok) == <<tok.t, tok.w>>

RowJson(r) == [n |-> T2(r.n), g |-> T2(r.g), c |-> [i \in 1..Len(r.c) |-> <<r.c[i].v, r.c[i].tv, r.c[i].d, r.c[i].w>>],
               dl |-> T2(r.dl), nt |-> T2(r.nt), ch |-> ToString(r.ch)]
TabJson(tab) == [m |-> T2(tab.m), u |-> tab.u, rows |-> [i \in 1..Len(tab.rows) |-> RowJson(tab.rows[i])]]

TextJson(ls) == [i \in 1..Len(ls) |->
   <<ls[i].k, B(ls[i].opt), ls[i].blk,
     [j \in 1..Len(ls[i].cols) |-> <<ls[i].cols[j].t, ls[i].cols[j].w, ls[i].cols[j].al, ls[i].cols[j].pad>>]>>]
CsvJson(ls) == [i \in 1..Len(ls) |-> <<ls[i].k, B(ls[i].opt), ls[i].alts>>]
HtmlJson(in) ==
  [cls |-> IF OldNew(in) THEN "oldnew" ELSE "",
   cfg |-> [i \in 1..NC(in) |-> in.cfg[i].t],
   cfgopt |-> B(NC(in) = 1),
   bodies |-> [b \in 1..Len(in.tabs) |->
      LET hb == HtmlBody(in, b) IN
      [i \in 1..Len(hb) |-> <<hb[i].k, B(hb[i].opt), hb[i].like, hb[i].cls,
                              [j \in 1..Len(hb[i].cells) |->
                                 <<hb[i].cells[j].t, hb[i].cells[j].cls, hb[i].cells[j].lo, hb[i].cells[j].hi>>]>>]]]

CaseOf(in) ==
  LET tl == TextLines(in) IN
  [tag |-> "case",
   cfg |-> [i \in 1..NC(in) |-> T2(in.cfg[i])],
   tabs |-> [b \in 1..Len(in.tabs) |-> TabJson(in.tabs[b])],
   text |-> TextJson(tl),
   gw |-> [j \in 1..NCols(in) |-> GWidth(tl, j)],
   csv |-> CsvJson(CsvLines(in, FALSE)),
   csvnr |-> CsvJson(CsvLines(in, TRUE)),
   html |-> HtmlJson(in)]

BuildNext ==
  \/ \E m \in MetricIds : StartTable(m)
  \/ \E n \in NameIds, g \in GroupIds, cs \in CellVecs(NC(inp)),
        dk \in (IF NC(inp) = 2 THEN DeltaIds ELSE {0}) : AddRow(n, g, cs, dk)
GenSpec == Init /\ [][BuildNext]_vars

EmitCase == (inp.tabs # <<>> /\ WellFormed(inp)) => (SameGrid /\ PrintT(ToJson(CaseOf(inp))))

(* -simulate: one row per step drawn at random over the large alphabets *)
SimNext ==
  \/ /\ inp.tabs = <<>> \/ (WellFormed(inp) /\ RandomElement(1..3) = 1)
     /\ \E m \in {RandomElement(MetricIds)} : StartTable(m)
  \/ \E n \in {RandomElement(NameIds)}, g \in {RandomElement(GroupIds)}, cs \in {RandomElement(CellVecs(NC(inp)))},
        dk \in {IF NC(inp) = 2 THEN RandomElement(DeltaIds) ELSE 0} : AddRow(n, g, cs, dk)
SimSpec == Init /\ [][SimNext]_vars
EmitFull == (TotalRows(inp) = RowBudget /\ WellFormed(inp)) => (SameGrid /\ PrintT(ToJson(CaseOf(inp))))
=============================================================================
