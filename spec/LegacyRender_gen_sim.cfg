SPECIFICATION SimSpec
CONSTANTS
  ConfCounts = {1, 2, 3}
  MaxTables = 3
  MaxRows = 4
  RowBudget = 6
  NameIds = {1, 2, 3}
  GroupIds = {0, 1, 2}
  CellIds = {0, 1, 2, 3, 4}
  DeltaIds = {1, 2, 3, 4, 5, 6, 7}
  MetricIds = {1, 2}
  CsvUnitFromFirstCell = FALSE
  CsvPmOverNote = FALSE
  Tolerated = {"pm-over-note"}
INVARIANTS EmitFull
CHECK_DEADLOCK FALSE
