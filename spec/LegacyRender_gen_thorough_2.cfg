SPECIFICATION GenSpec
CONSTANTS
  ConfCounts = {2}
  MaxTables = 2
  MaxRows = 2
  RowBudget = 2
  NameIds = {1, 2}
  GroupIds = {0, 1, 2}
  CellIds = {0, 1, 2}
  DeltaIds = {1, 2, 3, 5, 7}
  MetricIds = {1}
  CsvUnitFromFirstCell = FALSE
  CsvPmOverNote = FALSE
  Tolerated = {"pm-over-note"}
VIEW View
INVARIANTS EmitCase
CHECK_DEADLOCK FALSE
