SPECIFICATION GenSpec
CONSTANTS
  ConfCounts = {3}
  MaxTables = 1
  MaxRows = 2
  RowBudget = 2
  NameIds = {1, 2}
  GroupIds = {0, 1, 2}
  CellIds = {0, 1, 2}
  DeltaIds = {1}
  MetricIds = {1, 2}
  CsvUnitFromFirstCell = FALSE
  CsvPmOverNote = FALSE
  Tolerated = {"pm-over-note"}
VIEW View
INVARIANTS EmitCase
CHECK_DEADLOCK FALSE
