SPECIFICATION Spec
CONSTANTS
  ConfCounts = {1}
  MaxTables = 3
  MaxRows = 3
  RowBudget = 3
  NameIds = {1, 2}
  GroupIds = {0, 1, 2}
  CellIds = {0, 1, 2, 4}
  DeltaIds = {1}
  MetricIds = {1, 2}
  CsvUnitFromFirstCell = FALSE
  CsvPmOverNote = FALSE
  Tolerated = {}
VIEW View
INVARIANTS TypeOK Conforms SameGrid
PROPERTIES Pure
CHECK_DEADLOCK FALSE
