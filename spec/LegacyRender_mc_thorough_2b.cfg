SPECIFICATION Spec
CONSTANTS
  ConfCounts = {2}
  MaxTables = 1
  MaxRows = 3
  RowBudget = 3
  NameIds = {2}
  GroupIds = {0, 1, 2}
  CellIds = {1, 2}
  DeltaIds = {1, 2, 4}
  MetricIds = {1}
  CsvUnitFromFirstCell = FALSE
  CsvPmOverNote = FALSE
  Tolerated = {}
VIEW View
INVARIANTS TypeOK Conforms SameGrid
PROPERTIES Pure
CHECK_DEADLOCK FALSE
