SPECIFICATION Spec
CONSTANTS
  ConfCounts = {3}
  MaxTables = 1
  MaxRows = 3
  RowBudget = 3
  NameIds = {1}
  GroupIds = {0, 1}
  CellIds = {0, 1, 2}
  DeltaIds = {1}
  MetricIds = {2}
  CsvUnitFromFirstCell = FALSE
  CsvPmOverNote = FALSE
  Tolerated = {}
VIEW View
INVARIANTS TypeOK Conforms SameGrid
PROPERTIES Pure
CHECK_DEADLOCK FALSE
