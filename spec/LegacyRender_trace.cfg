SPECIFICATION TSpec
CONSTANTS
  ConfCounts = {1, 2, 3, 4}
  MaxTables = 3
  MaxRows = 9
  RowBudget = 9
  NameIds = {}
  GroupIds = {}
  CellIds = {}
  DeltaIds = {}
  MetricIds = {}
  CsvUnitFromFirstCell = FALSE
  CsvPmOverNote = FALSE
  Tolerated = {"pm-over-note"}
CONSTRAINT HW
POSTCONDITION Post
CHECK_DEADLOCK FALSE
