-------------------------- MODULE LegacyRender_trace --------------------------
(* Trace validation (mode T) for LegacyRender: events recorded by the harness's  *)
(* seeded driver from the REAL renderers, on values beyond TLC's bounds (up to 4 *)
(* configurations, 3 tables, 9 rows, random names / groups / notes, the special  *)
(* units with the real NewScaler).                                               *)
(*   input  the caller's value (cfg, tabs; tokens with their widths)             *)
(*   text   FormatText was called; obs = lines of [s, e, t]                      *)
(*   csv    FormatCSV(norange = nr) was called; obs = lines of field tokens      *)
(*   html   FormatHTML was called; obs = [cls, cfg, bodies]                      *)
(* Each render event is the specification's Render action with the OBSERVED      *)
(* output in place of the transcription's; the step is enabled only if the       *)
(* declarative side accepts the output (TextShows / CsvShows / HtmlShows).  A    *)
(* trace that cannot be consumed to its end is rejected; the driver reports the  *)
(* first event that no step matches.                                             *)
EXTENDS LegacyRender, Json

TraceLog == ndJsonDeserialize("trace.ndjson")

VARIABLE l
tvars == <<vars, l>>

Ev == TraceLog[l]

TInit == /\ inp = [cfg |-> <<>>, tabs |-> <<>>] /\ out = NoOut /\ hist = <<>> /\ l = 1

TraceInput ==
  /\ l <= Len(TraceLog) /\ Ev.ev = "input"
  /\ inp' = [cfg |-> Ev.cfg, tabs |-> Ev.tabs]
  /\ WellFormed(inp')
  /\ out' = NoOut /\ hist' = <<>>
  /\ l' = l + 1

TraceText ==
  /\ l <= Len(TraceLog) /\ Ev.ev = "text"
  /\ TextShows(Ev.obs, inp)
  /\ out' = [r |-> "text", nr |-> FALSE, obs |-> Ev.obs]
  /\ hist' = Append(hist, "text")
  /\ l' = l + 1 /\ UNCHANGED inp

TraceCSV ==
  /\ l <= Len(TraceLog) /\ Ev.ev = "csv"
  /\ CsvShows(Ev.obs, inp, Ev.nr)
  /\ out' = [r |-> "csv", nr |-> Ev.nr, obs |-> Ev.obs]
  /\ hist' = Append(hist, "csv")
  /\ l' = l + 1 /\ UNCHANGED inp

TraceHTML ==
  /\ l <= Len(TraceLog) /\ Ev.ev = "html"
  /\ HtmlShows(Ev.obs, inp)
  /\ out' = [r |-> "html", nr |-> FALSE, obs |-> Ev.obs]
  /\ hist' = Append(hist, "html")
  /\ l' = l + 1 /\ UNCHANGED inp

TNext == TraceInput \/ TraceText \/ TraceCSV \/ TraceHTML
TSpec == TInit /\ [][TNext]_tvars

HW == IF l > TLCGet(1) THEN TLCSet(1, l) ELSE TRUE
Post == PrintT("TRACE hwm=" \o ToString(TLCGet(1) - 1) \o " len=" \o ToString(Len(TraceLog)))
ASSUME TLCSet(1, 0)
=============================================================================
