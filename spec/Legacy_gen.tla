------------------------------- MODULE Legacy_gen -------------------------------
(* Generator wrapper (mode G) for Legacy: the same exploration as Legacy.tla; every  *)
(* collection that belongs to its plan's family is printed as one JSON replay case   *)
(*   cfgs   the configurations: lines [b, g, ms = <<unit, value>>...]                 *)
(*   set    the settings                                                             *)
(*   skip   "" | "fence": marked float hazard (the harness does not judge the case)  *)
(*   fence  "" | "flat" | "interp": a value exactly on a fence; "flat" is exact in     *)
(*          floats for integral values, the harness keeps them integral             *)
(*   exp    what the library must report: unit order, group order, one table per      *)
(*          unit with its rows in first-appearance order (cells: measured values,    *)
(*          retained values, min, max, sum, n; comparison: error class, exact p,     *)
(*          gate, delta as a rational, what is rendered if p < alpha / if not), the   *)
(*          display order, the delta sort keys and the geomean membership.           *)
(* All expected values come from the definitions of Legacy.tla.                      *)
(*   cell   every non-empty prefix; pair: every prefix with a non-empty second        *)
(*          configuration; small, sim: finished collections.                         *)
EXTENDS Legacy, Json

EmitWhen ==
  /\ set # NoSet
  /\ CASE plan.fam = "cell" -> Len(cfgs[1]) >= 1
       [] plan.fam = "pair" -> NC = 2 /\ Len(cfgs[2]) >= 1
       [] OTHER -> Done

CaseJson(e) ==
  [tag |-> "case", fam |-> plan.fam, cfgs |-> cfgs, set |-> set, skip |-> SkipReason(e), fence |-> FenceHazard(e), exp |-> e]

Emit == EmitWhen => \A e \in {Expected} : PrintT(ToJson(CaseJson(e)))

\* -simulate: TLC evaluates the invariants on EVERY successor it generates before it
\* picks one at random, so a wide choice per step is expensive.  SimSpec draws the
\* settings and each line with RandomElement instead (one successor per step, one
\* finished collection per behaviour; the random stream is seeded by -seed).
SimNext ==
  \/ /\ set = NoSet
     /\ set' = RandomElement(SettingsOf(plan.fam))
     /\ UNCHANGED <<cfgs, plan>>
  \/ NewCfg
  \/ /\ set # NoSet /\ Len(cfgs[NC]) < plan.lens[NC]
     /\ \E l \in {RandomElement(LineU)} : AddLine(l)
SimSpec == Init /\ [][SimNext]_vars

\* the same with the lemmas checked on the emitted collection (for -simulate)
EmitChecked == EmitWhen => \A e \in {Expected} : Lemmas(e) /\ PrintT(ToJson(CaseJson(e)))
=============================================================================
