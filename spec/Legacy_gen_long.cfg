SPECIFICATION SimSpec
CONSTANTS
  Plans <- LongPlans
INVARIANTS TypeOK EmitChecked
CHECK_DEADLOCK FALSE
