SPECIFICATION SimSpec
CONSTANTS
  Plans <- LongPlansQuick
INVARIANTS TypeOK Emit
CHECK_DEADLOCK FALSE
