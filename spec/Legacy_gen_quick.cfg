SPECIFICATION Spec
CONSTANTS
  Plans <- QuickPlans
INVARIANTS Emit
CHECK_DEADLOCK FALSE
