SPECIFICATION SimSpec
CONSTANTS
  Plans <- SimPlans
INVARIANTS TypeOK EmitChecked
CHECK_DEADLOCK FALSE
