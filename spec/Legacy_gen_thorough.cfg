SPECIFICATION Spec
CONSTANTS
  Plans <- ThoroughPlans
INVARIANTS Emit
CHECK_DEADLOCK FALSE
