SPECIFICATION Spec
CONSTANTS
  Plans <- ThoroughCellPlans
INVARIANTS Emit
CHECK_DEADLOCK FALSE
