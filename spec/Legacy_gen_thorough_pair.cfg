SPECIFICATION Spec
CONSTANTS
  Plans <- ThoroughPairPlans
INVARIANTS Emit
CHECK_DEADLOCK FALSE
