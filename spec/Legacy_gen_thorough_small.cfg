SPECIFICATION Spec
CONSTANTS
  Plans <- ThoroughSmallPlans
INVARIANTS Emit
CHECK_DEADLOCK FALSE
