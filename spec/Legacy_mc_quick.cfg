SPECIFICATION Spec
CONSTANTS
  Plans <- QuickPlans
INVARIANTS AllOK
CHECK_DEADLOCK FALSE
