SPECIFICATION Spec
CONSTANTS
  Plans <- ThoroughPlans
INVARIANTS AllOK
CHECK_DEADLOCK FALSE
