--------------------------------- MODULE Lexer ---------------------------------
(* Expression syntax of golang.org/x/perf/benchproc (filters and projections).     *)
(*                                                                                 *)
(* Text is a sequence of one-character strings.  The module has three layers:      *)
(*  1. Go-style quoting restricted to the alphabet: Quote, Unq.                    *)
(*  2. DECLARATIVE: the documented lexical rules (benchproc/syntax) and the two    *)
(*     documented grammars as list-of-successes recognisers (every derivation is   *)
(*     followed; a text is accepted iff some derivation consumes it).  No error    *)
(*     tracking, no lookahead discipline.  Parameter L = TRUE gives the lenient    *)
(*     language the code is free to accept beyond the documentation (AND without   *)
(*     a following term, empty projection); the property forbids neither.          *)
(*  3. OPERATIONAL: transcription of benchproc/internal/parse (tok.go, filter.go,  *)
(*     projection.go): on-demand tokenizer with key/value mode, space skipping     *)
(*     that moves the caller's tokenizer, first-error tracker with byte offsets,   *)
(*     recursive descent with the code's peek/consume pattern, and an explicit     *)
(*     termination measure.                                                        *)
(*                                                                                 *)
(* QuoteEndsAtBackslashQuote = TRUE re-enables the deviation of the code as        *)
(* shipped: when looking for the closing quote, ANY quote preceded by a backslash  *)
(* is skipped, so a quoted word ending in an escaped backslash ("a\\") is          *)
(* unterminated or mis-scanned (Lexer_asbuilt.cfg shows the counterexample).       *)
(*                                                                                 *)
(* One state per text; Next appends one chunk (a character, or in the token        *)
(* configurations a whole word / operator / keyword), so TLC walks all texts up    *)
(* to the bound in parallel and checks the invariants on each.                     *)
EXTENDS Integers, Sequences, FiniteSets, TLC

CONSTANTS Alphabet, Chunks, MaxChunks, Core, MaxLen, CoreLen, WordLen, PairLen, QuoteEndsAtBackslashQuote

SP == " "   DQ == "\""  BS == "\\"  LP == "("   RP == ")"   COL == ":"
AT == "@"   COM == ","  DASH == "-" STAR == "*" SL == "/"
BEL == "^G"      \* the character denoted by \a; never occurs in a text, only in denotations

FullAlphabet == {"a", SP, DQ, BS, LP, RP, COL, AT, COM, DASH, STAR, SL, "O", "R", "A", "N", "D"}
CoreAlphabet == {"a", SP, DQ, BS, LP, RP, COL, AT, SL}
\* Next appends one chunk.  Character exploration: every chunk is one character of the alphabet.
CharChunks == {<<c>> : c \in FullAlphabet}
\* Token exploration (longer, structured texts): whole words, operators and keywords as chunks.
TokenChunks == {<<"a">>, <<DQ, "a", DQ>>, <<DQ, BS, BS, DQ>>, <<SL, "a", SL>>, <<COL>>, <<LP>>, <<RP>>, <<SP>>,
                <<SP, "O", "R", SP>>, <<SP, "A", "N", "D", SP>>, <<DASH>>, <<STAR>>, <<COM>>, <<AT>>,
                <<"a", COL, "a">>, <<"a", COL, LP, "a">>, <<"a", AT, LP, "a">>}
TokenChunksCore == {<<"a">>, <<DQ, "a", DQ>>, <<DQ, BS, BS, DQ>>, <<SL, "a", SL>>, <<COL>>, <<LP>>, <<RP>>, <<SP>>,
                    <<SP, "O", "R", SP>>, <<DASH>>, <<AT>>, <<"a", COL, "a">>}

\* Semantic exploration: the terms the documented rules reject (.config as a filter key, the empty key;
\* .unit as a projection key) in every position among well-formed terms and operators.
SemAlphabet == FullAlphabet \cup {".", "c", "o", "n", "f", "i", "g", "u", "t"}
SemChunks == {<<".", "c", "o", "n", "f", "i", "g", COL, "a">>, <<DQ, DQ, COL, "a">>, <<"a", COL, "a">>,
              <<".", "u", "n", "i", "t">>, <<"a">>, <<COM>>,
              <<SP>>, <<SP, "O", "R", SP>>, <<DASH>>, <<LP>>, <<RP>>}

IsOp(c)      == c \in {LP, RP, COL, AT, COM}
IsStartOp(c) == IsOp(c) \/ c \in {DASH, STAR}
IsSpace(c)   == c = SP
W_AND == <<"A", "N", "D">>
W_OR  == <<"O", "R">>

MinOf(S) == CHOOSE x \in S : \A y \in S : x <= y

(* ------------------------------ 1. quoting ------------------------------ *)
QuoteChar(c) == IF c = DQ THEN <<BS, DQ>> ELSE IF c = BS THEN <<BS, BS>>
                ELSE IF c = BEL THEN <<BS, "a">> ELSE <<c>>
QuoteBody(w) == LET f[i \in 0..Len(w)] == IF i = 0 THEN <<>> ELSE f[i-1] \o QuoteChar(w[i]) IN f[Len(w)]
Quote(w)     == <<DQ>> \o QuoteBody(w) \o <<DQ>>

\* Go's strconv.Unquote on the body of a double-quoted literal, for this alphabet:
\* escapes \\ \" \a, every other backslash pair is invalid, a raw quote is invalid.
Unq(b) ==
  LET bad == [ok |-> FALSE, w |-> <<>>]
      f[i \in 1..Len(b)+1] ==
        IF i > Len(b) THEN [ok |-> TRUE, w |-> <<>>]
        ELSE IF b[i] = BS THEN
               IF i = Len(b) THEN bad
               ELSE IF b[i+1] \in {BS, DQ, "a"}
                    THEN LET r == f[i+2] IN
                         [ok |-> r.ok, w |-> <<(IF b[i+1] = "a" THEN BEL ELSE b[i+1])>> \o r.w]
                    ELSE bad
        ELSE IF b[i] = DQ THEN bad
        ELSE LET r == f[i+1] IN [ok |-> r.ok, w |-> <<b[i]>> \o r.w]
  IN f[1]

\* Go's regexp syntax (regexp.Compile, Perl flags) restricted to the alphabet:
\* literals, groups, star, backslash escapes.  Library behaviour, shared by both sides;
\* the harness cross-checks it against regexp.Compile on every replayed text.
ReEscBad == {"O", "R", "N"}
RECURSIVE ReScan(_, _, _, _)
ReScan(b, i, d, last) ==      \* last: "none" at the start or just after "(", "atom", "star"
  IF i > Len(b) THEN d = 0
  ELSE IF b[i] = BS   THEN i < Len(b) /\ b[i+1] \notin ReEscBad /\ ReScan(b, i+2, d, "atom")
  ELSE IF b[i] = LP   THEN ReScan(b, i+1, d+1, "none")
  ELSE IF b[i] = RP   THEN d > 0 /\ ReScan(b, i+1, d-1, "atom")
  ELSE IF b[i] = STAR THEN last = "atom" /\ ReScan(b, i+1, d, "star")
  ELSE ReScan(b, i+1, d, "atom")
ReValid(b) == ReScan(b, 1, 0, "none")

(* ------------------------- 2. declarative side ------------------------- *)
\* length of the run of backslashes immediately before position j
RECURSIVE BsRun(_, _)
BsRun(s, j) == IF j > 1 /\ s[j-1] = BS THEN 1 + BsRun(s, j-1) ELSE 0

\* a quoted word opened at i ends at the first quote NOT preceded by an odd run of backslashes
DQuoteEnd(s, i) ==
  LET C == {j \in i+1..Len(s) : s[j] = DQ /\ BsRun(s, j) % 2 = 0} IN IF C = {} THEN 0 ELSE MinOf(C)

\* a regexp opened at i ends at the first unescaped "/" at which the unescaped
\* parentheses seen so far are balanced
DRegexpEnd(s, i) ==
  LET Un(j)  == BsRun(s, j) % 2 = 0
      Cnt(j, c) == Cardinality({m \in i+1..j-1 : s[m] = c /\ Un(m)})
      C == {j \in i+1..Len(s) : s[j] = SL /\ Un(j) /\ Cnt(j, LP) = Cnt(j, RP)}
  IN IF C = {} THEN 0 ELSE MinOf(C)

Skip(s, i) == LET C == {j \in i..Len(s) : ~IsSpace(s[j])} IN IF C = {} THEN Len(s)+1 ELSE MinOf(C)
BareEnd(s, i) == LET C == {j \in i..Len(s) : IsSpace(s[j]) \/ IsOp(s[j])} IN IF C = {} THEN Len(s)+1 ELSE MinOf(C)

\* token starting at or after i0; vp = value position (a regexp may start here)
\* kinds: "eof", "err", the operator characters, "w" bare, "q" quoted, "r" regexp, "A" AND, "O" OR
DTok(s, i0, vp) ==
  LET i == Skip(s, i0)
      Err == [k |-> "err", b |-> i, e |-> Len(s)+1, w |-> <<>>]
  IN
  IF i > Len(s) THEN [k |-> "eof", b |-> i, e |-> i, w |-> <<>>]
  ELSE IF IsStartOp(s[i]) THEN [k |-> s[i], b |-> i, e |-> i+1, w |-> <<>>]
  ELSE IF vp /\ s[i] = SL THEN
    LET j == DRegexpEnd(s, i) IN
    IF j = 0 THEN Err
    ELSE LET body == SubSeq(s, i+1, j-1) IN
         IF ~ReValid(body) THEN Err
         ELSE IF j < Len(s) /\ ~(IsSpace(s[j+1]) \/ IsStartOp(s[j+1])) THEN Err
         ELSE [k |-> "r", b |-> i, e |-> j+1, w |-> body]
  ELSE IF s[i] = DQ THEN
    LET j == DQuoteEnd(s, i) IN
    IF j = 0 THEN Err
    ELSE LET u == Unq(SubSeq(s, i+1, j-1)) IN
         IF ~u.ok THEN Err ELSE [k |-> "q", b |-> i, e |-> j+1, w |-> u.w]
  ELSE
    LET e == BareEnd(s, i)
        w == SubSeq(s, i, e-1)
    IN [k |-> IF w = W_AND THEN "A" ELSE IF w = W_OR THEN "O" ELSE "w", b |-> i, e |-> e, w |-> w]

IsWordK(k) == k \in {"w", "q"}
IsValK(k)  == k \in {"w", "q", "r"}

\* trees, uniform shape
Node(op, k, v, a) == [op |-> op, k |-> k, v |-> v, a |-> a]
NoTree   == Node("nil", <<>>, <<>>, <<>>)
AllT     == Node("all", <<>>, <<>>, <<>>)
Lit(k,v) == Node("lit", k, v, <<>>)
Re(k,b)  == Node("re", k, b, <<>>)
Not(x)   == Node("not", <<>>, <<>>, <<x>>)
And(xs)  == IF Len(xs) = 1 THEN xs[1] ELSE Node("and", <<>>, <<>>, xs)
Or(xs)   == IF Len(xs) = 1 THEN xs[1] ELSE Node("or", <<>>, <<>>, xs)
Term(key, tok) == IF tok.k = "r" THEN Re(key, tok.w) ELSE Lit(key, tok.w)

\*  expr = andExpr {"OR" andExpr}      andExpr = match {"AND"? match}
\*  match = "(" expr ")" | "-" match | "*" | key ":" value | key ":" "(" value {"OR" value} ")"
RECURSIVE DExpr(_, _, _), DOrRest(_, _, _, _), DAndE(_, _, _), DAndRest(_, _, _, _), DMatch(_, _, _), DList(_, _, _, _)

DMatch(s, i, L) ==
  LET t == DTok(s, i, FALSE) IN
  IF t.k = LP THEN
    {[e |-> DTok(s, x.e, FALSE).e, t |-> x.t] : x \in {y \in DExpr(s, t.e, L) : DTok(s, y.e, FALSE).k = RP}}
  ELSE IF t.k = DASH THEN {[e |-> x.e, t |-> Not(x.t)] : x \in DMatch(s, t.e, L)}
  ELSE IF t.k = STAR THEN {[e |-> t.e, t |-> AllT]}
  ELSE IF IsWordK(t.k) THEN
    LET c == DTok(s, t.e, FALSE) IN
    IF c.k # COL THEN {}
    ELSE LET v == DTok(s, c.e, TRUE) IN
         IF IsValK(v.k) THEN {[e |-> v.e, t |-> Term(t.w, v)]}
         ELSE IF v.k = LP THEN DList(s, v.e, t.w, <<>>)
         ELSE {}
  ELSE {}

DList(s, i, key, acc) ==
  LET v == DTok(s, i, TRUE) IN
  IF ~IsValK(v.k) THEN {}
  ELSE LET acc2 == Append(acc, Term(key, v))
           n == DTok(s, v.e, FALSE)
       IN IF n.k = RP THEN {[e |-> n.e, t |-> Or(acc2)]}
          ELSE IF n.k = "O" THEN DList(s, n.e, key, acc2)
          ELSE {}

DAndE(s, i, L) == UNION {DAndRest(s, x.e, <<x.t>>, L) : x \in DMatch(s, i, L)}
DAndRest(s, e, acc, L) ==
  LET t == DTok(s, e, FALSE) IN
  {[e |-> e, t |-> And(acc)]}
  \cup UNION {DAndRest(s, y.e, Append(acc, y.t), L) : y \in DMatch(s, e, L)}
  \cup (IF t.k = "A"
        THEN IF L THEN DAndRest(s, t.e, acc, L)
             ELSE UNION {DAndRest(s, y.e, Append(acc, y.t), L) : y \in DMatch(s, t.e, L)}
        ELSE {})

DExpr(s, i, L) == UNION {DOrRest(s, x.e, <<x.t>>, L) : x \in DAndE(s, i, L)}
DOrRest(s, e, acc, L) ==
  LET t == DTok(s, e, FALSE) IN
  {[e |-> e, t |-> Or(acc)]}
  \cup (IF t.k = "O" THEN UNION {DOrRest(s, y.e, Append(acc, y.t), L) : y \in DAndE(s, t.e, L)} ELSE {})

DFilterSet(s, L) == {x.t : x \in {y \in DExpr(s, 1, L) : DTok(s, y.e, FALSE).k = "eof"}}
DFilter(s, L) == LET R == DFilterSet(s, L) IN
  IF R = {} THEN [ok |-> FALSE, t |-> NoTree] ELSE [ok |-> TRUE, t |-> CHOOSE x \in R : TRUE]

\*  expr = part {","? part}    part = key | key "@" order | key "@" "(" word {word} ")"
Fld(key, kind, name, fixed) == [k |-> key, o |-> kind, n |-> name, f |-> fixed]   \* kind: first / named / fixed
RECURSIVE DWords(_, _, _, _), DProjRest(_, _, _)
DWords(s, i, key, acc) ==
  LET w == DTok(s, i, FALSE) IN
  IF ~IsWordK(w.k) THEN {}
  ELSE LET acc2 == Append(acc, w.w)
           n == DTok(s, w.e, FALSE)
       IN (IF n.k = RP THEN {[e |-> n.e, f |-> Fld(key, "fixed", <<>>, acc2)]} ELSE {})
          \cup DWords(s, w.e, key, acc2)
DPart(s, i) ==
  LET t == DTok(s, i, FALSE) IN
  IF ~IsWordK(t.k) THEN {}
  ELSE LET a == DTok(s, t.e, FALSE) IN
       {[e |-> t.e, f |-> Fld(t.w, "first", <<>>, <<>>)]}
       \cup (IF a.k # AT THEN {}
             ELSE LET o == DTok(s, a.e, FALSE) IN
                  IF IsWordK(o.k) THEN {[e |-> o.e, f |-> Fld(t.w, "named", o.w, <<>>)]}
                  ELSE IF o.k = LP THEN DWords(s, o.e, t.w, <<>>)
                  ELSE {})
DProjRest(s, e, acc) ==
  LET t == DTok(s, e, FALSE) IN
  {[e |-> e, fs |-> acc]}
  \cup UNION {DProjRest(s, y.e, Append(acc, y.f)) : y \in DPart(s, e)}
  \cup (IF t.k = COM THEN UNION {DProjRest(s, y.e, Append(acc, y.f)) : y \in DPart(s, t.e)} ELSE {})
DProjSet(s, L) ==
  LET all == UNION {DProjRest(s, x.e, <<x.f>>) : x \in DPart(s, 1)} \cup (IF L THEN {[e |-> 1, fs |-> <<>>]} ELSE {})
  IN {x.fs : x \in {y \in all : DTok(s, y.e, FALSE).k = "eof"}}
DProj(s, L) == LET R == DProjSet(s, L) IN
  IF R = {} THEN [ok |-> FALSE, fs |-> <<>>] ELSE [ok |-> TRUE, fs |-> CHOOSE x \in R : TRUE]

\* documented rules beyond the grammar
K_config == <<".", "c", "o", "n", "f", "i", "g">>
K_unit   == <<".", "u", "n", "i", "t">>
\* alpha and num are the documented named orders; "first" is the name the parser's own
\* documentation gives to the default order and is accepted as well.  Anything else -
\* in particular the parser-internal marker "fixed" - is an unknown sort order.
KnownOrders == {<<"a", "l", "p", "h", "a">>, <<"n", "u", "m">>, <<"f", "i", "r", "s", "t">>}
RECURSIVE TreeKeys(_)
TreeKeys(t) == IF t.op \in {"lit", "re"} THEN {t.k}
               ELSE UNION {TreeKeys(t.a[i]) : i \in 1..Len(t.a)}
FilterSemOK(t) == \A k \in TreeKeys(t) : k # <<>> /\ k # K_config
FieldSemOK(f) == /\ f.k # <<>> /\ f.k # K_unit
                 /\ (f.o = "named" => f.n \in KnownOrders)
                 /\ ~(f.k = K_config /\ f.o = "fixed")
ProjSemOK(fs) == \A i \in 1..Len(fs) : FieldSemOK(fs[i])

\* verdict the real code must show: accept / reject / free (the statement does not decide)
Verdict(strictOK, lenientOK, semOK) ==
  IF ~lenientOK THEN "reject"
  ELSE IF ~semOK THEN "reject"
  ELSE IF strictOK THEN "accept" ELSE "free"
FilterVerdict(s) == LET a == DFilter(s, FALSE)  b == DFilter(s, TRUE) IN
  Verdict(a.ok, b.ok, b.ok => FilterSemOK(b.t))
ProjVerdict(s) == LET a == DProj(s, FALSE)  b == DProj(s, TRUE) IN
  Verdict(a.ok, b.ok, b.ok => ProjSemOK(b.fs))

(* ------------------------- 3. operational side ------------------------- *)
\* positions are 1-based indices into s; the byte offset of position p is p-1.
\* err is the first recorded error offset, -1 = none (errorTracker).
E(err, new) == IF err # -1 THEN err ELSE new
End(s) == Len(s) + 1

\* quotedWord: as built, or with escape tracking
RECURSIVE OQuoteScanBuilt(_, _), OQuoteScanFixed(_, _)
OQuoteScanBuilt(s, j) == IF j <= Len(s) /\ (s[j] # DQ \/ s[j-1] = BS) THEN OQuoteScanBuilt(s, j+1) ELSE j
OQuoteScanFixed(s, j) == IF j <= Len(s) /\ s[j] # DQ
                         THEN OQuoteScanFixed(s, IF s[j] = BS THEN j+2 ELSE j+1) ELSE j
RECURSIVE OBareScan(_, _), OSkip(_, _), ORegexpScan(_, _, _)
OBareScan(s, j) == IF j <= Len(s) /\ ~(IsSpace(s[j]) \/ IsOp(s[j])) THEN OBareScan(s, j+1) ELSE j
OSkip(s, j) == IF j <= Len(s) /\ IsSpace(s[j]) /\ ~IsStartOp(s[j]) THEN OSkip(s, j+1) ELSE j
\* regexpParseUntil: 0 = no delimiter
ORegexpScan(s, j, cp) ==
  IF j > Len(s) THEN 0
  ELSE IF cp = 0 /\ s[j] = SL THEN j
  ELSE IF s[j] = LP THEN ORegexpScan(s, j+1, cp+1)
  ELSE IF s[j] = RP THEN ORegexpScan(s, j+1, cp-1)
  ELSE IF s[j] = BS THEN ORegexpScan(s, j+2, cp)
  ELSE ORegexpScan(s, j+1, cp)

\* tokenizer.next.  Result: k kind ("eof" for the end-of-string token, which is also what
\* an error returns), w word, np position of the returned tokenizer, sp position the
\* RECEIVER is left at (next skips spaces in place; the regexp follow-error moves it
\* further), eo error offset raised by this call or -1.
OTokR(k, w, np, sp, eo) == [k |-> k, w |-> w, np |-> np, sp |-> sp, eo |-> eo]
ONext(s, p0, vp, bq) ==
  LET p == OSkip(s, p0)
      ErrAt(q) == OTokR("eof", <<>>, End(s), q, q - 1)
  IN
  IF p > Len(s) THEN OTokR("eof", <<>>, End(s), p, -1)
  ELSE IF IsStartOp(s[p]) THEN OTokR(s[p], <<>>, p+1, p, -1)
  ELSE IF vp /\ s[p] = SL THEN
    LET j == ORegexpScan(s, p+1, 0) IN
    IF j = 0 THEN ErrAt(p)
    ELSE LET body == SubSeq(s, p+1, j-1) IN
         IF ~ReValid(body) THEN ErrAt(p)
         ELSE IF j < Len(s) /\ ~(IsSpace(s[j+1]) \/ IsStartOp(s[j+1])) THEN ErrAt(j+1)
         ELSE OTokR("r", body, j+1, p, -1)
  ELSE IF s[p] = DQ THEN
    LET j == IF bq THEN OQuoteScanBuilt(s, p+1) ELSE OQuoteScanFixed(s, p+1) IN
    IF j > Len(s) THEN ErrAt(p)
    ELSE LET u == Unq(SubSeq(s, p+1, j-1)) IN
         IF ~u.ok THEN ErrAt(p) ELSE OTokR("q", u.w, j+1, p, -1)
  ELSE
    LET e == OBareScan(s, p)
        w == SubSeq(s, p, e-1)
    IN OTokR(IF w = W_AND THEN "A" ELSE IF w = W_OR THEN "O" ELSE "w", w, e, p, -1)

\* termination measure: 6 * (remaining characters) + rank of the procedure
Mu(s, p, rank) == 6 * (End(s) - p) + rank
PR(t, p, err, dec) == [t |-> t, p |-> p, err |-> err, dec |-> dec]
Stuck(s) == PR(NoTree, End(s), -1, FALSE)

RECURSIVE OExprLoop(_, _, _, _, _, _), OAnd(_, _, _, _, _), OAndLoop(_, _, _, _, _, _),
          OMatch(_, _, _, _, _), OListLoop(_, _, _, _, _, _, _)

\* parser.match
OMatch(s, start0, err0, bq, m) ==
  LET me == Mu(s, start0, 2) IN
  IF me >= m THEN Stuck(s) ELSE
  LET tok   == ONext(s, start0, FALSE, bq)
      start == tok.sp
      err1  == E(err0, tok.eo)
      rest  == tok.np
  IN
  IF tok.k = LP THEN
    LET r  == OExprLoop(s, rest, err1, <<>>, bq, me)
        op == ONext(s, r.p, FALSE, bq)
        err2 == E(r.err, op.eo)
    IN IF op.k # RP THEN PR(NoTree, End(s), E(err2, op.sp - 1), r.dec)
       ELSE PR(r.t, op.np, err2, r.dec)
  ELSE IF tok.k = DASH THEN
    LET r == OMatch(s, rest, err1, bq, me) IN PR(Not(r.t), r.p, r.err, r.dec)
  ELSE IF tok.k = STAR THEN PR(AllT, rest, err1, TRUE)
  ELSE IF IsWordK(tok.k) THEN
    LET op   == ONext(s, rest, FALSE, bq)
        err2 == E(err1, op.eo)
    IN
    IF op.k # COL THEN PR(NoTree, End(s), E(err2, start - 1), TRUE)
    ELSE
      LET val  == ONext(s, op.np, TRUE, bq)
          err3 == E(err2, val.eo)
      IN
      IF IsValK(val.k) THEN PR(Term(tok.w, val), val.np, err3, TRUE)
      ELSE IF val.k = LP THEN OListLoop(s, val.np, err3, tok.w, <<>>, bq, me)
      ELSE PR(NoTree, End(s), E(err3, start - 1), TRUE)
  ELSE PR(NoTree, End(s), E(err1, start - 1), TRUE)

\* the value-list loop inside parser.match
OListLoop(s, rest0, err0, key, terms, bq, m) ==
  LET me == Mu(s, rest0, 1) IN
  IF me >= m THEN Stuck(s) ELSE
  LET val  == ONext(s, rest0, TRUE, bq)
      err1 == E(err0, val.eo)
  IN
  IF ~IsValK(val.k) THEN PR(NoTree, End(s), E(err1, val.sp - 1), TRUE)
  ELSE
    LET terms2 == Append(terms, Term(key, val))
        sep  == ONext(s, val.np, TRUE, bq)
        err2 == E(err1, sep.eo)
    IN
    IF sep.k = RP THEN PR(Or(terms2), sep.np, err2, TRUE)
    ELSE IF sep.k = "O" THEN OListLoop(s, sep.np, err2, key, terms2, bq, me)
    ELSE PR(NoTree, End(s), E(err2, sep.sp - 1), TRUE)

\* parser.andExpr
OAnd(s, p, err0, bq, m) ==
  LET me == Mu(s, p, 4) IN
  IF me >= m THEN Stuck(s) ELSE
  LET r == OMatch(s, p, err0, bq, me)
      l == OAndLoop(s, r.p, r.err, <<r.t>>, bq, me)
  IN PR(l.t, l.p, l.err, r.dec /\ l.dec)
OAndLoop(s, toks0, err0, terms, bq, m) ==
  LET me == Mu(s, toks0, 3) IN
  IF me >= m THEN Stuck(s) ELSE
  LET op   == ONext(s, toks0, FALSE, bq)
      toks == op.sp
      err1 == E(err0, op.eo)
  IN
  IF op.k = "A" THEN OAndLoop(s, op.np, err1, terms, bq, me)
  ELSE IF op.k \in {LP, DASH, STAR, "w", "q"} THEN
    LET r == OMatch(s, toks, err1, bq, me)
        l == OAndLoop(s, r.p, r.err, Append(terms, r.t), bq, me)
    IN PR(l.t, l.p, l.err, r.dec /\ l.dec)
  ELSE IF op.k \in {RP, "O", "eof"} THEN PR(And(terms), toks, err1, TRUE)
  ELSE PR(NoTree, End(s), E(err1, toks - 1), TRUE)

\* parser.expr
OExprLoop(s, toks0, err0, terms, bq, m) ==
  LET me == Mu(s, toks0, 5) IN
  IF me >= m THEN Stuck(s) ELSE
  LET r    == OAnd(s, toks0, err0, bq, me)
      terms2 == Append(terms, r.t)
      op   == ONext(s, r.p, FALSE, bq)
      err1 == E(r.err, op.eo)
  IN
  IF op.k # "O" THEN PR(Or(terms2), op.sp, err1, r.dec)
  ELSE LET l == OExprLoop(s, op.np, err1, terms2, bq, me) IN PR(l.t, l.p, l.err, r.dec /\ l.dec)

\* ParseFilter
OFilter(s, bq) ==
  LET r   == OExprLoop(s, 1, -1, <<>>, bq, Mu(s, 1, 6))
      tok == ONext(s, r.p, FALSE, bq)
      err1 == E(r.err, tok.eo)
      err2 == IF tok.k # "eof" THEN E(err1, tok.sp - 1) ELSE err1
  IN [ok |-> err2 = -1, t |-> r.t, err |-> err2, dec |-> r.dec]

\* parseField / ParseProjection
FR(f, p, err, dec) == [f |-> f, p |-> p, err |-> err, dec |-> dec]
NoFld == Fld(<<>>, "first", <<>>, <<>>)
RECURSIVE OFixedLoop(_, _, _, _, _, _, _), OProjLoop(_, _, _, _, _, _)
OFixedLoop(s, toks0, err0, key, fixed, bq, m) ==
  LET me == Mu(s, toks0, 0) IN
  IF me >= m THEN FR(NoFld, End(s), -1, FALSE) ELSE
  LET t    == ONext(s, toks0, FALSE, bq)
      err1 == E(err0, t.eo)
  IN
  IF IsWordK(t.k) THEN OFixedLoop(s, t.np, err1, key, Append(fixed, t.w), bq, me)
  ELSE IF t.k = RP THEN
    IF Len(fixed) = 0 THEN FR(Fld(key, "fixed", <<>>, fixed), End(s), E(err1, t.sp - 1), TRUE)
    ELSE FR(Fld(key, "fixed", <<>>, fixed), t.np, err1, TRUE)
  ELSE FR(Fld(key, "fixed", <<>>, fixed), End(s), E(err1, t.sp - 1), TRUE)
OField(s, toks0, err0, bq, m) ==
  LET me == Mu(s, toks0, 1) IN
  IF me >= m THEN FR(NoFld, End(s), -1, FALSE) ELSE
  LET key  == ONext(s, toks0, FALSE, bq)
      err1 == E(err0, key.eo)
  IN
  IF ~IsWordK(key.k) THEN FR(NoFld, End(s), E(err1, key.sp - 1), TRUE)
  ELSE
    LET sep  == ONext(s, key.np, FALSE, bq)
        err2 == E(err1, sep.eo)
    IN
    IF sep.k # AT THEN FR(Fld(key.w, "first", <<>>, <<>>), sep.sp, err2, TRUE)
    ELSE
      LET order == ONext(s, sep.np, FALSE, bq)
          err3  == E(err2, order.eo)
      IN
      IF IsWordK(order.k) THEN FR(Fld(key.w, "named", order.w, <<>>), order.np, err3, TRUE)
      ELSE IF order.k = LP THEN OFixedLoop(s, order.np, err3, key.w, <<>>, bq, me)
      ELSE FR(Fld(key.w, "first", <<>>, <<>>), End(s), E(err3, order.sp - 1), TRUE)
OProjLoop(s, toks0, err0, fields, bq, m) ==
  LET me == Mu(s, toks0, 2) IN
  IF me >= m THEN [fs |-> fields, err |-> -1, dec |-> FALSE] ELSE
  LET tok  == ONext(s, toks0, FALSE, bq)
      err1 == E(err0, tok.eo)
  IN
  IF tok.k = "eof" THEN [fs |-> fields, err |-> err1, dec |-> TRUE]
  ELSE
    LET toks == IF tok.k = COM /\ Len(fields) > 0 THEN tok.np ELSE tok.sp
        r == OField(s, toks, err1, bq, me)
        l == OProjLoop(s, r.p, r.err, Append(fields, r.f), bq, me)
    IN [fs |-> l.fs, err |-> l.err, dec |-> r.dec /\ l.dec]
OProj(s, bq) ==
  LET r == OProjLoop(s, 1, -1, <<>>, bq, Mu(s, 1, 3)) IN
  [ok |-> r.err = -1, fs |-> r.fs, err |-> r.err, dec |-> r.dec]

(* ------------------------------ exploration ------------------------------ *)
VARIABLES text,    \* the expression text
          nchunks  \* number of chunks it was built from (bounds the token exploration)
vars == <<text, nchunks>>
Init == text = <<>> /\ nchunks = 0
Allowed(t) == Len(t) <= MaxLen \/ (Len(t) <= CoreLen /\ \A i \in 1..Len(t) : t[i] \in Core)
Next == /\ nchunks < MaxChunks
        /\ \E c \in Chunks : Allowed(text \o c) /\ text' = text \o c
        /\ nchunks' = nchunks + 1
Spec == Init /\ [][Next]_vars

BQ == QuoteEndsAtBackslashQuote

(* ------------------------------ properties ------------------------------ *)
TypeOK == text \in Seq(Alphabet) /\ Allowed(text) /\ nchunks \in 0..MaxChunks

\* A violated conjunct of TextProps names itself in TLC's output.
Holds(name, cond) == cond \/ (PrintT(<<"violated conjunct", name>>) /\ FALSE)
PickTree(R) == IF R = {} THEN [ok |-> FALSE, t |-> NoTree] ELSE [ok |-> TRUE, t |-> CHOOSE x \in R : TRUE]
PickFlds(R) == IF R = {} THEN [ok |-> FALSE, fs |-> <<>>] ELSE [ok |-> TRUE, fs |-> CHOOSE x \in R : TRUE]

\* the documented grammar is unambiguous and contained in the lenient one
UnambiguousP(fS, fL, pS, pL) ==
  /\ Cardinality(fS) <= 1 /\ Cardinality(fL) <= 1 /\ Cardinality(pS) <= 1 /\ Cardinality(pL) <= 1
  /\ fS \subseteq fL /\ pS \subseteq pL
\* the code's algorithm decides exactly the (lenient) declarative language and builds the same tree
FilterAgreeP(d, o) == o.ok = d.ok /\ (d.ok => o.t = d.t)
ProjAgreeP(d, o)   == o.ok = d.ok /\ (d.ok => o.fs = d.fs)
\* a rejected text gets an error offset inside the text
ErrorOffsetP(s, o) == ~o.ok => o.err \in 0..Len(s)

\* all text-level properties, sharing one evaluation of each parser
TextProps ==
  LET fS == DFilterSet(text, FALSE)   fL == DFilterSet(text, TRUE)
      pS == DProjSet(text, FALSE)     pL == DProjSet(text, TRUE)
      of == OFilter(text, BQ)         op == OProj(text, BQ)
  IN /\ Holds("Unambiguous", UnambiguousP(fS, fL, pS, pL))
     /\ Holds("FilterAgree", FilterAgreeP(PickTree(fL), of))
     /\ Holds("ProjAgree", ProjAgreeP(PickFlds(pL), op))
     /\ Holds("ErrorOffsetInText", ErrorOffsetP(text, of) /\ ErrorOffsetP(text, op))
     /\ Holds("MeasureDecreases", of.dec /\ op.dec)

\* the same properties one by one (for reading and for targeted runs)
Unambiguous == UnambiguousP(DFilterSet(text, FALSE), DFilterSet(text, TRUE), DProjSet(text, FALSE), DProjSet(text, TRUE))
FilterAgree == FilterAgreeP(DFilter(text, TRUE), OFilter(text, BQ))
ProjAgree   == ProjAgreeP(DProj(text, TRUE), OProj(text, BQ))
ErrorOffsetInText == ErrorOffsetP(text, OFilter(text, BQ)) /\ ErrorOffsetP(text, OProj(text, BQ))
MeasureDecreases  == OFilter(text, BQ).dec /\ OProj(text, BQ).dec

\* the unquoting of a quoted word re-quotes to the same body (Unq inverse of Quote)
UnquoteInverse == LET u == Unq(text) IN u.ok => QuoteBody(u.w) = text

\* Any string as a double-quoted literal: one word, in key and value position, both sides
BelSub(w) == [i \in 1..Len(w) |-> IF w[i] = "a" THEN BEL ELSE w[i]]
OneWordD(s, vp, w) == LET t == DTok(s, 1, vp) IN t.k = "q" /\ t.w = w /\ t.e = Len(s) + 1
OneWordO(s, vp, w) == LET t == ONext(s, 1, vp, BQ) IN t.k = "q" /\ t.w = w /\ t.np = Len(s) + 1 /\ t.eo = -1
QuotedWordLexes ==
  \A w \in {text, BelSub(text)} :
    LET q == Quote(w) IN
    /\ Unq(QuoteBody(w)) = [ok |-> TRUE, w |-> w]
    /\ OneWordD(q, FALSE, w) /\ OneWordD(q, TRUE, w)
    /\ OneWordO(q, FALSE, w) /\ OneWordO(q, TRUE, w)

\* Parse(Quote(k) ":" Quote(v)) denotes (k, v); Quote(k) as a projection denotes field k
\* (all splits text = k \o v for texts up to PairLen, the middle split beyond; also with "a" read as
\* BEL; texts longer than WordLen are left to QuotedWordLexes, which covers every text)
Splits(w) == IF Len(w) <= PairLen THEN 0..Len(w) ELSE {Len(w) \div 2}
QuotedTermDenotes ==
  Len(text) <= WordLen =>
  \A w \in {text, BelSub(text)} : \A i \in Splits(w) :
    LET k == SubSeq(w, 1, i)
        v == SubSeq(w, i+1, Len(w))
        e == Quote(k) \o <<COL>> \o Quote(v)
        d == DFilter(e, FALSE)
        o == OFilter(e, BQ)
        pe == Quote(k) \o <<AT, LP>> \o Quote(v) \o <<RP>>
        dp == DProj(pe, FALSE)
        op == OProj(pe, BQ)
    IN /\ d.ok /\ d.t = Lit(k, v)
       /\ o.ok /\ o.t = Lit(k, v)
       /\ dp.ok /\ dp.fs = <<Fld(k, "fixed", <<>>, <<v>>)>>
       /\ op.ok /\ op.fs = dp.fs

\* a bare word works whenever it has the documented shape [^-*"():@,][^ ():@,]*,
\* is not AND / OR and (value position) does not start with "/"
BareShape(w) == /\ Len(w) > 0 /\ ~IsStartOp(w[1]) /\ w[1] # DQ /\ ~IsSpace(w[1])
                /\ \A i \in 1..Len(w) : ~IsSpace(w[i]) /\ ~IsOp(w[i])
                /\ w # W_AND /\ w # W_OR
BareWordDenotes ==
  Len(text) <= WordLen =>
  \A i \in 1..Len(text)-1 :
    LET k == SubSeq(text, 1, i)
        v == SubSeq(text, i+1, Len(text))
    IN (BareShape(k) /\ BareShape(v) /\ v[1] # SL) =>
         LET e == k \o <<COL>> \o v
             pe == k \o <<AT, LP>> \o v \o <<RP>>
         IN /\ DFilter(e, FALSE) = [ok |-> TRUE, t |-> Lit(k, v)]
            /\ LET o == OFilter(e, BQ) IN o.ok /\ o.t = Lit(k, v)
            /\ DProj(pe, FALSE) = [ok |-> TRUE, fs |-> <<Fld(k, "fixed", <<>>, <<v>>)>>]
            /\ LET o == OProj(pe, BQ) IN o.ok /\ o.fs = <<Fld(k, "fixed", <<>>, <<v>>)>>

\* the malformed shapes listed in the property are rejected (by the lenient language and
\* by the algorithm).  If the text is a single word W (bare or quoted), then with X = a:a:
CountOf(s, c) == Cardinality({i \in 1..Len(s) : s[i] = c})
RejF(e) == ~DFilter(e, TRUE).ok /\ ~OFilter(e, BQ).ok
RejP(e) == ~DProj(e, TRUE).ok /\ ~OProj(e, BQ).ok
IsOneWord(s) == LET t == DTok(s, 1, FALSE) IN IsWordK(t.k) /\ t.e = Len(s) + 1 /\ Len(s) > 0 /\ ~IsSpace(s[1])
MalformedRejected ==
  (Len(text) <= WordLen /\ IsOneWord(text)) =>
    LET W == text
        X == <<"a", COL, "a">>
    IN /\ RejF(W)                               \* term lacking ":"
       /\ RejF(W \o <<COL>>)                    \* term lacking a value
       /\ RejF(W \o <<COL, SP>>)
       /\ RejF(<<DASH>> \o W)
       /\ RejF(<<LP>> \o W \o <<RP>>)
       /\ RejF(X \o <<SP>> \o W)
       /\ RejF(W \o <<SP>> \o X)
       /\ RejF(W \o <<COL, LP, RP>>)            \* empty value list
       /\ RejF(W \o <<COL, LP>> \o W)           \* unbalanced
       /\ RejF(<<LP>> \o W \o <<COL>> \o W)
       /\ RejF(W \o <<COL>> \o W \o <<RP>>)
       /\ RejF(<<LP, LP>> \o W \o <<COL>> \o W \o <<RP>>)
       /\ RejF(W \o <<COL, DQ, "a">>)           \* unterminated quoted word
       /\ (CountOf(W, DQ) = 0 => RejF(<<DQ, "a", COL>> \o W))
       /\ RejF(W \o <<COL, DQ, "a", BS, DQ>>)
       /\ RejF(W \o <<COL, SL, "a">>)           \* unterminated regexp
       /\ RejF(W \o <<COL, SL, "a", BS, SL>>)
       /\ RejF(W \o <<COL, SL, LP, SL>>)
       /\ RejP(W \o <<AT, LP, RP>>)             \* empty fixed list
       /\ RejP(W \o <<AT, LP, SP, RP>>)
       /\ RejP(W \o <<AT, LP>> \o W)            \* unbalanced
       /\ RejP(W \o <<AT, LP>>)
       /\ RejP(W \o <<RP>>)
       /\ RejP(<<LP>> \o W)
       /\ RejP(W \o <<AT>>)
       /\ (CountOf(W, DQ) = 0 => RejP(<<DQ, "a", SP>> \o W))   \* unterminated quoted word
       /\ RejP(W \o <<SP, DQ, "a", BS, DQ>>)
\* raw parenthesis count, for texts without quoting characters
UnbalancedRejected ==
  (CountOf(text, DQ) = 0 /\ CountOf(text, SL) = 0 /\ CountOf(text, LP) # CountOf(text, RP))
     => RejF(text) /\ RejP(text)
=============================================================================
