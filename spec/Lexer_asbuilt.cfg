SPECIFICATION Spec
CONSTANTS
  Alphabet <- FullAlphabet
  Chunks <- CharChunks
  MaxChunks = 99
  Core <- CoreAlphabet
  MaxLen = 3
  CoreLen = 3
  WordLen = 3
  PairLen = 3
  QuoteEndsAtBackslashQuote = TRUE
INVARIANTS TypeOK TextProps UnquoteInverse QuotedWordLexes QuotedTermDenotes BareWordDenotes MalformedRejected UnbalancedRejected
CHECK_DEADLOCK FALSE
