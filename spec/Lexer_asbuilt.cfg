SPECIFICATION Spec
CONSTANTS
  Alphabet <- FullAlphabet
  Core <- CoreAlphabet
  MaxLen = 3
  CoreLen = 3
  QuoteEndsAtBackslashQuote = TRUE
INVARIANTS TypeOK Unambiguous FilterAgree ProjAgree ErrorOffsetInText MeasureDecreases UnquoteInverse QuotedWordLexes QuotedTermDenotes BareWordDenotes MalformedRejected UnbalancedRejected
CHECK_DEADLOCK FALSE
