------------------------------ MODULE Lexer_gen ------------------------------
(* Generator wrapper (mode G) of Lexer: walks the same tree of texts and prints  *)
(* one replay case per text.  Every expectation is computed by the DECLARATIVE   *)
(* side: verdict accept / reject / free for the text as a filter and as a        *)
(* projection, and for accepted texts the denoted tree / field list.  Also       *)
(* printed, as information for classifying deviations: the error offset the      *)
(* operational model predicts (off), the verdict of the as-built model (ab,      *)
(* QuoteEndsAtBackslashQuote = TRUE), and the library models ReValid / Unq of    *)
(* the text itself so that the harness can cross-check them against              *)
(* regexp.Compile and strconv.Unquote.                                           *)
(* The semantic table (keys and orders outside the alphabet) is printed once,    *)
(* from the initial state, through the same declarative operators.               *)
EXTENDS Lexer, Json

FilterCase(s) ==
  LET fS == DFilterSet(s, FALSE)   fL == DFilterSet(s, TRUE)
      d  == PickTree(fL)
      oN == OFilter(s, FALSE)      oB == OFilter(s, TRUE)
  IN [v |-> Verdict(fS # {}, fL # {}, d.ok => FilterSemOK(d.t)),
      syn |-> d.ok, t |-> d.t, off |-> oN.err, ab |-> oB.ok, agree |-> (oN.ok = d.ok)]
ProjCase(s) ==
  LET pS == DProjSet(s, FALSE)     pL == DProjSet(s, TRUE)
      d  == PickFlds(pL)
      oN == OProj(s, FALSE)        oB == OProj(s, TRUE)
  IN [v |-> Verdict(pS # {}, pL # {}, d.ok => ProjSemOK(d.fs)),
      syn |-> d.ok, fs |-> d.fs, off |-> oN.err, ab |-> oB.ok, agree |-> (oN.ok = d.ok)]

Case(s, kind) ==
  [tag |-> "case", kind |-> kind, s |-> s, f |-> FilterCase(s), p |-> ProjCase(s),
   re |-> ReValid(s), uq |-> Unq(s)]

TableFilters == <<
  <<".", "c", "o", "n", "f", "i", "g", ":", "a">>,
  <<".", "u", "n", "i", "t", ":", "n", "s", "/", "o", "p">>,
  <<".", "n", "a", "m", "e", ":", "a">>,
  <<".", "f", "u", "l", "l", "n", "a", "m", "e", ":", "a">>,
  <<"\"", "\"", ":", "a">>,
  <<"a", ":", "\"", "\"">>,
  <<"/", "k", ":", "v">>,
  <<".", "c", "o", "n", "f", "i", "g", ":", "/", "a", "/">>,
  <<"-", ".", "c", "o", "n", "f", "i", "g", ":", "a">>,
  <<"(", "a", ":", "b", " ", "O", "R", " ", ".", "c", "o", "n", "f", "i", "g", ":", "c", ")">>,
  <<".", "f", "i", "l", "e", ":", "a">>,
  <<"a", ":", "(", "b", " ", "O", "R", " ", "c", ")">>,
  <<"a", ":", "(", ")">>,
  <<".", "u", "n", "i", "t", ":", "(", "n", "s", "/", "o", "p", " ", "O", "R", " ", "B", "/", "o", "p", ")">>,
  <<"a", ":", "b", " ", ".", "c", "o", "n", "f", "i", "g", ":", "c">>,
  <<"\"", ".", "c", "o", "n", "f", "i", "g", "\"", ":", "a">>,
  <<"\"", "\"", ":", "\"", "\"">>,
  <<".", "c", "o", "n", "f", "i", "g", "x", ":", "a">>,
  <<"a", ":", ".", "c", "o", "n", "f", "i", "g">> >>
TableProjs == <<
  <<".", "u", "n", "i", "t">>,
  <<".", "c", "o", "n", "f", "i", "g">>,
  <<".", "c", "o", "n", "f", "i", "g", "@", "a", "l", "p", "h", "a">>,
  <<".", "c", "o", "n", "f", "i", "g", "@", "(", "a", ")">>,
  <<".", "c", "o", "n", "f", "i", "g", "@", "(", "a", " ", "b", ")">>,
  <<"a", "@", "a", "l", "p", "h", "a">>,
  <<"a", "@", "n", "u", "m">>,
  <<"a", "@", "x">>,
  <<"a", "@", "f", "i", "x", "e", "d">>,
  <<"a", "@", "\"", "f", "i", "x", "e", "d", "\"">>,
  <<"a", "@", "f", "i", "r", "s", "t">>,
  <<"a", ",", "b", "@", "f", "i", "x", "e", "d">>,
  <<"a", "@", "\"", "a", "l", "p", "h", "a", "\"">>,
  <<"a", "@", "A", "l", "p", "h", "a">>,
  <<"a", "@", "a", "l", "p", "h">>,
  <<"a", "@", "a", "l", "p", "h", "a", "a">>,
  <<"a", "@", "(", ")">>,
  <<"a", "@", "(", "b", ")">>,
  <<"\"", "\"">>,
  <<"\"", "\"", ",", "a">>,
  <<"a", ",", ".", "u", "n", "i", "t">>,
  <<".", "n", "a", "m", "e", ",", "/", "k", ",", ".", "f", "u", "l", "l", "n", "a", "m", "e">>,
  <<".", "f", "i", "l", "e">>,
  <<"a", "@">>,
  <<".", "u", "n", "i", "t", "@", "a", "l", "p", "h", "a">>,
  <<"a", "@", "(", "b", ")", " ", "c", "@", "n", "u", "m">>,
  <<"a", "@", "(", " ", ")">>,
  <<"\"", ".", "u", "n", "i", "t", "\"">>,
  <<"\"", ".", "c", "o", "n", "f", "i", "g", "\"", "@", "(", "a", ")">>,
  <<"a", "@", "\"", "n", "u", "m", "\"">>,
  <<".", "u", "n", "i", "t", "s">>,
  <<"a", "@", "\"", "\"">>,
  <<"\"", "\"", "@", "a", "l", "p", "h", "a">>,
  <<"a", " ", "b", "@", "n", "u">> >>

EmitTable ==
  /\ \A i \in 1..Len(TableFilters) : PrintT(ToJson(Case(TableFilters[i], "table-filter")))
  /\ \A i \in 1..Len(TableProjs)   : PrintT(ToJson(Case(TableProjs[i], "table-proj")))

Emit ==
  /\ (text = <<>> => EmitTable)
  /\ LET c == Case(text, "text") IN
     /\ PrintT(ToJson(c))
     /\ Holds("GenAgree", c.f.agree /\ c.p.agree)
=============================================================================
