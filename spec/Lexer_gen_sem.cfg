SPECIFICATION Spec
CONSTANTS
  Alphabet <- SemAlphabet
  Chunks <- SemChunks
  MaxChunks = 5
  Core <- CoreAlphabet
  MaxLen = 60
  CoreLen = 0
  WordLen = 4
  PairLen = 3
  QuoteEndsAtBackslashQuote = FALSE
INVARIANTS TypeOK TextProps Emit
CHECK_DEADLOCK FALSE
