SPECIFICATION Spec
CONSTANTS
  Alphabet <- FullAlphabet
  Chunks <- CharChunks
  MaxChunks = 99
  Core <- CoreAlphabet
  MaxLen = 4
  CoreLen = 6
  WordLen = 4
  PairLen = 3
  QuoteEndsAtBackslashQuote = FALSE
INVARIANTS Emit
CHECK_DEADLOCK FALSE
