SPECIFICATION Spec
CONSTANTS
  Alphabet <- FullAlphabet
  Chunks <- TokenChunks
  MaxChunks = 4
  Core <- CoreAlphabet
  MaxLen = 40
  CoreLen = 0
  WordLen = 4
  PairLen = 3
  QuoteEndsAtBackslashQuote = FALSE
INVARIANTS TypeOK TextProps Emit
CHECK_DEADLOCK FALSE
