SPECIFICATION Spec
CONSTANTS
  Alphabet <- FullAlphabet
  Chunks <- CharChunks
  MaxChunks = 99
  Core <- CoreAlphabet
  MaxLen = 4
  CoreLen = 5
  WordLen = 4
  PairLen = 3
  QuoteEndsAtBackslashQuote = FALSE
INVARIANTS TypeOK TextProps UnquoteInverse QuotedWordLexes QuotedTermDenotes BareWordDenotes MalformedRejected UnbalancedRejected
CHECK_DEADLOCK FALSE
