SPECIFICATION Spec
CONSTANTS
  Alphabet <- FullAlphabet
  Core <- CoreAlphabet
  MaxLen = 4
  CoreLen = 5
  QuoteEndsAtBackslashQuote = FALSE
INVARIANTS TypeOK Unambiguous FilterAgree ProjAgree ErrorOffsetInText MeasureDecreases UnquoteInverse QuotedWordLexes QuotedTermDenotes BareWordDenotes MalformedRejected UnbalancedRejected
CHECK_DEADLOCK FALSE
