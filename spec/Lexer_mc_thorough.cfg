SPECIFICATION Spec
CONSTANTS
  Alphabet <- FullAlphabet
  Chunks <- CharChunks
  MaxChunks = 99
  Core <- CoreAlphabet
  MaxLen = 5
  CoreLen = 6
  WordLen = 4
  PairLen = 4
  QuoteEndsAtBackslashQuote = FALSE
INVARIANTS TypeOK TextProps UnquoteInverse QuotedWordLexes QuotedTermDenotes BareWordDenotes MalformedRejected UnbalancedRejected
CHECK_DEADLOCK FALSE
