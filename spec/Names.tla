-------------------------------- MODULE Names --------------------------------
(* Benchmark names and the keys derived from them (property C05).                 *)
(*                                                                                *)
(* A name is a sequence of one-character strings over                             *)
(*     a  any byte/rune that is not one of the characters below (the harness      *)
(*        makes it an ASCII letter, a multi-byte rune or an invalid UTF-8 byte)    *)
(*     /  =  -   themselves                                                       *)
(*     1  an ASCII digit                                                           *)
(*     k  the spelling of a sub-name key; read in two ways (parameter kIsG below):  *)
(*        an ordinary key word (k, size, gomaxproc, ...) or the word "gomaxprocs"  *)
(*                                                                                *)
(* Function-style family.  The names are enumerated as a tree (start from the      *)
(* empty name, a step appends one symbol) so that TLC's workers share the work;    *)
(* every name up to MaxLen is one state and every invariant is a statement about   *)
(* that one name.                                                                  *)
(*                                                                                *)
(* DECLARATIVE side (D...), written from the property statement:                   *)
(*   if the name ends in '-' followed by one or more digits (so that dash is not   *)
(*   the last character) that suffix is the GOMAXPROCS part; what precedes it is   *)
(*   cut before every '/'; the first piece is the base (possibly empty), the       *)
(*   others are the '/'-introduced segments; parts = segments + optional           *)
(*   GOMAXPROCS part; key table: .name = base, .fullname = whole name, /k = text   *)
(*   after "/k=" in the first segment with that key, /gomaxprocs = the trailing N  *)
(*   or else an explicit /gomaxprocs= segment, plain key = configured value,       *)
(*   absent = empty.                                                               *)
(*                                                                                *)
(* OPERATIONAL side (O...), a transcription of the code:                           *)
(*   benchfmt/result.go  Name.splitGomaxprocs (backward scan), Name.Base (first    *)
(*                       slash, else splitGomaxprocs), Name.Parts (split, then     *)
(*                       left-to-right loop with prev)                             *)
(*   benchproc/extract.go newExtractor (dispatch on the key text, prefix =         *)
(*                       key + "="), extractNamePart (last part starting with '-'  *)
(*                       for /gomaxprocs, then first part with the prefix),        *)
(*                       extractConfig.                                            *)
(*                                                                                *)
(* TLC checks, for every name within the bound, the invariants at the end.        *)
(* No deviation between code and statement was found, so there is no as-built      *)
(* switch in this module.                                                          *)
EXTENDS Integers, Sequences, FiniteSets, TLC

CONSTANTS MaxLen   \* names of at most MaxLen symbols

Sym == {"a", "/", "=", "-", "1", "k"}
IsDigit(c) == c = "1"

SymIdx(c) == CASE c = "a" -> 1 [] c = "/" -> 2 [] c = "=" -> 3 [] c = "-" -> 4 [] c = "1" -> 5 [] c = "k" -> 6

VARIABLE name
vars == <<name>>

--------------------------------------------------------------------------------
(* Text helpers *)

Min(S) == CHOOSE x \in S : \A y \in S : x <= y
Drop(s, k) == SubSeq(s, k + 1, Len(s))
HasPrefix(s, p) == Len(p) <= Len(s) /\ SubSeq(s, 1, Len(p)) = p
Count(s, c) == Cardinality({i \in 1..Len(s) : s[i] = c})

\* base followed by the parts, piece by piece
Concat(b, ps) ==
  LET f[i \in 0..Len(ps)] == IF i = 0 THEN b ELSE f[i - 1] \o ps[i]
  IN f[Len(ps)]

\* weighted / plain symbol sums, used only to pick a configuration map and a class
WSum(n) == LET f[i \in 0..Len(n)] == IF i = 0 THEN 0 ELSE f[i - 1] + i * SymIdx(n[i]) IN f[Len(n)]
PSum(n) == LET f[i \in 0..Len(n)] == IF i = 0 THEN 0 ELSE f[i - 1] + SymIdx(n[i]) IN f[Len(n)]

--------------------------------------------------------------------------------
(* Keys and configurations *)

\* Key texts.  ".name", ".fullname", "gomaxprocs" and the plain keys K, C, Z are
\* atomic words here; the sub-name keys are spelled with symbols.  When kIsG holds
\* the symbol k IS the word gomaxprocs, so both spell the same text.
KeyName == <<".name">>
KeyFull == <<".fullname">>
KeyK    == <<"/", "k">>
KeyA    == <<"/", "a">>
KeyKK   == <<"/", "k", "k">>
KeyG    == <<"/", "gomaxprocs">>
PlainKeys == {<<"K">>, <<"C">>, <<"Z">>}
AllKeys == {KeyName, KeyFull, KeyK, KeyA, KeyKK, KeyG} \cup PlainKeys

Spell(key, kIsG) == [i \in 1..Len(key) |-> IF key[i] = "gomaxprocs" /\ kIsG THEN "k" ELSE key[i]]

\* configuration maps: 2 keys x {absent, v}; Z is never configured.  Values are
\* one-word sequences so that every extraction result is a sequence.
CfgVal(key) == IF key = <<"K">> THEN <<"vK">> ELSE <<"vC">>
Cfgs == {[key \in S |-> CfgVal(key)] : S \in SUBSET {<<"K">>, <<"C">>}}
CfgOf(hasK, hasC) == [key \in ((IF hasK THEN {<<"K">>} ELSE {}) \cup (IF hasC THEN {<<"C">>} ELSE {})) |-> CfgVal(key)]

--------------------------------------------------------------------------------
(* DECLARATIVE: decomposition *)

\* positions of a dash that is followed by digits only, and by at least one
DGmpAt(n) == {i \in 1..Len(n) - 1 : n[i] = "-" /\ \A j \in i + 1..Len(n) : IsDigit(n[j])}
DGmpStart(n) == IF DGmpAt(n) = {} THEN Len(n) + 1 ELSE CHOOSE i \in DGmpAt(n) : TRUE
DStem(n) == SubSeq(n, 1, DGmpStart(n) - 1)       \* what precedes the GOMAXPROCS part
DGmp(n)  == SubSeq(n, DGmpStart(n), Len(n))      \* the GOMAXPROCS part "-N", or empty

Cuts(s) == {i \in 1..Len(s) : s[i] = "/"}
NextCut(s, c) == Min({d \in Cuts(s) : d > c} \cup {Len(s) + 1})
\* the i-th cut in increasing order
CutNo(s, i) == CHOOSE c \in Cuts(s) : Cardinality({d \in Cuts(s) : d < c}) = i - 1

DBase(n) == LET s == DStem(n) IN SubSeq(s, 1, NextCut(s, 0) - 1)
DSegs(n) == LET s == DStem(n)
            IN [i \in 1..Cardinality(Cuts(s)) |-> SubSeq(s, CutNo(s, i), NextCut(s, CutNo(s, i)) - 1)]
DParts(n) == DSegs(n) \o (IF DGmp(n) = <<>> THEN <<>> ELSE <<DGmp(n)>>)

(* DECLARATIVE: key table *)

KeyPrefix(w) == <<"/">> \o w \o <<"=">>
\* /w: text after "/w=" in the first segment with that key
DSub(w, n) ==
  LET segs == DSegs(n)
      M == {i \in 1..Len(segs) : HasPrefix(segs[i], KeyPrefix(w))}
  IN IF M = {} THEN <<>> ELSE Drop(segs[Min(M)], Len(w) + 2)
\* /gomaxprocs: the trailing N, or else an explicit /gomaxprocs= segment (which a
\* name over Sym can only contain when k spells gomaxprocs)
DGomaxprocs(n, kIsG) ==
  IF DGmp(n) # <<>> THEN Tail(DGmp(n))
  ELSE IF kIsG THEN DSub(<<"k">>, n) ELSE <<>>

DKey(key, n, cfg, kIsG) ==
  CASE key = KeyName -> DBase(n)
    [] key = KeyFull -> n
    [] key = KeyG    -> DGomaxprocs(n, kIsG)
    [] key = KeyK    -> IF kIsG THEN DGomaxprocs(n, kIsG) ELSE DSub(<<"k">>, n)
    [] key = KeyA    -> DSub(<<"a">>, n)
    [] key = KeyKK   -> DSub(<<"k", "k">>, n)
    [] key \in PlainKeys -> IF key \in DOMAIN cfg THEN cfg[key] ELSE <<>>

\* the same sub-name lookup read off the name directly, without the decomposition:
\* leftmost occurrence of "/w=" before the GOMAXPROCS part, up to the next '/'
DirectSub(w, n) ==
  LET s == DStem(n)
      pre == KeyPrefix(w)
      P == {i \in 1..Len(s) : HasPrefix(Drop(s, i - 1), pre)}
  IN IF P = {} THEN <<>>
     ELSE LET i == Min(P) IN SubSeq(s, i + Len(pre), NextCut(s, i) - 1)

--------------------------------------------------------------------------------
(* OPERATIONAL: benchfmt/result.go *)

\* Name.splitGomaxprocs: for i := len(n)-1; i >= 0; i-- { if n[i]=='-' && i<len(n)-1
\* {return n[:i], n[i:]}; if !digit {break} }; return n, nil        (1-based here)
OSplit(n) ==
  LET N == Len(n)
      scan[i \in 0..N] ==
        IF i = 0 THEN <<n, <<>>>>
        ELSE IF n[i] = "-" /\ i < N THEN <<SubSeq(n, 1, i - 1), SubSeq(n, i, N)>>
        ELSE IF ~IsDigit(n[i]) THEN <<n, <<>>>>
        ELSE scan[i - 1]
  IN scan[N]

\* bytes.IndexByte, 0 = not found
IndexOf(s, c) == IF \E i \in 1..Len(s) : s[i] = c THEN Min({i \in 1..Len(s) : s[i] = c}) ELSE 0

\* Name.Base
OBase(n) ==
  LET slash == IndexOf(n, "/")
  IN IF slash > 0 THEN SubSeq(n, 1, slash - 1) ELSE OSplit(n)[1]

\* Name.Parts: <<baseName, parts>>
OParts(n) ==
  LET sp  == OSplit(n)
      buf == sp[1]
      gmp == sp[2]
      \* <<nameParts, prev>> after the loop body has run for buf[1..i]
      loop[i \in 0..Len(buf)] ==
        IF i = 0 THEN <<<<>>, 1>>
        ELSE LET st == loop[i - 1]
             IN IF buf[i] = "/" THEN <<Append(st[1], SubSeq(buf, st[2], i - 1)), i>> ELSE st
      fin == loop[Len(buf)]
      np1 == Append(fin[1], SubSeq(buf, fin[2], Len(buf)))
      np2 == IF gmp # <<>> THEN Append(np1, gmp) ELSE np1
  IN <<np2[1], Tail(np2)>>

(* OPERATIONAL: benchproc/extract.go *)

\* extractNamePart(res, prefix, isGomaxprocs).  last[0] on an empty part would be a
\* Go panic; here it is a TLC evaluation error, so exploring it is checked too.
OExtractNamePart(n, prefix, isG) ==
  LET parts == OParts(n)[2]
      search[i \in 1..Len(parts) + 1] ==
        IF i > Len(parts) THEN <<>>
        ELSE IF HasPrefix(parts[i], prefix) THEN Drop(parts[i], Len(prefix))
        ELSE search[i + 1]
  IN IF isG /\ Len(parts) > 0 /\ parts[Len(parts)][1] = "-"
     THEN Tail(parts[Len(parts)])
     ELSE search[1]

\* extractConfig via Result.ConfigIndex
OExtractConfig(cfg, key) == IF key \in DOMAIN cfg THEN cfg[key] ELSE <<>>

\* newExtractor(key): dispatch on the key's text
OKey(key, n, cfg, kIsG) ==
  LET t == Spell(key, kIsG)
  IN IF t = KeyName THEN OBase(n)
     ELSE IF t = KeyFull THEN n
     ELSE IF Len(t) > 0 /\ t[1] = "/"
          THEN OExtractNamePart(n, t \o <<"=">>, t = Spell(KeyG, kIsG))
     ELSE OExtractConfig(cfg, key)

--------------------------------------------------------------------------------
(* State space: every name of at most MaxLen symbols, each reached exactly once *)

Init == name = <<>>
Next == Len(name) < MaxLen /\ \E c \in Sym : name' = Append(name, c)
Spec == Init /\ [][Next]_vars

--------------------------------------------------------------------------------
(* Properties *)

TypeOK == name \in Seq(Sym) /\ Len(name) <= MaxLen

IsGmpForm(p) == Len(p) >= 2 /\ p[1] = "-" /\ \A j \in 2..Len(p) : IsDigit(p[j])
IsSegForm(p) == Len(p) >= 1 /\ p[1] = "/" /\ Count(p, "/") = 1

\* base followed by the parts reproduces the name
ConcatOK == Concat(DBase(name), DParts(name)) = name

\* the base has no '/', so it is the first piece; every part is a '/'-introduced
\* segment except an optional last one of the form -d+, which is present exactly
\* when the name ends that way; nothing else is cut
PartShape ==
  LET ps == DParts(name)
  IN /\ Count(DBase(name), "/") = 0
     /\ \A i \in 1..Len(ps) : IsSegForm(ps[i]) \/ (i = Len(ps) /\ IsGmpForm(ps[i]))
     /\ (Len(ps) > 0 /\ IsGmpForm(ps[Len(ps)])) <=> (DGmpAt(name) # {})
     /\ Cardinality(DGmpAt(name)) <= 1
     /\ Len(ps) = Count(name, "/") + (IF DGmpAt(name) # {} THEN 1 ELSE 0)

\* the base reported on its own is the base of the decomposition: read off the name
\* directly it is what precedes the first '/', or, without any '/', the name minus
\* its GOMAXPROCS part
BaseAlone ==
  /\ DBase(name) = (IF Count(name, "/") > 0 THEN SubSeq(name, 1, IndexOf(name, "/") - 1) ELSE DStem(name))
  /\ OBase(name) = OParts(name)[1]

\* the key table agrees with the decomposition: a sub-name value is cut out of the
\* first segment carrying the key (equivalently: leftmost "/w=" in the name, up to
\* the next '/' or the GOMAXPROCS part), the trailing N wins for /gomaxprocs, and
\* .name/.fullname are the base and the whole name
ExtractAgrees ==
  LET segs == DSegs(name)
      gmp  == DGmp(name)
      FullCfg == CfgOf(TRUE, TRUE)
  IN
  /\ \A w \in {<<"k">>, <<"a">>, <<"k", "k">>} :
       LET pre  == KeyPrefix(w)
           val  == DSub(w, name)
           hits == {i \in 1..Len(segs) : HasPrefix(segs[i], pre)}
       IN /\ val = DirectSub(w, name)
          /\ hits # {} => segs[Min(hits)] = pre \o val
          /\ hits = {} => val = <<>>
  /\ \A g \in BOOLEAN :
       /\ gmp # <<>> => <<"-">> \o DGomaxprocs(name, g) = gmp
       /\ gmp = <<>> => DGomaxprocs(name, g) = (IF g THEN DSub(<<"k">>, name) ELSE <<>>)
       /\ DKey(KeyName, name, FullCfg, g) = DBase(name)
       /\ DKey(KeyFull, name, FullCfg, g) = Concat(DBase(name), DParts(name))
  /\ \A cfg \in Cfgs : DKey(<<"Z">>, name, cfg, FALSE) = <<>>

\* the code computes what the statement says.  Name-derived keys do not look at the
\* configuration (checked with the full map), plain keys do not look at the name.
DeclEqOp ==
  /\ OSplit(name) = <<DStem(name), DGmp(name)>>
  /\ OBase(name) = DBase(name)
  /\ OParts(name) = <<DBase(name), DParts(name)>>
  /\ \A key \in AllKeys \ PlainKeys, g \in BOOLEAN :
       OKey(key, name, CfgOf(TRUE, TRUE), g) = DKey(key, name, CfgOf(TRUE, TRUE), g)
  /\ \A key \in PlainKeys, cfg \in Cfgs, g \in BOOLEAN :
       OKey(key, name, cfg, g) = DKey(key, name, cfg, g)

\* every part the code produces is non-empty (no index panic in extractNamePart)
PartsNonEmpty == LET ps == OParts(name)[2] IN \A i \in 1..Len(ps) : Len(ps[i]) > 0
=============================================================================
