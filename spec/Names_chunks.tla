----------------------------- MODULE Names_chunks -----------------------------
(* Chunk exploration for Names (mode M + G): names built from whole segments.   *)
EXTENDS Names_gen

\* Chunk exploration: names built from up to MaxChunks whole segments (repeated sub-name
\* keys with different values, a key extending another key, empty values, several
\* dash-digit groups) - longer than the symbol enumeration reaches.
CONSTANT MaxChunks
Chunks == { <<"a">>, <<"/", "k", "=", "a">>, <<"/", "k", "=", "1">>, <<"/", "k", "=">>, <<"-", "1">>,
            <<"/", "a", "=", "k">>, <<"/", "k", "k", "=", "a">>, <<"/">>, <<"k">>, <<"=", "1">>, <<"/", "a">> }
VARIABLE nchunks
CInit == name = <<>> /\ nchunks = 0
CNext == nchunks < MaxChunks /\ \E c \in Chunks : name' = name \o c /\ nchunks' = nchunks + 1
ChunkSpec == CInit /\ [][CNext]_<<name, nchunks>>
ChunkView == name
=============================================================================
