------------------------------ MODULE Names_gen ------------------------------
(* Generator wrapper (mode G) for Names: the same enumeration of all names up to  *)
(* MaxLen; for every selected name one JSON replay case is printed that carries   *)
(* what the DECLARATIVE side of Names.tla says the real code must report:          *)
(*   n  the name, b its base, p its parts,                                         *)
(*   x0 the key table when the symbol k spells an ordinary key word,               *)
(*   x1 the key table when k spells "gomaxprocs" (so /k and /gomaxprocs coincide), *)
(*   ck, cc  whether the plain keys K and C are configured in this case (the map   *)
(*           is picked by a checksum of the name so that all four maps occur).     *)
(* Selection: names of at least MinLen symbols whose symbol sum is Class modulo    *)
(* Mod (Mod = 1 selects all); the thorough tier walks the classes one after the    *)
(* other to keep each batch of printed cases small.                                *)
EXTENDS Names, Json

CONSTANTS MinLen, Mod, Class

RECURSIVE Flat(_)
Flat(s) == IF s = <<>> THEN "" ELSE Head(s) \o Flat(Tail(s))
FlatAll(ps) == [i \in 1..Len(ps) |-> Flat(ps[i])]

Selected == Len(name) >= MinLen /\ PSum(name) % Mod = Class

Table(n, cfg, kIsG) ==
  [name |-> Flat(DKey(KeyName, n, cfg, kIsG)),
   full |-> Flat(DKey(KeyFull, n, cfg, kIsG)),
   k    |-> Flat(DKey(KeyK, n, cfg, kIsG)),
   a    |-> Flat(DKey(KeyA, n, cfg, kIsG)),
   kk   |-> Flat(DKey(KeyKK, n, cfg, kIsG)),
   g    |-> Flat(DKey(KeyG, n, cfg, kIsG)),
   pK   |-> Flat(DKey(<<"K">>, n, cfg, kIsG)),
   pC   |-> Flat(DKey(<<"C">>, n, cfg, kIsG)),
   pZ   |-> Flat(DKey(<<"Z">>, n, cfg, kIsG))]

CaseOf(n) ==
  LET w    == WSum(n)
      hasK == w % 2 = 1
      hasC == (w \div 2) % 2 = 1
      cfg  == CfgOf(hasK, hasC)
  IN [tag |-> "case", n |-> Flat(n), b |-> Flat(DBase(n)), p |-> FlatAll(DParts(n)),
      ck |-> hasK, cc |-> hasC,
      x0 |-> Table(n, cfg, FALSE), x1 |-> Table(n, cfg, TRUE)]

Emit == IF Selected THEN PrintT(ToJson(CaseOf(name))) ELSE TRUE

=============================================================================
