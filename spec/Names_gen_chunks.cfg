SPECIFICATION ChunkSpec
CONSTANTS
  MaxLen = 40
  MinLen = 7
  Mod = 1
  Class = 0
  MaxChunks = 4
VIEW ChunkView
INVARIANTS Emit ConcatOK PartShape BaseAlone ExtractAgrees DeclEqOp
CHECK_DEADLOCK FALSE
