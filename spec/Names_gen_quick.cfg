SPECIFICATION Spec
CONSTANTS
  MaxLen = 6
  MinLen = 0
  Mod = 1
  Class = 0
INVARIANTS Emit
CHECK_DEADLOCK FALSE
