SPECIFICATION Spec
CONSTANTS
  MaxLen = 6
INVARIANTS TypeOK ConcatOK PartShape BaseAlone ExtractAgrees DeclEqOp PartsNonEmpty
CHECK_DEADLOCK FALSE
