SPECIFICATION Spec
CONSTANTS
  MaxLen = 8
INVARIANTS TypeOK ConcatOK PartShape BaseAlone ExtractAgrees DeclEqOp PartsNonEmpty
CHECK_DEADLOCK FALSE
