--------------------------------- MODULE NumLit ---------------------------------
(* Numeric field texts of a benchmark line (property C03).                          *)
(*                                                                                 *)
(* A text is a sequence of one-character strings.  The module has                  *)
(*                                                                                 *)
(*  * a DECLARATIVE side, written from the literal grammar the standard library's  *)
(*    strconv.ParseFloat(s, 64) and strconv.Atoi(s) accept:                        *)
(*      float   ::= [sign] (inf | infinity)  |  nan              (any letter case) *)
(*                | [sign] mant [ (e|E) [sign] decdigits ]          decimal        *)
(*                | [sign] 0(x|X) hexmant (p|P) [sign] decdigits    hexadecimal    *)
(*      mant    ::= digits with at most one "." and at least one digit             *)
(*      underscores: only directly between two digits, or between a base prefix    *)
(*                   and a digit (then they are ignored); nowhere else             *)
(*      integer ::= [sign] decdigits     (no underscores, no prefix: base 10),     *)
(*                  in range iff -(MAX+1) <= value <= MAX                          *)
(*    and, for well-formed texts, the DENOTATION <<sign, digits, exponent>>        *)
(*    meaning (-1)^sign * digits * 10^exponent (decimal) or * 2^exponent (hex).    *)
(*    No floating-point arithmetic happens here: which float64 a denotation rounds *)
(*    to is outside this module (the harness asks strconv and an exact rational).  *)
(*                                                                                 *)
(*  * an OPERATIONAL side transcribing the control flow of the reader's own        *)
(*    parsers: bytesconv.underscoreOK, special, readFloat, decimal.set, the        *)
(*    dispatch in atof64, ParseUint/ParseInt/Atoi (benchfmt/internal/bytesconv),   *)
(*    and the integer fast path of atof in benchfmt/reader.go, at the level of     *)
(*    accept / reject / denotation.  readFloat's 19-digit mantissa accumulator and *)
(*    everything downstream of the scanners (exact path, decimal shifting,         *)
(*    rounding, atofHex) is the rounding algorithm and is NOT modelled.  The       *)
(*    800-digit buffer of decimal.set IS (BufCap): what it drops must not change   *)
(*    the magnitude.  As built it does - the named deviation LosesIntegerDigits,   *)
(*    FALSE in the normative configurations, TRUE in NumLit_asbuilt.cfg.           *)
(*                                                                                 *)
(* TLC checks on every text of the configured bound that both sides agree, that    *)
(* the classification is a function, and the fast-path lemmas, for a PARAMETRIC    *)
(* word size MAX (99, 999, 32767 in the configurations; 2^63-1 in the code).       *)
EXTENDS Integers, Sequences, FiniteSets, TLC

CONSTANTS A1, N1, A2, N2, A3, N3, A4, N4, A5, N5, A6, N6,   \* token alphabets and length bounds
          MAX,        \* largest value of the signed integer type (operational side)
          MaxDigits,  \* the decimal digits of the machine's MAX for the declarative range rule
          Extra,      \* further texts: boundary families (a set)
          ExtraSeq,   \* further texts read from a file (a sequence; explored from NRoots root states
                      \* so that TLC's workers share them)
          BufCap,     \* capacity of decimal.set's digit buffer (800 in the code); 0 = not modelled
          LosesIntegerDigits
                      \* NAMED DEVIATION (as built, in the code and in the standard library it was copied
                      \* from): integer digits that no longer fit the buffer are dropped WITHOUT moving
                      \* the decimal point, so a text with more than BufCap integer digits is read as a
                      \* number 10^(dropped) times too small.  FALSE = normative, TRUE in NumLit_asbuilt.cfg

-----------------------------------------------------------------------------
\* characters

DigitOrder == <<"0", "1", "2", "3", "4", "5", "6", "7", "8", "9">>
DecDigit   == {DigitOrder[i] : i \in 1..10}
DV         == [c \in DecDigit |-> (CHOOSE i \in 1..10 : DigitOrder[i] = c) - 1] @@ <<>>
HexLetter  == {"a", "b", "c", "d", "e", "f"}
HV         == [a |-> 10, b |-> 11, c |-> 12, d |-> 13, e |-> 14, f |-> 15]

\* c | 0x20 of the code (lower), and the A-Z folding of equalIgnoreCase: on ASCII they differ
\* only on characters that compare unequal to every letter anyway.
UpLo == [A |-> "a", B |-> "b", C |-> "c", D |-> "d", E |-> "e", F |-> "f", G |-> "g", H |-> "h",
         I |-> "i", J |-> "j", K |-> "k", L |-> "l", M |-> "m", N |-> "n", O |-> "o", P |-> "p",
         Q |-> "q", R |-> "r", S |-> "s", T |-> "t", U |-> "u", V |-> "v", W |-> "w", X |-> "x",
         Y |-> "y", Z |-> "z"]
UpperLetters == DOMAIN UpLo
Lw(c) == IF c \in UpperLetters THEN UpLo[c] ELSE c

\* tokens that stand for several characters (so that short token sequences reach the long words)
MultiTok == {"inf", "INF", "inity", "nan", "NaN", "0x", "0X", "e9999", "e-9999"}
TokChars(t) ==
  CASE t = "inf"   -> <<"i", "n", "f">>
    [] t = "INF"   -> <<"I", "N", "F">>
    [] t = "inity" -> <<"i", "N", "i", "T", "y">>
    [] t = "nan"   -> <<"n", "a", "n">>
    [] t = "NaN"   -> <<"N", "a", "N">>
    [] t = "0x"    -> <<"0", "x">>
    [] t = "0X"    -> <<"0", "X">>
    [] t = "e9999" -> <<"e", "9", "9", "9", "9">>
    [] t = "e-9999" -> <<"E", "-", "9", "9", "9", "9">>
    [] OTHER       -> <<t>>
RECURSIVE ExpandRec(_)
ExpandRec(toks) == IF toks = <<>> THEN <<>> ELSE TokChars(Head(toks)) \o ExpandRec(Tail(toks))
Expand(toks) == IF \A i \in 1..Len(toks) : toks[i] \notin MultiTok THEN toks ELSE ExpandRec(toks)

MaxOf2(a, b) == IF a >= b THEN a ELSE b

-----------------------------------------------------------------------------
\* DECLARATIVE SIDE

HasSign(t)  == t # <<>> /\ t[1] \in {"+", "-"}
SignOf(t)   == IF t # <<>> /\ t[1] = "-" THEN 1 ELSE 0
Unsigned(t) == IF HasSign(t) THEN Tail(t) ELSE t
NoUS(s)     == SelectSeq(s, LAMBDA c : c # "_")

EqIC(s, w)  == Len(s) = Len(w) /\ \A i \in 1..Len(s) : Lw(s[i]) = w[i]
InfWord     == <<"i", "n", "f">>
InfinityWord == <<"i", "n", "f", "i", "n", "i", "t", "y">>
NanWord     == <<"n", "a", "n">>
IsInf(t)    == EqIC(Unsigned(t), InfWord) \/ EqIC(Unsigned(t), InfinityWord)
IsNan(t)    == EqIC(t, NanWord)                          \* NaN takes no sign

\* --- underscores: every underscore stands directly after a digit (or the base prefix)
\*     and directly before a digit; "digit" includes a-f when the text has the 0x prefix
HexPrefixed(u)  == Len(u) >= 2 /\ u[1] = "0" /\ Lw(u[2]) = "x"
BasePrefixed(u) == Len(u) >= 2 /\ u[1] = "0" /\ Lw(u[2]) \in {"b", "o", "x"}
DigitLike(u, c) == c \in DecDigit \/ (HexPrefixed(u) /\ Lw(c) \in HexLetter)
UnderscoresOK(t) ==
  LET u == Unsigned(t) IN
  \A i \in 1..Len(u) : u[i] = "_" =>
      /\ i > 1 /\ (DigitLike(u, u[i-1]) \/ (BasePrefixed(u) /\ i = 3))
      /\ i < Len(u) /\ DigitLike(u, u[i+1])

\* --- the number proper, on the text without sign and (placed correctly) underscores
IsMant(m, hex) ==
  /\ \A i \in 1..Len(m) : m[i] = "." \/ m[i] \in DecDigit \/ (hex /\ Lw(m[i]) \in HexLetter)
  /\ Cardinality({i \in 1..Len(m) : m[i] = "."}) <= 1
  /\ \E i \in 1..Len(m) : m[i] # "."
IsExp(x) ==
  LET d == IF x # <<>> /\ x[1] \in {"+", "-"} THEN Tail(x) ELSE x
  IN d # <<>> /\ \A i \in 1..Len(d) : d[i] \in DecDigit

\* position of the first character that is ch in either case, 0 if none
\* (written so that TLC finds it in linear time: long boundary texts have ~1500 characters)
FirstPos(b, ch) == IF \E i \in 1..Len(b) : Lw(b[i]) = ch
                   THEN CHOOSE i \in 1..Len(b) : Lw(b[i]) = ch /\ \A j \in 1..(i-1) : Lw(b[j]) # ch
                   ELSE 0

\* decimal: mantissa up to the first e/E, the rest is the exponent
DecM(b) == LET p == FirstPos(b, "e") IN IF p = 0 THEN b ELSE SubSeq(b, 1, p - 1)
DecX(b) == LET p == FirstPos(b, "e") IN IF p = 0 THEN <<>> ELSE SubSeq(b, p + 1, Len(b))
IsDecBody(b) == IsMant(DecM(b), FALSE) /\ (FirstPos(b, "e") # 0 => IsExp(DecX(b)))

\* hexadecimal: 0x, mantissa up to the first p/P, mandatory exponent
HexR(b) == SubSeq(b, 3, Len(b))
HexM(b) == LET r == HexR(b) p == FirstPos(r, "p") IN IF p = 0 THEN r ELSE SubSeq(r, 1, p - 1)
HexX(b) == LET r == HexR(b) p == FirstPos(r, "p") IN IF p = 0 THEN <<>> ELSE SubSeq(r, p + 1, Len(r))
IsHexBody(b) == HexPrefixed(b) /\ FirstPos(HexR(b), "p") # 0 /\ IsMant(HexM(b), TRUE) /\ IsExp(HexX(b))

Body(t)  == NoUS(Unsigned(t))
IsDec(t) == UnderscoresOK(t) /\ IsDecBody(Body(t))
IsHex(t) == UnderscoresOK(t) /\ IsHexBody(Body(t))

FloatClass(t) == IF IsNan(t) THEN "nan" ELSE IF IsInf(t) THEN "inf"
                 ELSE IF IsDec(t) THEN "dec" ELSE IF IsHex(t) THEN "hex" ELSE "bad"

\* --- denotation
StripLZ(d) == IF \E i \in 1..Len(d) : d[i] # "0"
              THEN SubSeq(d, CHOOSE i \in 1..Len(d) : d[i] # "0" /\ \A j \in 1..(i-1) : d[j] = "0", Len(d))
              ELSE <<>>
MantDigits(m) == LET d == SelectSeq(m, LAMBDA c : c # ".")
                     G[i \in 0..Len(d)] == IF i = 0 THEN <<>> ELSE Append(G[i - 1], Lw(d[i]))
                 IN IF \A i \in 1..Len(d) : d[i] \in DecDigit THEN d ELSE G[Len(d)]
FracLen(m) == LET p == FirstPos(m, ".") IN IF p = 0 THEN 0 ELSE Len(m) - p
ExpNeg(x)    == IF x # <<>> /\ x[1] = "-" THEN 1 ELSE 0
ExpDigits(x) == IF x # <<>> /\ x[1] \in {"+", "-"} THEN Tail(x) ELSE x

\* the parts of a well-formed float text; digits without leading zeros (<<>> is zero)
FloatParts(t) ==
  LET c == FloatClass(t)
      b == Body(t)
      m == IF c = "dec" THEN DecM(b) ELSE HexM(b)
      x == IF c = "dec" THEN DecX(b) ELSE HexX(b)
  IN IF c \in {"dec", "hex"}
     THEN [class |-> c, sign |-> SignOf(t), digits |-> StripLZ(MantDigits(m)),
           ed |-> StripLZ(ExpDigits(x)), es |-> ExpNeg(x), fl |-> FracLen(m)]
     ELSE [class |-> c, sign |-> SignOf(t), digits |-> <<>>, ed |-> <<>>, es |-> 0, fl |-> 0]

\* value of a digit sequence (decimal digits or lower-case hex letters) in the given base;
\* only evaluated for the short texts of the model-checking configurations
DigVal(c) == IF c \in DecDigit THEN DV[c] ELSE HV[c]
SeqValue(d, base) ==
  LET f[i \in 0..Len(d)] == IF i = 0 THEN 0 ELSE f[i-1] * base + DigVal(d[i]) IN f[Len(d)]

\* <<class, sign, digits, exponent>>; the exponent of zero is normalised to 0
Denot(t) ==
  LET p == FloatParts(t)
      e == (IF p.es = 1 THEN -1 ELSE 1) * SeqValue(p.ed, 10) - (IF p.class = "hex" THEN 4 ELSE 1) * p.fl
  IN IF p.class \in {"dec", "hex"}
     THEN <<p.class, p.sign, p.digits, IF p.digits = <<>> THEN 0 ELSE e>>
     ELSE IF p.class = "inf" THEN <<"inf", p.sign, <<>>, 0>>
     ELSE <<p.class, 0, <<>>, 0>>

\* --- integers (iteration count): base 10, no prefix, no underscores
\* arithmetic on digit sequences (no leading zeros; <<>> is zero) so that the rule can be
\* stated for a MAX that TLC's integers cannot hold
DLess(a, b) ==
  \/ Len(a) < Len(b)
  \/ /\ Len(a) = Len(b)
     /\ \E i \in 1..Len(a) : /\ DV[a[i]] < DV[b[i]]
                             /\ \A j \in 1..(i-1) : a[j] = b[j]
DLeq(a, b) == a = b \/ DLess(a, b)

RECURSIVE DSuccRaw(_), DPredRaw(_), DAddRaw(_, _, _)
DSuccRaw(d) == IF d = <<>> THEN <<"1">>
               ELSE LET l == d[Len(d)]  h == SubSeq(d, 1, Len(d) - 1)
                    IN IF l = "9" THEN Append(DSuccRaw(h), "0") ELSE Append(h, DigitOrder[DV[l] + 2])
DPredRaw(d) == LET l == d[Len(d)]  h == SubSeq(d, 1, Len(d) - 1)        \* d > 0
               IN IF l = "0" THEN Append(DPredRaw(h), "9") ELSE Append(h, DigitOrder[DV[l]])
DAddRaw(a, b, c) ==                                                     \* c = carry 0/1
  IF a = <<>> /\ b = <<>> THEN (IF c = 0 THEN <<>> ELSE <<"1">>)
  ELSE LET x == IF a = <<>> THEN 0 ELSE DV[a[Len(a)]]
           y == IF b = <<>> THEN 0 ELSE DV[b[Len(b)]]
           s == x + y + c
           ha == IF a = <<>> THEN <<>> ELSE SubSeq(a, 1, Len(a) - 1)
           hb == IF b = <<>> THEN <<>> ELSE SubSeq(b, 1, Len(b) - 1)
       IN Append(DAddRaw(ha, hb, s \div 10), DigitOrder[(s % 10) + 1])
DSucc(d)   == DSuccRaw(d)
DPred(d)   == StripLZ(DPredRaw(d))
DAdd(a, b) == StripLZ(DAddRaw(a, b, 0))
DInit(d)   == SubSeq(d, 1, Len(d) - 1)                                  \* d div 10

MinMagDigits == DSucc(MaxDigits)                                        \* MAX + 1
IsIntText(t) == LET u == Unsigned(t) IN u # <<>> /\ \A i \in 1..Len(u) : u[i] \in DecDigit
IntDigits(t) == StripLZ(Unsigned(t))
IntInRange(sign, d) == IF sign = 0 THEN DLeq(d, MaxDigits) ELSE DLeq(d, MinMagDigits)
IntClass(t) == IF ~IsIntText(t) THEN "bad"
               ELSE IF IntInRange(SignOf(t), IntDigits(t)) THEN "int" ELSE "range"

\* the fast path's fallback threshold (MAX-10) div 10 as a digit sequence (lemma ThresholdRule)
ThresholdDigits == DPred(DInit(MaxDigits))
\* the unsigned maximum 2*MAX+1
UMaxDigits == DAdd(DAdd(MaxDigits, MaxDigits), <<"1">>)

-----------------------------------------------------------------------------
\* OPERATIONAL SIDE (transcriptions; indices are 1-based, Go's are 0-based)

\* bytesconv.underscoreOK
UnderscoreOKOp(s0) ==
  LET s   == IF Len(s0) >= 1 /\ s0[1] \in {"-", "+"} THEN Tail(s0) ELSE s0
      pfx == Len(s) >= 2 /\ s[1] = "0" /\ Lw(s[2]) \in {"b", "o", "x"}
      hex == pfx /\ Lw(s[2]) = "x"
      RECURSIVE Loop(_, _)
      Loop(i, saw) ==
        IF i > Len(s) THEN saw # "_"
        ELSE IF s[i] \in DecDigit \/ (hex /\ Lw(s[i]) \in HexLetter) THEN Loop(i + 1, "0")
        ELSE IF s[i] = "_" THEN (IF saw # "0" THEN FALSE ELSE Loop(i + 1, "_"))
        ELSE IF saw = "_" THEN FALSE
        ELSE Loop(i + 1, "!")
  IN IF pfx THEN Loop(3, "0") ELSE Loop(1, "^")

\* bytesconv.special: <<"none", 0>>, or <<"inf", sign>> / <<"nan", 0>>
NoSpecial == <<"none", 0>>
SpecialOp(s) ==
  IF Len(s) = 0 THEN NoSpecial
  ELSE IF s[1] = "+" THEN (IF EqIC(s, <<"+">> \o InfWord) \/ EqIC(s, <<"+">> \o InfinityWord) THEN <<"inf", 0>> ELSE NoSpecial)
  ELSE IF s[1] = "-" THEN (IF EqIC(s, <<"-">> \o InfWord) \/ EqIC(s, <<"-">> \o InfinityWord) THEN <<"inf", 1>> ELSE NoSpecial)
  ELSE IF s[1] \in {"n", "N"} THEN (IF EqIC(s, NanWord) THEN <<"nan", 0>> ELSE NoSpecial)
  ELSE IF s[1] \in {"i", "I"} THEN (IF EqIC(s, InfWord) \/ EqIC(s, InfinityWord) THEN <<"inf", 0>> ELSE NoSpecial)
  ELSE NoSpecial

Reject == [ok |-> FALSE]

\* readFloat (allowHex = TRUE) and decimal.set (allowHex = FALSE; it has no hex branch):
\* sign, optional 0x, mantissa loop, exponent.  digits = the digits kept (leading zeros are
\* dropped by the code), dp = position of the point, result exponent = dp - number of digits.
ScanOp(s, allowHex) ==
  LET n   == Len(s)
      neg == n >= 1 /\ s[1] = "-"
      i1  == IF n >= 1 /\ s[1] \in {"+", "-"} THEN 2 ELSE 1
      \* Go: i+2 < len(s) && s[i] == '0' && lower(s[i+1]) == 'x'
      hex == allowHex /\ i1 + 1 < n /\ s[i1] = "0" /\ Lw(s[i1 + 1]) = "x"
      i2  == IF hex THEN i1 + 2 ELSE i1
      expChar == IF hex THEN "p" ELSE "e"
      RECURSIVE Mant(_)
      Mant(st) ==
        IF st.i > n THEN st
        ELSE LET c == s[st.i] IN
             IF c = "_" THEN Mant([st EXCEPT !.i = @ + 1])
             ELSE IF c = "." THEN
                  (IF st.sawdot THEN [st EXCEPT !.bad = TRUE]
                   ELSE Mant([st EXCEPT !.i = @ + 1, !.sawdot = TRUE, !.dp = st.nd + st.lost]))
             ELSE IF c \in DecDigit THEN
                  (IF c = "0" /\ st.nd = 0
                   THEN Mant([st EXCEPT !.i = @ + 1, !.sawdigits = TRUE, !.dp = @ - 1])
                   ELSE IF ~allowHex /\ BufCap > 0 /\ st.nd >= BufCap          \* decimal.set: b.nd < len(b.d) fails
                   THEN Mant([st EXCEPT !.i = @ + 1, !.sawdigits = TRUE, !.trunc = @ \/ c # "0",
                                        !.lost = IF st.sawdot \/ LosesIntegerDigits THEN @ ELSE @ + 1])
                   ELSE Mant([st EXCEPT !.i = @ + 1, !.sawdigits = TRUE, !.nd = @ + 1, !.digits = Append(@, c)]))
             ELSE IF hex /\ Lw(c) \in HexLetter THEN
                  Mant([st EXCEPT !.i = @ + 1, !.sawdigits = TRUE, !.nd = @ + 1, !.digits = Append(@, Lw(c))])
             ELSE st                                                       \* break
      m   == Mant([i |-> i2, sawdot |-> FALSE, sawdigits |-> FALSE, nd |-> 0, dp |-> 0, digits |-> <<>>, bad |-> FALSE,
                   trunc |-> FALSE, lost |-> 0])       \* lost: dropped integer digits that still count for the point
      dp0 == IF m.sawdot THEN m.dp ELSE m.nd + m.lost
      dp1 == IF hex THEN dp0 * 4 ELSE dp0
      ndm == IF hex THEN m.nd * 4 ELSE m.nd
      hasExp == m.i <= n /\ Lw(s[m.i]) = expChar
      j0  == m.i + 1
      esign == IF j0 <= n /\ s[j0] = "-" THEN -1 ELSE 1
      j1  == IF j0 <= n /\ s[j0] \in {"+", "-"} THEN j0 + 1 ELSE j0
      RECURSIVE ExpLoop(_, _)
      ExpLoop(j, e) ==                                                     \* returns <<index after, e>>
        IF j <= n /\ (s[j] \in DecDigit \/ s[j] = "_")
        THEN (IF s[j] = "_" THEN ExpLoop(j + 1, e)
              ELSE ExpLoop(j + 1, IF e < 10000 THEN e * 10 + DV[s[j]] ELSE e))
        ELSE <<j, e>>
      x   == ExpLoop(j1, 0)
      fin(iend, dp) == IF iend # n + 1 THEN Reject
                       ELSE [ok |-> TRUE, hex |-> hex, neg |-> neg, digits |-> m.digits, trunc |-> m.trunc,
                             exp |-> IF m.nd = 0 THEN 0 ELSE dp - ndm]
  IN IF n = 0 THEN Reject
     ELSE IF i1 > n THEN                                                   \* a sign only: falls into "!sawdigits"
          Reject
     ELSE IF m.bad \/ ~m.sawdigits THEN Reject
     ELSE IF hasExp THEN
          (IF j0 > n THEN Reject
           ELSE IF j1 > n \/ s[j1] \notin DecDigit THEN Reject
           ELSE fin(x[1], dp1 + x[2] * esign))
     ELSE IF hex THEN Reject                                               \* must have exponent
     ELSE fin(m.i, dp1)

Bad == <<"bad", 0, <<>>, 0>>
ScanDenot(r) == <<IF r.hex THEN "hex" ELSE "dec", IF r.neg THEN 1 ELSE 0, r.digits, r.exp>>

\* ParseFloat / atof64: underscoreOK, special, readFloat; hex -> atofHex; decimal -> exact path
\* or decimal.set + floatBits; readFloat failed -> decimal.set decides.  readFloat's own 19-digit
\* accumulator is not modelled (it counts the digits it drops, see nd/ndMant in the code); the
\* 800-digit buffer of decimal.set is, when BufCap > 0.
ParseFloatOp(s) ==
  IF ~UnderscoreOKOp(s) THEN Bad
  ELSE LET sp == SpecialOp(s) IN
       IF sp # NoSpecial THEN <<sp[1], sp[2], <<>>, 0>>
       ELSE LET r == ScanOp(s, TRUE)  d == ScanOp(s, FALSE) IN
            IF r.ok /\ r.hex THEN ScanDenot(r)
            ELSE IF r.ok THEN (IF d.ok THEN ScanDenot(d) ELSE Bad)   \* exact path (all digits held, where both
                                                                    \* scanners agree) or decimal.set + floatBits
            ELSE IF d.ok THEN ScanDenot(d) ELSE Bad

\* atof of benchfmt/reader.go: the integer fast path
FastFallback == [ok |-> FALSE, val |-> 0, peak |-> 0]
FastPathOp(s) ==
  LET RECURSIVE Loop(_, _, _)
      Loop(i, val, peak) ==                      \* peak: the largest value val ever held
        IF i > Len(s) THEN [ok |-> TRUE, val |-> val, peak |-> peak]
        ELSE IF s[i] \notin DecDigit THEN FastFallback            \* digit := ch - '0' (byte), >= 10
        ELSE IF val > (MAX - 10) \div 10 THEN FastFallback        \* avoid overflow
        ELSE LET v == val * 10 + DV[s[i]] IN Loop(i + 1, v, MaxOf2(peak, v))
  IN Loop(1, 0, 0)

AtofOp(s) == LET f == FastPathOp(s) IN
             IF f.ok THEN <<"fast", f.val>> ELSE ParseFloatOp(s)

\* ParseUint(s, 10, 0), ParseInt(s, 10, 0), Atoi.  The unsigned type holds 0..2*MAX+1.
UMAX   == 2 * MAX + 1
ISyntax == <<"bad", 0>>
IRange  == <<"range", 0>>
ParseUintOp(s) ==                                 \* <<"ok", n>> | <<"range", UMAX>> | <<"bad", 0>>
  IF Len(s) = 0 \/ ~UnderscoreOKOp(s) THEN ISyntax
  ELSE LET cutoff == UMAX \div 10 + 1
           RECURSIVE Loop(_, _)
           Loop(i, nn) ==
             IF i > Len(s) THEN <<"ok", nn>>
             ELSE IF s[i] \notin DecDigit THEN ISyntax      \* '_' (base0 false), letters (d >= base), others
             ELSE IF nn >= cutoff THEN <<"range", UMAX>>
             ELSE LET n1 == nn * 10 + DV[s[i]] IN
                  IF n1 > UMAX THEN <<"range", UMAX>> ELSE Loop(i + 1, n1)
       IN Loop(1, 0)
ParseIntOp(s0) ==
  IF Len(s0) = 0 THEN ISyntax
  ELSE LET neg == s0[1] = "-"
           s   == IF s0[1] \in {"+", "-"} THEN Tail(s0) ELSE s0
           un  == ParseUintOp(s)
       IN IF un[1] = "bad" THEN ISyntax
          ELSE IF ~neg /\ un[2] >= MAX + 1 THEN IRange
          ELSE IF neg /\ un[2] > MAX + 1 THEN IRange
          ELSE <<"int", IF neg THEN -un[2] ELSE un[2]>>

RECURSIVE DigitsOf(_)
DigitsOf(n) == IF n = 0 THEN <<>> ELSE Append(DigitsOf(n \div 10), DigitOrder[(n % 10) + 1])
SmallMaxDigits == DigitsOf(MAX)
FastLen == Len(DigitsOf(MAX))                     \* 19 for int64, 10 for int32

AtoiOp(s0) ==
  IF 0 < Len(s0) /\ Len(s0) < FastLen THEN
     LET signed == s0[1] \in {"-", "+"}
         s == IF signed THEN Tail(s0) ELSE s0
         RECURSIVE Loop(_, _)
         Loop(i, nn) == IF i > Len(s) THEN <<"int", IF s0[1] = "-" THEN -nn ELSE nn>>
                        ELSE IF s[i] \notin DecDigit THEN ISyntax      \* ch -= '0'; ch > 9
                        ELSE Loop(i + 1, nn * 10 + DV[s[i]])           \* no overflow check here
     IN IF signed /\ Len(s) < 1 THEN ISyntax ELSE Loop(1, 0)
  ELSE ParseIntOp(s0)

-----------------------------------------------------------------------------
NoExtra == {}
NoExtraSeq == <<>>

\* Texts are explored by extension, one family (alphabet, bound) at a time, so that TLC's workers
\* share the work; fam = 0 marks the Extra / ExtraSeq texts, fam < 0 the roots of ExtraSeq.
Alpha(k) == CASE k = 1 -> A1 [] k = 2 -> A2 [] k = 3 -> A3 [] k = 4 -> A4 [] k = 5 -> A5 [] k = 6 -> A6
Bound(k) == CASE k = 1 -> N1 [] k = 2 -> N2 [] k = 3 -> N3 [] k = 4 -> N4 [] k = 5 -> N5 [] k = 6 -> N6

NRoots == 16
ExtraTexts == ExtraSeq      \* a definition of its own: TLC evaluates it once (a substituted constant is
                            \* re-evaluated at every use, i.e. the file would be read again each time)
VARIABLES toks, fam
vars == <<toks, fam>>
Init == \/ fam \in 1..6 /\ toks = <<>>
        \/ fam = 0 /\ toks \in Extra
        \/ ExtraTexts # <<>> /\ fam \in {-r : r \in 1..NRoots} /\ toks = <<>>
Next == \/ /\ fam \in 1..6
           /\ Len(toks) < Bound(fam)
           /\ \E a \in Alpha(fam) : toks' = Append(toks, a)
           /\ fam' = fam
        \/ /\ fam < 0
           /\ \E i \in 1..Len(ExtraTexts) : i % NRoots = (-fam) - 1 /\ toks' = ExtraTexts[i]
           /\ fam' = 0
Spec == Init /\ [][Next]_vars

Text == Expand(toks)

-----------------------------------------------------------------------------
\* PROPERTIES

\* the classification is a function: the four kinds of well-formed float text exclude each other,
\* and the declarative and the operational parser accept the same texts with the same class
GrammarTotal ==
  /\ Cardinality({k \in {"nan", "inf", "dec", "hex"} :
                    \/ (k = "nan" /\ IsNan(Text))
                    \/ (k = "inf" /\ IsInf(Text))
                    \/ (k = "dec" /\ IsDec(Text))
                    \/ (k = "hex" /\ IsHex(Text))}) <= 1
  /\ FloatClass(Text) \in {"nan", "inf", "dec", "hex", "bad"}
  /\ ParseFloatOp(Text)[1] = FloatClass(Text)
  /\ IntClass(Text) \in {"int", "range", "bad"}

UnderscoreAgree == UnderscoresOK(Text) = UnderscoreOKOp(Text)

\* same denotation.  The scanner saturates the exponent at 10000 ("it doesn't matter if it's not
\* the exact number"): then both exponents are beyond anything a text of this length can bring
\* back into float64's range, with the same sign.
DenotAgree ==
  LET d0 == Denot(Text)  o == ParseFloatOp(Text)
      cut == d0[1] = "dec" /\ BufCap > 0 /\ Len(d0[3]) > BufCap
      \* beyond the buffer the scanner keeps the first BufCap digits (and a sticky flag): the same
      \* number up to one unit of the last kept digit
      d  == IF cut THEN <<d0[1], d0[2], SubSeq(d0[3], 1, BufCap), d0[4] + (Len(d0[3]) - BufCap)>> ELSE d0
  IN
  /\ o[1] = d[1] /\ o[2] = d[2] /\ o[3] = d[3]
  /\ \/ o[4] = d[4]
     \/ /\ SeqValue(FloatParts(Text).ed, 10) >= 10000
        /\ \/ (o[4] >= 10000 - 4 * Len(Text) /\ d[4] >= 10000 - 4 * Len(Text))
           \/ (o[4] <= 4 * Len(Text) - 10000 /\ d[4] <= 4 * Len(Text) - 10000)

\* the slow path parses the text a second time with decimal.set: both scanners must agree on
\* decimal texts, and decimal.set must not accept what readFloat refused
ScannersAgree ==
  LET r == ScanOp(Text, TRUE)  d == ScanOp(Text, FALSE) IN
  /\ (r.ok /\ ~r.hex) => (d.ok /\ ((BufCap = 0 \/ Len(r.digits) <= BufCap) => ScanDenot(d) = ScanDenot(r)))
  /\ ~r.ok => ~d.ok

AllDigits(s) == \A i \in 1..Len(s) : s[i] \in DecDigit

\* the fast path either falls back or returns exactly the denoted integer, never holds a value above MAX
FastPathExact ==
  LET f == FastPathOp(Text) IN
  /\ f.ok => /\ AllDigits(Text)
             /\ f.val = SeqValue(Text, 10)
             /\ f.peak <= MAX
  /\ (AllDigits(Text) /\ SeqValue(StripLZ(Text), 10) <= (MAX - 10) \div 10) => f.ok      \* and it is taken
  /\ (AllDigits(Text) /\ Len(Text) <= 9 /\ ~f.ok) => SeqValue(Text, 10) > (MAX - 10) \div 10

\* atof as a whole (fast path, else the full parser) agrees with the declarative side
AtofAgrees ==
  LET a == AtofOp(Text)  d == Denot(Text) IN
  IF Text = <<>> THEN TRUE                     \* the reader never passes an empty field
  ELSE IF a[1] = "fast"
       THEN d[1] = "dec" /\ d[2] = 0 /\ d[4] = 0 /\ SeqValue(d[3], 10) = a[2]
       ELSE a[1] = d[1] /\ a[2] = d[2] /\ a[3] = d[3]

\* iteration counts: Atoi accepts exactly [sign] digits, the value is exact, out of range is an error
IntValue(t) == (IF SignOf(t) = 1 THEN -1 ELSE 1) * SeqValue(IntDigits(t), 10)
AtoiAgrees ==
  LET a == AtoiOp(Text)  c == IntClass(Text) IN
  /\ (a[1] = "int") = (c = "int")
  /\ c = "range" => a[1] = "range"
  /\ c = "bad" => a[1] \in {"bad", "range"}     \* ParseUint reports overflow before it has seen a later bad character
  /\ c = "int" => a[2] = IntValue(Text) /\ -(MAX + 1) <= a[2] /\ a[2] <= MAX

\* the digit-sequence range rule is the arithmetic one (needs MaxDigits = digits of MAX)
RangeRule ==
  IsIntText(Text) /\ Len(Text) <= 9 =>
     (IntClass(Text) = "int") = (-(MAX + 1) <= IntValue(Text) /\ IntValue(Text) <= MAX)

\* digit-sequence arithmetic used to derive the boundary families is arithmetic
DigitArith ==
  (AllDigits(Text) /\ Len(Text) <= 8) =>
     LET d == StripLZ(Text)  v == SeqValue(d, 10) IN
     /\ SeqValue(DSucc(d), 10) = v + 1
     /\ d # <<>> => SeqValue(DPred(d), 10) = v - 1
     /\ SeqValue(DAdd(d, d), 10) = 2 * v
     /\ SeqValue(DAdd(d, <<"1">>), 10) = v + 1
     /\ DigitsOf(v) = d
     /\ DLeq(d, MaxDigits) = (v <= SeqValue(MaxDigits, 10))

\* constant-level lemmas about the configured MAX
ThresholdRule ==
  /\ MAX >= 10
  /\ MaxDigits = SmallMaxDigits
  /\ SeqValue(ThresholdDigits, 10) = (MAX - 10) \div 10
  /\ SeqValue(UMaxDigits, 10) = UMAX
  /\ SeqValue(MinMagDigits, 10) = MAX + 1

\* The harness's concretisations leave the classification alone: flipping the letter case of the
\* whole text, and writing any of 2..8 for the digit 1 (away from the range boundary).
LoUp == [a |-> "A", b |-> "B", c |-> "C", d |-> "D", e |-> "E", f |-> "F", g |-> "G", h |-> "H",
         i |-> "I", j |-> "J", k |-> "K", l |-> "L", m |-> "M", n |-> "N", o |-> "O", p |-> "P",
         q |-> "Q", r |-> "R", s |-> "S", t |-> "T", u |-> "U", v |-> "V", w |-> "W", x |-> "X",
         y |-> "Y", z |-> "Z"]
FlipChar(ch) == IF ch \in DOMAIN UpLo THEN UpLo[ch] ELSE IF ch \in DOMAIN LoUp THEN LoUp[ch] ELSE ch
MapSeq(F(_), sq) == LET G[ix \in 0..Len(sq)] == IF ix = 0 THEN <<>> ELSE Append(G[ix - 1], F(sq[ix])) IN G[Len(sq)]
CaseBlind ==
  LET ft == MapSeq(FlipChar, Text) IN
  /\ FloatParts(ft) = FloatParts(Text)
  /\ IsIntText(ft) = IsIntText(Text)
DigitBlind ==
  \A kk \in {3, 6, 9} :                          \* DigitOrder[kk] is the digit kk-1: 2, 5, 8
    LET Sub(ch) == IF ch = "1" THEN DigitOrder[kk] ELSE ch
        st == MapSeq(Sub, Text)
        pa == FloatParts(Text)
        pb == FloatParts(st)
    IN /\ pb.class = pa.class /\ pb.sign = pa.sign /\ pb.es = pa.es /\ pb.fl = pa.fl
       /\ pb.digits = MapSeq(Sub, pa.digits) /\ pb.ed = MapSeq(Sub, pa.ed)
       /\ IsIntText(st) = IsIntText(Text)
       /\ IsIntText(Text) => IntDigits(st) = MapSeq(Sub, IntDigits(Text))

\* every integer text is a decimal float text with the same value
IntIsFloat ==
  IsIntText(Text) => LET d == Denot(Text) IN d[1] = "dec" /\ d[2] = SignOf(Text) /\ d[3] = IntDigits(Text) /\ d[4] = 0
=============================================================================
