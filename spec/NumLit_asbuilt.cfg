SPECIFICATION Spec
CONSTANTS
  A1 = {"1", "0", ".", "e", "-"}
  N1 = 6
  A2 = {}
  N2 = 0
  A3 = {}
  N3 = 0
  A4 = {}
  N4 = 0
  A5 = {}
  N5 = 0
  A6 = {}
  N6 = 0
  MAX = 32767
  MaxDigits <- SmallMaxDigits
  Extra <- NoExtra
  ExtraSeq <- NoExtraSeq
  BufCap = 3
  LosesIntegerDigits = TRUE
INVARIANTS GrammarTotal DenotAgree ScannersAgree
CHECK_DEADLOCK FALSE
