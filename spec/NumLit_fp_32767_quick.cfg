SPECIFICATION Spec
CONSTANTS
  A1 = {"0", "1", "2", "3", "4", "5", "6", "7", "8", "9"}
  N1 = 4
  A2 = {"-", "3", "2", "7", "6", "8"}
  N2 = 6
  A3 = {"3", "2", "7", "6", "8", "9", "0"}
  N3 = 5
  A4 = {}
  N4 = 0
  A5 = {}
  N5 = 0
  A6 = {}
  N6 = 0
  MAX = 32767
  MaxDigits <- SmallMaxDigits
  Extra <- NoExtra
  ExtraSeq <- NoExtraSeq
  BufCap = 0
  LosesIntegerDigits = FALSE
INVARIANTS GrammarTotal FastPathExact AtofAgrees AtoiAgrees RangeRule DigitArith ThresholdRule IntIsFloat
CHECK_DEADLOCK FALSE
