SPECIFICATION Spec
CONSTANTS
  A1 = {"0", "1", "2", "3", "4", "5", "6", "7", "8", "9", "-", "+"}
  N1 = 5
  A2 = {"-", "+", "1", "0", "9", "8"}
  N2 = 7
  A3 = {}
  N3 = 0
  A4 = {}
  N4 = 0
  A5 = {}
  N5 = 0
  A6 = {}
  N6 = 0
  MAX = 999
  MaxDigits <- SmallMaxDigits
  Extra <- NoExtra
  ExtraSeq <- NoExtraSeq
  BufCap = 0
  LosesIntegerDigits = FALSE
INVARIANTS GrammarTotal FastPathExact AtofAgrees AtoiAgrees RangeRule DigitArith ThresholdRule IntIsFloat
CHECK_DEADLOCK FALSE
