SPECIFICATION Spec
CONSTANTS
  A1 = {"0", "1", "2", "3", "4", "5", "6", "7", "8", "9", "+", "-", "_"}
  N1 = 4
  A2 = {}
  N2 = 0
  A3 = {}
  N3 = 0
  A4 = {}
  N4 = 0
  A5 = {}
  N5 = 0
  A6 = {}
  N6 = 0
  MAX = 99
  MaxDigits <- SmallMaxDigits
  Extra <- NoExtra
  ExtraSeq <- NoExtraSeq
  BufCap = 0
  LosesIntegerDigits = FALSE
INVARIANTS GrammarTotal FastPathExact AtofAgrees AtoiAgrees RangeRule DigitArith ThresholdRule IntIsFloat
CHECK_DEADLOCK FALSE
