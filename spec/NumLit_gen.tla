-------------------------------- MODULE NumLit_gen --------------------------------
(* Generator (mode G) for NumLit: every explored text is printed with its          *)
(* DECLARATIVE classification and the parts of its denotation; the harness feeds   *)
(* the text to the real benchfmt.Reader in the iteration-count and in the          *)
(* measurement position and compares.                                              *)
(*                                                                                 *)
(* The range rule is instantiated with the machine's MAX = 2^63-1 as a digit       *)
(* sequence (MaxDigits <- Int64MaxDigits): TLC's integers cannot hold it, the      *)
(* digit-sequence rule (checked against arithmetic for small MAX by RangeRule,     *)
(* DigitArith, ThresholdRule) can.  BoundaryInts are the spec-derived families     *)
(* around MAX, around the fast path's threshold (MAX-10) div 10, around the        *)
(* unsigned maximum 2*MAX+1 and its tenth, and iteration counts of 1..25 digits.   *)
EXTENDS NumLit, Json

Int64MaxDigits == <<"9", "2", "2", "3", "3", "7", "2", "0", "3", "6", "8", "5", "4", "7", "7", "5", "8", "0", "7">>

RECURSIVE Rep(_, _)
Rep(c, n) == IF n = 0 THEN <<>> ELSE Append(Rep(c, n - 1), c)
Cycle(n)  == LET RECURSIVE C(_)
                 C(k) == IF k = 0 THEN <<>> ELSE Append(C(k - 1), DigitOrder[(k % 10) + 1])
             IN C(n)

Near(d)  == {DPred(DPred(d)), DPred(d), d, DSucc(d), DSucc(DSucc(d))}
Tails    == {<<>>} \cup {<<c>> : c \in DecDigit} \cup {<<c, "0">> : c \in DecDigit}
Signs    == {<<>>, <<"+">>, <<"-">>}
Centres  == Near(MaxDigits) \cup Near(ThresholdDigits) \cup Near(UMaxDigits) \cup Near(DInit(UMaxDigits))
Counts   == UNION {{Rep("1", n), Rep("9", n), <<"1">> \o Rep("0", n - 1), Rep("0", n - 1) \o <<"7">>, Cycle(n)} : n \in 1..25}
BoundaryInts == {s \o d \o x : s \in Signs, d \in Centres, x \in Tails}
                \cup {s \o w : s \in Signs, w \in Counts}

Case ==
  LET p  == FloatParts(Text)
      ic == IntClass(Text)
  IN [tag |-> "num", fam |-> fam, t |-> Text,
      fc |-> p.class, fs |-> p.sign, fd |-> p.digits, ed |-> p.ed, es |-> p.es, fl |-> p.fl,
      ic |-> ic,
      isg |-> IF ic = "bad" THEN 0 ELSE SignOf(Text),
      idg |-> IF ic = "bad" THEN <<>> ELSE IntDigits(Text)]

EmitInv == IF Text = <<>> THEN TRUE ELSE PrintT(ToJson(Case))
=============================================================================
