SPECIFICATION Spec
CONSTANTS
  A1 = {}
  N1 = 0
  A2 = {}
  N2 = 0
  A3 = {}
  N3 = 0
  A4 = {}
  N4 = 0
  A5 = {}
  N5 = 0
  A6 = {}
  N6 = 0
  MAX = 32767
  MaxDigits <- Int64MaxDigits
  Extra <- NoExtra
  ExtraSeq <- FileSeq
INVARIANTS EmitInv
CHECK_DEADLOCK FALSE
