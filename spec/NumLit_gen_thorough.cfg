SPECIFICATION Spec
CONSTANTS
  A1 = {"0", "1", "9", ".", "e", "E", "+", "-", "_", "x", "X", "p", "i", "n", "f", "a", "N"}
  N1 = 5
  A2 = {"1", "0", ".", "e", "-", "_"}
  N2 = 7
  A3 = {"0x", "1", "a", ".", "p", "-", "_"}
  N3 = 6
  A4 = {"inf", "inity", "nan", "NaN", "INF", "+", "-", "i", "y", "1", ":", "/"}
  N4 = 4
  A5 = {"0", "1", "9", "+", "-", "_"}
  N5 = 7
  A6 = {"1", "0", "9", ".", "e9999", "e-9999"}
  N6 = 5
  MAX = 32767
  MaxDigits <- Int64MaxDigits
  Extra <- BoundaryInts
  ExtraSeq <- NoExtraSeq
  BufCap = 0
  LosesIntegerDigits = FALSE
INVARIANTS EmitInv
CHECK_DEADLOCK FALSE
