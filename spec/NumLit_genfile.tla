------------------------------ MODULE NumLit_genfile ------------------------------
(* The specification as the oracle for texts produced outside TLC (boundary        *)
(* families built by the driver from binary floating-point structure: halfway      *)
(* cases, range limits, long mantissas): the texts are read from                   *)
(* numlit_texts.ndjson (one {"t": [chars]} per line), classified by the            *)
(* declarative side and printed like every other case.                             *)
EXTENDS NumLit_gen

FileLines == ndJsonDeserialize("numlit_texts.ndjson")
FileTexts == {FileLines[i].t : i \in 1..Len(FileLines)}
=============================================================================
