------------------------------ MODULE NumLit_genfile ------------------------------
(* The specification as the oracle for texts produced outside TLC (boundary        *)
(* families built by the driver from binary floating-point structure: halfway      *)
(* cases, range limits, long mantissas): the texts are read from                   *)
(* numlit_texts.ndjson (one JSON array of one-character strings per line), classified by the            *)
(* declarative side and printed like every other case.                             *)
EXTENDS NumLit_gen

\* (one definition, no post-processing: TLC caches it; a derived definition would re-read the file
\* for every element)
FileSeq == ndJsonDeserialize("numlit_texts.ndjson")
=============================================================================
