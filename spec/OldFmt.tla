--------------------------------- MODULE OldFmt ---------------------------------
(* The LEGACY benchmark format package golang.org/x/perf/storage/benchfmt          *)
(* (benchfmt.go): a Reader that follows the persistent labels of a benchmark file  *)
(* and hands out one Result per benchmark line, and a Printer that writes results  *)
(* back with a diff state.  The storage server indexes uploads with the Reader,    *)
(* re-prints query results with the Printer, clients read them with the Reader.    *)
(*                                                                                 *)
(* Lines are abstract here (OldFmtLine.tla has the character level):               *)
(*   set k v   "k: v"        del k   "k:"        blank   ""                         *)
(*   other     anything that is neither a label line nor a benchmark line           *)
(*   bench c   a benchmark line with content c                                      *)
(*                                                                                 *)
(* One action per public call / loop iteration of the code:                        *)
(*   R1Add       Reader.AddLabels (before the first Next)                           *)
(*   R1Begin     entry of Reader.Next                                               *)
(*   R1Scan      one iteration of Next's line loop (the environment supplies the    *)
(*               line: every text is a behaviour); a benchmark line ends the call   *)
(*   R1End       the loop finds the end of the input (or an I/O error): Next=false  *)
(*   R1After     Next after the end: false, nothing changes                         *)
(*   CallerResult a caller builds a Result by hand (labels may hold empty values)   *)
(*   P1Print     Printer.Print of the source's result onto the wire                 *)
(*   PrintFail   Printer.Print whose writer fails at its j-th line                  *)
(*   R2Begin / R2Scan   a second Reader (NewReader, no AddLabels) over the wire     *)
(*   P2Print     a second Printer prints what the second Reader returned            *)
(*                                                                                 *)
(* The contract (from the doc comments of Reader, Result, AddLabels, permLabels,    *)
(* Printer.Print and the comments inside Next):                                     *)
(*   - label lines update the reader's labels, an empty value removes the label;    *)
(*   - PERMANENT labels are those given to AddLabels, or else those "read from the  *)
(*     start of the file": the label lines before the first other line, IF that     *)
(*     line is blank ("Blank line delimits the header. If we find anything else,    *)
(*     the file must not have a header").  They "cannot be overridden";             *)
(*   - every benchmark line yields a Result with the labels in effect at that line, *)
(*     its 1-based line number and its content; a Result is immutable;              *)
(*   - "Print writes the lines necessary to recreate r": reading the printed text   *)
(*     gives results with equal labels and content (RoundTrip), no unnecessary line *)
(*     is printed (Necessary), and printing what was read reproduces the text       *)
(*     (Stable).                                                                    *)
(*                                                                                 *)
(*   - "AddLabels adds additional labels as if they had been read from the header   *)
(*     of a file": a twin reader that gets the labels as a header (label lines, a    *)
(*     blank line) and then the same input must agree with r1 (AddIsHeader).         *)
(*                                                                                 *)
(* HeaderReopens = TRUE re-enables the deviation found in the code as shipped:      *)
(* Next decides "is the header question settled" from a local sampled at ENTRY of   *)
(* the call (havePerm), so inside the first call every further blank line makes the *)
(* labels read so far permanent, every further other line forgets the header, and   *)
(* so does the first benchmark line: after it the header's labels can be overridden *)
(* (OldFmt_asbuilt.cfg violates HeaderAtStart, OldFmt_asbuilt_add.cfg AddIsHeader). *)
EXTENDS Naturals, Sequences, FiniteSets, TLC

CONSTANTS Keys,           \* label keys
          Vals,           \* non-empty label values
          Contents,       \* contents of benchmark lines (tokens)
          MaxLines,       \* bound on the lines the first reader is given
          MaxResults,     \* the result counter saturates here
          Source,         \* "reader": results come from R1;  "caller": built by hand
          WithFaults,     \* TRUE: PrintFail is explored (caller source)
          HeaderReopens   \* as-built switch, FALSE = documented behaviour

Get(f, k)    == IF k \in DOMAIN f THEN f[k] ELSE ""
Upd(f, k, v) == [x \in DOMAIN f \cup {k} |-> IF x = k THEN v ELSE f[x]]
Rem(f, k)    == [x \in DOMAIN f \ {k} |-> f[x]]
Over(f, g)   == [x \in DOMAIN f \cup DOMAIN g |-> IF x \in DOMAIN g THEN g[x] ELSE f[x]]
NonEmpty(f)  == [x \in {y \in DOMAIN f : f[y] # ""} |-> f[x]]
HasEmpty(f)  == \E x \in DOMAIN f : f[x] = ""

SetL(k, v) == [t |-> "set",   k |-> k,  v |-> v]
DelL(k)    == [t |-> "del",   k |-> k,  v |-> ""]
BlankL     == [t |-> "blank", k |-> "", v |-> ""]
OtherL     == [t |-> "other", k |-> "", v |-> ""]
BenchL(c)  == [t |-> "bench", k |-> "", v |-> c]

LineAlphabet == {SetL(k, v) : k \in Keys, v \in Vals} \cup {DelL(k) : k \in Keys}
                \cup {BlankL, OtherL} \cup {BenchL(c) : c \in Contents}

LabelMaps  == UNION {[S -> Vals] : S \in SUBSET Keys}                 \* what a reader can hold
CallerMaps == UNION {[S -> Vals \cup {""}] : S \in SUBSET Keys}       \* what a caller can build

Perms(S) == {p \in [1..Cardinality(S) -> S] : \A i, j \in 1..Cardinality(S) : i # j => p[i] # p[j]}

Bump(n) == IF n < MaxResults THEN n + 1 ELSE n

NoRes == [labels |-> <<>>, content |-> "none", line |-> 0]

-----------------------------------------------------------------------------
\* The Reader as operators on a reader record, so that both readers of the model
\* (and the trace specification) run the same rules.

NewReader == [labels |-> <<>>, perm |-> <<>>, permSet |-> FALSE, havePerm |-> FALSE,
              inNext |-> FALSE, started |-> FALSE, done |-> "no"]

\* AddLabels: "adds additional labels as if they had been read from the header of a file"
RdAdd(r, L) == [r EXCEPT !.perm = L, !.permSet = TRUE, !.labels = Over(r.labels, L)]

\* entry of Next; the code samples "do we know the permanent labels" here (havePerm)
RdBegin(r) == [r EXCEPT !.inNext = TRUE, !.started = TRUE, !.havePerm = r.permSet]

\* one line of Next's loop; stale = the as-built rule for "is the header question settled"
RdLineX(r, l, stale) ==
  IF l.t = "set" THEN (IF l.k \in DOMAIN r.perm THEN r ELSE [r EXCEPT !.labels = Upd(r.labels, l.k, l.v)])
  ELSE IF l.t = "del" THEN (IF l.k \in DOMAIN r.perm THEN r ELSE [r EXCEPT !.labels = Rem(r.labels, l.k)])
  ELSE LET settled == IF stale THEN r.havePerm ELSE r.permSet
           q == IF settled THEN r
                ELSE [r EXCEPT !.permSet = TRUE, !.perm = IF l.t = "blank" THEN r.labels ELSE <<>>]
       IN IF l.t = "bench" THEN [q EXCEPT !.inNext = FALSE] ELSE q

RdLine(r, l) == RdLineX(r, l, HeaderReopens)

\* a fresh reader that has read the labels L as a file header inside its first Next
RECURSIVE RdLines(_, _)
RdLines(r, ls) == IF ls = <<>> THEN r ELSE RdLines(RdLine(r, Head(ls)), Tail(ls))
SeqOfSet(S) == CHOOSE q \in [1..Cardinality(S) -> S] : \A i, j \in 1..Cardinality(S) : i # j => q[i] # q[j]
AfterHeader(L) == RdLines(RdBegin(NewReader), SeqOfSet({SetL(k, L[k]) : k \in DOMAIN L}) \o <<BlankL>>)

RdEnd(r, kind) == [r EXCEPT !.inNext = FALSE, !.done = kind]

-----------------------------------------------------------------------------
\* The Printer: the label lines Print must write when its previous result had labels
\* prev and the new one has labels L.  Empty values count as "no such label".
NeedLines(prev, L) ==
  {DelL(k) : k \in {x \in DOMAIN prev : Get(L, x) = ""}}
  \cup {SetL(k, L[k]) : k \in {x \in DOMAIN L : L[x] # "" /\ Get(prev, x) # L[x]}}

\* does label line l change the labels f of a reader without permanent labels?
Changes(f, l) == IF l.t = "set" THEN Get(f, l.k) # l.v ELSE l.k \in DOMAIN f

VARIABLES
  r1,      \* the first reader (record)
  line1,   \* lines the first reader has consumed
  res1,    \* the result of its latest successful Next
  ghost,   \* declarative bookkeeping about r1's input: AddLabels argument, the first line that is not a label line
  twin,    \* a reader WITHOUT AddLabels that is given the added labels as a file header (label lines, blank line)
           \* and then the same lines as r1: "AddLabels adds additional labels as if they had been read from the
           \* header of a file"
  src,     \* the result handed to the first printer
  phase,   \* "idle" | "print1" | "read2" | "print2" | "broken"
  p1,      \* Printer.labels of the first printer
  wire,    \* lines printed by p1 and not yet read by r2
  r2,      \* the second reader
  got2,    \* its latest result
  p2,      \* Printer.labels of the second printer
  l1set,   \* ghost: label lines the first printer wrote for src
  clean,   \* ghost: neither src nor the first printer's previous result holds an empty value
  nres     \* results handed to the first printer, counted up to MaxResults (the state space is finite without it;
           \* the generator counts further to get histories of every length)

vars == <<r1, line1, res1, ghost, twin, src, phase, p1, wire, r2, got2, p2, l1set, clean, nres>>
chain == <<src, phase, p1, wire, r2, got2, p2, l1set, clean, nres>>

Init ==
  /\ r1 = NewReader /\ line1 = 0 /\ res1 = NoRes
  /\ ghost = [added |-> FALSE, addl |-> <<>>, first |-> "none", hdr |-> <<>>]
  /\ twin = NewReader
  /\ src = NoRes /\ phase = "idle" /\ p1 = <<>> /\ wire = <<>> /\ r2 = NewReader /\ got2 = NoRes /\ p2 = <<>>
  /\ l1set = {} /\ clean = TRUE /\ nres = 0

-----------------------------------------------------------------------------
\* First reader, driven by the environment

R1Add(L) ==
  /\ Source = "reader" /\ phase = "idle" /\ ~r1.started /\ ~ghost.added
  /\ r1' = RdAdd(r1, L)
  /\ ghost' = [ghost EXCEPT !.added = TRUE, !.addl = L]
  /\ twin' = AfterHeader(L)
  /\ UNCHANGED <<line1, res1>> /\ UNCHANGED chain

R1Begin ==
  /\ Source = "reader" /\ phase = "idle" /\ ~r1.inNext /\ r1.done = "no" /\ line1 < MaxLines
  /\ r1' = RdBegin(r1)
  /\ twin' = IF ghost.added /\ ~twin.inNext THEN RdBegin(twin) ELSE twin
  /\ UNCHANGED <<line1, res1, ghost>> /\ UNCHANGED chain

R1Scan(l) ==
  /\ Source = "reader" /\ phase = "idle" /\ r1.inNext /\ line1 < MaxLines
  /\ r1' = RdLine(r1, l)
  /\ twin' = IF ghost.added THEN RdLine(twin, l) ELSE twin
  /\ line1' = line1 + 1
  /\ ghost' = IF l.t \in {"set", "del"} \/ ghost.first # "none" THEN ghost
              ELSE [ghost EXCEPT !.first = IF l.t = "blank" THEN "blank" ELSE "other",
                                 !.hdr = IF l.t = "blank" THEN r1.labels ELSE <<>>]
  /\ IF l.t = "bench"
     THEN /\ res1' = [labels |-> r1'.labels, content |-> l.v, line |-> line1 + 1]
          /\ src' = res1' /\ phase' = "print1" /\ nres' = Bump(nres)
          /\ UNCHANGED <<p1, wire, r2, got2, p2, l1set, clean>>
     ELSE UNCHANGED res1 /\ UNCHANGED chain

R1End(kind) ==
  /\ Source = "reader" /\ phase = "idle" /\ r1.inNext
  /\ r1' = RdEnd(r1, kind)
  /\ UNCHANGED <<line1, res1, ghost, twin>> /\ UNCHANGED chain

R1After ==
  /\ Source = "reader" /\ phase = "idle" /\ ~r1.inNext /\ r1.done # "no"
  /\ UNCHANGED vars

-----------------------------------------------------------------------------
\* A caller building results by hand

CallerResult(L, c) ==
  /\ Source = "caller" /\ phase = "idle"
  /\ src' = [labels |-> L, content |-> c, line |-> 0]
  /\ phase' = "print1" /\ nres' = Bump(nres)
  /\ UNCHANGED <<r1, line1, res1, ghost, twin, p1, wire, r2, got2, p2, l1set, clean>>

-----------------------------------------------------------------------------
\* The printers and the second reader

\* The order of the label lines is the printer's business (the code sorts them,
\* removals first); any order recreates the result.
P1Print(ord) ==
  /\ phase = "print1"
  /\ LET need == NeedLines(p1, src.labels) IN
       /\ ord \in Perms(need)
       /\ wire' = ord \o <<BenchL(src.content)>>
       /\ l1set' = need
  /\ clean' = (~HasEmpty(p1) /\ ~HasEmpty(src.labels))
  /\ p1' = src.labels
  /\ phase' = "read2"
  /\ UNCHANGED <<r1, line1, res1, ghost, twin, src, r2, got2, p2, nres>>

\* the writer fails at the j-th line: Print returns the error, the first j-1 lines are out
PrintFail(ord, j) ==
  /\ WithFaults /\ Source = "caller" /\ phase = "print1"
  /\ LET need == NeedLines(p1, src.labels) IN
       /\ ord \in Perms(need)
       /\ j \in 1..(Len(ord) + 1)
       /\ wire' = SubSeq(ord, 1, j - 1)
       /\ l1set' = need
  /\ phase' = "broken"
  /\ UNCHANGED <<r1, line1, res1, ghost, twin, src, p1, r2, got2, p2, clean, nres>>

R2Begin ==
  /\ phase = "read2" /\ ~r2.inNext /\ wire # <<>>
  /\ r2' = RdBegin(r2)
  /\ UNCHANGED <<r1, line1, res1, ghost, twin, src, phase, p1, wire, got2, p2, l1set, clean, nres>>

R2Scan ==
  /\ phase = "read2" /\ r2.inNext /\ wire # <<>>
  /\ LET l == Head(wire) IN
       /\ r2' = RdLine(r2, l)
       /\ wire' = Tail(wire)
       /\ IF l.t = "bench"
          THEN got2' = [labels |-> r2'.labels, content |-> l.v, line |-> 0] /\ phase' = "print2"
          ELSE UNCHANGED <<got2, phase>>
  /\ UNCHANGED <<r1, line1, res1, ghost, twin, src, p1, p2, l1set, clean, nres>>

\* Print of the second printer; its lines are not read by anyone, what matters is which lines
\* it needs (Stable).  The ghosts of this result are dropped.
P2Print ==
  /\ phase = "print2"
  /\ p2' = got2.labels
  /\ phase' = "idle"
  /\ src' = NoRes /\ got2' = NoRes /\ l1set' = {} /\ clean' = TRUE
  /\ UNCHANGED <<r1, line1, res1, ghost, twin, p1, wire, r2, nres>>

-----------------------------------------------------------------------------
R1AddSome   == \E L \in LabelMaps : R1Add(L)
R1ScanSome  == \E l \in LineAlphabet : R1Scan(l)
R1EndSome   == \E kind \in {"eof", "err"} : R1End(kind)
CallerSome  == \E L \in CallerMaps, c \in Contents : CallerResult(L, c)
P1PrintSome == \E ord \in Perms(NeedLines(p1, src.labels)) : P1Print(ord)
PrintFailSome == \E ord \in Perms(NeedLines(p1, src.labels)) : \E j \in 1..(Len(ord) + 1) : PrintFail(ord, j)

Next ==
  \/ R1AddSome \/ R1Begin \/ R1ScanSome \/ R1EndSome \/ R1After
  \/ CallerSome
  \/ P1PrintSome \/ PrintFailSome \/ R2Begin \/ R2Scan \/ P2Print

Spec == Init /\ [][Next]_vars

-----------------------------------------------------------------------------
\* Properties

Settled == phase = "print2"

\* READ(PRINT(results)): what the second reader returns is what the printer was given
RoundTrip == Settled => /\ got2.labels = NonEmpty(src.labels)
                        /\ got2.content = src.content

\* the inductive core: a reader that has caught up holds the printer's belief
BeliefSound == phase \in {"print2", "idle"} => r2.labels = NonEmpty(p1)

\* printed text never has a header: nothing becomes permanent for its reader
PrintedHasNoHeader == r2.perm = <<>>

\* "the lines NECESSARY to recreate r": every label line written changes the reader's labels
Necessary == (phase = "read2" /\ ~r2.inNext /\ clean) => \A l \in l1set : Changes(r2.labels, l)

\* PRINT(READ(text)) is stable: printing what was read back writes the same label lines
Stable == phase = "print2" => LET l2set == NeedLines(p2, got2.labels) IN
                               /\ l2set \subseteq l1set
                               /\ clean => l2set = l1set

\* permanent labels: the argument of AddLabels, or else the header - the labels read before the
\* first line that is not a label line, if that line is blank
HeaderAtStart == r1.permSet =>
  r1.perm = IF ghost.added THEN ghost.addl
            ELSE IF ghost.first = "blank" THEN ghost.hdr ELSE <<>>
HeaderDecided == (~ghost.added /\ ghost.first # "none") => r1.permSet

\* AddLabels(L) means what a file header L means
AddIsHeader == ghost.added => (twin.labels = r1.labels /\ twin.perm = r1.perm /\ twin.permSet)

\* "They cannot be overridden": every result carries the permanent labels unchanged
PermProtected == res1 # NoRes => \A k \in DOMAIN r1.perm : Get(res1.labels, k) = r1.perm[k]

\* permanent means permanent
PermStable == [][r1.permSet => (r1'.permSet /\ r1'.perm = r1.perm)]_vars

\* a result is self-contained: its line number is the line it was found on
LineNumOK == res1 # NoRes => (res1.line >= 1 /\ res1.line <= line1)

\* after the end Next changes nothing
EndIsFinal == [][r1.done # "no" => (r1'.done = r1.done /\ res1' = res1 /\ r1'.labels = r1.labels)]_vars

TypeOK ==
  /\ DOMAIN r1.labels \subseteq Keys /\ DOMAIN r1.perm \subseteq Keys
  /\ DOMAIN r2.labels \subseteq Keys
  /\ \A k \in DOMAIN r1.labels : r1.labels[k] \in Vals
  /\ \A k \in DOMAIN r2.labels : r2.labels[k] \in Vals
  /\ phase \in {"idle", "print1", "read2", "print2", "broken"}
  /\ line1 \in 0..MaxLines /\ nres \in 0..MaxResults

=============================================================================
