------------------------------- MODULE OldFmtLine -------------------------------
(* Character level of the LEGACY reader (storage/benchfmt): which physical lines   *)
(* are label lines, which are benchmark lines, what the Result of a benchmark line *)
(* carries, and what the Printer's rendering of a line reads back as.              *)
(*                                                                                 *)
(* A physical line is a sequence of characters (one-character strings, without the *)
(* terminating LF) over placeholders for the classes the format distinguishes:     *)
(*   "a" ASCII lower-case letter        "@" non-ASCII lower-case letter             *)
(*   "Z" ASCII upper-case letter        "^" non-ASCII upper-case letter             *)
(*   "1" digit      ":" colon      " " space      ">" tab                           *)
(*   "~" a Unicode space that is neither space nor tab (NBSP, EM SPACE, VT ..)      *)
(*   "<" carriage return             "#" a byte that is not valid UTF-8             *)
(*   "-" any other character (punctuation, letters without case, title case)        *)
(*   "Benchmark" / "Unit" the literal prefixes, as single tokens                    *)
(*                                                                                 *)
(* Declarative side (from the format document as summarised in benchfmt/reader.go  *)
(* and the package's doc comments):                                                 *)
(*   - the line terminator is LF or CR LF;                                          *)
(*   - a label line is key ":" [blanks value]: key starts with a lower-case letter, *)
(*     holds no space and no upper-case character; one or more ASCII blanks before  *)
(*     the value; an empty value removes the label;                                 *)
(*   - a benchmark line starts with a field that begins with "Benchmark".  The      *)
(*     package "only parses file configuration lines, not benchmark result lines":  *)
(*     a well-formed result line (name followed by upper case or nothing, then an   *)
(*     iteration count and value/unit pairs) MUST yield a Result, a line that does  *)
(*     not begin with Benchmark MUST NOT, for everything in between (lower case     *)
(*     after the prefix, too few fields, no digits) the reader is FREE;             *)
(*   - the Result's Content is the line, its name the first field less the prefix;  *)
(*   - everything else is ignored.                                                  *)
(* Operational side: transcriptions of parseKeyValueLine and parseBenchmarkLine.    *)
(* OpAgrees: they meet the declarative side on every line.  RenderStable: the       *)
(* Printer's rendering of what a line was read as ("key: value", "key:", the        *)
(* content) is read as the same thing - except that a value or content ending in CR *)
(* loses it (ExcludeTrailingCR = TRUE takes these out of the domain, as for the new *)
(* package: finding C01-cr; OldFmtLine_neg_cr.cfg shows the counterexample).        *)
(* NewDiff: the line-level differences to the NEW reader (FmtLine.tla) are exactly: *)
(* Unit lines (ignored here) and malformed benchmark lines (a Result here, a        *)
(* SyntaxError there).                                                              *)
EXTENDS Naturals, Sequences, FiniteSets, TLC

CONSTANTS AlphaK, NK,        \* label-line alphabet and length bound
          AlphaB, NB,        \* benchmark-line alphabet (field-sized tokens) and bound
          ExcludeTrailingCR

Lower == {"a", "@"}
\* the literal prefixes begin with an upper-case letter: as characters of a key they are upper case
Upper == {"Z", "^", "Benchmark", "Unit"}
Digits == {"1"}
AsciiBlank == {" ", ">"}
WS == {" ", ">", "~", "<"}
BenchChars == <<"Benchmark">>
UnitChars == <<"Unit">>

\* field-sized tokens of the benchmark alphabet
RECURSIVE Expand(_)
Expand(toks) ==
  IF toks = <<>> THEN <<>>
  ELSE (IF Head(toks) = "_1" THEN <<" ", "1">>
        ELSE IF Head(toks) = "_a" THEN <<" ", "a">>
        ELSE <<Head(toks)>>) \o Expand(Tail(toks))

VARIABLES toks, alpha
lvars == <<toks, alpha>>

\* the NEW reader's rules for one line (C02's module), over the same characters
F == INSTANCE FmtLine WITH A1 <- {}, N1 <- 0, A2 <- {}, N2 <- 0, A3 <- {}, N3 <- 0, A4 <- {}, N4 <- 0,
                           Lower <- Lower, Upper <- Upper, Digits <- Digits, AsciiBlank <- AsciiBlank,
                           WS <- WS, BenchChars <- BenchChars, UnitChars <- UnitChars, toks <- toks

DropN(s, n) == SubSeq(s, n + 1, Len(s))
HasPrefix(s, p) == Len(s) >= Len(p) /\ SubSeq(s, 1, Len(p)) = p
IndexOf(f, c) == IF \E i \in 1..Len(f) : f[i] = c
                 THEN CHOOSE i \in 1..Len(f) : f[i] = c /\ \A j \in 1..(i-1) : f[j] # c
                 ELSE 0
\* first index of a white-space character, 0 if none
IndexWS(f) == IF \E i \in 1..Len(f) : f[i] \in WS
              THEN CHOOSE i \in 1..Len(f) : f[i] \in WS /\ \A j \in 1..(i-1) : f[j] \notin WS
              ELSE 0

\* the text of a physical line: the reader's line splitting drops one CR before the LF
TextOf(L) == IF L # <<>> /\ L[Len(L)] = "<" THEN SubSeq(L, 1, Len(L) - 1) ELSE L

RECURSIVE Strip(_)
Strip(s) == IF s # <<>> /\ Head(s) \in AsciiBlank THEN Strip(Tail(s)) ELSE s

RECURSIVE TakeNonWS(_), DropWS(_), Fields(_)
TakeNonWS(s) == IF s = <<>> \/ Head(s) \in WS THEN <<>> ELSE <<Head(s)>> \o TakeNonWS(Tail(s))
DropWS(s) == IF s # <<>> /\ Head(s) \in WS THEN DropWS(Tail(s)) ELSE s
Fields(s) == LET t == DropWS(s) IN
             IF t = <<>> THEN <<>>
             ELSE LET f == TakeNonWS(t) IN <<f>> \o Fields(DropN(t, Len(f)))
IsDigits(f) == f # <<>> /\ \A i \in 1..Len(f) : f[i] \in Digits

Ign == [kind |-> "ignored", key |-> <<>>, val |-> <<>>, name |-> <<>>]

-----------------------------------------------------------------------------
\* declarative

KVLine(T) ==
  LET p == IndexOf(T, ":") IN
  IF p <= 1 THEN Ign
  ELSE IF T[1] \notin Lower THEN Ign
  ELSE IF \E i \in 1..(p-1) : T[i] \in WS \cup Upper THEN Ign
  ELSE LET key == SubSeq(T, 1, p - 1)
           raw == DropN(T, p)
       IN IF raw = <<>> THEN [kind |-> "del", key |-> key, val |-> <<>>, name |-> <<>>]
          ELSE IF raw[1] \notin AsciiBlank THEN Ign
          ELSE IF Strip(raw) = <<>> THEN [kind |-> "del", key |-> key, val |-> <<>>, name |-> <<>>]
          ELSE [kind |-> "set", key |-> key, val |-> Strip(raw), name |-> <<>>]

\* well-formed result line: Benchmark, then upper case or the end of the field, an iteration
\* count, one or more value/unit pairs
WellFormedBench(T) ==
  /\ HasPrefix(T, BenchChars)
  /\ LET fs == Fields(T)
         name == DropN(fs[1], 1)
     IN /\ (name = <<>> \/ name[1] \in Upper)
        /\ Len(fs) >= 4 /\ Len(fs) % 2 = 0
        /\ IsDigits(fs[2])
        /\ \A i \in 3..Len(fs) : (i % 2 = 1) => IsDigits(fs[i])

BenchOf(T) == [kind |-> "bench", key |-> <<>>, val |-> T, name |-> DropN(TakeNonWS(T), 1)]

\* the set of classifications the contract allows for text T
Allowed(T) ==
  IF KVLine(T).kind # "ignored" THEN {KVLine(T)}
  ELSE IF ~HasPrefix(T, BenchChars) THEN {Ign}
  ELSE IF WellFormedBench(T) THEN {BenchOf(T)}
  ELSE {Ign, BenchOf(T)}

-----------------------------------------------------------------------------
\* operational: the code as shipped

KVScan(T) ==
  LET RECURSIVE Loop(_)
      Loop(i) ==
        IF i > Len(T) THEN 0
        ELSE IF i = 1 /\ T[i] \notin Lower THEN 0
        ELSE IF T[i] \in WS \cup Upper THEN 0
        ELSE IF i > 1 /\ T[i] = ":" THEN i
        ELSE Loop(i + 1)
      p == Loop(1)
  IN IF p = 0 THEN Ign
     ELSE LET key == SubSeq(T, 1, p - 1)
              val0 == DropN(T, p)
          IN IF val0 = <<>> THEN [kind |-> "del", key |-> key, val |-> <<>>, name |-> <<>>]
             ELSE IF Strip(val0) = val0 THEN Ign
             ELSE IF Strip(val0) = <<>> THEN [kind |-> "del", key |-> key, val |-> <<>>, name |-> <<>>]
             ELSE [kind |-> "set", key |-> key, val |-> Strip(val0), name |-> <<>>]

\* parseBenchmarkLine: needs a white-space character; the text before it must begin with Benchmark
BenchScan(T) ==
  LET s == IndexWS(T) IN
  IF s = 0 THEN Ign
  ELSE LET f == SubSeq(T, 1, s - 1) IN
       IF ~HasPrefix(f, BenchChars) THEN Ign
       ELSE [kind |-> "bench", key |-> <<>>, val |-> T, name |-> DropN(f, 1)]

\* Next: label line first, then benchmark line
AsBuilt(T) == IF KVScan(T).kind # "ignored" THEN KVScan(T) ELSE BenchScan(T)

-----------------------------------------------------------------------------
\* the Printer's rendering of what a line was read as
Render(c) == IF c.kind = "set" THEN c.key \o <<":", " ">> \o c.val
             ELSE IF c.kind = "del" THEN c.key \o <<":">>
             ELSE c.val

EndsInCR(s) == s # <<>> /\ s[Len(s)] = "<"

-----------------------------------------------------------------------------
Init == toks = <<>> /\ alpha \in {"K", "B"}
Grow == \/ alpha = "K" /\ Len(toks) < NK /\ \E c \in AlphaK : toks' = Append(toks, c)
        \/ alpha = "B" /\ Len(toks) < NB /\ \E c \in AlphaB : toks' = Append(toks, c)
Next == Grow /\ UNCHANGED alpha
Spec == Init /\ [][Next]_lvars

Line == Expand(toks)
Text == TextOf(Line)

OpAgrees == AsBuilt(Text) \in Allowed(Text)

\* PRINT(READ(line)) reads back as the same thing
RenderStable ==
  LET c == AsBuilt(Text) IN
  (c.kind # "ignored" /\ (ExcludeTrailingCR => ~EndsInCR(c.val)))
     => AsBuilt(TextOf(Render(c))) = c

\* label lines and benchmark lines are disjoint
Disjoint == HasPrefix(Text, BenchChars) => KVLine(Text).kind = "ignored"

\* differences to the NEW reader, line by line
NewKind == F!Classify(Text).kind
NewDiff ==
  LET o == AsBuilt(Text) n == F!Classify(Text) IN
  /\ (o.kind \in {"set", "del"}) <=> (n.kind \in {"set", "del"})
  /\ (o.kind = "set") => (n.kind = "set" /\ n.key = o.key /\ n.val = o.val)
  /\ (o.kind = "del") => (n.kind = "del" /\ n.key = o.key)
  /\ (o.kind = "bench") <=> (n.kind \in {"result", "error"})
  /\ (n.kind = "result") => n.name = o.name
  /\ (n.kind = "unitline") => o.kind = "ignored"

\* which of the free / differing classes a line is in (printed by the generator, counted by the plan)
Class ==
  LET o == AsBuilt(Text) IN
  IF o.kind = "bench" /\ ~WellFormedBench(Text)
  THEN (IF NewKind = "error" THEN "bench-old-error-new" ELSE "bench-free")
  ELSE IF NewKind = "unitline" THEN "unit-line-ignored-by-old"
  ELSE IF Line # Text THEN "crlf"
  ELSE "plain"
=============================================================================
