----------------------------- MODULE OldFmtLine_gen -----------------------------
(* Generator (mode G) for OldFmtLine: the same exhaustive enumeration of physical  *)
(* lines; for every line one replay case with the classifications the contract      *)
(* allows (kind and the lengths of key / value / name, which are a prefix, a suffix *)
(* and the run after the prefix of the line's text) and the class of the line in    *)
(* the comparison with the NEW reader.  The invariants of OldFmtLine are checked in *)
(* the same run.                                                                    *)
EXTENDS OldFmtLine, Json, SequencesExt

Shape(c) == [kind |-> c.kind, nkey |-> Len(c.key), nval |-> Len(c.val), nname |-> Len(c.name)]

GenCase ==
  PrintT(ToJson([tag |-> "case", fam |-> "line", toks |-> Line, ntext |-> Len(Text),
                 allowed |-> SetToSeq({Shape(c) : c \in Allowed(Text)}),
                 newkind |-> NewKind, class |-> Class]))
=============================================================================
