SPECIFICATION Spec
CONSTANTS
  AlphaK = {"a", "@", "Z", "^", "1", ":", " ", ">", "~", "#", "-", "<"}
  NK = 4
  AlphaB = {"Benchmark", "Unit", "Z", "a", "_1", "_a", " ", "~", "<", ":"}
  NB = 5
  ExcludeTrailingCR = TRUE
INVARIANTS OpAgrees RenderStable Disjoint NewDiff GenCase
CHECK_DEADLOCK FALSE
