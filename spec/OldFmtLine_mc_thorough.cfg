SPECIFICATION Spec
CONSTANTS
  AlphaK = {"a", "@", "Z", "^", "1", ":", " ", ">", "~", "#", "-", "<"}
  NK = 6
  AlphaB = {"Benchmark", "Unit", "Z", "a", "_1", "_a", " ", "~", "<", ":"}
  NB = 6
  ExcludeTrailingCR = TRUE
INVARIANTS OpAgrees RenderStable Disjoint NewDiff
CHECK_DEADLOCK FALSE
