SPECIFICATION Spec
CONSTANTS
  AlphaK = {"a", "@", "Z", "^", "1", ":", " ", ">", "~", "#", "-", "<"}
  NK = 5
  AlphaB = {"Benchmark", "Unit", "Z", "a", "_1", "_a", " ", "~", "<", ":"}
  NB = 5
  ExcludeTrailingCR = FALSE
INVARIANTS OpAgrees RenderStable Disjoint NewDiff
CHECK_DEADLOCK FALSE
