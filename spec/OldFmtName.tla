------------------------------- MODULE OldFmtName -------------------------------
(* Name labels of the LEGACY package (storage/benchfmt parseNameLabels): the       *)
(* "ephemeral labels that were parsed from the benchmark name" (Result.NameLabels), *)
(* which the storage server indexes next to the file labels.                        *)
(*                                                                                 *)
(* A name (the first field of a benchmark line less "Benchmark") is a sequence of   *)
(* tokens: "x" "y" runs of ordinary characters, "1" a run of digits, "/" "=" "-"    *)
(* the separators, and the literals "name", "gomaxprocs", "sub2" (keys a name can   *)
(* collide with).  Concatenation of tokens is concatenation of text.                *)
(*                                                                                 *)
(* Declarative side.  A name is a list of DEFINITIONS, in this order:               *)
(*   1. "-N as an alias for /gomaxprocs=N": if the text after the LAST "-" is a     *)
(*      number, gomaxprocs := N and the name ends before that "-";                  *)
(*   2. the rest is split at "/": the first part defines name (if not empty);       *)
(*   3. the i-th further part defines key := value if it contains "=" (split at the *)
(*      first "="), else sub<i> := part (i counts ALL further parts: this is how    *)
(*      existing stored data is keyed);                                             *)
(*   a definition with an empty value defines nothing ("an empty value means no     *)
(*   such label").  The labels are: for every key the value of its LAST definition. *)
(* Where nothing documents the outcome the specification is free:                   *)
(*   EmptyLater: a later definition with an empty value either leaves an earlier    *)
(*               definition of the key in place (as built) or removes it;           *)
(*   EmptyKey:   a definition with an empty key ("/=v") is either kept (as built)   *)
(*               or dropped;                                                        *)
(*   SuffixLast: with gomaxprocs given by the suffix AND by an explicit part, either *)
(*               the explicit part wins (as built: the suffix is definition 1) or    *)
(*               the suffix does.                                                    *)
(* Operational side: the code's sequence of map assignments.  OpAllowed: its result *)
(* is one of the allowed label maps, for every name.                                *)
EXTENDS Naturals, Sequences, FiniteSets, TLC

CONSTANTS Alpha, N      \* token alphabet, length bound

VARIABLE name

DropN(s, n) == SubSeq(s, n + 1, Len(s))
IsNumber(s) == s # <<>> /\ \A i \in 1..Len(s) : s[i] = "1"
LastIndexOf(s, c) == IF \E i \in 1..Len(s) : s[i] = c
                     THEN CHOOSE i \in 1..Len(s) : s[i] = c /\ \A j \in (i+1)..Len(s) : s[j] # c
                     ELSE 0
IndexOf(s, c) == IF \E i \in 1..Len(s) : s[i] = c
                 THEN CHOOSE i \in 1..Len(s) : s[i] = c /\ \A j \in 1..(i-1) : s[j] # c
                 ELSE 0

\* split at "/"
RECURSIVE Split(_)
Split(s) == LET p == IndexOf(s, "/") IN
            IF p = 0 THEN <<s>> ELSE <<SubSeq(s, 1, p - 1)>> \o Split(DropN(s, p))

\* 1. the gomaxprocs suffix
Dash(s) == LastIndexOf(s, "-")
HasProcs(s) == Dash(s) > 0 /\ IsNumber(DropN(s, Dash(s)))
Base(s)  == IF HasProcs(s) THEN SubSeq(s, 1, Dash(s) - 1) ELSE s
Procs(s) == DropN(s, Dash(s))

PosKey(i) == <<"sub" \o ToString(i)>>

\* the definitions of a name, in order: sequence of [k, v]
Defs(s) ==
  LET parts == Split(Base(s))
      sub(i) == LET p == parts[i + 1]
                    e == IndexOf(p, "=")
                IN IF e > 0 THEN [k |-> SubSeq(p, 1, e - 1), v |-> DropN(p, e)]
                   ELSE [k |-> PosKey(i), v |-> p]
  IN (IF HasProcs(s) THEN <<[k |-> <<"gomaxprocs">>, v |-> Procs(s)]>> ELSE <<>>)
     \o <<[k |-> <<"name">>, v |-> parts[1]]>>
     \o [i \in 1..(Len(parts) - 1) |-> sub(i)]

\* declarative: last definition wins; the two free choices as parameters
LabelsOf(s, emptyLaterRemoves, emptyKeyKept, suffixLast) ==
  LET ds0 == IF suffixLast /\ HasProcs(s) THEN Tail(Defs(s)) \o <<Head(Defs(s))>> ELSE Defs(s)
      ds == SelectSeq(ds0, LAMBDA d : emptyKeyKept \/ d.k # <<>>)
      eff == IF emptyLaterRemoves THEN ds ELSE SelectSeq(ds, LAMBDA d : d.v # <<>>)
      keys == {eff[i].k : i \in 1..Len(eff)}
      last(k) == CHOOSE i \in 1..Len(eff) : eff[i].k = k /\ \A j \in (i+1)..Len(eff) : eff[j].k # k
      defined == {k \in keys : eff[last(k)].v # <<>>}
  IN [k \in defined |-> eff[last(k)].v]

Allowed(s) == {LabelsOf(s, a, b, c) : a \in BOOLEAN, b \in BOOLEAN, c \in BOOLEAN}

\* operational: parseNameLabels as shipped - map assignments in order, empty values skipped
AsBuilt(s) ==
  LET ds == Defs(s)
      f[i \in 0..Len(ds)] ==
        IF i = 0 THEN <<>>
        ELSE IF ds[i].v = <<>> THEN f[i-1]
        ELSE [x \in DOMAIN f[i-1] \cup {ds[i].k} |-> IF x = ds[i].k THEN ds[i].v ELSE f[i-1][x]]
  IN f[Len(ds)]

-----------------------------------------------------------------------------
Init == name = <<>>
Next == Len(name) < N /\ \E c \in Alpha : name' = Append(name, c)
Spec == Init /\ [][Next]_name

OpAllowed == AsBuilt(name) \in Allowed(name)

\* lemmas about the contract itself
\* the labels depend on the name only, values are never empty
NoEmptyValues == \A m \in Allowed(name) : \A k \in DOMAIN m : m[k] # <<>>
\* a name without separators is just the name label
PlainName == (\A i \in 1..Len(name) : name[i] \notin {"/", "=", "-"}) =>
             Allowed(name) = {IF name = <<>> THEN <<>> ELSE [k \in {<<"name">>} |-> name]}
\* the suffix is an alias: name-N and name/gomaxprocs=N mean the same (when the name does not
\* define gomaxprocs a second time)
Alias == (HasProcs(name) /\ \A i \in 2..Len(Defs(name)) : Defs(name)[i].k # <<"gomaxprocs">>) =>
         Allowed(name) = Allowed(Base(name) \o <<"/", "gomaxprocs", "=">> \o Procs(name))

\* where the contract is free on this name
Free == Cardinality(Allowed(name)) > 1
=============================================================================
