----------------------------- MODULE OldFmtName_gen -----------------------------
(* Generator (mode G) for OldFmtName: every name within the bound, with the label   *)
(* maps the contract allows for it (each a list of <<key tokens, value tokens>>).    *)
EXTENDS OldFmtName, Json, SequencesExt

Pairs(m) == SetToSeq({<<k, m[k]>> : k \in DOMAIN m})

GenCase ==
  PrintT(ToJson([tag |-> "case", fam |-> "name", name |-> name,
                 allowed |-> SetToSeq({Pairs(m) : m \in Allowed(name)}),
                 free |-> Free]))
=============================================================================
