SPECIFICATION Spec
CONSTANTS
  Alpha = {"x", "1", "/", "=", "-", "name", "gomaxprocs", "sub2"}
  N = 5
INVARIANTS OpAllowed NoEmptyValues PlainName Alias GenCase
CHECK_DEADLOCK FALSE
