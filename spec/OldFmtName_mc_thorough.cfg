SPECIFICATION Spec
CONSTANTS
  Alpha = {"x", "y", "1", "/", "=", "-", "name", "gomaxprocs", "sub2"}
  N = 6
INVARIANTS OpAllowed NoEmptyValues PlainName Alias
CHECK_DEADLOCK FALSE
