SPECIFICATION Spec
CONSTANTS
  Keys = {"k1", "k2"}
  Vals = {"v1", "v2"}
  Contents = {"c1", "c2"}
  MaxLines = 6
  MaxResults = 1
  Source = "reader"
  WithFaults = FALSE
  HeaderReopens = TRUE
INVARIANTS AddIsHeader
CHECK_DEADLOCK FALSE
