------------------------------- MODULE OldFmt_gen -------------------------------
(* Generator wrapper (mode G) for OldFmt: explores the same state graph with a     *)
(* path variable that is hidden from the VIEW and prints one replay case per        *)
(* explored transition at which a public call RETURNS:                              *)
(*   reader source: Next returning a result (a benchmark line was scanned), Next    *)
(*     returning false (end of input / read error), Next after the end.  The path   *)
(*     is the BFS-shortest history of AddLabels and input lines reaching the source *)
(*     state plus that step; every returning step carries what the call must        *)
(*     return (the result's labels, content and line number).                       *)
(*   caller source: every Print of a hand-built result (labels may hold empty       *)
(*     values), with what a reader of the output must report for it and how many    *)
(*     label lines are necessary; and every Print whose writer fails at line j.     *)
(* `depth` counts the results of the caller source beyond the saturating counter of *)
(* the specification, so that histories of every length up to GenDepth are kept.    *)
EXTENDS OldFmt, Json, SequencesExt

CONSTANT GenDepth

\* `shadow` is the first reader run by the AS-BUILT header rule (OldFmt's switch HeaderReopens).  It is part
\* of the VIEW only: two histories that the documented rule takes to the same state but the as-built rule
\* does not are both kept, so the replay reaches the inputs on which the known deviation shows.
VARIABLES hist, depth, shadow
gvars == <<vars, hist, depth, shadow>>

GInit == Init /\ hist = <<>> /\ depth = 0 /\ shadow = NewReader

GAdd(L) == R1Add(L) /\ hist' = Append(hist, [a |-> "add", labels |-> L]) /\ shadow' = RdAdd(shadow, L) /\ UNCHANGED depth
GBegin  == R1Begin /\ shadow' = RdBegin(shadow) /\ UNCHANGED <<hist, depth>>
GScan(l) ==
  /\ R1Scan(l)
  /\ hist' = Append(hist, IF l.t = "bench"
                          THEN [a |-> "line", l |-> l, ret |-> TRUE, res |-> res1']
                          ELSE [a |-> "line", l |-> l, ret |-> FALSE, res |-> NoRes])
  /\ shadow' = RdLineX(shadow, l, TRUE)
  /\ UNCHANGED depth
GEnd(kind) == R1End(kind) /\ hist' = Append(hist, [a |-> "end", kind |-> kind]) /\ shadow' = RdEnd(shadow, kind) /\ UNCHANGED depth
\* Next after the end: once per path is enough
GAfter == R1After /\ hist[Len(hist)].a # "after" /\ hist' = Append(hist, [a |-> "after", kind |-> r1.done]) /\ UNCHANGED <<depth, shadow>>

GCaller(L, c) ==
  /\ depth < GenDepth
  /\ CallerResult(L, c)
  /\ depth' = depth + 1
  /\ hist' = Append(hist, [a |-> "print", labels |-> L, content |-> c,
                           expect |-> NonEmpty(L),
                           nneed |-> Cardinality(NeedLines(p1, L)),
                           clean |-> (~HasEmpty(p1) /\ ~HasEmpty(L))])
  /\ UNCHANGED shadow
GFail(ord, j) ==
  /\ PrintFail(ord, j)
  /\ hist' = Append(hist, [a |-> "printfail", j |-> j, nneed |-> Len(ord), need |-> SetToSeq(NeedLines(p1, src.labels))])
  /\ UNCHANGED <<depth, shadow>>
\* the order of the label lines is explored in mode M; here one order is enough
Canon == SetToSeq(NeedLines(p1, src.labels))
GChain == (P1Print(Canon) \/ R2Begin \/ R2Scan \/ P2Print) /\ UNCHANGED <<hist, depth, shadow>>

GNext ==
  \/ \E L \in LabelMaps : GAdd(L)
  \/ GBegin
  \/ \E l \in LineAlphabet : GScan(l)
  \/ \E kind \in {"eof", "err"} : GEnd(kind)
  \/ GAfter
  \/ \E L \in CallerMaps, c \in Contents : GCaller(L, c)
  \/ \E j \in 1..(Len(Canon) + 1) : GFail(Canon, j)
  \/ GChain

GSpec == GInit /\ [][GNext]_gvars

View == <<vars, depth, shadow.labels, shadow.perm, shadow.permSet, shadow.havePerm>>

Returning(s) == \/ s.a \in {"end", "after", "print", "printfail"}
                \/ (s.a = "line" /\ s.ret)

Emit ==
  IF hist' # hist /\ Returning(hist'[Len(hist')])
  THEN PrintT(ToJson([tag |-> "case", src |-> Source, path |-> hist']))
  ELSE TRUE
=============================================================================
