SPECIFICATION GSpec
CONSTANTS
  Keys = {"k1", "k2"}
  Vals = {"v1", "v2"}
  Contents = {"c1", "c2"}
  MaxLines = 8
  MaxResults = 1
  Source = "reader"
  WithFaults = FALSE
  HeaderReopens = FALSE
  GenDepth = 0
VIEW View
ACTION_CONSTRAINT Emit
INVARIANTS RoundTrip HeaderAtStart AddIsHeader
CHECK_DEADLOCK FALSE
