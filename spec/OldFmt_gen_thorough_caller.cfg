SPECIFICATION GSpec
CONSTANTS
  Keys = {"k1", "k2", "k3"}
  Vals = {"v1", "v2", "v3"}
  Contents = {"c1"}
  MaxLines = 0
  MaxResults = 1
  Source = "caller"
  WithFaults = TRUE
  HeaderReopens = FALSE
  GenDepth = 5
VIEW View
ACTION_CONSTRAINT Emit
INVARIANTS RoundTrip Stable
CHECK_DEADLOCK FALSE
