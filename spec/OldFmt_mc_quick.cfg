SPECIFICATION Spec
CONSTANTS
  Keys = {"k1", "k2"}
  Vals = {"v1", "v2"}
  Contents = {"c1", "c2"}
  MaxLines = 6
  MaxResults = 1
  Source = "reader"
  WithFaults = FALSE
  HeaderReopens = FALSE
INVARIANTS TypeOK RoundTrip BeliefSound PrintedHasNoHeader Necessary Stable HeaderAtStart HeaderDecided AddIsHeader PermProtected LineNumOK
PROPERTIES PermStable EndIsFinal
CHECK_DEADLOCK FALSE
