SPECIFICATION Spec
CONSTANTS
  Keys = {"k1", "k2", "k3"}
  Vals = {"v1", "v2", "v3"}
  Contents = {"c1", "c2"}
  MaxLines = 0
  MaxResults = 1
  Source = "caller"
  WithFaults = TRUE
  HeaderReopens = FALSE
INVARIANTS TypeOK RoundTrip BeliefSound PrintedHasNoHeader Necessary Stable HeaderAtStart HeaderDecided AddIsHeader PermProtected LineNumOK
PROPERTIES PermStable EndIsFinal
CHECK_DEADLOCK FALSE
