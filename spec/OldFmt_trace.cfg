SPECIFICATION TSpec
CONSTANTS
  Keys = {}
  Vals = {}
  Contents = {}
  MaxLines = 0
  MaxResults = 1
  Source = "trace"
  WithFaults = FALSE
  HeaderReopens = FALSE
INVARIANTS ConformRead ConformPrint RoundTrip BeliefSound PrintedHasNoHeader Necessary Stable PermProtected
CONSTRAINT HW
POSTCONDITION Post
CHECK_DEADLOCK FALSE
