------------------------------ MODULE OldFmt_trace ------------------------------
(* Trace validation (mode T) for OldFmt: events recorded from the real Reader and   *)
(* Printer of storage/benchfmt are replayed through the specification's rules.      *)
(*                                                                                  *)
(*   reset  start of an independent trace                                           *)
(*   add    Reader.AddLabels(labels)                                                *)
(*   next   one call of Reader.Next: the (abstract) input lines it consumed, whether *)
(*          it returned true, whether Err() is set afterwards, and the Result it     *)
(*          returned.  The specification's reader (RdBegin, RdLine per line, RdEnd)  *)
(*          must return the same.                                                    *)
(*   print  Printer.Print of a result (labels, content): the lines it wrote, and     *)
(*          what the real Reader of everything printed reported for this result.     *)
(*          The lines are put on the specification's wire and read by its second     *)
(*          reader (silent steps R2Begin, R2Scan, P2Print); RoundTrip, Necessary,    *)
(*          Stable and BeliefSound of OldFmt are checked on every state and Conform  *)
(*          demands that the specification's reader reports what the real one did.   *)
(* The order in which the printer writes its label lines is not prescribed.          *)
EXTENDS OldFmt, Json, SequencesExt

TraceLog == ndJsonDeserialize("trace.ndjson")

VARIABLES l, expRes, specRes, expGot
tvars == <<vars, l, expRes, specRes, expGot>>

AsLine(x) == [t |-> x.t, k |-> x.k, v |-> x.v]
Lines(s) == [i \in 1..Len(s) |-> AsLine(s[i])]
\* a JSON object with string values as a function; the empty object arrives as an empty tuple
AsMap(m) == [k \in DOMAIN m |-> m[k]]
AsRes(x) == [labels |-> AsMap(x.labels), content |-> x.content, line |-> x.line]

TInit == Init /\ l = 1 /\ expRes = NoRes /\ specRes = NoRes /\ expGot = NoRes

Ev == TraceLog[l]

TraceReset ==
  /\ l <= Len(TraceLog) /\ Ev.ev = "reset" /\ phase = "idle"
  /\ r1' = NewReader /\ line1' = 0 /\ res1' = NoRes
  /\ ghost' = [added |-> FALSE, addl |-> <<>>, first |-> "none", hdr |-> <<>>]
  /\ twin' = NewReader
  /\ src' = NoRes /\ p1' = <<>> /\ wire' = <<>> /\ r2' = NewReader /\ got2' = NoRes /\ p2' = <<>>
  /\ l1set' = {} /\ clean' = TRUE /\ nres' = 0 /\ phase' = "idle"
  /\ expRes' = NoRes /\ specRes' = NoRes /\ expGot' = NoRes
  /\ l' = l + 1

TraceAdd ==
  /\ l <= Len(TraceLog) /\ Ev.ev = "add" /\ phase = "idle" /\ ~r1.started
  /\ r1' = RdAdd(r1, AsMap(Ev.labels))
  /\ l' = l + 1
  /\ UNCHANGED <<line1, res1, ghost, twin, expRes, specRes, expGot>> /\ UNCHANGED chain

\* one call of Next: all lines it consumed in one step
TraceNext ==
  /\ l <= Len(TraceLog) /\ Ev.ev = "next" /\ phase = "idle"
  /\ LET ls == Lines(Ev.lines)
         n  == Len(ls)
     IN IF r1.done # "no"
        THEN \* after the end: false, no input consumed, nothing changes
             /\ n = 0 /\ ~Ev.ok /\ (Ev.err <=> r1.done = "err")
             /\ UNCHANGED <<r1, line1, res1, expRes, specRes>>
        ELSE LET rf == FoldLeft(LAMBDA r, x : RdLine(r, x), RdBegin(r1), ls) IN
             \* a benchmark line ends the call, and only a benchmark line does
             /\ \A i \in 1..(n - 1) : ls[i].t # "bench"
             /\ Ev.ok <=> (n > 0 /\ ls[n].t = "bench")
             /\ \A i \in 1..n : ls[i].t \in {"set", "del", "blank", "other", "bench"}
             /\ line1' = line1 + n
             /\ IF Ev.ok
                THEN /\ r1' = rf
                     /\ res1' = [labels |-> rf.labels, content |-> ls[n].v, line |-> line1 + n]
                     /\ specRes' = res1'
                     /\ expRes' = AsRes(Ev.res)
                ELSE /\ r1' = RdEnd(rf, IF Ev.err THEN "err" ELSE "eof")
                     /\ UNCHANGED <<res1, expRes, specRes>>
  /\ l' = l + 1
  /\ UNCHANGED <<ghost, twin, expGot>> /\ UNCHANGED chain

OneBenchLast(s) == /\ Len(s) >= 1 /\ s[Len(s)].t = "bench"
                   /\ \A i \in 1..(Len(s)-1) : s[i].t \in {"set", "del"}

TracePrint ==
  /\ l <= Len(TraceLog) /\ Ev.ev = "print" /\ phase = "idle"
  /\ LET ls == Lines(Ev.lines) IN
       /\ OneBenchLast(ls)
       /\ wire' = ls
       /\ l1set' = {ls[i] : i \in 1..(Len(ls) - 1)}
       \* no key twice: the lines are a set
       /\ Cardinality({ls[i].k : i \in 1..(Len(ls) - 1)}) = Len(ls) - 1
  /\ src' = [labels |-> AsMap(Ev.labels), content |-> Ev.content, line |-> 0]
  /\ clean' = (~HasEmpty(p1) /\ ~HasEmpty(AsMap(Ev.labels)))
  /\ p1' = AsMap(Ev.labels)
  /\ phase' = "read2" /\ nres' = Bump(nres)
  /\ expGot' = [labels |-> AsMap(Ev.got.labels), content |-> Ev.got.content, line |-> 0]
  /\ l' = l + 1
  /\ UNCHANGED <<r1, line1, res1, ghost, twin, r2, got2, p2, expRes, specRes>>

TraceChain == (R2Begin \/ R2Scan \/ P2Print) /\ UNCHANGED <<l, expRes, specRes, expGot>>

TNext == TraceReset \/ TraceAdd \/ TraceNext \/ TracePrint \/ TraceChain
TSpec == TInit /\ [][TNext]_tvars

\* the real reader returned what the specification's reader returns
ConformRead == specRes = expRes
\* the real reader of the printed text reported what the specification's reader reports
ConformPrint == phase = "print2" => (got2.labels = expGot.labels /\ got2.content = expGot.content)

HW == IF l > TLCGet(1) THEN TLCSet(1, l) ELSE TRUE
Post == PrintT("TRACE hwm=" \o ToString(TLCGet(1) - 1) \o " len=" \o ToString(Len(TraceLog)))
ASSUME TLCSet(1, 0)
=============================================================================
