------------------------------- MODULE Projection -------------------------------
(* benchproc projections: a ProjectionParser parses several projection           *)
(* expressions (in any order), then results are projected to interned Keys.       *)
(*                                                                                *)
(* Modelled at the grain of the code (benchproc/projection.go, key.go, sort.go,   *)
(* extract.go):                                                                   *)
(*   Parse(e)    ProjectionParser.Parse: fields get row indices in allocation     *)
(*               order; specific config keys and sub-name keys are remembered by  *)
(*               the PARSER and excluded from .config / .fullname of ALL its      *)
(*               projections (looked up when a result is projected)               *)
(*   Residue     ProjectionParser.Residue                                         *)
(*   Project(r)  Projection.Project for every projection: populate the row (the   *)
(*               .config group grows a new sub-field, at the END of the index     *)
(*               space, for every unseen file key), trim trailing empties, look   *)
(*               the row up among the interned keys, else intern it and record    *)
(*               first-observation ranks                                          *)
(* and, separately, the declarative meaning: a key IS the tuple of extracted      *)
(* field values (missing = empty).  Properties C08 (KeyEq, GetFaithful,           *)
(* exclusion independent of parse order, NoLoss) and C09 (strict total order,     *)
(* documented per-field orders, first-observation order inside .config).          *)
(*                                                                                *)
(* UnrankedGroupSubs = TRUE re-enables the code's deviation as shipped:           *)
(* observation ranks are recorded for top-level fields only, so the keys inside   *)
(* .config compare bytewise instead of by first appearance.                       *)
EXTENDS Integers, Sequences, FiniteSets, TLC

CONSTANTS CfgKeys, Vals, Bases, XVals, XYVals, GVals, MenuIds, MaxExprs, MaxResults, UnrankedGroupSubs

\* ---------------------------------------------------------------- value attributes
\* bytewise (strings.Compare) rank of every value token that can occur in a row
AlphaRank(v) ==
  CASE v = "" -> 0 [] v = "*" -> 1 [] v = ".5k" -> 2 [] v = "010" -> 3 [] v = "1000" -> 4 [] v = "1Ki" -> 5 [] v = "1Y" -> 6 [] v = "1Yi" -> 7
    [] v = "1Z" -> 8 [] v = "1Zi" -> 9 [] v = "1k" -> 10 [] v = "4" -> 11 [] v = "64" -> 12 [] v = "9" -> 13
    [] v = "N1" -> 14 [] v = "N2" -> 15 [] v = "NaN" -> 16 [] v = "s1" -> 17 [] v = "s2" -> 18 [] v = "x" -> 19
    [] OTHER -> 20
\* numeric reading of the 'num' order: <<class, rank>>, class 0 = number, 1 = NaN, 2 = not a number;
\* rank orders the numbers (equal rank = equal value): 4 < 9 < 010 (ten, zero-padded) < 64 < .5k (500, no
\* leading zero) < 1000 = 1k < 1Ki (1024) < 1Z (1e21) < 1Zi (2^70) < 1Y (1e24) < 1Yi (2^80).
NumOf(v) ==
  CASE v = "4" -> <<0, 1>> [] v = "9" -> <<0, 2>> [] v = "010" -> <<0, 3>> [] v = "64" -> <<0, 4>> [] v = ".5k" -> <<0, 5>>
    [] v = "1000" -> <<0, 6>> [] v = "1k" -> <<0, 6>>
    [] v = "1Ki" -> <<0, 7>> [] v = "1Z" -> <<0, 8>> [] v = "1Zi" -> <<0, 9>> [] v = "1Y" -> <<0, 10>> [] v = "1Yi" -> <<0, 11>>
    [] v = "NaN" -> <<1, 0>> [] OTHER -> <<2, 0>>

\* ---------------------------------------------------------------- expressions
F(k, o) == [key |-> k, ord |-> o]
FixedList == <<"9", "1000">>          \* c1@(9 1000)
Menu ==
  [ e1 |-> <<F(".config", "first")>>,
    e2 |-> <<F(".fullname", "first")>>,
    e3 |-> <<F("c1", "first")>>,
    e4 |-> <<F("/x", "first")>>,
    e5 |-> <<F(".name", "first"), F(".config", "first")>>,
    e6 |-> <<F("c2", "alpha"), F(".config", "first")>>,
    e7 |-> <<F(".config", "alpha"), F("c1", "num")>>,
    e8 |-> <<F("/gomaxprocs", "num"), F(".fullname", "first")>>,
    e9 |-> <<F("c1", "fixed"), F(".name", "alpha")>>,
    e10 |-> <<F("c1", "num"), F("c2", "first")>>,
    e11 |-> <<F(".config", "first"), F(".name", "first")>> ]

IsNameKey(k) == k \in {".name", "/x", "/gomaxprocs"}
IsPlain(k) == k \in CfgKeys

\* ---------------------------------------------------------------- results
\* file configuration, name = base[/x=X][/xy=XY][-G] (the key "/xy" extends the key "/x" and is
\* never projected on its own); rev: Config slice lists keys in reverse order
Results == {r \in [cfg : UNION {[D -> Vals] : D \in SUBSET CfgKeys}, base : Bases, x : XVals, xy : XYVals, g : GVals, rev : BOOLEAN] :
              r.rev => Cardinality(DOMAIN r.cfg) >= 2}

FullName(r, nx) ==
  (IF ".name" \in nx THEN "*" ELSE r.base)
  \o (IF r.x # "" /\ "/x" \notin nx THEN "/x=" \o r.x ELSE "")
  \o (IF r.xy # "" THEN "/xy=" \o r.xy ELSE "")
  \o (IF r.g # "" /\ "/gomaxprocs" \notin nx THEN "-" \o r.g ELSE "")

\* declarative extraction of one non-group key
Extract(k, r, nx) ==
  CASE k = ".name" -> r.base
    [] k = "/x" -> r.x
    [] k = "/gomaxprocs" -> r.g
    [] k = ".fullname" -> FullName(r, nx)
    [] OTHER -> IF k \in DOMAIN r.cfg THEN r.cfg[k] ELSE ""

KeyOrder == CHOOSE s \in [1..Cardinality(CfgKeys) -> CfgKeys] :
              \A i, j \in 1..Cardinality(CfgKeys) : i < j => AlphaRank(s[i]) <= AlphaRank(s[j]) /\ s[i] # s[j]
Reverse(s) == [i \in 1..Len(s) |-> s[Len(s) + 1 - i]]
\* the file keys of r in the order of its Config slice
CfgSeq(r) == LET all == IF r.rev THEN Reverse(KeyOrder) ELSE KeyOrder
             IN SelectSeq(all, LAMBDA k : k \in DOMAIN r.cfg)

\* ---------------------------------------------------------------- state
VARIABLES
  todo,     \* expressions still to be parsed (set of menu ids)
  cx, nx,   \* ProjectionParser.configKeys / fullnameKeys (as sets)
  haveCfg, haveFull,
  P,        \* parsed projections in parse order (see NewProj)
  phase,    \* "parse" | "project"
  stream    \* results projected so far (ghost, for the declarative side)

vars == <<todo, cx, nx, haveCfg, haveFull, P, phase, stream>>

\* a projection: top-level entries in expression order; an entry is a field
\* [name, idx, ord, grp=FALSE] or the .config group [name, idx=0, ord, grp=TRUE];
\* subs: the group's sub-fields in order of appearance; n: fields allocated;
\* rows: interned keys (trimmed value sequences indexed by idx);
\* obs: idx -> values in first-observation order
NewProj(id, spec) ==
  LET top == [i \in 1..Len(spec) |->
                IF spec[i].key = ".config"
                THEN [name |-> ".config", idx |-> 0, ord |-> spec[i].ord, grp |-> TRUE, born |-> 0]
                ELSE [name |-> spec[i].key,
                      idx |-> Cardinality({j \in 1..i : spec[j].key # ".config"}),
                      ord |-> spec[i].ord, grp |-> FALSE, born |-> 0]]
      n == Cardinality({j \in 1..Len(spec) : spec[j].key # ".config"})
  IN [id |-> id, top |-> top, subs |-> <<>>, n |-> n, rows |-> <<>>, obs |-> [i \in 1..n |-> <<>>]]

Init ==
  /\ todo \in {S \in SUBSET MenuIds : Cardinality(S) \in 1..MaxExprs}
  /\ cx = {} /\ nx = {} /\ haveCfg = FALSE /\ haveFull = FALSE
  /\ P = <<>> /\ phase = "parse" /\ stream = <<>>

Keys(spec) == {spec[i].key : i \in 1..Len(spec)}

Parse(id) ==
  /\ phase = "parse" /\ id \in todo
  /\ LET spec == Menu[id] IN
       /\ P' = Append(P, NewProj(id, spec))
       /\ cx' = cx \cup {k \in Keys(spec) : IsPlain(k)}
       /\ nx' = nx \cup {k \in Keys(spec) : IsNameKey(k)}
       /\ haveCfg' = (haveCfg \/ ".config" \in Keys(spec))
       /\ haveFull' = (haveFull \/ ".fullname" \in Keys(spec))
  /\ todo' = todo \ {id}
  /\ UNCHANGED <<phase, stream>>

ResidueSpec == (IF haveCfg THEN <<>> ELSE <<F(".config", "first")>>)
               \o (IF haveFull THEN <<>> ELSE <<F(".fullname", "first")>>)

Residue ==
  /\ phase = "parse" /\ todo = {}
  /\ P' = Append(P, NewProj("residue", ResidueSpec))
  /\ phase' = "project"
  /\ UNCHANGED <<todo, cx, nx, haveCfg, haveFull, stream>>

\* ---------------------------------------------------------------- projecting (operational)
RECURSIVE Trim(_)
Trim(row) == IF row # <<>> /\ row[Len(row)] = "" THEN Trim(SubSeq(row, 1, Len(row) - 1)) ELSE row

At(row, i) == IF i <= Len(row) THEN row[i] ELSE ""

\* new sub-fields that result r adds to the group of p, in Config order
NewSubs(p, r) ==
  LET have == {p.subs[i].name : i \in 1..Len(p.subs)}
  IN SelectSeq(CfgSeq(r), LAMBDA k : k \notin have /\ k \notin cx)

GroupOrd(p) == LET g == CHOOSE i \in 1..Len(p.top) : p.top[i].grp IN p.top[g].ord
HasGroup(p) == \E i \in 1..Len(p.top) : p.top[i].grp

Grow(p, r) ==
  IF ~HasGroup(p) THEN p
  ELSE LET ns == NewSubs(p, r)
           add == [i \in 1..Len(ns) |-> [name |-> ns[i], idx |-> p.n + i, ord |-> GroupOrd(p), grp |-> FALSE, born |-> Len(p.rows)]]
       IN [p EXCEPT !.subs = p.subs \o add, !.n = p.n + Len(ns),
                    !.obs = [i \in 1..(p.n + Len(ns)) |-> IF i <= p.n THEN p.obs[i] ELSE <<>>]]

\* all fields with a row index: top-level fields and group sub-fields
AllFields(p) == {p.top[i] : i \in {j \in 1..Len(p.top) : ~p.top[j].grp}} \cup {p.subs[i] : i \in 1..Len(p.subs)}
FieldAt(p, i) == CHOOSE f \in AllFields(p) : f.idx = i

RowOf(p, r) == [i \in 1..p.n |-> Extract(FieldAt(p, i).name, r, nx)]

\* does r pass p's fixed-list filter?
PassesFixed(p, r) ==
  \A i \in 1..Len(p.top) : p.top[i].ord = "fixed" =>
      \E j \in 1..Len(FixedList) : FixedList[j] = Extract(p.top[i].name, r, nx)

RankedFields(p) ==
  {f \in AllFields(p) : f.ord = "first" /\
      (UnrankedGroupSubs => f \in {p.top[i] : i \in 1..Len(p.top)})}

InternRow(p, row) ==
  IF \E k \in 1..Len(p.rows) : p.rows[k] = row THEN p
  ELSE [p EXCEPT !.rows = Append(p.rows, row),
                 !.obs = [i \in 1..p.n |->
                            IF (\E f \in RankedFields(p) : f.idx = i)
                               /\ ~\E j \in 1..Len(p.obs[i]) : p.obs[i][j] = At(row, i)
                            THEN Append(p.obs[i], At(row, i)) ELSE p.obs[i]]]

ProjectOne(p, r) ==
  IF ~PassesFixed(p, r) THEN p
  ELSE LET q == Grow(p, r) IN InternRow(q, Trim(RowOf(q, r)))

Project(r) ==
  /\ phase = "project" /\ Len(stream) < MaxResults
  /\ P' = [i \in 1..Len(P) |-> ProjectOne(P[i], r)]
  /\ stream' = Append(stream, r)
  /\ UNCHANGED <<todo, cx, nx, haveCfg, haveFull, phase>>

Next == (\E id \in MenuIds : Parse(id)) \/ Residue \/ (\E r \in Results : Project(r))
Spec == Init /\ [][Next]_vars

\* ---------------------------------------------------------------- declarative side
\* flattened fields of p in comparison order: top-level order, the group replaced
\* by its sub-fields in order of first appearance
Flat(p) ==
  LET f[i \in 0..Len(p.top)] ==
        IF i = 0 THEN <<>>
        ELSE f[i-1] \o (IF p.top[i].grp THEN p.subs ELSE <<p.top[i]>>)
  IN f[Len(p.top)]

\* the tuple a result denotes under p: field name -> value, for the fields known now
Tuple(p, r) == [f \in {x.name : x \in AllFields(p)} |-> Extract(f, r, nx)]

\* the results of the stream that p accepts
Accepted(p) == SelectSeq(stream, LAMBDA r : PassesFixed(p, r))

\* key number of a result under p = index of the first accepted result with the same tuple,
\* numbered by first appearance
FirstSame(p, i) == LET acc == Accepted(p) IN CHOOSE j \in 1..i : Tuple(p, acc[j]) = Tuple(p, acc[i]) /\ \A k \in 1..(j-1) : Tuple(p, acc[k]) # Tuple(p, acc[i])
Firsts(p) == {i \in 1..Len(Accepted(p)) : FirstSame(p, i) = i}
KeyNo(p, i) == Cardinality({j \in Firsts(p) : j <= FirstSame(p, i)})

\* value of the k-th interned key of p for a field
KeyVal(p, k, f) == At(p.rows[k], f.idx)

\* C08 -------------------------------------------------------------------------
\* keys are in bijection with distinct tuples, in order of first appearance, and
\* return exactly the extracted values
KeyEq ==
  \A pi \in 1..Len(P) : LET p == P[pi] acc == Accepted(p) IN
    /\ Len(p.rows) = Cardinality(Firsts(p))
    /\ \A i \in 1..Len(acc) : \A f \in AllFields(p) :
         KeyVal(p, KeyNo(p, i), f) = Extract(f.name, acc[i], nx)
    /\ \A a, b \in 1..Len(p.rows) : a # b => p.rows[a] # p.rows[b]

\* the .config group never contains a key that some projection of this parser names,
\* nor does .fullname contain an individually projected name part - whatever the parse order
\* (Extract uses the final nx; the group filter uses the final cx)
ExclusionSound ==
  phase = "project" =>
    \A pi \in 1..Len(P) : \A i \in 1..Len(P[pi].subs) : P[pi].subs[i].name \notin cx

\* projections + residue lose nothing: two results that agree on every key agree on
\* file configuration, on every individually projected name key and on the rest of the name
SameAll(r1, r2) == \A pi \in 1..Len(P) : (PassesFixed(P[pi], r1) /\ PassesFixed(P[pi], r2)) => Tuple(P[pi], r1) = Tuple(P[pi], r2)
NoLoss ==
  phase = "project" =>
    \A i, j \in 1..Len(stream) :
      LET r1 == stream[i] r2 == stream[j] IN
      (\A pi \in 1..Len(P) : PassesFixed(P[pi], r1) /\ PassesFixed(P[pi], r2)) =>
        (SameAll(r1, r2) <=> (r1.cfg = r2.cfg /\ r1.base = r2.base /\ r1.x = r2.x /\ r1.xy = r2.xy /\ r1.g = r2.g))

\* C09 -------------------------------------------------------------------------
Pos(s, v) == IF \E i \in 1..Len(s) : s[i] = v THEN CHOOSE i \in 1..Len(s) : s[i] = v ELSE 0

\* declarative first-observation rank of value v for field f of p: position of the first
\* KEY (in interning order) whose value for f is v.  A field of the .config group comes
\* into existence when its key is first seen (f.born keys exist already); a missing
\* value counts as observed only from then on, and a value never observed (only the
\* missing value can be) ranks before all observed ones.
ObsRank(p, f, v) ==
  LET ks == {k \in (f.born + 1)..Len(p.rows) : KeyVal(p, k, f) = v} IN
  IF ks = {} THEN 0 ELSE CHOOSE k \in ks : \A j \in ks : k <= j

\* documented comparison of two DIFFERENT values under a field's order: -1 / 1
Sign(a, b) == IF a < b THEN 0 - 1 ELSE IF a > b THEN 1 ELSE 0
DocCmp(p, f, a, b) ==
  LET tie == Sign(AlphaRank(a), AlphaRank(b)) IN
  CASE f.ord = "alpha" -> tie
    [] f.ord = "first" -> Sign(ObsRank(p, f, a), ObsRank(p, f, b))
    [] f.ord = "fixed" -> Sign(Pos(FixedList, a), Pos(FixedList, b))
    [] f.ord = "num" ->
         LET na == NumOf(a) nb == NumOf(b) IN
         IF na[1] # nb[1] THEN Sign(na[1], nb[1])              \* numbers < NaN < non-numbers
         ELSE IF na[1] = 0 /\ na[2] # nb[2] THEN Sign(na[2], nb[2])
         ELSE tie                                              \* equal numbers: bytewise

\* the code's comparator: rank tables as recorded operationally (p.obs); a value
\* that is not in the table reads as rank 0 (Go map lookup), ties fall back to bytewise
OpRank(p, f, v) == LET q == Pos(p.obs[f.idx], v) IN IF q = 0 THEN 0 ELSE q - 1
OpCmp(p, f, a, b) ==
  LET tie == Sign(AlphaRank(a), AlphaRank(b)) IN
  IF f.ord = "first"
  THEN LET c == Sign(OpRank(p, f, a), OpRank(p, f, b)) IN IF c # 0 THEN c ELSE tie
  ELSE DocCmp(p, f, a, b)

RECURSIVE LessBy(_, _, _, _, _)
LessBy(doc, p, flat, ra, rb) ==
  IF flat = <<>> THEN FALSE
  ELSE LET f == Head(flat) a == At(ra, f.idx) b == At(rb, f.idx) IN
       IF a # b THEN (IF doc THEN DocCmp(p, f, a, b) ELSE OpCmp(p, f, a, b)) < 0
       ELSE LessBy(doc, p, Tail(flat), ra, rb)

DocLess(p, a, b) == LessBy(TRUE, p, Flat(p), p.rows[a], p.rows[b])
OpLess(p, a, b) == LessBy(FALSE, p, Flat(p), p.rows[a], p.rows[b])

\* the order the code computes is the documented one ...
MatchesDocumentedOrder ==
  \A pi \in 1..Len(P) : \A a, b \in 1..Len(P[pi].rows) : OpLess(P[pi], a, b) = DocLess(P[pi], a, b)

\* ... and it is a strict total order on the distinct keys
StrictTotal ==
  \A pi \in 1..Len(P) : LET p == P[pi] n == Len(p.rows) IN
    /\ \A a \in 1..n : ~OpLess(p, a, a)
    /\ \A a, b \in 1..n : a # b => (OpLess(p, a, b) /\ ~OpLess(p, b, a)) \/ (OpLess(p, b, a) /\ ~OpLess(p, a, b))
    /\ \A a, b, c \in 1..n : (OpLess(p, a, b) /\ OpLess(p, b, c)) => OpLess(p, a, c)

TypeOK == phase \in {"parse", "project"} /\ Len(stream) <= MaxResults
=============================================================================
