---- MODULE Projection_TTrace_1790876767 ----
EXTENDS Sequences, TLCExt, Toolbox, Projection, Naturals, TLC

_expression ==
    LET Projection_TEExpression == INSTANCE Projection_TEExpression
    IN Projection_TEExpression!expression
----

_trace ==
    LET Projection_TETrace == INSTANCE Projection_TETrace
    IN Projection_TETrace!trace
----

_inv ==
    ~(
        TLCGet("level") = Len(_TETrace)
        /\
        phase = ("project")
        /\
        P = (<<[id |-> "e1", top |-> <<[ord |-> "first", name |-> ".config", idx |-> 0, grp |-> TRUE, born |-> 0]>>, n |-> 1, subs |-> <<[ord |-> "first", name |-> "c1", idx |-> 1, grp |-> FALSE, born |-> 0]>>, rows |-> <<<<"9">>, <<>>>>, obs |-> <<<<>>>>], [id |-> "e5", top |-> <<[ord |-> "first", name |-> ".name", idx |-> 1, grp |-> FALSE, born |-> 0], [ord |-> "first", name |-> ".config", idx |-> 0, grp |-> TRUE, born |-> 0]>>, n |-> 2, subs |-> <<[ord |-> "first", name |-> "c1", idx |-> 2, grp |-> FALSE, born |-> 0]>>, rows |-> <<<<"N1", "9">>, <<"N1">>>>, obs |-> <<<<"N1">>, <<>>>>], [id |-> "residue", top |-> <<[ord |-> "first", name |-> ".fullname", idx |-> 1, grp |-> FALSE, born |-> 0]>>, n |-> 1, subs |-> <<>>, rows |-> <<<<"*">>>>, obs |-> <<<<"*">>>>]>>)
        /\
        todo = ({})
        /\
        haveFull = (FALSE)
        /\
        cx = ({})
        /\
        stream = (<<[cfg |-> [c1 |-> "9"], base |-> "N1", x |-> "", g |-> "", rev |-> FALSE], [cfg |-> <<>>, base |-> "N1", x |-> "", g |-> "", rev |-> FALSE]>>)
        /\
        haveCfg = (TRUE)
        /\
        nx = ({".name"})
    )
----

_init ==
    /\ phase = _TETrace[1].phase
    /\ P = _TETrace[1].P
    /\ nx = _TETrace[1].nx
    /\ cx = _TETrace[1].cx
    /\ haveCfg = _TETrace[1].haveCfg
    /\ haveFull = _TETrace[1].haveFull
    /\ todo = _TETrace[1].todo
    /\ stream = _TETrace[1].stream
----

_next ==
    /\ \E i,j \in DOMAIN _TETrace:
        /\ \/ /\ j = i + 1
              /\ i = TLCGet("level")
        /\ phase  = _TETrace[i].phase
        /\ phase' = _TETrace[j].phase
        /\ P  = _TETrace[i].P
        /\ P' = _TETrace[j].P
        /\ nx  = _TETrace[i].nx
        /\ nx' = _TETrace[j].nx
        /\ cx  = _TETrace[i].cx
        /\ cx' = _TETrace[j].cx
        /\ haveCfg  = _TETrace[i].haveCfg
        /\ haveCfg' = _TETrace[j].haveCfg
        /\ haveFull  = _TETrace[i].haveFull
        /\ haveFull' = _TETrace[j].haveFull
        /\ todo  = _TETrace[i].todo
        /\ todo' = _TETrace[j].todo
        /\ stream  = _TETrace[i].stream
        /\ stream' = _TETrace[j].stream

\* Uncomment the ASSUME below to write the states of the error trace
\* to the given file in Json format. Note that you can pass any tuple
\* to `JsonSerialize`. For example, a sub-sequence of _TETrace.
    \* ASSUME
    \*     LET J == INSTANCE Json
    \*         IN J!JsonSerialize("Projection_TTrace_1790876767.json", _TETrace)

=============================================================================

 Note that you can extract this module `Projection_TEExpression`
  to a dedicated file to reuse `expression` (the module in the 
  dedicated `Projection_TEExpression.tla` file takes precedence 
  over the module `Projection_TEExpression` below).

---- MODULE Projection_TEExpression ----
EXTENDS Sequences, TLCExt, Toolbox, Projection, Naturals, TLC

expression == 
    [
        \* To hide variables of the `Projection` spec from the error trace,
        \* remove the variables below.  The trace will be written in the order
        \* of the fields of this record.
        phase |-> phase
        ,P |-> P
        ,nx |-> nx
        ,cx |-> cx
        ,haveCfg |-> haveCfg
        ,haveFull |-> haveFull
        ,todo |-> todo
        ,stream |-> stream
        
        \* Put additional constant-, state-, and action-level expressions here:
        \* ,_stateNumber |-> _TEPosition
        \* ,_phaseUnchanged |-> phase = phase'
        
        \* Format the `phase` variable as Json value.
        \* ,_phaseJson |->
        \*     LET J == INSTANCE Json
        \*     IN J!ToJson(phase)
        
        \* Lastly, you may build expressions over arbitrary sets of states by
        \* leveraging the _TETrace operator.  For example, this is how to
        \* count the number of times a spec variable changed up to the current
        \* state in the trace.
        \* ,_phaseModCount |->
        \*     LET F[s \in DOMAIN _TETrace] ==
        \*         IF s = 1 THEN 0
        \*         ELSE IF _TETrace[s].phase # _TETrace[s-1].phase
        \*             THEN 1 + F[s-1] ELSE F[s-1]
        \*     IN F[_TEPosition - 1]
    ]

=============================================================================



Parsing and semantic processing can take forever if the trace below is long.
 In this case, it is advised to uncomment the module below to deserialize the
 trace from a generated binary file.

\*
\*---- MODULE Projection_TETrace ----
\*EXTENDS IOUtils, Projection, TLC
\*
\*trace == IODeserialize("Projection_TTrace_1790876767.bin", TRUE)
\*
\*=============================================================================
\*

---- MODULE Projection_TETrace ----
EXTENDS Projection, TLC

trace == 
    <<
    ([phase |-> "parse",P |-> <<>>,todo |-> {"e1", "e5"},haveFull |-> FALSE,cx |-> {},stream |-> <<>>,haveCfg |-> FALSE,nx |-> {}]),
    ([phase |-> "parse",P |-> <<[id |-> "e1", top |-> <<[ord |-> "first", name |-> ".config", idx |-> 0, grp |-> TRUE, born |-> 0]>>, n |-> 0, subs |-> <<>>, rows |-> <<>>, obs |-> <<>>]>>,todo |-> {"e5"},haveFull |-> FALSE,cx |-> {},stream |-> <<>>,haveCfg |-> TRUE,nx |-> {}]),
    ([phase |-> "parse",P |-> <<[id |-> "e1", top |-> <<[ord |-> "first", name |-> ".config", idx |-> 0, grp |-> TRUE, born |-> 0]>>, n |-> 0, subs |-> <<>>, rows |-> <<>>, obs |-> <<>>], [id |-> "e5", top |-> <<[ord |-> "first", name |-> ".name", idx |-> 1, grp |-> FALSE, born |-> 0], [ord |-> "first", name |-> ".config", idx |-> 0, grp |-> TRUE, born |-> 0]>>, n |-> 1, subs |-> <<>>, rows |-> <<>>, obs |-> <<<<>>>>]>>,todo |-> {},haveFull |-> FALSE,cx |-> {},stream |-> <<>>,haveCfg |-> TRUE,nx |-> {".name"}]),
    ([phase |-> "project",P |-> <<[id |-> "e1", top |-> <<[ord |-> "first", name |-> ".config", idx |-> 0, grp |-> TRUE, born |-> 0]>>, n |-> 0, subs |-> <<>>, rows |-> <<>>, obs |-> <<>>], [id |-> "e5", top |-> <<[ord |-> "first", name |-> ".name", idx |-> 1, grp |-> FALSE, born |-> 0], [ord |-> "first", name |-> ".config", idx |-> 0, grp |-> TRUE, born |-> 0]>>, n |-> 1, subs |-> <<>>, rows |-> <<>>, obs |-> <<<<>>>>], [id |-> "residue", top |-> <<[ord |-> "first", name |-> ".fullname", idx |-> 1, grp |-> FALSE, born |-> 0]>>, n |-> 1, subs |-> <<>>, rows |-> <<>>, obs |-> <<<<>>>>]>>,todo |-> {},haveFull |-> FALSE,cx |-> {},stream |-> <<>>,haveCfg |-> TRUE,nx |-> {".name"}]),
    ([phase |-> "project",P |-> <<[id |-> "e1", top |-> <<[ord |-> "first", name |-> ".config", idx |-> 0, grp |-> TRUE, born |-> 0]>>, n |-> 1, subs |-> <<[ord |-> "first", name |-> "c1", idx |-> 1, grp |-> FALSE, born |-> 0]>>, rows |-> <<<<"9">>>>, obs |-> <<<<>>>>], [id |-> "e5", top |-> <<[ord |-> "first", name |-> ".name", idx |-> 1, grp |-> FALSE, born |-> 0], [ord |-> "first", name |-> ".config", idx |-> 0, grp |-> TRUE, born |-> 0]>>, n |-> 2, subs |-> <<[ord |-> "first", name |-> "c1", idx |-> 2, grp |-> FALSE, born |-> 0]>>, rows |-> <<<<"N1", "9">>>>, obs |-> <<<<"N1">>, <<>>>>], [id |-> "residue", top |-> <<[ord |-> "first", name |-> ".fullname", idx |-> 1, grp |-> FALSE, born |-> 0]>>, n |-> 1, subs |-> <<>>, rows |-> <<<<"*">>>>, obs |-> <<<<"*">>>>]>>,todo |-> {},haveFull |-> FALSE,cx |-> {},stream |-> <<[cfg |-> [c1 |-> "9"], base |-> "N1", x |-> "", g |-> "", rev |-> FALSE]>>,haveCfg |-> TRUE,nx |-> {".name"}]),
    ([phase |-> "project",P |-> <<[id |-> "e1", top |-> <<[ord |-> "first", name |-> ".config", idx |-> 0, grp |-> TRUE, born |-> 0]>>, n |-> 1, subs |-> <<[ord |-> "first", name |-> "c1", idx |-> 1, grp |-> FALSE, born |-> 0]>>, rows |-> <<<<"9">>, <<>>>>, obs |-> <<<<>>>>], [id |-> "e5", top |-> <<[ord |-> "first", name |-> ".name", idx |-> 1, grp |-> FALSE, born |-> 0], [ord |-> "first", name |-> ".config", idx |-> 0, grp |-> TRUE, born |-> 0]>>, n |-> 2, subs |-> <<[ord |-> "first", name |-> "c1", idx |-> 2, grp |-> FALSE, born |-> 0]>>, rows |-> <<<<"N1", "9">>, <<"N1">>>>, obs |-> <<<<"N1">>, <<>>>>], [id |-> "residue", top |-> <<[ord |-> "first", name |-> ".fullname", idx |-> 1, grp |-> FALSE, born |-> 0]>>, n |-> 1, subs |-> <<>>, rows |-> <<<<"*">>>>, obs |-> <<<<"*">>>>]>>,todo |-> {},haveFull |-> FALSE,cx |-> {},stream |-> <<[cfg |-> [c1 |-> "9"], base |-> "N1", x |-> "", g |-> "", rev |-> FALSE], [cfg |-> <<>>, base |-> "N1", x |-> "", g |-> "", rev |-> FALSE]>>,haveCfg |-> TRUE,nx |-> {".name"}])
    >>
----


=============================================================================

---- CONFIG Projection_TTrace_1790876767 ----
CONSTANTS
    CfgKeys = { "c1" , "c2" }
    Vals = { "9" , "1000" }
    Bases = { "N1" }
    XVals = { "" }
    GVals = { "" }
    MenuIds = { "e1" , "e5" , "e7" }
    MaxExprs = 2
    MaxResults = 3
    UnrankedGroupSubs = TRUE

INVARIANT
    _inv

CHECK_DEADLOCK
    \* CHECK_DEADLOCK off because of PROPERTY or INVARIANT above.
    FALSE

INIT
    _init

NEXT
    _next

CONSTANT
    _TETrace <- _trace

ALIAS
    _expression
=============================================================================
\* Generated on Thu Oct 01 17:46:09 UTC 2026