----------------------------- MODULE Projection_gen -----------------------------
(* Generator (mode G) for Projection: every complete behaviour (expressions       *)
(* parsed in some order, residue, MaxResults results projected) is printed as one  *)
(* replay case with the DECLARATIVE expectation: per projection the flattened      *)
(* field names, for every result the number of its key (0 = rejected by a fixed    *)
(* list) and the extracted values, and the documented order as a Less matrix.      *)
EXTENDS Projection, Json

ResJson(r) == [cfg |-> r.cfg, base |-> r.base, x |-> r.x, xy |-> r.xy, g |-> r.g, rev |-> r.rev]

RECURSIVE AccIndex(_, _, _)
\* index among accepted results of stream position i (0 if rejected)
AccIndex(p, i, k) ==
  IF k = 0 THEN 0
  ELSE (IF PassesFixed(p, stream[k]) THEN 1 ELSE 0) + AccIndex(p, i, k - 1)

ProjJson(p) ==
  LET flat == Flat(p) n == Len(p.rows) IN
  [id |-> p.id,
   flat |-> [i \in 1..Len(flat) |-> flat[i].name],
   keyof |-> [i \in 1..Len(stream) |->
               IF PassesFixed(p, stream[i]) THEN KeyNo(p, AccIndex(p, i, i)) ELSE 0],
   vals |-> [i \in 1..Len(stream) |-> [j \in 1..Len(flat) |-> Extract(flat[j].name, stream[i], nx)]],
   less |-> [a \in 1..n |-> [b \in 1..n |-> DocLess(p, a, b)]]]

Case == [tag |-> "case", stream |-> [i \in 1..Len(stream) |-> ResJson(stream[i])],
         proj |-> [i \in 1..Len(P) |-> ProjJson(P[i])]]

EmitInv == (phase = "project" /\ Len(stream) = MaxResults) => PrintT(ToJson(Case))
=============================================================================
