SPECIFICATION Spec
CONSTANTS
  CfgKeys = {"c1", "c2", "c3"}
  Vals = {"9"}
  Bases = {"N1", "N2"}
  XVals = {""}
  XYVals = {""}
  GVals = {""}
  MenuIds = {"e7", "e11"}
  MaxExprs = 1
  MaxResults = 3
  UnrankedGroupSubs = FALSE
INVARIANTS EmitInv TypeOK KeyEq ExclusionSound NoLoss MatchesDocumentedOrder StrictTotal
CHECK_DEADLOCK FALSE
