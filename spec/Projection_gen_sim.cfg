SPECIFICATION Spec
CONSTANTS
  CfgKeys = {"c1", "c2", "c3"}
  Vals = {"9", "1000", "1k", "NaN", "x"}
  Bases = {"N1", "N2"}
  XVals = {"", "s1", "s2"}
  XYVals = {"", "t1"}
  GVals = {"", "4"}
  MenuIds = {"e1", "e2", "e3", "e4", "e5", "e6", "e7", "e8", "e9", "e10"}
  MaxExprs = 3
  MaxResults = 5
  UnrankedGroupSubs = FALSE
INVARIANTS EmitInv KeyEq MatchesDocumentedOrder
CHECK_DEADLOCK FALSE
