SPECIFICATION Spec
CONSTANTS
  CfgKeys = {"c1", "c2", "c3"}
  Vals = {"1Ki", "1Z", "1Zi", "1Y", "1Yi", "1k", "010", "64", "9", ".5k"}
  Bases = {"N1", "N2"}
  XVals = {"", "s1", "s2"}
  XYVals = {""}
  GVals = {"", "4"}
  MenuIds = {"e6", "e7", "e10"}
  MaxExprs = 3
  MaxResults = 5
  UnrankedGroupSubs = FALSE
INVARIANTS EmitInv KeyEq MatchesDocumentedOrder
CHECK_DEADLOCK FALSE
