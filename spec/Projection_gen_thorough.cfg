SPECIFICATION Spec
CONSTANTS
  CfgKeys = {"c1", "c2"}
  Vals = {"9", "1000"}
  Bases = {"N1"}
  XVals = {"", "s1"}
  XYVals = {""}
  GVals = {""}
  MenuIds = {"e1", "e5", "e6", "e7", "e9"}
  MaxExprs = 2
  MaxResults = 3
  UnrankedGroupSubs = FALSE
INVARIANTS EmitInv TypeOK KeyEq ExclusionSound NoLoss MatchesDocumentedOrder StrictTotal
CHECK_DEADLOCK FALSE
