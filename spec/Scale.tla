---------------------------------- MODULE Scale ----------------------------------
(* Scaled numbers (property C10): benchunit.Scale / CommonScale / Scaler.Format   *)
(* and the unit-class detection benchunit.ClassOf.                                  *)
(*                                                                                  *)
(* TLC has 32-bit integers and no floats, so every magnitude lives on an exact      *)
(* decimal grid:                                                                    *)
(*                                                                                  *)
(*      value(x) = x.q * 10^(-5 - x.s) * Base^x.k                                   *)
(*                                                                                  *)
(* with Base = 1000 (class "dec", SI prefixes n u m _ k M G T = k in -3..4; "u"      *)
(* stands for the micro sign) or 1024 (class "bin", IEC prefixes _ Ki Mi Gi Ti =     *)
(* k in 0..4), 1000 <= q < 1.1e8, and a sub level s in 0..8 that is only used below  *)
(* the smallest prefix (x.k = KMin, values down to 1e-8 of the smallest prefix).     *)
(* All thresholds of scale.go are grid points: .99995 / 9.9995 / 99.995 are          *)
(* q = 99995 / 999950 / 9999500, the hand-over to the next prefix is q = 99995000    *)
(* (999.95, decimal) resp. 102394880 (1023.9488 = .99995*1024, binary).              *)
(*                                                                                  *)
(* Function-style family: every input is one state (a leaf below root -> bucket),     *)
(* nothing else moves, the invariants compare                                        *)
(*   - a DECLARATIVE contract taken from the property statement (Accept, DeclBinary, *)
(*     DeclMin) with                                                                 *)
(*   - an OPERATIONAL transcription of what the code does (OpScale = the threshold   *)
(*     table walk + the fallback precision loop, OpMin = CommonScale's minimum loop, *)
(*     OpBinary = the unit tokenizer of parse.go).                                   *)
(*                                                                                  *)
(* Decimal ties (a value exactly half-way between two printable mantissas) are where *)
(* the outcome on float64 depends on the sub-ulp representation of the value.  The   *)
(* contract is therefore evaluated twice, rounding ties up and down; a grid point is *)
(* a Boundary point iff the two evaluations accept different (prefix, decimals).     *)
(* Where a prefix is in range those are exactly the thresholds of scale.go (lemma    *)
(* BoundaryIsThreshold); the replay treats them as "either side is fine".            *)
EXTENDS Integers, Sequences, FiniteSets, TLC

CONSTANTS
  W,           \* half width of the window of grid points around every threshold
  ExtraQ,      \* further mantissas q (s = 0), away from thresholds
  SubExtraQ,   \* further mantissas q for the sub levels (s >= 1), in 100000..999999
  MaxUnitLen,  \* unit strings up to this length
  UnitAlpha,   \* alphabet of unit strings (one-character strings)
  PoolN,       \* CommonScale: number of pool values used
  SeqMax       \* CommonScale: argument lists up to this length

VARIABLE x
vars == <<x>>

(***************************************************************************)
(* Grid arithmetic (no intermediate value reaches 2^31)                     *)
(***************************************************************************)
Base(cls) == IF cls = "dec" THEN 1000 ELSE 1024
KMin(cls) == IF cls = "dec" THEN 0 - 3 ELSE 0
KMax      == 4
PrefixIdx(cls) == KMin(cls)..KMax
QMax   == 110000000   \* every q is below this
QSmall == 110000      \* q * Base fits comfortably below this
DMax   == 12          \* decimals considered by the contract

PrefixName(cls, k) ==
  IF cls = "dec"
  THEN CASE k = 0 - 3 -> "n" [] k = 0 - 2 -> "u" [] k = 0 - 1 -> "m" [] k = 0 -> ""
         [] k = 1 -> "k" [] k = 2 -> "M" [] k = 3 -> "G" [] k = 4 -> "T"
  ELSE CASE k = 0 -> "" [] k = 1 -> "Ki" [] k = 2 -> "Mi" [] k = 3 -> "Gi" [] k = 4 -> "Ti"

CeilDiv(a, b) == (a + b - 1) \div b

\* round n/den to the nearest integer; an exact half goes up or down as told
RoundUp(n, den)   == (2 * n + den) \div (2 * den)
IsTie(n, den)     == (2 * n + den) % (2 * den) = 0
RoundDiv(n, den, up) == IF IsTie(n, den) /\ ~up THEN RoundUp(n, den) - 1 ELSE RoundUp(n, den)

NumDig(n) ==
  IF n = 0 THEN 0 ELSE IF n < 10 THEN 1 ELSE IF n < 100 THEN 2 ELSE IF n < 1000 THEN 3
  ELSE IF n < 10000 THEN 4 ELSE IF n < 100000 THEN 5 ELSE IF n < 1000000 THEN 6
  ELSE IF n < 10000000 THEN 7 ELSE IF n < 100000000 THEN 8 ELSE IF n < 1000000000 THEN 9 ELSE 10

(* The digits printed for value x with prefix j and d decimals, i.e. the integer     *)
(* nearest to value(x) / Base^j * 10^d, as n * 10^z.  Only j in {k-1, k, k+1} is     *)
(* ever needed (see Cand); for j = k-1 the caller guarantees x.q <= QSmall, for      *)
(* j = k+1 it guarantees s = 0 and d <= 5.                                           *)
Dig(y, j, d, up) ==
  LET e   == 5 + y.s - d                         \* power of ten left in the denominator
      num == IF j = y.k - 1 THEN y.q * Base(y.cls) ELSE y.q
      db  == IF j = y.k + 1 THEN Base(y.cls) ELSE 1
  IN IF e <= 0 THEN [n |-> num, z |-> 0 - e, tie |-> FALSE]           \* exact, db = 1
     ELSE IF e >= 9 THEN [n |-> 0, z |-> 0, tie |-> FALSE]            \* num < 5e8
     ELSE [n |-> RoundDiv(num, db * 10^e, up), z |-> 0, tie |-> IsTie(num, db * 10^e)]

\* number of significant digits of a printed mantissa (leading zeros do not count)
Sig(r) == IF r.n = 0 THEN 0 ELSE NumDig(r.n) + r.z

(***************************************************************************)
(* DECLARATIVE contract for one magnitude (from the property statement)     *)
(***************************************************************************)
\* value >= 1 smallest prefix  /  value < Base largest prefixes
AtLeastUnit(y) == y.k > KMin(y.cls) \/ (y.q \div 10^y.s) >= 100000
BelowTop(y)    == y.k < KMax \/ y.q < Base(y.cls) * 100000
\* "a prefix in range exists": the mantissa is in [1, Base) for some prefix
InRange(y)     == AtLeastUnit(y) /\ BelowTop(y)

\* "magnitudes down to 1e-8 of the smallest prefix"
MustSig3(y) == y.k > KMin(y.cls) \/ y.s <= 3 \/ y.q >= 10^(y.s - 3)

\* printed mantissa D * 10^-d lies in [1, Base)
InBand(cls, D, d) == 10^d <= D /\ D < Base(cls) * 10^d

(* A representation with four significant digits and a mantissa that PRINTS inside   *)
(* [1, Base).  Binary mantissas in [1000, 1024) cannot have four significant digits  *)
(* and a fraction at once; the statement's "four significant digits" is read either   *)
(* as "no fewer, at the precision of the hundreds" (Nice: one decimal) or literally   *)
(* (Nice4: no decimals).  Both readings are accepted.                                 *)
NiceP(cls, D, d)  == d \in 1..3 /\ InBand(cls, D, d) /\ (NumDig(D) = 4 \/ (d = 1 /\ D >= 10000))
Nice4P(cls, D, d) == d \in 0..3 /\ InBand(cls, D, d) /\ NumDig(D) = 4

\* candidate (prefix, decimals) pairs that could print inside [1, Base): since
\* 1000 <= q < QMax the mantissa w.r.t. x.k is in [0.01, 1100), so only the
\* neighbouring prefixes qualify
Cand(y) ==
  IF y.s # 0 THEN {}
  ELSE {p \in ({y.k - 1, y.k, y.k + 1} \cap PrefixIdx(y.cls)) \X (0..3) :
          p[1] = y.k - 1 => y.q <= QSmall}

NiceSet(y, up)  == {p \in Cand(y) : NiceP(y.cls, Dig(y, p[1], p[2], up).n, p[2])}
Nice4Set(y, up) == {p \in Cand(y) : Nice4P(y.cls, Dig(y, p[1], p[2], up).n, p[2])}

(* "Prefix boundaries coincide exactly with how the mantissa rounds, so 999.95 prints  *)
(* as 1.000k and never as 1000.0 or 0.9999k".  Two rules for the hand-over to the    *)
(* next prefix follow from that sentence:                                            *)
(*   A  never "1000.0": stay with the finest in-range form until it would print Base  *)
(*      (999.94 -> 999.9, not 1.000k);                                                *)
(*   B  never "0.9999k": take the next prefix as soon as its mantissa, rounded to     *)
(*      four digits, is 1.000.                                                        *)
(* For decimal units both are the same point (999.95 = .99995k; lemma                 *)
(* DecimalHandOverUnique).  For binary units B (.99995 * 1024 = 1023.9488) comes      *)
(* slightly before A (1023.95); in between "1023.9Ki" and "1.000Mi" both satisfy      *)
(* every clause of the statement, so both are accepted there.                         *)
Best(S) == CHOOSE p \in S : \A r \in S : p[1] < r[1] \/ (p[1] = r[1] /\ p[2] >= r[2])

BOf(y, up, N) ==      \* N = NiceSet(y, up), non-empty
  LET a == Best(N)
      p == <<a[1] + 1, 3>>
  IN IF p \in N /\ Dig(y, p[1], 4, up).n >= 10000 THEN p ELSE a
AChoice(y, up) == Best(NiceSet(y, up))
BChoice(y, up) == BOf(y, up, NiceSet(y, up))

(* Outside the range of the prefixes (below 1 smallest prefix, or where even the      *)
(* largest prefix would print Base) the statement only asks for at least three        *)
(* significant digits (down to 1e-8 of the smallest prefix), correctly rounded; the   *)
(* prefix is the nearest one (which is x.k there, see lemma OutsideIsEdge).           *)
Outside(y, up) == {<<y.k, d>> : d \in {dd \in 0..DMax : MustSig3(y) => Sig(Dig(y, y.k, dd, up)) >= 3}}

Determined(y, up) == InRange(y) /\ NiceSet(y, up) # {}

Accept(y, up) ==
  LET N  == NiceSet(y, up)
      N4 == Nice4Set(y, up)
  IN IF InRange(y) /\ N # {}
     THEN {Best(N), BOf(y, up, N)} \cup (IF N4 # {} THEN {Best(N4)} ELSE {})
     ELSE Outside(y, up)

Boundary(y) == y.q # 0 /\ Accept(y, TRUE) # Accept(y, FALSE)

Region(y) ==
  IF y.q = 0 THEN "zero"
  ELSE IF Determined(y, TRUE) THEN "inrange"
  ELSE IF ~AtLeastUnit(y) THEN "below" ELSE "above"

(***************************************************************************)
(* OPERATIONAL: what scale.go does                                          *)
(***************************************************************************)
(* min >= t * 10^-5 * Base^j  for a threshold t in {99995, 999950, 9999500}           *)
GE(y, j, t) ==
  IF y.s = 0
  THEN IF j > y.k
       THEN (IF j - y.k >= 3 THEN FALSE ELSE (y.q \div Base(y.cls)^(j - y.k)) >= t)
       ELSE (IF y.k - j >= 3 THEN TRUE ELSE y.q >= CeilDiv(t, Base(y.cls)^(y.k - j)))
  ELSE IF j > y.k THEN FALSE ELSE (y.q \div 10^y.s) >= t

(* the fallback loop: val = min / smallest factor; sigfigs[i] = 9.9995e-(i+1)          *)
SigGE(y, i) ==
  IF i >= y.s THEN y.q >= CeilDiv(99995, 10^(i - y.s)) ELSE (y.q \div 10^(y.s - i)) >= 99995

RECURSIVE SigLoop(_, _)
SigLoop(y, i) == IF SigGE(y, i) \/ i = 7 THEN i + 3 ELSE SigLoop(y, i + 1)

FallbackPrec(y) ==
  IF y.k # KMin(y.cls) THEN Assert(FALSE, <<"fallback reached above the smallest prefix", y>>)
  ELSE <<KMin(y.cls), SigLoop(y, 0)>>

(* for _, factor := range factors { switch { case min >= t100: 1; t10: 2; t1: 3 } }    *)
RECURSIVE Walk(_, _)
Walk(y, j) ==
  IF j < KMin(y.cls) THEN FallbackPrec(y)
  ELSE IF GE(y, j, 9999500) THEN <<j, 1>>
  ELSE IF GE(y, j, 999950) THEN <<j, 2>>
  ELSE IF GE(y, j, 99995) THEN <<j, 3>>
  ELSE Walk(y, j - 1)

\* if min == 0 { return Scaler{3, 1, ""} }
OpScale(y) == IF y.q = 0 THEN <<0, 3>> ELSE Walk(y, KMax)

(***************************************************************************)
(* CommonScale: the scale of the smallest non-zero magnitude                *)
(***************************************************************************)
Val(k, s, q, neg) == [k |-> k, s |-> s, q |-> q, neg |-> neg]
ZeroVal == Val(0, 0, 0, FALSE)

\* pool values are in normal form (mantissa in [1, Base) resp. [1, 10) on a sub level)
IsNF(cls, a) ==
  \/ a = ZeroVal
  \/ a.s = 0 /\ a.k \in PrefixIdx(cls) /\ a.q >= 100000 /\ a.q < 100000 * Base(cls)
  \/ a.s \in 1..8 /\ a.k = KMin(cls) /\ a.q >= 100000 /\ a.q < 1000000

\* |a| < |b| for non-zero normal forms
MagLess(a, b) == a.k < b.k \/ (a.k = b.k /\ (a.s > b.s \/ (a.s = b.s /\ a.q < b.q)))

PoolDec == <<
  ZeroVal,
  Val(0, 0, 100000, FALSE),          \* 1
  Val(0, 0, 250000, TRUE),           \* -2.5
  Val(0, 0, 99994000, FALSE),        \* 999.94     -> 999.9
  Val(0, 0, 99996000, FALSE),        \* 999.96     -> 1.000k
  Val(0 - 3, 2, 500000, FALSE),      \* 0.05n
  Val(2, 0, 31415926, FALSE),        \* 314.15926M
  Val(0 - 1, 0, 12345600, TRUE),     \* -123.456m
  Val(4, 0, 99999999, FALSE),        \* 999.99999T
  Val(0, 0, 250000, FALSE),          \* +2.5
  Val(0 - 3, 0, 100000, FALSE),      \* 1n
  Val(1, 0, 1000000, FALSE),         \* 10k
  Val(0 - 3, 8, 100000, TRUE),       \* -1e-8 n
  Val(3, 0, 9999400, FALSE) >>       \* 99.994G

PoolBin == <<
  ZeroVal,
  Val(0, 0, 100000, FALSE),          \* 1
  Val(1, 0, 102000000, TRUE),        \* -1020Ki
  Val(0, 0, 102390000, FALSE),       \* 1023.9     -> 1023.9
  Val(0, 0, 102396000, FALSE),       \* 1023.96    -> 1.000Ki
  Val(0, 2, 500000, FALSE),          \* 0.05
  Val(2, 0, 31415926, FALSE),        \* 314.15926Mi
  Val(1, 0, 12345600, TRUE),         \* -123.456Ki
  Val(4, 0, 102399999, FALSE),       \* 1023.99999Ti
  Val(1, 0, 102000000, FALSE),       \* +1020Ki
  Val(0, 1, 999000, FALSE),          \* 0.999
  Val(1, 0, 1000000, FALSE),         \* 10Ki
  Val(0, 8, 100000, TRUE),           \* -1e-8
  Val(3, 0, 9999400, FALSE) >>       \* 99.994Gi

Pool(cls) == IF cls = "dec" THEN PoolDec ELSE PoolBin
AsInput(cls, a) == [cls |-> cls, k |-> a.k, s |-> a.s, q |-> a.q]

ASSUME PoolN \in 1..Len(PoolDec) /\ Len(PoolDec) = Len(PoolBin)
ASSUME \A cls \in {"dec", "bin"} : \A i \in 1..Len(Pool(cls)) :
         IsNF(cls, Pool(cls)[i]) /\ ~Boundary(AsInput(cls, Pool(cls)[i]))

ArgVals(cls, idx) == [i \in 1..Len(idx) |-> Pool(cls)[idx[i]]]

\* declarative: a non-zero argument that no other non-zero argument is smaller than
DeclMin(vals) ==
  LET NZ == {i \in 1..Len(vals) : vals[i].q # 0}
  IN IF NZ = {} THEN ZeroVal
     ELSE vals[CHOOSE i \in NZ : \A j \in NZ : ~MagLess(vals[j], vals[i])]

\* operational: for _, v := range vals { v = Abs(v); if v != 0 && (min == 0 || v < min) { min = v } }
OpMin(vals) ==
  LET f[i \in 0..Len(vals)] ==
        IF i = 0 THEN ZeroVal
        ELSE IF vals[i].q # 0 /\ (f[i - 1].q = 0 \/ MagLess(vals[i], f[i - 1]))
             THEN vals[i] ELSE f[i - 1]
  IN f[Len(vals)]

(***************************************************************************)
(* ClassOf: a unit is binary exactly when bytes appear in its numerator     *)
(***************************************************************************)
IsSepCh(c) == c \in {"*", "/", "-", " "}        \* " " stands for any white space
ByteWords == {<<"B">>, <<"M", "B">>, <<"b", "y", "t", "e", "s">>}

\* declarative: components are the maximal runs of non-separators; a component is in
\* the denominator iff the nearest "*" or "/" to its left is a "/"
Runs(u) ==
  {r \in (1..Len(u)) \X (1..Len(u)) :
     /\ r[1] <= r[2]
     /\ \A p \in r[1]..r[2] : ~IsSepCh(u[p])
     /\ (r[1] = 1 \/ IsSepCh(u[r[1] - 1]))
     /\ (r[2] = Len(u) \/ IsSepCh(u[r[2] + 1]))}
InDenominator(u, i) ==
  LET P == {p \in 1..(i - 1) : u[p] \in {"*", "/"}}
  IN P # {} /\ u[CHOOSE p \in P : \A r \in P : r <= p] = "/"
DeclBinary(u) ==
  \E r \in Runs(u) : SubSeq(u, r[1], r[2]) \in ByteWords /\ ~InDenominator(u, r[1])

\* operational: parser.next of parse.go, called until a bytes token is found
RECURSIVE SkipSeps(_, _, _)
SkipSeps(u, pos, den) ==
  IF pos > Len(u) THEN <<pos, den>>
  ELSE IF u[pos] = "*" THEN SkipSeps(u, pos + 1, FALSE)
  ELSE IF u[pos] = "/" THEN SkipSeps(u, pos + 1, TRUE)
  ELSE IF ~(u[pos] = "-" \/ u[pos] = " ") THEN <<pos, den>>
  ELSE SkipSeps(u, pos + 1, den)

RECURSIVE TokEnd(_, _)
TokEnd(u, pos) == IF pos > Len(u) THEN pos ELSE IF IsSepCh(u[pos]) THEN pos ELSE TokEnd(u, pos + 1)

RECURSIVE OpLoop(_, _, _)
OpLoop(u, pos, den) ==
  LET r == SkipSeps(u, pos, den)
  IN IF r[1] > Len(u) THEN FALSE
     ELSE LET e   == TokEnd(u, r[1])
              tok == SubSeq(u, r[1], e - 1)
          IN IF (tok = <<"B">> \/ tok = <<"M", "B">> \/ tok = <<"b", "y", "t", "e", "s">>) /\ ~r[2]
             THEN TRUE ELSE OpLoop(u, e, r[2])
OpBinary(u) == OpLoop(u, 1, FALSE)

(***************************************************************************)
(* Inputs                                                                   *)
(***************************************************************************)
Window(t) == (t - W)..(t + W)

\* thresholds of the code and further edges of the contract, as mantissas w.r.t. x.k
ThrDec == {99995, 999950, 9999500, 99995000, 99950}
ThrBin == {99995, 999950, 9999500, 99995000, 99950,
           100000000,      \* 1000: five digits from here on
           102350000,      \* 1023.5: prints 1024 without decimals
           102394880,      \* .99995 * 1024: hand-over to the next prefix
           102395000,      \* 1023.95: would print 1024.0
           102400000}      \* 1024
Thr(cls) == IF cls = "dec" THEN ThrDec ELSE ThrBin

MainQ(cls) == (UNION {Window(t) : t \in Thr(cls)}) \cup ExtraQ
\* sub levels only carry magnitudes below one smallest prefix (q < 10^6 at s >= 1)
SubQ       == {q \in Window(99995) \cup Window(999950) \cup {qq \in Window(100000) : qq >= 100000} : q < 1000000}
              \cup SubExtraQ

Case(kind, b, cls, k, s, q, idx, u) ==
  [kind |-> kind, b |-> b, cls |-> cls, k |-> k, s |-> s, q |-> q, idx |-> idx, u |-> u]

ValCase(cls, k, s, q) == Case("val", "", cls, k, s, q, <<>>, <<>>)
CommonCase(cls, idx)  == Case("common", "", cls, 0, 0, 0, idx, <<>>)
UnitCase(u)           == Case("unit", "", "dec", 0, 0, 0, <<>>, u)

ASSUME W \in 0..900
ASSUME \A q \in ExtraQ : q \in 1000..(QMax - 1)
ASSUME \A q \in SubExtraQ : q \in 100000..999999

(* Every input is a leaf of a three-level tree  root -> bucket -> input,  so that TLC's  *)
(* workers evaluate the invariants of different buckets in parallel (initial states      *)
(* would all be handled by one thread).  Nothing else moves.                             *)
Root == Case("root", "", "dec", 0, 0, 0, <<>>, <<>>)
ValBucket(cls, k, s)   == Case("bucket", "val", cls, k, s, 0, <<>>, <<>>)
CommonBucket(cls, idx) == Case("bucket", "common", cls, 0, 0, 0, idx, <<>>)
UnitBucket(u)          == Case("bucket", "unit", "dec", 0, 0, 0, <<>>, u)

QSet(cls, k, s) == IF s = 0 THEN MainQ(cls) \cup (IF k = 0 THEN {0} ELSE {}) ELSE SubQ

ValBuckets ==
  {ValBucket(cls, k, 0) : cls \in {"dec"}, k \in PrefixIdx("dec")}
  \cup {ValBucket(cls, k, 0) : cls \in {"bin"}, k \in PrefixIdx("bin")}
  \cup {ValBucket(cls, KMin(cls), s) : cls \in {"dec", "bin"}, s \in 1..8}
CommonBuckets ==
  {CommonBucket(cls, idx) : cls \in {"dec", "bin"}, idx \in {<<>>} \cup {<<i>> : i \in 1..PoolN}}
UnitPrefixLen == IF MaxUnitLen < 2 THEN MaxUnitLen ELSE 2
UnitBuckets == {UnitBucket(u) : u \in [1..UnitPrefixLen -> UnitAlpha]}

FromRoot ==
  \/ x' \in ValBuckets \cup CommonBuckets \cup UnitBuckets
  \/ \E m \in 0..(UnitPrefixLen - 1) : \E u \in [1..m -> UnitAlpha] : x' = UnitCase(u)

FromValBucket == \E q \in QSet(x.cls, x.k, x.s) : x' = ValCase(x.cls, x.k, x.s, q)
FromCommonBucket ==
  IF x.idx = <<>> THEN x' = CommonCase(x.cls, <<>>)
  ELSE \E m \in 0..(SeqMax - 1) : \E rest \in [1..m -> 1..PoolN] : x' = CommonCase(x.cls, x.idx \o rest)
FromUnitBucket ==
  \E m \in 0..(MaxUnitLen - UnitPrefixLen) : \E rest \in [1..m -> UnitAlpha] : x' = UnitCase(x.u \o rest)

Init == x = Root
Next ==
  IF x.kind = "root" THEN FromRoot
  ELSE IF x.kind = "bucket"
  THEN (IF x.b = "val" THEN FromValBucket ELSE IF x.b = "common" THEN FromCommonBucket ELSE FromUnitBucket)
  ELSE FALSE
Spec == Init /\ [][Next]_vars

(***************************************************************************)
(* Invariants (mode M)                                                      *)
(***************************************************************************)
IsVal    == x.kind = "val"
IsCommon == x.kind = "common"
IsUnit   == x.kind = "unit"

TypeOK ==
  /\ x.kind \in {"root", "bucket", "val", "common", "unit"}
  /\ x.cls \in {"dec", "bin"}
  /\ IsVal => /\ x.k \in PrefixIdx(x.cls) /\ x.s \in 0..8
              /\ (x.q = 0 \/ x.q \in 1000..(QMax - 1))
              /\ (x.s > 0 => x.k = KMin(x.cls) /\ x.q < 1000000)

\* the code's choice is one the statement allows (ties resolved upwards, as >= does)
ScaleOpInDecl == IsVal /\ x.q # 0 => OpScale(x) \in Accept(x, TRUE)

\* ... and wherever a prefix is in range, declarative = operational in prefix index and
\* number of decimals: the code follows rule B, which for decimal units is rule A as well
ScaleDeclEqOp == IsVal /\ x.q # 0 /\ Determined(x, TRUE) => OpScale(x) = BChoice(x, TRUE)
DecimalHandOverUnique ==
  IsVal /\ x.q # 0 /\ x.cls = "dec" /\ Determined(x, TRUE) =>
    /\ AChoice(x, TRUE) = BChoice(x, TRUE) /\ AChoice(x, FALSE) = BChoice(x, FALSE)
    /\ Accept(x, TRUE) = {AChoice(x, TRUE)}
\* binary: the two rules differ exactly on [1023.9488, 1023.95)
BinaryHandOverBand ==
  IsVal /\ x.q # 0 /\ x.cls = "bin" /\ Determined(x, TRUE) =>
    (AChoice(x, TRUE) # BChoice(x, TRUE)) =
       \/ x.s = 0 /\ x.q >= 102394880 /\ x.q < 102395000 /\ x.k < KMax
       \/ x.s = 0 /\ x.q = 99995 /\ x.k > 0       \* the same band seen from the upper prefix

\* four significant digits (five only for binary mantissas printed in [1000, 1024))
ScaleFourDigits ==
  IsVal /\ x.q # 0 /\ Determined(x, TRUE) =>
    LET p == OpScale(x)  D == Dig(x, p[1], p[2], TRUE).n
    IN /\ InBand(x.cls, D, p[2])
       /\ NumDig(D) = 4 \/ (x.cls = "bin" /\ NumDig(D) = 5 /\ D >= 10000 /\ p[2] = 1)

\* below the smallest prefix the code keeps >= 3 digits down to 1e-8 and in fact four
\* down to 1e-7; never more than 10 decimals
ScaleBelow ==
  IsVal /\ x.q # 0 /\ ~AtLeastUnit(x) =>
    LET p == OpScale(x)  r == Dig(x, p[1], p[2], TRUE)
    IN /\ p[1] = KMin(x.cls) /\ p[2] \in 3..10
       /\ MustSig3(x) => Sig(r) >= 3
       /\ (x.s <= 6 => Sig(r) >= 4)

\* the contract leaves the region of determined answers only at the two ends of the table
OutsideIsEdge ==
  IsVal /\ x.q # 0 /\ ~Determined(x, TRUE) =>
    \/ x.k = KMin(x.cls) /\ ~AtLeastUnit(x)
    \/ x.k = KMax /\ x.q >= (IF x.cls = "dec" THEN 99995000 ELSE 102394880)

\* tie-sensitive grid points are exactly the code's thresholds (plus, for binary, the
\* points where only the literal four-digit reading or rule A flips: 999.95, 1023.5, 1023.95)
CodeThreshold(y) ==
  \/ y.s = 0 /\ y.q \in {99995, 999950, 9999500}
  \/ y.s = 0 /\ y.q = 99995 * Base(y.cls)
  \/ y.s = 0 /\ y.cls = "bin" /\ y.q \in {99995000, 102350000, 102395000}
  \/ y.s > 0 /\ y.q \in {99995, 999950}
\* Outside the range a further kind of tie-sensitive point exists (a coarse precision d at
\* which the mantissa is exactly 99.5 units: three digits or two); the code never picks
\* such a d.  Away from the listed thresholds the code's answer does not hinge on a tie.
BoundaryIsThreshold ==
  IsVal /\ Boundary(x) /\ ~CodeThreshold(x) =>
    /\ ~Determined(x, TRUE) /\ ~Determined(x, FALSE)
    /\ OpScale(x) \in (Accept(x, TRUE) \cap Accept(x, FALSE))

\* the contract never accepts nothing
AcceptNonEmpty == IsVal /\ x.q # 0 => Accept(x, TRUE) # {} /\ Accept(x, FALSE) # {}

CommonOK ==
  IsCommon =>
    LET vals == ArgVals(x.cls, x.idx)
        dm == DeclMin(vals)  om == OpMin(vals)
    IN /\ (dm.q = 0) = (om.q = 0)
       /\ dm.q # 0 => /\ ~MagLess(dm, om) /\ ~MagLess(om, dm)
                      /\ OpScale(AsInput(x.cls, om)) \in Accept(AsInput(x.cls, dm), TRUE)

ClassOK == IsUnit => (DeclBinary(x.u) = OpBinary(x.u))
=============================================================================
