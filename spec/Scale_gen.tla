-------------------------------- MODULE Scale_gen --------------------------------
(* Generator wrapper (mode G) for Scale: every input is one state; the               *)
(* invariant Emit prints one JSON replay case per input.  Everything the harness      *)
(* compares against comes from the DECLARATIVE side of Scale.tla:                     *)
(*   val     accept = the (prefix j, decimals d) pairs the contract allows, each with  *)
(*           the digits the mantissa must print (integer ns[i] * 10^z; two entries in  *)
(*           ns when the value is a decimal tie at that precision, where float64       *)
(*           representation decides); skip = tie-sensitive grid point (a threshold):   *)
(*           accept is then the union of both tie resolutions                          *)
(*   common  the argument list and the accept set of its smallest non-zero magnitude   *)
(*   unit    the unit string and whether bytes appear in its numerator                 *)
EXTENDS Scale, Json, SequencesExt

CONSTANTS GenFullLen,   \* unit strings over UnitAlpha up to this length ...
          SmallAlpha,   \* ... and over this smaller alphabet up to MaxUnitLen
          BytesPad      \* ... and "bytes" with up to this many characters around it

Entry(y, p, up, dn) ==
  LET ru == Dig(y, p[1], p[2], TRUE)
      rd == Dig(y, p[1], p[2], FALSE)
  IN [j |-> p[1], pfx |-> PrefixName(y.cls, p[1]), d |-> p[2], z |-> ru.z,
      ns |-> SetToSeq((IF up THEN {ru.n} ELSE {}) \cup (IF dn THEN {rd.n} ELSE {}))]

AcceptList(y) ==
  IF y.q = 0 THEN <<>>
  ELSE LET AU == Accept(y, TRUE)
           AD == Accept(y, FALSE)
       IN SetToSeq({Entry(y, p, p \in AU, p \in AD) : p \in AU \cup AD})

ValJson(a) == [k |-> a.k, s |-> a.s, q |-> a.q, neg |-> a.neg]

Bytes5 == <<"b", "y", "t", "e", "s">>

\* unit inputs of the generator: all strings up to GenFullLen over UnitAlpha, the longer
\* ones (up to MaxUnitLen) over SmallAlpha only, and "bytes" with padding
GFromUnitBucket ==
  \/ \E m \in 0..(GenFullLen - UnitPrefixLen) : \E rest \in [1..m -> UnitAlpha] : x' = UnitCase(x.u \o rest)
  \/ /\ \A i \in 1..Len(x.u) : x.u[i] \in SmallAlpha
     /\ \E m \in (GenFullLen - UnitPrefixLen + 1)..(MaxUnitLen - UnitPrefixLen) :
          \E rest \in [1..m -> SmallAlpha] : x' = UnitCase(x.u \o rest)
BytesBucket == Case("bucket", "bytes", "dec", 0, 0, 0, <<>>, <<>>)
GFromBytesBucket ==
  \E a \in 0..BytesPad : \E b \in 0..(BytesPad - a) :
    \E pre \in [1..a -> UnitAlpha] : \E post \in [1..b -> UnitAlpha] :
      x' = UnitCase(pre \o Bytes5 \o post)

ASSUME GenFullLen >= UnitPrefixLen /\ GenFullLen <= MaxUnitLen

GNext ==
  IF x.kind = "root" THEN (FromRoot \/ x' = BytesBucket)
  ELSE IF x.kind = "bucket"
  THEN (IF x.b = "val" THEN FromValBucket ELSE IF x.b = "common" THEN FromCommonBucket
        ELSE IF x.b = "unit" THEN GFromUnitBucket ELSE GFromBytesBucket)
  ELSE FALSE
GSpec == Init /\ [][GNext]_vars

Emit ==
  CASE x.kind = "val" ->
         PrintT(ToJson([tag |-> "case", kind |-> "val", cls |-> x.cls, k |-> x.k, s |-> x.s, q |-> x.q,
                        skip |-> Boundary(x), region |-> Region(x), must3 |-> MustSig3(x),
                        accept |-> AcceptList(x)]))
    [] x.kind = "common" ->
         LET vals == ArgVals(x.cls, x.idx)
             m == DeclMin(vals)
         IN PrintT(ToJson([tag |-> "case", kind |-> "common", cls |-> x.cls,
                           vals |-> [i \in 1..Len(vals) |-> ValJson(vals[i])],
                           min |-> ValJson(m), region |-> Region(AsInput(x.cls, m)),
                           accept |-> AcceptList(AsInput(x.cls, m))]))
    [] x.kind = "unit" ->
         PrintT(ToJson([tag |-> "case", kind |-> "unit", u |-> x.u, binary |-> DeclBinary(x.u)]))
    [] OTHER -> PrintT(ToJson([tag |-> "node", kind |-> x.kind]))
=============================================================================
