SPECIFICATION GSpec
CONSTANTS
  W = 200
  ExtraQ = {1000, 1234, 9999, 12345, 50000, 99949, 100000, 100049, 123456, 314159, 500000, 999999, 1000000, 1000049, 2718281, 5000000, 10000000, 10000499, 31415926, 50000000, 99000000, 99999999, 101000000, 105000000, 109999999}
  SubExtraQ = {100049, 123456, 314159, 500000, 999999}
  MaxUnitLen = 6
  UnitAlpha = {"B", "M", "b", "y", "t", "e", "s", "/", "*", "-", " ", "x"}
  PoolN = 14
  SeqMax = 3
  GenFullLen = 5
  SmallAlpha = {"B", "M", "/", "*", " ", "x"}
  BytesPad = 2
INVARIANTS Emit ScaleOpInDecl CommonOK ClassOK
CHECK_DEADLOCK FALSE
