SPECIFICATION Spec
CONSTANTS
  W = 30
  ExtraQ = {1000, 12345, 50000, 100000, 123456, 314159, 999999, 1000000, 2718281, 10000000, 31415926, 50000000, 99000000, 99999999}
  SubExtraQ = {123456, 500000, 999999}
  MaxUnitLen = 5
  UnitAlpha = {"B", "M", "b", "y", "t", "e", "s", "/", "*", "-", " ", "x"}
  PoolN = 14
  SeqMax = 3
INVARIANTS TypeOK ScaleOpInDecl ScaleDeclEqOp DecimalHandOverUnique BinaryHandOverBand ScaleFourDigits ScaleBelow OutsideIsEdge BoundaryIsThreshold AcceptNonEmpty CommonOK ClassOK
CHECK_DEADLOCK FALSE
