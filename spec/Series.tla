--------------------------------- MODULE Series ---------------------------------
(* benchseries.Builder (golang.org/x/perf/benchseries/benchseries.go): results are *)
(* accumulated into hash maps by Add and rearranged into comparison series by      *)
(* AllComparisonSeries, which ranges over those maps in Go's random order.         *)
(*                                                                                 *)
(* State = the code's maps, at the grain of the code:                              *)
(*   tables       Builder.tables: (unit, table) -> table{cells, benchmarks, exps}  *)
(*                cells: (benchmark, experiment) -> trial{baseline, baselineHash,  *)
(*                tests: numerator hash -> cell}; a cell is the sequence of        *)
(*                measurements appended to Cell.Values                             *)
(*   hashToOrder  Builder.hashToOrder: numerator hash -> series stamp              *)
(*   added        ghost: the set of results added so far                           *)
(*   out          result of one AllComparisonSeries pass over one table            *)
(*                                                                                 *)
(* Actions:                                                                        *)
(*   Add(r)             Builder.Add of one result; any result not yet added, so    *)
(*                      every order of every set of <= MaxRecs results is explored *)
(*   Finalize(pol, ut, visit)                                                      *)
(*                      the body of AllComparisonSeries' loop for table ut under   *)
(*                      duplicate policy pol, visiting (trial, test) pairs in the  *)
(*                      order `visit`: ANY permutation of the trials and, inside a *)
(*                      trial, any permutation of its tests (Go map iteration).    *)
(*                      Tables are processed independently by the code, so one     *)
(*                      table per Finalize loses nothing.  Finalize may follow any *)
(*                      prefix, hence every reachable `added` is a complete input. *)
(*                                                                                 *)
(* Declarative side: Expected(S, pol, ut) says what the series of table ut are for *)
(* the SET S: latest experiment wins under "replace", multiset union under         *)
(* "combine"; the samples of a point are exactly the measurements whose unit,      *)
(* table keys, benchmark, experiment and role match.  OrderFree: every Finalize    *)
(* result equals Expected(added, ...).                                             *)
(*                                                                                 *)
(* DOMAIN (consistency assumption, Consistent below).  The output has one hash     *)
(* pair per series point and the builder has one series stamp per numerator hash   *)
(* and one baseline hash per trial, so the property can only speak about inputs in *)
(* which                                                                           *)
(*   C1  numerator hash and series stamp determine each other,                     *)
(*   C2  a series stamp names one denominator hash,                                *)
(*   C3  all results of one trial (unit, table, benchmark, experiment) name the    *)
(*       same denominator hash,                                                    *)
(*   C4  distinct experiment stamps denote distinct instants (ExpStamp below).     *)
(* Outside this domain the code shows first-writer (baselineHash, HashPairs) and   *)
(* last-writer (hashToOrder) dependence and prints "numerator/denominator          *)
(* mismatch"; the property statement does not say which pair should win, so those  *)
(* inputs are excluded, not judged.  NOT excluded: trials that have numerators but *)
(* no denominators (or the reverse) - the code anticipates them                    *)
(* (TestMissingDenominator, Present = Denominator != nil).                         *)
(*                                                                                 *)
(* Deviations of the code as shipped, switchable (FALSE = normative):              *)
(*   DenHashFirstVisited  HashPairs[series] is written once, by the first visited  *)
(*                        test of that series stamp, even when its trial has no    *)
(*                        baseline (DenHash ""); a later visited trial that does   *)
(*                        have one never repairs it => the pair depends on map     *)
(*                        order.  Normative: an empty DenHash is filled in by the  *)
(*                        first visited trial that has a baseline.                 *)
(*   CombineNilCrash      under "combine" the augment branch dereferences          *)
(*                        cc.Denominator / tr.baseline without a nil test: a       *)
(*                        second experiment at a point crashes when either side    *)
(*                        lacks a baseline.  Normative: a missing baseline         *)
(*                        contributes no samples.                                  *)
(* Series_asbuilt_hashpair.cfg / Series_asbuilt_crash.cfg set one of them to TRUE  *)
(* (Series_asbuilt.cfg both) and TLC reproduces the counterexample to OrderFree.   *)
EXTENDS SeriesDates

CONSTANTS Units, Tables, Benches,   \* sets of tokens
          NExp, NSer,               \* number of experiment stamps / series stamps (1..3)
          MaxRecs,                  \* size bound of the input set
          SharedBase,               \* TRUE: all series stamps name the same denominator hash
          DenHashFirstVisited, CombineNilCrash

Exps == 1..NExp
Sers == 1..NSer
Roles == {"num", "den"}
Policies == {"replace", "combine"}

\* Experiment stamps.  Raw text order is NOT chronological order (1 is the latest
\* instant but the smallest text; 3 is the earliest), and both spellings occur.
ExpStamp == <<
  TS(2021, 12, 31, 23, 30, 0, <<>>, "rfc", FALSE, 0 - 60),         \* = 2022-01-01T00:30:00Z
  TS(2022,  1,  1,  0,  0, 0, <<>>, "compact", TRUE, 0),           \* = 2022-01-01T00:00:00Z
  TS(2022,  1,  1,  0, 59, 59, <<"5">>, "rfc", FALSE, 60) >>       \* = 2021-12-31T23:59:59.5Z

\* Series stamps: each with several spellings of ONE instant (the harness picks a
\* spelling per result).  1 < 2 < 3 chronologically; 1 and 2 are half a second apart.
SerSpell == <<
  << TS(2021, 7, 1, 0, 0, 0, <<>>, "compact", TRUE, 0),
     TS(2021, 7, 1, 0, 0, 0, <<>>, "rfc", TRUE, 0),
     TS(2021, 6, 30, 23, 0, 0, <<"0", "0", "0">>, "rfc", FALSE, 0 - 60),
     TS(2021, 7, 1, 5, 30, 0, <<>>, "rfc", FALSE, 330) >>,
  << TS(2021, 7, 1, 0, 0, 0, <<"5">>, "rfc", TRUE, 0),
     TS(2021, 7, 1, 1, 0, 0, <<"5", "0", "0">>, "rfc", FALSE, 60),
     TS(2021, 6, 30, 16, 0, 0, <<"5", "0", "0", "0", "0", "0", "0", "0", "0">>, "rfc", FALSE, 0 - 480) >>,
  << TS(2021, 7, 1, 0, 0, 1, <<>>, "compact", TRUE, 0),
     TS(2021, 7, 1, 0, 30, 1, <<>>, "rfc", FALSE, 30) >> >>

\* (TLCEval: computed once when the module is loaded, not at every use)
ExpInst  == TLCEval([e \in 1..3 |-> Instant(ExpStamp[e])])
ExpCanon == TLCEval([e \in 1..3 |-> Canon(ExpStamp[e])])
SerInst  == TLCEval([s \in 1..3 |-> Instant(SerSpell[s][1])])
SerCanon == TLCEval([s \in 1..3 |-> Canon(SerSpell[s][1])])

ASSUME NExp \in 1..3 /\ NSer \in 1..3 /\ MaxRecs \in Nat
ASSUME \A e \in 1..3 : WellFormed(ExpStamp[e])
ASSUME \A s \in 1..3 : \A i \in 1..Len(SerSpell[s]) :
         WellFormed(SerSpell[s][i]) /\ Instant(SerSpell[s][i]) = SerInst[s] /\ Canon(SerSpell[s][i]) = SerCanon[s]
ASSUME \A e, f \in 1..3 : e # f => ExpInst[e] # ExpInst[f]                                   \* C4
ASSUME \A s, t \in 1..3 : s # t => SerInst[s] # SerInst[t]
\* the lemma the builder relies on (DatesCanonical for the stamps used here)
ASSUME \A e, f \in 1..3 : DatesCanonicalPair(ExpStamp[e], ExpStamp[f])
ASSUME \A s, t \in 1..3 : DatesCanonicalPair(SerSpell[s][1], SerSpell[t][1])
\* raw text order differs from chronological order (so that comparing raw stamps is visible)
ASSUME StrLess(Raw(ExpStamp[1]), Raw(ExpStamp[2])) /\ InstLess(ExpInst[2], ExpInst[1])

NumHashOf == <<"n1", "n2", "n3">>
DenHashOf == IF SharedBase THEN <<"d1", "d1", "d1">> ELSE <<"d1", "d2", "d3">>

\* A result record.  `value` only tells apart results that agree on every key (the
\* measurement itself is chosen by the harness); value 2 exists only next to its
\* twin with value 1 (symmetry reduction: the builder never looks at values).
Universe ==
  {[unit |-> u, table |-> t, bench |-> b, exp |-> e, series |-> s, role |-> ro,
    numHash |-> NumHashOf[s], denHash |-> DenHashOf[s], value |-> v] :
     u \in Units, t \in Tables, b \in Benches, e \in Exps, s \in Sers, ro \in Roles, v \in 1..2}

SameTrial(r1, r2) == r1.unit = r2.unit /\ r1.table = r2.table /\ r1.bench = r2.bench /\ r1.exp = r2.exp

Consistent(S) ==
  \A r1, r2 \in S :
    /\ (r1.series = r2.series) <=> (r1.numHash = r2.numHash)       \* C1
    /\ (r1.series = r2.series) => (r1.denHash = r2.denHash)        \* C2
    /\ SameTrial(r1, r2) => (r1.denHash = r2.denHash)              \* C3

Twin(r) == [r EXCEPT !.value = 1]

-----------------------------------------------------------------------------
VARIABLES tables, hashToOrder, added, out
vars == <<tables, hashToOrder, added, out>>

NoOut == [policy |-> "none"]

Put(f, k, v) == [x \in DOMAIN f \cup {k} |-> IF x = k THEN v ELSE f[x]]
Get(f, k, dflt) == IF k \in DOMAIN f THEN f[k] ELSE dflt
Perms(S) == {p \in [1..Cardinality(S) -> S] : \A i, j \in 1..Cardinality(S) : i # j => p[i] # p[j]}
RangeOf(s) == {s[i] : i \in DOMAIN s}
\* the sequence q holds exactly the members of the set S, each once
SameBag(q, S) == Len(q) = Cardinality(S) /\ RangeOf(q) = S
SortBy(S, less(_, _)) == CHOOSE p \in Perms(S) : \A i, j \in 1..Cardinality(S) : i < j => ~less(p[j], p[i])

EmptyTable == [cells |-> <<>>, benchmarks |-> {}, exps |-> {}]
EmptyTrial == [hasBase |-> FALSE, baseline |-> <<>>, baseHash |-> "", tests |-> <<>>]

Init == tables = <<>> /\ hashToOrder = <<>> /\ added = {} /\ out = NoOut

CanAdd(r) ==
  /\ r \notin added
  /\ Cardinality(added) < MaxRecs
  /\ (r.value = 1 \/ Twin(r) \in added)
  /\ Consistent(added \cup {r})

\* Builder.Add, lines 318-394
Add(r) ==
  /\ out = NoOut
  /\ CanAdd(r)
  /\ LET ut  == <<r.unit, r.table>>
         ck  == <<r.bench, r.exp>>
         tb  == Get(tables, ut, EmptyTable)
         new == ck \notin DOMAIN tb.cells
         t0  == Get(tb.cells, ck, EmptyTrial)
         t1  == IF r.role = "den"
                THEN [t0 EXCEPT !.hasBase = TRUE, !.baseline = Append(@, r),
                                !.baseHash = IF t0.hasBase THEN @ ELSE r.denHash]      \* first writer
                ELSE [t0 EXCEPT !.tests = Put(@, r.numHash, Append(Get(@, r.numHash, <<>>), r))]
         tb1 == [cells |-> Put(tb.cells, ck, t1),
                 benchmarks |-> IF new THEN tb.benchmarks \cup {r.bench} ELSE tb.benchmarks,
                 exps |-> IF new THEN tb.exps \cup {r.exp} ELSE tb.exps]
     IN /\ tables' = Put(tables, ut, tb1)
        /\ hashToOrder' = IF r.role = "num" /\ r.numHash \notin DOMAIN t0.tests
                          THEN Put(hashToOrder, r.numHash, r.series)                   \* last writer
                          ELSE hashToOrder
  /\ added' = added \cup {r}
  /\ UNCHANGED out

-----------------------------------------------------------------------------
\* AllComparisonSeries, lines 440-563, for one table

\* one iteration of `for hash, cell := range tr.tests` inside `for tk, tr := range t.cells`
VisitStep(st, ck, hash, tb, policy) ==
  LET tr   == tb.cells[ck]
      cell == tr.tests[hash]
      ser  == hashToOrder[hash]
      sk   == <<ck[1], ser>>
      e    == ck[2]
      has  == sk \in DOMAIN st.cells
      cc   == st.cells[sk]
      later == StrLess(ExpCanon[cc.date], ExpCanon[e])            \* cc.Date < dateString, on normalised text
      fresh == [num |-> cell, den |-> tr.baseline, hasDen |-> tr.hasBase, date |-> e]
      hp1  == IF ser \notin DOMAIN st.hp
              THEN Put(st.hp, ser, [num |-> hash, den |-> tr.baseHash])
              ELSE IF ~DenHashFirstVisited /\ st.hp[ser].den = "" /\ tr.hasBase
                   THEN Put(st.hp, ser, [num |-> st.hp[ser].num, den |-> tr.baseHash])
                   ELSE st.hp
      st1  == [st EXCEPT !.sers = @ \cup {ser}]
  IN IF st.crashed THEN st
     ELSE IF ~has \/ policy = "replace"
     THEN [st1 EXCEPT !.cells = IF ~has THEN Put(@, sk, fresh) ELSE IF later THEN Put(@, sk, fresh) ELSE @,
                      !.hp = hp1]
     ELSE IF CombineNilCrash /\ (~cc.hasDen \/ ~tr.hasBase)
     THEN [st1 EXCEPT !.crashed = TRUE]
     ELSE [st1 EXCEPT !.cells = Put(@, sk, [num |-> cc.num \o cell, den |-> cc.den \o tr.baseline,
                                           hasDen |-> cc.hasDen \/ tr.hasBase,
                                           date |-> IF later THEN e ELSE cc.date]),
                      !.hp = IF DenHashFirstVisited THEN @ ELSE hp1]

TrialsWithTests(tb) == {ck \in DOMAIN tb.cells : DOMAIN tb.cells[ck].tests # {}}

\* all orders in which the nested range loops can visit the (trial, test) pairs
Visits(tb) ==
  LET T == TrialsWithTests(tb)
      testPerms == UNION {Perms(DOMAIN tb.cells[ck].tests) : ck \in T}
      Q == {q \in [T -> testPerms] : \A ck \in T : q[ck] \in Perms(DOMAIN tb.cells[ck].tests)}
      Flat(p, q) == LET f[i \in 0..Len(p)] ==
                          IF i = 0 THEN <<>>
                          ELSE f[i - 1] \o [j \in 1..Len(q[p[i]]) |-> <<p[i], q[p[i]][j]>>]
                    IN f[Len(p)]
  IN {Flat(p, q) : p \in Perms(T), q \in Q}

FinalOut(policy, ut, visit) ==
  LET tb == tables[ut]
      f[i \in 0..Len(visit)] ==
        IF i = 0 THEN [cells |-> <<>>, hp |-> <<>>, sers |-> {}, crashed |-> FALSE]
        ELSE VisitStep(f[i - 1], visit[i][1], visit[i][2], tb, policy)
      st == f[Len(visit)]
  IN [policy |-> policy, ut |-> ut, crashed |-> st.crashed,
      benches |-> {ck[1] : ck \in DOMAIN tb.cells},                                      \* every trial, with or without tests
      series |-> SortBy(st.sers, LAMBDA a, b : StrLess(SerCanon[a], SerCanon[b])),    \* sortStringSet
      hp |-> st.hp,
      points |-> st.cells]

Finalize(policy, ut) ==
  /\ out = NoOut
  /\ ut \in DOMAIN tables
  /\ \E visit \in Visits(tables[ut]) : out' = FinalOut(policy, ut, visit)
  /\ UNCHANGED <<tables, hashToOrder, added>>

Next ==
  \/ \E r \in Universe : Add(r)
  \/ \E policy \in Policies : \E ut \in Units \X Tables : Finalize(policy, ut)

Spec == Init /\ [][Next]_vars

\* units, tables and benchmarks are interchangeable tokens (only experiment and series
\* stamps are ordered): symmetry reduction for the exhaustive configurations
Sym == Permutations(Units) \cup Permutations(Tables) \cup Permutations(Benches)

-----------------------------------------------------------------------------
\* Declarative side: the series of a SET of results

InTable(S, ut) == {r \in S : <<r.unit, r.table>> = ut}
ExpectedTables(S) == {<<r.unit, r.table>> : r \in S}
LatestExp(E) == CHOOSE e \in E : \A f \in E : ~InstLess(ExpInst[e], ExpInst[f])

\* the experiments whose samples make up point (b, s)
Contributing(S, policy, ut, b, s) ==
  LET E == {r.exp : r \in {x \in InTable(S, ut) : x.role = "num" /\ x.bench = b /\ x.series = s}}
  IN IF policy = "replace" THEN {LatestExp(E)} ELSE E

ExpectedPoint(S, policy, ut, b, s) ==
  LET R == InTable(S, ut)
      C == Contributing(S, policy, ut, b, s)
  IN [num  |-> {r \in R : r.role = "num" /\ r.bench = b /\ r.series = s /\ r.exp \in C},
      den  |-> {r \in R : r.role = "den" /\ r.bench = b /\ r.exp \in C},
      date |-> LatestExp(C)]

\* Denominator hash of series point s.  All trials holding a numerator of s that also
\* hold denominators name the same hash (C2, C3): that one, or "" when none of them
\* has a denominator.  Under "replace" one may also read "hash pair of the winning
\* experiments"; where the two readings differ both are admitted (the statement only
\* asks for the same pair whatever the order), see HashPairsFunctional.
DenHashes(S, ut, trials) ==
  LET D == {r.denHash : r \in {x \in InTable(S, ut) : x.role = "den" /\ <<x.bench, x.exp>> \in trials}}
  IN IF D = {} THEN {""} ELSE D

TrialsOfSeries(S, ut, s) ==
  {<<r.bench, r.exp>> : r \in {x \in InTable(S, ut) : x.role = "num" /\ x.series = s}}

WinningTrials(S, ut, s) ==
  LET T == TrialsOfSeries(S, ut, s)
  IN {<<b, LatestExp({t[2] : t \in {x \in T : x[1] = b}})>> : b \in {t[1] : t \in T}}

DenOK(S, policy, ut, s) ==
  IF policy = "replace"
  THEN DenHashes(S, ut, TrialsOfSeries(S, ut, s)) \cup DenHashes(S, ut, WinningTrials(S, ut, s))
  ELSE DenHashes(S, ut, TrialsOfSeries(S, ut, s))

Expected(S, policy, ut) ==
  LET R  == InTable(S, ut)
      N  == {r \in R : r.role = "num"}
      SS == {r.series : r \in N}
      P  == {<<r.bench, r.series>> : r \in N}
  IN [benches |-> {r.bench : r \in R},
      series  |-> SortBy(SS, LAMBDA a, b : InstLess(SerInst[a], SerInst[b])),       \* chronological
      points  |-> [p \in P |-> ExpectedPoint(S, policy, ut, p[1], p[2])],
      hp      |-> [s \in SS |-> [num   |-> CHOOSE h \in {r.numHash : r \in {x \in N : x.series = s}} : TRUE,
                                 denOK |-> DenOK(S, policy, ut, s)]]]

Matches(o, x) ==
  /\ ~o.crashed
  /\ o.benches = x.benches
  /\ o.series = x.series
  /\ DOMAIN o.points = DOMAIN x.points
  /\ \A p \in DOMAIN x.points :
       /\ SameBag(o.points[p].num, x.points[p].num)
       /\ SameBag(o.points[p].den, x.points[p].den)
       /\ o.points[p].hasDen = (x.points[p].den # {})
       /\ o.points[p].date = x.points[p].date
  /\ DOMAIN o.hp = DOMAIN x.hp
  /\ \A s \in DOMAIN x.hp : o.hp[s].num = x.hp[s].num /\ o.hp[s].den \in x.hp[s].denOK

-----------------------------------------------------------------------------
\* Properties (C18, first sentence)

OrderFree == out # NoOut => Matches(out, Expected(added, out.policy, out.ut))

\* the hash pairs of the normative model are a function of the set (no reading left open)
HashPairsFunctional ==
  out # NoOut /\ ~out.crashed =>
    \A s \in DOMAIN out.hp : out.hp[s].den \in DenHashes(added, out.ut, TrialsOfSeries(added, out.ut, s))

TablesOK == DOMAIN tables = ExpectedTables(added)

TypeOK ==
  /\ added \subseteq Universe /\ Cardinality(added) <= MaxRecs /\ Consistent(added)
  /\ \A h \in DOMAIN hashToOrder : \E s \in Sers : NumHashOf[s] = h /\ hashToOrder[h] = s
  /\ \A ut \in DOMAIN tables :
       /\ tables[ut].benchmarks = {ck[1] : ck \in DOMAIN tables[ut].cells}
       /\ tables[ut].exps = {ck[2] : ck \in DOMAIN tables[ut].cells}
       /\ \A ck \in DOMAIN tables[ut].cells :
            LET tr == tables[ut].cells[ck] IN
            /\ tr.hasBase = (tr.baseline # <<>>)
            /\ SameBag(tr.baseline, {r \in InTable(added, ut) : r.role = "den" /\ <<r.bench, r.exp>> = ck})
            /\ \A h \in DOMAIN tr.tests :
                 SameBag(tr.tests[h], {r \in InTable(added, ut) : r.role = "num" /\ <<r.bench, r.exp>> = ck /\ r.numHash = h})

=============================================================================
