------------------------------ MODULE SeriesDates ------------------------------
(* Civil-time model of the two timestamp spellings benchseries accepts            *)
(* (benchseries.go: noPuncDate, NormalizeDateString, RFC3339NanoNoZ) and of the   *)
(* normalised string it maps them to.  Operators only, no variables: Series.tla   *)
(* uses them for experiment and series stamps, SeriesDates_mc.tla checks          *)
(* DatesCanonical over a grid, SeriesDates_gen.tla prints the grid as replay      *)
(* cases for the real NormalizeDateString.                                        *)
(*                                                                                *)
(* A timestamp as written is a record                                             *)
(*   y mo d h mi s   civil date and time of day as spelled (local to the zone)    *)
(*   frac            fractional-second digits as spelled (sequence of one-char    *)
(*                   strings, at most 9, possibly empty)                          *)
(*   fmt             "compact"  YYYYMMDDThhmmss            (no fraction, UTC)     *)
(*                   "rfc"      YYYY-MM-DDThh:mm:ss[.f](Z|+hh:mm|-hh:mm)          *)
(*   z               TRUE: zone spelled Z (off = 0)                               *)
(*   off             minutes east of UTC                                          *)
(* Text is a sequence of one-character strings (TLC strings are atomic).          *)
(*                                                                                *)
(* Domain: years for which the UTC date stays inside 0001..9998 (four digits);    *)
(* no leap seconds; at most nine fractional digits.                               *)
EXTENDS Integers, Sequences, FiniteSets, TLC

TS(y, mo, d, h, mi, s, frac, fmt, z, off) ==
  [y |-> y, mo |-> mo, d |-> d, h |-> h, mi |-> mi, s |-> s, frac |-> frac, fmt |-> fmt, z |-> z, off |-> off]

-----------------------------------------------------------------------------
\* days-from-epoch arithmetic (proleptic Gregorian calendar, day 0 = 1970-01-01)

DaysFromCivil(y, m, d) ==
  LET yy  == IF m <= 2 THEN y - 1 ELSE y
      era == yy \div 400
      yoe == yy - era * 400
      mp  == (m + 9) % 12                        \* March = 0
      doy == (153 * mp + 2) \div 5 + d - 1
      doe == yoe * 365 + yoe \div 4 - yoe \div 100 + doy
  IN era * 146097 + doe - 719468

CivilFromDays(z) ==
  LET zz  == z + 719468
      era == zz \div 146097
      doe == zz - era * 146097
      yoe == (doe - doe \div 1460 + doe \div 36524 - doe \div 146096) \div 365
      doy == doe - (365 * yoe + yoe \div 4 - yoe \div 100)
      mp  == (5 * doy + 2) \div 153
      d   == doy - (153 * mp + 2) \div 5 + 1
      m   == IF mp < 10 THEN mp + 3 ELSE mp - 9
      y   == yoe + era * 400 + (IF m <= 2 THEN 1 ELSE 0)
  IN <<y, m, d>>

IsLeap(y) == (y % 4 = 0 /\ y % 100 # 0) \/ y % 400 = 0
DaysIn(y, m) == IF m = 2 THEN (IF IsLeap(y) THEN 29 ELSE 28)
                ELSE IF m \in {4, 6, 9, 11} THEN 30 ELSE 31

\* anchors of the arithmetic, checked by TLC when the module is loaded
ASSUME DaysFromCivil(1970, 1, 1) = 0
ASSUME DaysFromCivil(2000, 3, 1) = 11017
ASSUME DaysFromCivil(2020, 2, 29) + 1 = DaysFromCivil(2020, 3, 1)
ASSUME DaysFromCivil(2021, 12, 31) + 1 = DaysFromCivil(2022, 1, 1)
ASSUME DaysFromCivil(2100, 2, 28) + 1 = DaysFromCivil(2100, 3, 1)
ASSUME (0 - 1) \div 86400 = 0 - 1 /\ (0 - 1) % 86400 = 86399
ASSUME \A y \in {1999, 2000, 2019, 2020, 2021, 2022, 2100} : \A m \in 1..12 : \A d \in {1, DaysIn(y, m)} :
         CivilFromDays(DaysFromCivil(y, m, d)) = <<y, m, d>>

-----------------------------------------------------------------------------
\* what a spelled timestamp denotes: <<day, second of day, nanoseconds>> in UTC

DigitChars == <<"0", "1", "2", "3", "4", "5", "6", "7", "8", "9">>
DigitVal(c) == CHOOSE i \in 0..9 : DigitChars[i + 1] = c

Nanos(frac) ==
  LET f[i \in 0..9] == IF i = 0 THEN 0
                       ELSE f[i - 1] * 10 + (IF i <= Len(frac) THEN DigitVal(frac[i]) ELSE 0)
  IN f[9]

WellFormed(t) ==
  /\ t.mo \in 1..12 /\ t.d \in 1..DaysIn(t.y, t.mo)
  /\ t.h \in 0..23 /\ t.mi \in 0..59 /\ t.s \in 0..59
  /\ Len(t.frac) <= 9
  /\ t.fmt \in {"compact", "rfc"}
  /\ t.fmt = "compact" => (t.frac = <<>> /\ t.off = 0)
  /\ t.z => t.off = 0

Instant(t) ==
  LET secs == t.h * 3600 + t.mi * 60 + t.s - t.off * 60     \* may leave 0..86399
      day  == DaysFromCivil(t.y, t.mo, t.d) + secs \div 86400
  IN <<day, secs % 86400, Nanos(t.frac)>>

InstLess(a, b) ==
  \/ a[1] < b[1]
  \/ a[1] = b[1] /\ a[2] < b[2]
  \/ a[1] = b[1] /\ a[2] = b[2] /\ a[3] < b[3]

-----------------------------------------------------------------------------
\* spelling

Pad(n, w) == [i \in 1..w |-> DigitChars[((n \div (10 ^ (w - i))) % 10) + 1]]

TrimZeros(frac) ==
  LET keep == {i \in 1..Len(frac) : frac[i] # "0"}
      n == IF keep = {} THEN 0 ELSE CHOOSE i \in keep : \A j \in keep : j <= i
  IN SubSeq(frac, 1, n)

Abs(n) == IF n < 0 THEN 0 - n ELSE n

\* the text as written
Raw(t) ==
  IF t.fmt = "compact"
  THEN Pad(t.y, 4) \o Pad(t.mo, 2) \o Pad(t.d, 2) \o <<"T">> \o Pad(t.h, 2) \o Pad(t.mi, 2) \o Pad(t.s, 2)
  ELSE Pad(t.y, 4) \o <<"-">> \o Pad(t.mo, 2) \o <<"-">> \o Pad(t.d, 2) \o <<"T">>
       \o Pad(t.h, 2) \o <<":">> \o Pad(t.mi, 2) \o <<":">> \o Pad(t.s, 2)
       \o (IF t.frac = <<>> THEN <<>> ELSE <<".">> \o t.frac)
       \o (IF t.z THEN <<"Z">>
           ELSE <<IF t.off < 0 THEN "-" ELSE "+">> \o Pad(Abs(t.off) \div 60, 2) \o <<":">> \o Pad(Abs(t.off) % 60, 2))

\* the normalised text of an instant: UTC, no trailing fraction zeros, no
\* fraction at all when it is zero, zone always spelled +00:00
CanonOfInstant(i) ==
  LET c == CivilFromDays(i[1])
      f == TrimZeros(Pad(i[3], 9))
  IN Pad(c[1], 4) \o <<"-">> \o Pad(c[2], 2) \o <<"-">> \o Pad(c[3], 2) \o <<"T">>
     \o Pad(i[2] \div 3600, 2) \o <<":">> \o Pad((i[2] \div 60) % 60, 2) \o <<":">> \o Pad(i[2] % 60, 2)
     \o (IF f = <<>> THEN <<>> ELSE <<".">> \o f)
     \o <<"+", "0", "0", ":", "0", "0">>

Canon(t) == CanonOfInstant(Instant(t))

-----------------------------------------------------------------------------
\* byte order of text (what sort.Strings and Go's < on strings use)

Code(c) ==
  CASE c = "+" -> 43 [] c = "-" -> 45 [] c = "." -> 46 [] c = ":" -> 58 [] c = "T" -> 84 [] c = "Z" -> 90
    [] OTHER -> 48 + DigitVal(c)

StrLess(a, b) ==
  LET n == IF Len(a) < Len(b) THEN Len(a) ELSE Len(b)
      diff == {i \in 1..n : a[i] # b[i]}
  IN IF diff = {} THEN Len(a) < Len(b)
     ELSE LET k == CHOOSE i \in diff : \A j \in diff : i <= j
          IN Code(a[k]) < Code(b[k])

-----------------------------------------------------------------------------
\* C18, third sentence: both spellings of one instant normalise to one string, and
\* normalised strings sort chronologically
DatesCanonicalPair(a, b) ==
  /\ (Instant(a) = Instant(b)) => (Canon(a) = Canon(b))
  /\ InstLess(Instant(a), Instant(b)) <=> StrLess(Canon(a), Canon(b))

=============================================================================
