---------------------------- MODULE SeriesDates_gen ----------------------------
(* Generator (mode G) for the date part of C18: prints, for every timestamp of the *)
(* grid of SeriesDates_mc, its spelling, the normalised text the specification     *)
(* assigns to it and the instant it denotes <<day, second of day, nanosecond>>.    *)
(* The harness feeds the spelling to the real NormalizeDateString, compares the    *)
(* result with `canon`, and compares the byte order of the results with the order  *)
(* of the instants.                                                                *)
EXTENDS SeriesDates_mc, Json

\* nothing to explore: the table is printed while the module is loaded
GSpec == pair = <<>> /\ [][UNCHANGED pair]_pair

ASSUME \A t \in Grid :
  PrintT(ToJson([tag |-> "date", raw |-> Raw(t), canon |-> CanonOf[t], inst |-> InstOf[t], fmt |-> t.fmt]))
=============================================================================
