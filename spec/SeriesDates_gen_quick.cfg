SPECIFICATION GSpec
CONSTANTS
  Dates <- DatesQuick
  Times <- TimesQuick
  Fracs <- FracsQuick
  Offs <- OffsQuick
CHECK_DEADLOCK FALSE
