SPECIFICATION GSpec
CONSTANTS
  Dates <- DatesThorough
  Times <- TimesThorough
  Fracs <- FracsThorough
  Offs <- OffsThorough
CHECK_DEADLOCK FALSE
