---------------------------- MODULE SeriesDates_mc ----------------------------
(* Mode M for the date part of C18: every ordered pair of timestamps of a grid is *)
(* an initial state; the invariant is DatesCanonicalPair.  The grid is the        *)
(* product of civil dates (year and month boundaries, a leap day), times of day   *)
(* around midnight, fraction spellings (none, .5, .500, .000, 1 ns, .05) and      *)
(* zones (Z, +00:00, whole and half hours east and west), plus the compact        *)
(* spelling of every date x time.  Many members denote the same instant.          *)
EXTENDS SeriesDates

CONSTANTS Dates, Times, Fracs, Offs

Grid ==
  {TS(dt[1], dt[2], dt[3], tm[1], tm[2], tm[3], fr, "rfc", FALSE, o) : dt \in Dates, tm \in Times, fr \in Fracs, o \in Offs}
  \cup {TS(dt[1], dt[2], dt[3], tm[1], tm[2], tm[3], fr, "rfc", TRUE, 0) : dt \in Dates, tm \in Times, fr \in Fracs}
  \cup {TS(dt[1], dt[2], dt[3], tm[1], tm[2], tm[3], <<>>, "compact", TRUE, 0) : dt \in Dates, tm \in Times}

DatesQuick == {<<2021, 12, 31>>, <<2022, 1, 1>>, <<2020, 2, 29>>, <<2020, 3, 1>>}
TimesQuick == {<<0, 0, 0>>, <<0, 30, 0>>, <<23, 30, 0>>, <<23, 59, 59>>}
FracsQuick == {<<>>, <<"5">>, <<"5", "0", "0">>}
OffsQuick  == {60, 0 - 60, 30}

DatesThorough == DatesQuick \cup {<<2019, 12, 31>>, <<2020, 1, 1>>}
TimesThorough == TimesQuick \cup {<<1, 0, 0>>, <<0, 0, 1>>}
FracsThorough == FracsQuick \cup {<<"0", "0", "0">>, <<"0", "0", "0", "0", "0", "0", "0", "0", "1">>}
OffsThorough  == OffsQuick \cup {0, 330, 0 - 480}

\* computed once (constant definitions), looked up per pair
InstOf  == TLCEval([t \in Grid |-> Instant(t)])
CanonOf == TLCEval([t \in Grid |-> Canon(t)])

VARIABLE pair

Init == pair \in Grid \X Grid
Next == UNCHANGED pair
Spec == Init /\ [][Next]_pair

GridWellFormed == WellFormed(pair[1])

DatesCanonical ==
  LET a == pair[1]  b == pair[2] IN
  /\ (InstOf[a] = InstOf[b]) => (CanonOf[a] = CanonOf[b])
  /\ InstLess(InstOf[a], InstOf[b]) <=> StrLess(CanonOf[a], CanonOf[b])

\* the spelling is the only thing that may differ between timestamps of one instant
SameInstantDifferentSpelling == \E a, b \in Grid : a # b /\ Raw(a) # Raw(b) /\ InstOf[a] = InstOf[b]
ASSUME SameInstantDifferentSpelling
=============================================================================
