SPECIFICATION Spec
CONSTANTS
  Dates <- DatesQuick
  Times <- TimesQuick
  Fracs <- FracsQuick
  Offs <- OffsQuick
INVARIANTS GridWellFormed DatesCanonical
CHECK_DEADLOCK FALSE
