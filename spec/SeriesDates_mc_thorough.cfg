SPECIFICATION Spec
CONSTANTS
  Dates <- DatesThorough
  Times <- TimesThorough
  Fracs <- FracsThorough
  Offs <- OffsThorough
INVARIANTS GridWellFormed DatesCanonical
CHECK_DEADLOCK FALSE
