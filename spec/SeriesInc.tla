------------------------------- MODULE SeriesInc -------------------------------
(* Incremental use of golang.org/x/perf/benchseries, as cmd/benchseries does it:    *)
(*                                                                                  *)
(*    builder := NewBuilder; builder.Add(results of this run) ...                   *)
(*    existing := the series of earlier runs (in memory, or decoded from -ji JSON)  *)
(*    css := builder.AllComparisonSeries(existing, policy)                          *)
(*    for cs in css: cs.AddSummaries(confidence, N)                                 *)
(*    encode css as JSON (-jo), render each with ToCsvBootstrapped                  *)
(*                                                                                  *)
(* Series.tla (C18) covers one builder and existing = nil, at the grain of single   *)
(* results and map iteration order; it establishes that a builder's content is the  *)
(* SET of results added.  This module starts from there.                            *)
(*                                                                                  *)
(* ABSTRACTION.  A trial is everything one experiment run contributes to one point: *)
(* [u unit(+table), b benchmark, e experiment stamp, s series stamp, den has a       *)
(* baseline].  At most one trial per (u, b, e); the numerator hash is determined by  *)
(* s, the denominator hash is "d" (Series.tla's consistency assumptions).  b, e, s  *)
(* are numbers in their sort order / chronological order.  Measurements are not     *)
(* modelled: the samples of a point are identified by the SET of trials they come   *)
(* from (`ids`); a summary is present or absent and remembers its date and the      *)
(* sample identity it was computed from.  A trial's residue is its e.               *)
(*                                                                                  *)
(* STATE, as in the code:                                                           *)
(*   bld     Builder.tables, as the set of trials added since NewBuilder            *)
(*   objs    the []*ComparisonSeries in hand, unit -> ComparisonSeries:             *)
(*             benches, series  the two axes (sorted sequences)                     *)
(*             summ             Summaries[series index][benchmark index]; NOT       *)
(*                              re-indexed by AllComparisonSeries (stale until      *)
(*                              AddSummaries: fresh = FALSE)                        *)
(*             hp, residues     HashPairs, Residues                                 *)
(*             hasCells, cells  the unexported cells map (nil after JSON decoding): *)
(*                              (b, s) -> Comparison{Numerator, Denominator, Date,  *)
(*                              Summary}                                            *)
(*           a summary: [present, date, ids, boot (bootstrap ratios at hand),       *)
(*                       linked (ComparisonSummary.comparison # nil)]               *)
(*   allfed, nrounds, onlyReplace   ghost: trials of completed rounds, their number,*)
(*           whether every round used DUPE_REPLACE                                  *)
(*                                                                                  *)
(* ACTIONS, one per public call: Add(t); ACS(policy) = AllComparisonSeries(objs,    *)
(* policy) followed by NewBuilder for the next round; AddSummaries(u); Json =       *)
(* encode + decode of all objects.  ToCsvBootstrapped changes nothing and is an     *)
(* invariant (CsvAgrees) over SeriesIncCsv.tla's two sides.                         *)
(*                                                                                  *)
(* CONTRACT (doc comment of AllComparisonSeries: "The experiments need not have     *)
(* occurred in any sensible order; this deals with that, including overlaps ...     *)
(* REPLACE IS PREFERRED and works properly with combining old summary data with     *)
(* fresh benchmarking data"; cmd/benchseries: "Bootstrap and add (missing, if some  *)
(* already supplied by JSON) summaries"; TestReordered: old summaries + new results *)
(* "in either order; the newly computed answers should be identical"):              *)
(*   IncEqualsBatch    under DUPE_REPLACE, however the trials are split into rounds *)
(*                     and wherever JSON sits, the points known after the last      *)
(*                     round are those of ONE batch run over the union: per point   *)
(*                     the latest experiment, its date, its samples                 *)
(*   NothingForgotten  (both policies) every point ever fed is still known, with    *)
(*                     the date of its latest experiment                            *)
(*   SummariesSound    a present summary was computed from trials of its own point, *)
(*                     one of which has a baseline, and is dated by the latest      *)
(*   JsonTransparent   encoding and decoding at any summarised moment changes       *)
(*                     nothing that later calls or outputs depend on: AddSummaries  *)
(*                     on the decoded objects, and the whole next round run on the  *)
(*                     decoded instead of the in-memory objects, end in the same    *)
(*                     persistent content (one-round lookahead; by induction over   *)
(*                     the rounds: wherever JSON sits, the content is the same)     *)
(*   ShapeOK, AxesOK, UnitsOK, HashPairsOK, ResiduesOK   see below                  *)
(*   NoCrash                                                                        *)
(*                                                                                  *)
(* DOMAIN.  (1) AllComparisonSeries is applied to summarised objects only (Fresh);  *)
(* AllowStale lifts this: the code then indexes the old Summaries table with the    *)
(* new axes (index panic, or summaries attributed to the wrong point).  (2) Under   *)
(* DUPE_COMBINE no fresh trial may hit a point that already has a summary - the     *)
(* samples behind a summary are gone, the doc comment says "will do the wrong       *)
(* thing if one is an old summary"; CombineOverSummary lifts this: the code          *)
(* dereferences the missing numerator.  (3) A trial is never split over rounds; it   *)
(* may be fed again whole (same file given twice).                                  *)
(*                                                                                  *)
(* DEVIATIONS of the code as shipped (FALSE = contract):                            *)
(*   (contract: AddSummaries adds the summaries that are missing and keeps the ones *)
(*    it finds, whether or not a cells map stands behind them; a point is known as  *)
(*    soon as a dated summary exists for it, present or not)                        *)
(*   NilCellsWipe     AddSummaries rebuilds Summaries from the cells map only. An   *)
(*                    object decoded from JSON whose unit has no table in the new   *)
(*                    builder is passed through AllComparisonSeries untouched, its  *)
(*                    cells map is nil, and AddSummaries replaces every summary by  *)
(*                    the empty one: a run whose inputs lack a unit erases that     *)
(*                    unit's history from the -jo file.                             *)
(*   ForgetUndefined  AllComparisonSeries adopts only Defined() summaries of the    *)
(*                    existing object.  A point whose latest experiment had no      *)
(*                    baseline (Present = false, date recorded) is forgotten, so    *)
(*                    an OLDER experiment fed later takes the point: the outcome    *)
(*                    depends on the order of the rounds.                           *)
EXTENDS SeriesIncCsv, TLC

CONSTANTS Units, NBench, NSer, NExp,        \* unit tokens; sizes of the benchmark / series / experiment ranges
          MaxTrials, MaxRounds,             \* bounds: distinct trials over all rounds; rounds
          MaxPerRound, MaxRefeed,           \* trials per round; of these, trials of earlier rounds fed again
          IdemSum,                          \* TRUE: AddSummaries also on objects that are summarised and have cells (a no-op by contract)
          CmdShape,                         \* TRUE: only histories a sequence of cmd/benchseries runs can produce:
                                            \* every round = Add* ACS AddSummaries(every object) Json
          Policies,                         \* subset of {"replace", "combine"}
          CsvOptNos,                        \* option sets (CsvOptions bits) under which CsvAgrees is checked
          NilCellsWipe, ForgetUndefined,    \* deviations
          CombineOverSummary, AllowStale    \* domain switches

Benches == 1..NBench
Sers == 1..NSer
Exps == 1..NExp
Trials == [u : Units, b : Benches, e : Exps, s : Sers, den : BOOLEAN]
KeyOf(t) == <<t.u, t.b, t.e>>

Sw == [wipe |-> NilCellsWipe, forget |-> ForgetUndefined]

NoSum == [present |-> FALSE, date |-> 0, ids |-> {}, boot |-> FALSE, linked |-> FALSE]
Known(sm) == sm.date # 0            \* a comparison stood there, with or without a denominator

Put(f, k, v) == [x \in DOMAIN f \cup {k} |-> IF x = k THEN v ELSE f[x]]
RangeOf(q) == {q[i] : i \in DOMAIN q}
AscSeq(S) == [i \in 1..Cardinality(S) |-> CHOOSE x \in S : Cardinality({y \in S : y < x}) = i - 1]
MaxOf(S) == CHOOSE x \in S : \A y \in S : y <= x

NewObj == [benches |-> <<>>, series |-> <<>>, summ |-> <<>>, hp |-> <<>>, residues |-> {},
           hasCells |-> TRUE, cells |-> <<>>, fresh |-> FALSE]

InShape(o) == Len(o.summ) = Len(o.series) /\ \A i \in 1..Len(o.summ) : Len(o.summ[i]) = Len(o.benches)
\* reading summ[i][j] for every position of the CURRENT axes does not run out of range
Readable(o) == Len(o.summ) >= Len(o.series) /\ \A i \in 1..Len(o.series) : Len(o.summ[i]) >= Len(o.benches)

-----------------------------------------------------------------------------
\* AllComparisonSeries, benchseries.go lines 463-479: cells from the summaries of an
\* existing object, read BY POSITION against the axes.  Also used by the contract's
\* AddSummaries for an object without cells.
Adopt(o, sw) ==
  LET ns == Len(o.series)
      nb == Len(o.benches)
      Keep(sm) == IF sw.forget THEN sm.present ELSE Known(sm)
      P == {x \in (1..ns) \X (1..nb) : Keep(o.summ[x[1]][x[2]])}
      SK(x) == <<o.benches[x[2]], o.series[x[1]]>>
      PosOf(sk) == CHOOSE x \in P : SK(x) = sk
      Link(sm) == [sm EXCEPT !.linked = TRUE, !.boot = FALSE]     \* sum.comparison = a new Comparison without ratios
  IN [cells |-> [sk \in {SK(x) : x \in P} |->
                   LET x == PosOf(sk) IN
                   [ids |-> {}, hasNum |-> FALSE, hasDen |-> FALSE, date |-> o.summ[x[1]][x[2]].date,
                    hasSum |-> TRUE, sum |-> Link(o.summ[x[1]][x[2]])]],
      summ  |-> [i \in 1..Len(o.summ) |-> [j \in 1..Len(o.summ[i]) |->
                   IF <<i, j>> \in P THEN Link(o.summ[i][j]) ELSE o.summ[i][j]]]]

\* one iteration of the nested range loops (lines 491-555) for the trial's single test
Visit(st, t, policy) ==
  LET sk  == <<t.b, t.s>>
      has == sk \in DOMAIN st.cells
      cc  == st.cells[sk]
      fr  == [ids |-> {t}, hasNum |-> TRUE, hasDen |-> t.den, date |-> t.e, hasSum |-> FALSE, sum |-> NoSum]
      hp1 == IF t.s \notin DOMAIN st.hp
             THEN Put(st.hp, t.s, [num |-> t.s, den |-> IF t.den THEN "d" ELSE ""])
             ELSE IF st.hp[t.s].den = "" /\ t.den THEN Put(st.hp, t.s, [num |-> t.s, den |-> "d"])
             ELSE st.hp
  IN IF st.crashed THEN st
     ELSE IF ~has THEN [st EXCEPT !.cells = Put(@, sk, fr), !.hp = hp1]
     ELSE IF policy = "replace"
     THEN [st EXCEPT !.cells = IF cc.date < t.e THEN Put(@, sk, fr) ELSE @, !.hp = hp1]    \* cc.Date < dateString
     ELSE IF ~cc.hasNum THEN [st EXCEPT !.crashed = TRUE]                                  \* cc.Numerator.Values, Numerator nil
     ELSE [st EXCEPT !.cells = Put(@, sk, [ids |-> cc.ids \cup {t}, hasNum |-> TRUE, hasDen |-> cc.hasDen \/ t.den,
                                          date |-> IF cc.date < t.e THEN t.e ELSE cc.date,
                                          hasSum |-> FALSE, sum |-> NoSum]),
                      !.hp = hp1]

RECURSIVE FoldTrials(_, _, _)
FoldTrials(st, T, policy) ==
  IF T = {} THEN st
  ELSE LET t == CHOOSE x \in T : TRUE IN FoldTrials(Visit(st, t, policy), T \ {t}, policy)

\* the loop body for one unit that has a table in the builder (lines 448-653)
ACSUnit(o, isOld, T, policy, sw) ==
  IF isOld /\ ~Readable(o) THEN [obj |-> o, crashed |-> TRUE]                              \* index out of range
  ELSE
  LET ad   == IF isOld THEN Adopt(o, sw) ELSE [cells |-> <<>>, summ |-> <<>>]
      st   == FoldTrials([cells |-> ad.cells, hp |-> o.hp, crashed |-> FALSE], T, policy)
      bs   == {sk[1] : sk \in DOMAIN ad.cells} \cup {t.b : t \in T}
      ss   == {sk[2] : sk \in DOMAIN ad.cells} \cup {t.s : t \in T}
      live == {sk \in DOMAIN st.cells : st.cells[sk].hasNum /\ st.cells[sk].hasDen}
  IN [obj |-> [benches |-> AscSeq(bs), series |-> AscSeq(ss), summ |-> ad.summ, hp |-> st.hp,
               residues |-> o.residues \cup UNION {{t.e : t \in st.cells[sk].ids} : sk \in live},
               hasCells |-> TRUE, cells |-> st.cells, fresh |-> FALSE],
      crashed |-> st.crashed]

\* AllComparisonSeries(existing = os, policy) with builder content B.  Existing objects
\* whose unit has no table in the builder are returned as they are (lines 655-659).
ACSAll(os, B, policy, sw) ==
  LET touched == {t.u : t \in B}
      Res(u) == IF u \in touched
                THEN ACSUnit(IF u \in DOMAIN os THEN os[u] ELSE NewObj, u \in DOMAIN os, {t \in B : t.u = u}, policy, sw)
                ELSE [obj |-> os[u], crashed |-> FALSE]
  IN [objs |-> [u \in DOMAIN os \cup touched |-> Res(u).obj],
      crashed |-> \E u \in DOMAIN os \cup touched : Res(u).crashed]

\* ComparisonSeries.AddSummaries (lines 928-952)
AddSum(o, sw) ==
  LET o1 == IF ~o.hasCells /\ ~sw.wipe /\ Readable(o)
            THEN LET ad == Adopt(o, sw) IN [o EXCEPT !.hasCells = TRUE, !.cells = ad.cells, !.summ = ad.summ]
            ELSE o
      At(sk) ==
        IF o1.hasCells /\ sk \in DOMAIN o1.cells
        THEN LET c == o1.cells[sk] IN
             IF c.hasSum /\ (c.sum.present \/ c.sum.linked) THEN c.sum
             ELSE [present |-> c.hasDen, date |-> c.date, ids |-> IF c.hasDen THEN c.ids ELSE {},
                   boot |-> c.hasDen, linked |-> TRUE]
        ELSE NoSum
  IN [o1 EXCEPT !.summ = [i \in 1..Len(o1.series) |-> [j \in 1..Len(o1.benches) |-> At(<<o1.benches[j], o1.series[i]>>)]],
                !.cells = [sk \in DOMAIN o1.cells |-> [o1.cells[sk] EXCEPT !.hasSum = TRUE, !.sum = At(sk)]],
                !.fresh = TRUE]

\* json.Marshal + json.Unmarshal: the unexported fields are gone
Strip(o) ==
  [o EXCEPT !.hasCells = FALSE, !.cells = <<>>,
            !.summ = [i \in 1..Len(o.summ) |-> [j \in 1..Len(o.summ[i]) |->
                        [o.summ[i][j] EXCEPT !.boot = FALSE, !.linked = FALSE]]]]

-----------------------------------------------------------------------------
VARIABLES bld, objs, allfed, nrounds, onlyReplace, crashed
vars == <<bld, objs, allfed, nrounds, onlyReplace, crashed>>

Init == /\ bld = {} /\ objs = <<>> /\ allfed = {}
        /\ nrounds = 0 /\ onlyReplace = TRUE /\ crashed = FALSE

AllFresh == \A u \in DOMAIN objs : objs[u].fresh
AllDecoded == \A u \in DOMAIN objs : ~objs[u].hasCells        \* a new process: everything in hand came from -ji
AllInHand == \A u \in DOMAIN objs : objs[u].hasCells

KnownAt(o, b, s) == \E i \in 1..Len(o.series), j \in 1..Len(o.benches) :
                      o.series[i] = s /\ o.benches[j] = b /\ Known(o.summ[i][j])

Add(t) ==
  /\ ~crashed /\ nrounds < MaxRounds /\ (AllFresh \/ AllowStale)
  /\ CmdShape => AllDecoded
  /\ t \notin bld
  /\ \A r \in allfed \cup bld : KeyOf(r) = KeyOf(t) => r = t            \* one trial per (u, b, e); re-feeding it whole is allowed
  /\ Cardinality(allfed \cup bld \cup {t}) <= MaxTrials
  /\ Cardinality(bld) < MaxPerRound
  /\ t \in allfed => Cardinality(bld \cap allfed) < MaxRefeed
  /\ bld' = bld \cup {t}
  /\ UNCHANGED <<objs, allfed, nrounds, onlyReplace, crashed>>

CombineInDomain ==
  \A t \in bld : t.u \in DOMAIN objs => ~(objs[t.u].fresh /\ KnownAt(objs[t.u], t.b, t.s))

ACS(policy) ==
  /\ ~crashed /\ nrounds < MaxRounds
  /\ AllFresh \/ AllowStale
  /\ CmdShape => AllDecoded
  /\ bld # {} \/ DOMAIN objs # {}
  /\ bld = {} => policy = "replace"                                        \* the policy is immaterial then
  /\ policy = "combine" => (CombineOverSummary \/ CombineInDomain)
  /\ LET r == ACSAll(objs, bld, policy, Sw)
     IN objs' = r.objs /\ crashed' = r.crashed
  /\ bld' = {} /\ allfed' = allfed \cup bld /\ nrounds' = nrounds + 1
  /\ onlyReplace' = (onlyReplace /\ policy = "replace")

AddSummaries(u) ==
  /\ ~crashed /\ bld = {} /\ u \in DOMAIN objs
  /\ IdemSum \/ ~objs[u].fresh \/ ~objs[u].hasCells
  /\ objs' = [objs EXCEPT ![u] = AddSum(@, Sw)]
  /\ UNCHANGED <<bld, allfed, nrounds, onlyReplace, crashed>>

Json ==
  /\ ~crashed /\ bld = {} /\ AllFresh
  /\ \E u \in DOMAIN objs : objs[u].hasCells
  /\ CmdShape => AllInHand
  /\ objs' = [u \in DOMAIN objs |-> Strip(objs[u])]
  /\ UNCHANGED <<bld, allfed, nrounds, onlyReplace, crashed>>

Next ==
  \/ \E t \in Trials : Add(t)
  \/ \E p \in Policies : ACS(p)
  \/ \E u \in Units : AddSummaries(u)
  \/ Json

Spec == Init /\ [][Next]_vars

Sym == Permutations(Units)

-----------------------------------------------------------------------------
\* Contract

FedOf(u) == {t \in allfed : t.u = u}
FedAt(u, b, s) == {t \in allfed : t.u = u /\ t.b = b /\ t.s = s}
FedPoints(u) == {<<t.b, t.s>> : t \in FedOf(u)}

Positions(o) == (1..Len(o.series)) \X (1..Len(o.benches))
PointsOf(o) == {[b |-> o.benches[x[2]], s |-> o.series[x[1]], date |-> o.summ[x[1]][x[2]].date,
                 present |-> o.summ[x[1]][x[2]].present, ids |-> o.summ[x[1]][x[2]].ids] :
                   x \in {y \in Positions(o) : Known(o.summ[y[1]][y[2]])}}

\* one batch run over the set S under DUPE_REPLACE (Series.tla's Expected, in this module's terms)
Winner(C) == CHOOSE t \in C : \A r \in C : r.e <= t.e
BatchPoints(S, u) ==
  {LET w == Winner({t \in S : t.u = u /\ t.b = p[1] /\ t.s = p[2]}) IN
   [b |-> p[1], s |-> p[2], date |-> w.e, present |-> w.den, ids |-> IF w.den THEN {w} ELSE {}] :
     p \in {<<t.b, t.s>> : t \in {x \in S : x.u = u}}}

IncEqualsBatch ==
  (AllFresh /\ onlyReplace /\ ~crashed) => \A u \in DOMAIN objs : PointsOf(objs[u]) = BatchPoints(allfed, u)

NothingForgotten ==
  (AllFresh /\ ~crashed) =>
    \A u \in DOMAIN objs : \A p \in FedPoints(u) :
      \E q \in PointsOf(objs[u]) : q.b = p[1] /\ q.s = p[2] /\ q.date = MaxOf({t.e : t \in FedAt(u, p[1], p[2])})

SummariesSound ==
  \A u \in DOMAIN objs : objs[u].fresh =>
    \A x \in Positions(objs[u]) :
      LET sm == objs[u].summ[x[1]][x[2]] IN
      /\ sm.present => /\ sm.ids # {} /\ sm.ids \subseteq FedAt(u, objs[u].benches[x[2]], objs[u].series[x[1]])
                       /\ \E t \in sm.ids : t.den
                       /\ sm.date = MaxOf({t.e : t \in sm.ids})
      /\ ~sm.present => sm.ids = {}

Persist(o) == [benches |-> o.benches, series |-> o.series, hp |-> o.hp, residues |-> o.residues, fresh |-> o.fresh,
               summ |-> [i \in 1..Len(o.summ) |-> [j \in 1..Len(o.summ[i]) |->
                           [present |-> o.summ[i][j].present, date |-> o.summ[i][j].date, ids |-> o.summ[i][j].ids]]]]
\* Had the objects in hand been encoded and decoded now, the next round (any policy,
\* the builder as it stands, then AddSummaries on every object) would end in the same
\* persistent content; and so would AddSummaries alone.  By induction over the rounds:
\* wherever JSON sits in a history, the persistent content is the same.
PersistAll(os) == [u \in DOMAIN os |-> Persist(os[u])]
SumAll(os) == [u \in DOMAIN os |-> AddSum(os[u], Sw)]
StripAll(os) == [u \in DOMAIN os |-> Strip(os[u])]
CanCombine == CombineOverSummary \/ CombineInDomain
JsonTransparent ==
  (AllFresh /\ ~crashed) =>
    /\ PersistAll(SumAll(StripAll(objs))) = PersistAll(objs)
    /\ \A p \in Policies : (p = "combine" => CanCombine) =>
         LET a == ACSAll(objs, bld, p, Sw)
             b == ACSAll(StripAll(objs), bld, p, Sw)
         IN (~a.crashed /\ ~b.crashed) => PersistAll(SumAll(a.objs)) = PersistAll(SumAll(b.objs))

Increasing(q) == \A i, j \in 1..Len(q) : i < j => q[i] < q[j]
ShapeOK ==
  \A u \in DOMAIN objs :
    /\ Increasing(objs[u].benches) /\ Increasing(objs[u].series)
    /\ objs[u].fresh => InShape(objs[u])
AxesOK ==
  \A u \in DOMAIN objs :
    /\ RangeOf(objs[u].benches) \subseteq {t.b : t \in FedOf(u)}
    /\ RangeOf(objs[u].series) \subseteq {t.s : t \in FedOf(u)}
    /\ objs[u].hasCells => \A sk \in DOMAIN objs[u].cells :
                              sk[1] \in RangeOf(objs[u].benches) /\ sk[2] \in RangeOf(objs[u].series)
UnitsOK == DOMAIN objs = {t.u : t \in allfed}
HashPairsOK ==
  \A u \in DOMAIN objs :
    /\ RangeOf(objs[u].series) \subseteq DOMAIN objs[u].hp
    /\ \A s \in DOMAIN objs[u].hp :
         /\ objs[u].hp[s].num = s
         /\ (objs[u].hp[s].den = "d") = (\E t \in FedOf(u) : t.s = s /\ t.den)
         /\ objs[u].hp[s].den \in {"", "d"}
ResiduesOK ==
  \A u \in DOMAIN objs :
    /\ objs[u].residues \subseteq {t.e : t \in FedOf(u)}
    /\ objs[u].fresh => \A x \in Positions(objs[u]) : {t.e : t \in objs[u].summ[x[1]][x[2]].ids} \subseteq objs[u].residues
NoCrash == ~crashed

\* the rendering of every summarised object (SeriesIncCsv.tla)
KindOf(sm) == IF ~sm.present THEN "u" ELSE IF ~sm.linked THEN "n" ELSE IF sm.boot THEN "b" ELSE "j"
KindsOf(o) == [i \in 1..Len(o.summ) |-> [j \in 1..Len(o.summ[i]) |-> KindOf(o.summ[i][j])]]
OptOfNo(n) == [dist |-> n % 4, heu |-> (n \div 8) % 2 = 1, ks |-> (n \div 16) % 2 = 1]
CsvAgrees ==
  \A u \in DOMAIN objs : (objs[u].fresh /\ ~crashed) =>
    \A n \in CsvOptNos :
      LET g == Grid(KindsOf(objs[u]), Len(objs[u].benches), OptOfNo(n)) IN
      /\ CodeGrid(KindsOf(objs[u]), Len(objs[u].benches), OptOfNo(n)) = g
      /\ WellFormed(g, KindsOf(objs[u]), Len(objs[u].benches), OptOfNo(n))

TypeOK ==
  /\ bld \subseteq Trials /\ allfed \subseteq Trials /\ nrounds \in 0..MaxRounds
  /\ DOMAIN objs \subseteq Units
  /\ \A u \in DOMAIN objs : objs[u].hasCells \/ objs[u].cells = <<>>
=============================================================================
