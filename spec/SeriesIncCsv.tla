------------------------------ MODULE SeriesIncCsv ------------------------------
(* The CSV rendering of one comparison series (golang.org/x/perf/benchseries/csv.go, *)
(* ComparisonSeries.ToCsvBootstrapped), as a function of what it renders:           *)
(*   nb, ns   lengths of the Benchmarks and Series axes                             *)
(*   K        the Summaries table by KIND, K[i][j] for series i and benchmark j:    *)
(*              "u"  no summary there (nil, or Present = false)                     *)
(*              "b"  defined, computed in this process (its bootstrap is at hand)   *)
(*              "j"  defined, read from JSON and adopted by AllComparisonSeries /   *)
(*                   AddSummaries (a comparison is linked, but it has no bootstrap) *)
(*              "n"  defined, read from JSON and never adopted (no comparison)      *)
(*   o        options: dist 0 plain / 1 delta / 2 lo,hi / 3 both bits (= neither    *)
(*            column, as the header does), heu, ks = the two change columns         *)
(*                                                                                  *)
(* Cells are abstract: <<code, bench index>>.  Numbers are not modelled; a code     *)
(* names WHICH number of WHICH summary stands there:                                *)
(*   "unit" "series"(row index in place of the bench index) "bench"                 *)
(*   "C" centre  "P" plus-or-minus  "L" low  "U" high of Summaries[i][j]            *)
(*   "H" interval-overlap change score between Summaries[i-1][j] and [i][j]         *)
(*   "K" Kolmogorov-Smirnov score between the two bootstraps of the same pair       *)
(*   "KB" the same pair, but at least one side has no bootstrap: no score exists    *)
(*        (the code prints nothing or a zero; both accepted)                        *)
(*   ""  empty cell;  "AH"/"AK" k  the k-th of the six row aggregates of the H / K   *)
(*   scores of the row; header texts stand for themselves.                          *)
(*                                                                                  *)
(* DECLARATIVE side (Grid): the table a reader of the header expects - one group of *)
(* GroupW(o) columns per benchmark in axis order, the same width in the header and  *)
(* in every row, empty where the summary is undefined, then the aggregate columns.  *)
(* OPERATIONAL side (CodeGrid): a transcription of csv.go's loop, including the     *)
(* `entries` slice that is allocated once, cleared per cell and re-sliced by the    *)
(* first defined cell.                                                              *)
(*                                                                                  *)
(* Kind "j" is itself a small mismatch with the documentation: the comment on       *)
(* ComparisonSummary says "if comparison is non-nil, then there is a bootstrap",    *)
(* yet AllComparisonSeries links every adopted summary to a new Comparison without  *)
(* ratios (also for summaries computed in the same process: their bootstrap is      *)
(* dropped).  The model follows the code here (nothing observable is promised about *)
(* a score that cannot be computed); it is recorded, not judged.                    *)
(*                                                                                  *)
(* Deviations of the code as shipped (FALSE = contract):                            *)
(*   EntriesLenCountsAggregates  headerAndEntries sizes `entries` with SIX slots    *)
(*        per change option (the width of the aggregate block) instead of one, so   *)
(*        every undefined cell rendered before the first defined cell of the table  *)
(*        is 5 or 10 columns too wide and the rest of that row is shifted.          *)
(*   KSovNilDeref  ToCsvBootstrapped calls KSov for every pair of vertically        *)
(*        adjacent defined summaries whatever the options; KSov dereferences        *)
(*        ComparisonSummary.comparison, which is nil for kind "n": the rendering of *)
(*        a series decoded from JSON panics.                                        *)
EXTENDS Integers, Sequences, FiniteSets

CONSTANTS EntriesLenCountsAggregates, KSovNilDeref

Kinds == {"u", "b", "j", "n"}
Def(k) == k # "u"
Options == [dist : 0..3, heu : BOOLEAN, ks : BOOLEAN]

B2N(b) == IF b THEN 1 ELSE 0
DistW(o) == IF o.dist = 1 THEN 1 ELSE IF o.dist = 2 THEN 2 ELSE 0
GroupW(o) == 1 + B2N(o.heu) + B2N(o.ks) + DistW(o)

Blank == <<"", 0>>
Rep(n, x) == [i \in 1..n |-> x]
Flat(ss) == LET f[i \in 0..Len(ss)] == IF i = 0 THEN <<>> ELSE f[i - 1] \o ss[i] IN f[Len(ss)]
Opt(b, s) == IF b THEN s ELSE <<>>

AggNames(w) == << <<w \o " .5", 0>>, <<w \o " .75", 0>>, <<w \o " .9", 0>>,
                  <<w \o " max", 0>>, <<w \o " avg", 0>>, <<w \o " rms", 0>> >>
Aggs(code) == [k \in 1..6 |-> <<code, k>>]

DistHdr(o) == IF o.dist = 1 THEN << <<"plusminus", 0>> >> ELSE IF o.dist = 2 THEN << <<"lo", 0>>, <<"hi", 0>> >> ELSE <<>>
DistCells(o, j) == IF o.dist = 1 THEN << <<"P", j>> >> ELSE IF o.dist = 2 THEN << <<"L", j>>, <<"U", j>> >> ELSE <<>>

-----------------------------------------------------------------------------
\* Declarative side

Header(nb, o) ==
  << <<"unit", 0>> >>
  \o Flat([j \in 1..nb |-> << <<"bench", j>> >> \o Opt(o.heu, << <<"change_heur", 0>> >>)
                            \o Opt(o.ks, << <<"change_ks", 0>> >>) \o DistHdr(o)])
  \o Opt(o.heu, AggNames("change_heur")) \o Opt(o.ks, AggNames("change_ks"))

HasPrev(K, i, j) == i > 1 /\ Def(K[i - 1][j])
KCode(K, i, j) == IF K[i - 1][j] = "b" /\ K[i][j] = "b" THEN "K" ELSE "KB"

Group(K, i, j, o) ==
  IF ~Def(K[i][j]) THEN Rep(GroupW(o), Blank)
  ELSE << <<"C", j>> >>
       \o Opt(o.heu, << IF HasPrev(K, i, j) THEN <<"H", j>> ELSE Blank >>)
       \o Opt(o.ks,  << IF HasPrev(K, i, j) THEN <<KCode(K, i, j), j>> ELSE Blank >>)
       \o DistCells(o, j)

Row(K, nb, i, o) ==
  << <<"series", i>> >> \o Flat([j \in 1..nb |-> Group(K, i, j, o)])
  \o Opt(o.heu, Aggs("AH")) \o Opt(o.ks, Aggs("AK"))

Grid(K, nb, o) == [panic |-> FALSE, hdr |-> Header(nb, o), rows |-> [i \in 1..Len(K) |-> Row(K, nb, i, o)]]

\* what "agrees cell by cell with Benchmarks x Series x Summaries" means for a grid
Width(nb, o) == 1 + nb * GroupW(o) + 6 * (B2N(o.heu) + B2N(o.ks))
ColOf(j, o) == 2 + (j - 1) * GroupW(o)          \* column of benchmark j's name / centre
WellFormed(g, K, nb, o) ==
  /\ ~g.panic
  /\ Len(g.hdr) = Width(nb, o)
  /\ Len(g.rows) = Len(K)
  /\ \A i \in 1..Len(K) :
       /\ Len(g.rows[i]) = Width(nb, o)                                   \* rectangular
       /\ g.rows[i][1] = <<"series", i>>
       /\ \A j \in 1..nb :
            /\ g.hdr[ColOf(j, o)] = <<"bench", j>>
            /\ g.rows[i][ColOf(j, o)] = (IF Def(K[i][j]) THEN <<"C", j>> ELSE Blank)   \* under its own name
            /\ ~Def(K[i][j]) => \A c \in ColOf(j, o)..(ColOf(j, o) + GroupW(o) - 1) : g.rows[i][c] = Blank

-----------------------------------------------------------------------------
\* Operational side: csv.go lines 31-103 and headerAndEntries

PanicGrid == [panic |-> TRUE, hdr |-> <<>>, rows |-> <<>>]

CodeGridSw(K, nb, o, wide, nilderef) ==
  LET ns   == Len(K)
      agg  == IF wide THEN 6 ELSE 1
      len0 == 1 + DistW(o) + (IF o.heu THEN agg ELSE 0) + (IF o.ks THEN agg ELSE 0)     \* entriesLen
      \* one cell: clear(entries); a defined summary re-slices entries to [:1] and appends
      Cell(st, i, j) ==
        IF st.panic THEN st
        ELSE IF ~Def(K[i][j]) THEN [st EXCEPT !.row = @ \o Rep(st.len, Blank)]
        ELSE IF nilderef /\ HasPrev(K, i, j) /\ (K[i - 1][j] = "n" \/ K[i][j] = "n")
        THEN [st EXCEPT !.panic = TRUE]
        ELSE LET e == << <<"C", j>> >>
                      \o Opt(o.heu, << IF HasPrev(K, i, j) THEN <<"H", j>> ELSE Blank >>)
                      \o Opt(o.ks,  << IF HasPrev(K, i, j) THEN <<KCode(K, i, j), j>> ELSE Blank >>)
                      \o DistCells(o, j)
             IN [st EXCEPT !.len = Len(e), !.row = @ \o e]
      \* linear index x = (i-1)*nb + j over the table; a row is closed after its last cell
      f[x \in 0..(ns * nb)] ==
        IF x = 0 THEN [len |-> len0, row |-> <<>>, rows |-> <<>>, panic |-> FALSE]
        ELSE LET i  == ((x - 1) \div nb) + 1
                 j  == ((x - 1) % nb) + 1
                 s0 == IF j = 1 THEN [f[x - 1] EXCEPT !.row = << <<"series", i>> >>] ELSE f[x - 1]
                 s1 == Cell(s0, i, j)
             IN IF j = nb
                THEN [s1 EXCEPT !.rows = Append(@, s1.row \o Opt(o.heu, Aggs("AH")) \o Opt(o.ks, Aggs("AK")))]
                ELSE s1
      fin == f[ns * nb]
      rows0 == [i \in 1..ns |-> << <<"series", i>> >> \o Opt(o.heu, Aggs("AH")) \o Opt(o.ks, Aggs("AK"))]
  IN IF nb = 0 THEN [panic |-> FALSE, hdr |-> Header(nb, o), rows |-> rows0]
     ELSE IF fin.panic THEN PanicGrid
     ELSE [panic |-> FALSE, hdr |-> Header(nb, o), rows |-> fin.rows]

CodeGrid(K, nb, o) == CodeGridSw(K, nb, o, EntriesLenCountsAggregates, KSovNilDeref)

=============================================================================
