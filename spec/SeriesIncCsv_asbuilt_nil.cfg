SPECIFICATION Spec
CONSTANTS
  NB = 2
  NS = 3
  EmitCases = FALSE
  EntriesLenCountsAggregates = FALSE
  KSovNilDeref = TRUE
INVARIANTS CsvAgrees GridWellFormed
CHECK_DEADLOCK FALSE
