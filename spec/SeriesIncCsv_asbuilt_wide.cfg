SPECIFICATION Spec
CONSTANTS
  NB = 2
  NS = 3
  EmitCases = FALSE
  EntriesLenCountsAggregates = TRUE
  KSovNilDeref = FALSE
INVARIANTS CsvAgrees GridWellFormed
CHECK_DEADLOCK FALSE
