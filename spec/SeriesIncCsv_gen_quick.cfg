SPECIFICATION Spec
CONSTANTS
  NB = 2
  NS = 3
  EmitCases = TRUE
  EntriesLenCountsAggregates = FALSE
  KSovNilDeref = FALSE
INVARIANTS Emit
CHECK_DEADLOCK FALSE
