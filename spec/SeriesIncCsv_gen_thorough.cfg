SPECIFICATION Spec
CONSTANTS
  NB = 3
  NS = 2
  EmitCases = TRUE
  EntriesLenCountsAggregates = FALSE
  KSovNilDeref = FALSE
INVARIANTS Emit
CHECK_DEADLOCK FALSE
