---------------------------- MODULE SeriesIncCsv_mc ----------------------------
(* Mode M / G for the CSV rendering: every Summaries table by kind up to NB x NS is  *)
(* built cell by cell (so that TLC explores the inputs in parallel); on every       *)
(* complete table and every option set the transcription of csv.go must produce the *)
(* declarative grid, and that grid must be well formed.                             *)
(* A table is either adopted (kinds u, b, j: it went through AllComparisonSeries /  *)
(* AddSummaries in this process) or raw (kinds u, n: decoded from JSON only).       *)
EXTENDS SeriesIncCsv, TLC, Json

CONSTANTS NB, NS, EmitCases

VARIABLES nb, ns, raw, cells
vars == <<nb, ns, raw, cells>>

Init == nb \in 0..NB /\ ns \in 0..NS /\ raw \in BOOLEAN /\ cells = <<>>

Put(k) ==
  /\ Len(cells) < nb * ns
  /\ k \in (IF raw THEN {"u", "n"} ELSE {"u", "b", "j"})
  /\ cells' = Append(cells, k)
  /\ UNCHANGED <<nb, ns, raw>>

Next == \E k \in Kinds : Put(k)
Spec == Init /\ [][Next]_vars

Complete == Len(cells) = nb * ns
Table == [i \in 1..ns |-> [j \in 1..nb |-> cells[(i - 1) * nb + j]]]

\* the code renders the table the contract describes
CsvAgrees == Complete => \A o \in Options : CodeGrid(Table, nb, o) = Grid(Table, nb, o)
\* and the contract is a table: rectangular, every summary under its benchmark's name
GridWellFormed == Complete => \A o \in Options : WellFormed(Grid(Table, nb, o), Table, nb, o)

\* Mode G: one case per table and option set: the declarative grid and, where they
\* differ from it, what the named deviations of the code would render instead.
OptNo(o) == o.dist + 8 * B2N(o.heu) + 16 * B2N(o.ks)              \* the CsvOptions bits
CaseOf(o) ==
  LET g  == Grid(Table, nb, o)
      aw == CodeGridSw(Table, nb, o, TRUE, FALSE)
      an == CodeGridSw(Table, nb, o, FALSE, TRUE)
      ab == CodeGridSw(Table, nb, o, TRUE, TRUE)
  IN [tag |-> "csv", nb |-> nb, ns |-> ns, raw |-> raw, kinds |-> cells, opt |-> OptNo(o),
      grid |-> g,
      alt |-> (IF aw # g THEN <<[dev |-> "wide", grid |-> aw]>> ELSE <<>>)
              \o (IF an # g THEN <<[dev |-> "nilderef", grid |-> an]>> ELSE <<>>)
              \o (IF ab # g /\ ab # aw /\ ab # an THEN <<[dev |-> "wide+nilderef", grid |-> ab]>> ELSE <<>>)]
Emit == (EmitCases /\ Complete) => \A o \in Options : PrintT(ToJson(CaseOf(o)))
=============================================================================
