SPECIFICATION Spec
CONSTANTS
  NB = 3
  NS = 3
  EmitCases = FALSE
  EntriesLenCountsAggregates = FALSE
  KSovNilDeref = FALSE
INVARIANTS CsvAgrees GridWellFormed
CHECK_DEADLOCK FALSE
