SPECIFICATION Spec
CONSTANTS
  Units = {u1, u2}
  NBench = 2
  NSer = 2
  NExp = 2
  MaxTrials = 3
  MaxRounds = 2
  MaxPerRound = 3
  MaxRefeed = 0
  IdemSum = TRUE
  CmdShape = FALSE
  Policies = {"replace", "combine"}
  CsvOptNos = {0, 26}
  NilCellsWipe = FALSE
  ForgetUndefined = FALSE
  CombineOverSummary = FALSE
  AllowStale = TRUE
  EntriesLenCountsAggregates = FALSE
  KSovNilDeref = FALSE
SYMMETRY Sym
INVARIANTS NoCrash NothingForgotten
CHECK_DEADLOCK FALSE
