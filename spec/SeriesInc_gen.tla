----------------------------- MODULE SeriesInc_gen -----------------------------
(* Generator wrapper (mode G) for SeriesInc.  A path variable `hist`, hidden from   *)
(* the VIEW, records the calls (add / acs / sum / json) with the observation the    *)
(* contract expects after each acs / sum / json.  Next to the contract's objects    *)
(* three more copies evolve under the same calls with the named deviations switched *)
(* on (wipe, forget, both); where their observation differs from the contract's it  *)
(* is printed as `alt`, so that the harness can tell a known deviation class from   *)
(* anything else: the observed value must be EXACTLY what the deviation predicts.   *)
(*                                                                                  *)
(* Exhaustive use (ACTION_CONSTRAINT EmitStep): one case per explored acs / sum /   *)
(* json transition = BFS-shortest history of the source state + that call, with the *)
(* expectation of the last call.  Simulation (INVARIANT EmitAtDepth): one case per  *)
(* behaviour of Depth calls with the expectation after every call.                  *)
EXTENDS SeriesInc, Json, SequencesExt

CONSTANTS Depth,     \* simulation: number of calls per behaviour
          EmitAll    \* exhaustive: TRUE every acs / sum / json transition, FALSE only those after which every object is summarised

VARIABLES hist, outs, altW, altF, altB
gvars == <<vars, hist, outs, altW, altF, altB>>

SwW == [wipe |-> TRUE,  forget |-> FALSE]
SwF == [wipe |-> FALSE, forget |-> TRUE]
SwB == [wipe |-> TRUE,  forget |-> TRUE]

\* ---- observation of a list of objects (what the harness can see through the API)
\* k = the summary's kind for the CSV rendering (SeriesIncCsv.tla); the driver joins the
\* expected grid of the object's kind table from SeriesIncCsv_mc's generator output
SumObs(sm) == [p |-> sm.present, d |-> sm.date, ids |-> SetToSeq(sm.ids), k |-> KindOf(sm)]
ObjObs(u, o, fed) ==
  [u |-> u, fresh |-> o.fresh, benches |-> o.benches, series |-> o.series,
   summ |-> IF o.fresh THEN [i \in 1..Len(o.summ) |-> [j \in 1..Len(o.summ[i]) |-> SumObs(o.summ[i][j])]] ELSE <<>>,
   hp |-> SetToSeq({[s |-> s, num |-> o.hp[s].num, den |-> o.hp[s].den] : s \in DOMAIN o.hp}),
   res |-> SetToSeq(o.residues),
   resHi |-> SetToSeq({t.e : t \in {x \in fed : x.u = u}})]
Obs(os, fed) == SetToSeq({ObjObs(u, os[u], fed) : u \in DOMAIN os})

\* the deviations' predictions, where they differ from the contract's
Alts(os, w, f, b, fed) ==
  LET x  == Obs(os, fed)
      xw == Obs(w, fed)
      xf == Obs(f, fed)
      xb == Obs(b, fed)
  IN (IF xw # x THEN <<[dev |-> "wipe", obs |-> xw]>> ELSE <<>>)
     \o (IF xf # x THEN <<[dev |-> "forget", obs |-> xf]>> ELSE <<>>)
     \o (IF xb # x /\ xb # xw /\ xb # xf THEN <<[dev |-> "wipe+forget", obs |-> xb]>> ELSE <<>>)

Out(os, pre, w, f, b, fed) ==
  [obs |-> Obs(os, fed),
   pre |-> pre,                                  \* json only: the objects just before encoding (what the CSV of that run shows)
   alt |-> Alts(os, w, f, b, fed)]
NoOut == [obs |-> <<>>, pre |-> <<>>, alt |-> <<>>]

StripAllSw(os) == [u \in DOMAIN os |-> Strip(os[u])]

GInit == Init /\ hist = <<>> /\ outs = <<>> /\ altW = <<>> /\ altF = <<>> /\ altB = <<>>

\* calls are printed as tuples: <<"add", u, b, e, s, den>>, <<"acs", policy>>, <<"sum", u>>, <<"json">>
GAdd(t) ==
  /\ Add(t)
  /\ hist' = Append(hist, <<"add", t.u, t.b, t.e, t.s, t.den>>)
  /\ outs' = Append(outs, NoOut)
  /\ UNCHANGED <<altW, altF, altB>>

GACS(p) ==
  /\ ACS(p)
  /\ altW' = ACSAll(altW, bld, p, SwW).objs
  /\ altF' = ACSAll(altF, bld, p, SwF).objs
  /\ altB' = ACSAll(altB, bld, p, SwB).objs
  /\ hist' = Append(hist, <<"acs", p>>)
  /\ outs' = Append(outs, Out(objs', <<>>, altW', altF', altB', allfed'))

GSum(u) ==
  /\ AddSummaries(u)
  /\ altW' = [altW EXCEPT ![u] = AddSum(@, SwW)]
  /\ altF' = [altF EXCEPT ![u] = AddSum(@, SwF)]
  /\ altB' = [altB EXCEPT ![u] = AddSum(@, SwB)]
  /\ hist' = Append(hist, <<"sum", u>>)
  /\ outs' = Append(outs, Out(objs', <<>>, altW', altF', altB', allfed))

GJson ==
  /\ Json
  /\ altW' = StripAllSw(altW) /\ altF' = StripAllSw(altF) /\ altB' = StripAllSw(altB)
  /\ hist' = Append(hist, <<"json">>)
  /\ outs' = Append(outs, Out(objs', Obs(objs, allfed), altW', altF', altB', allfed))

GNext ==
  \/ \E t \in Trials : GAdd(t)
  \/ \E p \in Policies : GACS(p)
  \/ \E u \in Units : GSum(u)
  \/ GJson

GSpec == GInit /\ [][GNext]_gvars

View == vars

\* exhaustive mode: every explored acs / sum / json transition, with the expectation of that call
EmitStep ==
  IF hist' # hist /\ hist'[Len(hist')][1] # "add" /\ (EmitAll \/ AllFresh')
  THEN PrintT(ToJson([tag |-> "case", path |-> hist', last |-> outs'[Len(outs')]]))
  ELSE TRUE

\* simulation mode: every behaviour, at its Depth-th call, with the expectation after every call
EmitAtDepth ==
  IF Len(hist) = Depth THEN PrintT(ToJson([tag |-> "case", path |-> hist, outs |-> outs])) ELSE TRUE
=============================================================================
