SPECIFICATION GSpec
CONSTANTS
  Units = {u1, u2}
  NBench = 2
  NSer = 2
  NExp = 2
  MaxTrials = 2
  MaxRounds = 3
  MaxPerRound = 2
  MaxRefeed = 1
  IdemSum = FALSE
  CmdShape = TRUE
  Policies = {"replace"}
  CsvOptNos = {0, 25, 26}
  NilCellsWipe = FALSE
  ForgetUndefined = FALSE
  CombineOverSummary = FALSE
  AllowStale = FALSE
  EntriesLenCountsAggregates = FALSE
  KSovNilDeref = FALSE
  EmitAll = TRUE
  Depth = 0
VIEW View
SYMMETRY Sym
ACTION_CONSTRAINT EmitStep
CHECK_DEADLOCK FALSE
