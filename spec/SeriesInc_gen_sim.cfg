SPECIFICATION GSpec
CONSTANTS
  Units = {"u1", "u2", "u3"}
  NBench = 3
  NSer = 3
  NExp = 4
  MaxTrials = 8
  MaxRounds = 4
  MaxPerRound = 3
  MaxRefeed = 1
  IdemSum = TRUE
  CmdShape = FALSE
  Policies = {"replace", "combine"}
  CsvOptNos = {0, 25, 26}
  NilCellsWipe = FALSE
  ForgetUndefined = FALSE
  CombineOverSummary = FALSE
  AllowStale = FALSE
  EntriesLenCountsAggregates = FALSE
  KSovNilDeref = FALSE
  EmitAll = TRUE
  Depth = 16
INVARIANTS EmitAtDepth
CHECK_DEADLOCK FALSE
