SPECIFICATION GSpec
CONSTANTS
  Units = {u1, u2}
  NBench = 2
  NSer = 2
  NExp = 2
  MaxTrials = 3
  MaxRounds = 2
  MaxPerRound = 2
  MaxRefeed = 0
  IdemSum = FALSE
  CmdShape = FALSE
  Policies = {"replace"}
  CsvOptNos = {0, 25, 26}
  NilCellsWipe = FALSE
  ForgetUndefined = FALSE
  CombineOverSummary = FALSE
  AllowStale = FALSE
  EntriesLenCountsAggregates = FALSE
  KSovNilDeref = FALSE
  EmitAll = FALSE
  Depth = 0
VIEW View
SYMMETRY Sym
ACTION_CONSTRAINT EmitStep
CHECK_DEADLOCK FALSE
