SPECIFICATION Spec
CONSTANTS
  Units = {u1, u2}
  NBench = 2
  NSer = 2
  NExp = 2
  MaxTrials = 3
  MaxRounds = 3
  MaxPerRound = 2
  MaxRefeed = 1
  IdemSum = TRUE
  CmdShape = FALSE
  Policies = {"replace", "combine"}
  CsvOptNos = {0, 26}
  NilCellsWipe = FALSE
  ForgetUndefined = FALSE
  CombineOverSummary = FALSE
  AllowStale = FALSE
  EntriesLenCountsAggregates = FALSE
  KSovNilDeref = FALSE
SYMMETRY Sym
INVARIANTS TypeOK IncEqualsBatch NothingForgotten SummariesSound JsonTransparent ShapeOK AxesOK UnitsOK HashPairsOK ResiduesOK NoCrash CsvAgrees
CHECK_DEADLOCK FALSE
