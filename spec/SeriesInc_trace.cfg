SPECIFICATION TSpec
CONSTANTS
  Units = {"u1", "u2", "u3", "u4"}
  NBench = 5
  NSer = 5
  NExp = 8
  MaxTrials = 1000
  MaxRounds = 1000
  MaxPerRound = 1000
  MaxRefeed = 1000
  IdemSum = TRUE
  CmdShape = FALSE
  Policies = {"replace", "combine"}
  CsvOptNos = {26}
  NilCellsWipe = FALSE
  ForgetUndefined = FALSE
  CombineOverSummary = FALSE
  AllowStale = FALSE
  EntriesLenCountsAggregates = FALSE
  KSovNilDeref = FALSE
INVARIANTS IncEqualsBatch NothingForgotten SummariesSound ShapeOK AxesOK UnitsOK HashPairsOK ResiduesOK NoCrash CsvAgrees
CONSTRAINT HW
POSTCONDITION Post
CHECK_DEADLOCK FALSE
