---------------------------- MODULE SeriesInc_trace ----------------------------
(* Trace validation (mode T) for SeriesInc: events recorded from the real code by  *)
(* a seeded random driver (harness/fam_seriesinc.go, record) - more units,          *)
(* benchmarks, series points, experiments and rounds than the exhaustive runs -     *)
(* are replayed through the specification's own operators.                          *)
(*                                                                                  *)
(*   reset            start of an independent history                               *)
(*   add  tr          Builder.Add of every result of trial tr                       *)
(*   acs  p  obs      AllComparisonSeries(objects in hand, p); obs = the projected  *)
(*                    result (units, axes, hash pairs, residues and, for objects    *)
(*                    whose Summaries table fits the axes, the table: present,      *)
(*                    date, and the trials whose samples reproduce the summary)     *)
(*   sum  u  obs      AddSummaries on the object of unit u; obs = all objects after *)
(*   json    obs      encode + decode of all objects                                *)
(*                                                                                  *)
(* An event is consumed only if the specification's operator, applied to the        *)
(* specification's state, yields objects whose projection is the logged one.  The   *)
(* invariants of SeriesInc (IncEqualsBatch, NothingForgotten, SummariesSound, ...)   *)
(* are checked on the states so reached.  A history with an event that cannot be   *)
(* consumed is rejected (TraceReject) and passed over; acceptance: every line read  *)
(* (high-water mark, POSTCONDITION) and no history rejected.                        *)
EXTENDS SeriesInc, Json, SequencesExt

TraceLog == ndJsonDeserialize("trace.ndjson")

VARIABLES l, skip
tvars == <<vars, l, skip>>

Ev == TraceLog[l]

TrialOf(x) == [u |-> x.u, b |-> x.b, e |-> x.e, s |-> x.s, den |-> x.den]
IdsOf(q) == {TrialOf(q[i]) : i \in 1..Len(q)}
SetOf(q) == {q[i] : i \in 1..Len(q)}

ObjMatches(x, o, fed) ==
  /\ x.benches = o.benches
  /\ x.series = o.series
  /\ {<<h.s, h.num, h.den>> : h \in SetOf(x.hp)} = {<<s, o.hp[s].num, o.hp[s].den>> : s \in DOMAIN o.hp}
  /\ Len(x.hp) = Cardinality(DOMAIN o.hp)
  /\ o.residues \subseteq SetOf(x.res)
  /\ SetOf(x.res) \subseteq {t.e : t \in {y \in fed : y.u = x.u}}
  /\ o.fresh =>
       /\ Len(x.summ) = Len(o.summ)
       /\ \A i \in 1..Len(o.summ) :
            /\ Len(x.summ[i]) = Len(o.summ[i])
            /\ \A j \in 1..Len(o.summ[i]) :
                 /\ x.summ[i][j].p = o.summ[i][j].present
                 /\ x.summ[i][j].d = o.summ[i][j].date
                 /\ IdsOf(x.summ[i][j].ids) = o.summ[i][j].ids

ObsMatches(q, os, fed) ==
  /\ Len(q) = Cardinality(DOMAIN os)
  /\ {q[i].u : i \in 1..Len(q)} = DOMAIN os
  /\ \A i \in 1..Len(q) : ObjMatches(q[i], os[q[i].u], fed)

\* `skip`: the current history was rejected at an earlier event; its remaining events are
\* passed over up to the next reset, so that ONE run reports every rejected history
\* (printed as "REJECT t=<history> l=<line>"); acceptance requires that none was.
TInit == Init /\ l = 1 /\ skip = FALSE

AcsResult == ACSAll(objs, bld, Ev.p, Sw)
OkACS == ~AcsResult.crashed /\ ObsMatches(Ev.obs, AcsResult.objs, allfed \cup bld)
SumResult == [objs EXCEPT ![Ev.u] = AddSum(@, Sw)]
OkSum == Ev.u \in DOMAIN objs /\ ObsMatches(Ev.obs, SumResult, allfed)
JsonResult == [u \in DOMAIN objs |-> Strip(objs[u])]
OkJson == ObsMatches(Ev.obs, JsonResult, allfed)

TraceReset ==
  /\ l <= Len(TraceLog) /\ Ev.ev = "reset"
  /\ bld' = {} /\ objs' = <<>> /\ allfed' = {} /\ nrounds' = 0 /\ onlyReplace' = TRUE /\ crashed' = FALSE
  /\ skip' = FALSE
  /\ l' = l + 1

TraceAdd ==
  /\ l <= Len(TraceLog) /\ ~skip /\ Ev.ev = "add"
  /\ bld' = bld \cup {TrialOf(Ev.tr)}
  /\ l' = l + 1
  /\ UNCHANGED <<objs, allfed, nrounds, onlyReplace, crashed, skip>>

TraceACS ==
  /\ l <= Len(TraceLog) /\ ~skip /\ Ev.ev = "acs"
  /\ OkACS
  /\ objs' = AcsResult.objs
  /\ bld' = {} /\ allfed' = allfed \cup bld
  /\ onlyReplace' = (onlyReplace /\ Ev.p = "replace")
  /\ l' = l + 1
  /\ UNCHANGED <<nrounds, crashed, skip>>

TraceSum ==
  /\ l <= Len(TraceLog) /\ ~skip /\ Ev.ev = "sum"
  /\ OkSum
  /\ objs' = SumResult
  /\ l' = l + 1
  /\ UNCHANGED <<bld, allfed, nrounds, onlyReplace, crashed, skip>>

TraceJson ==
  /\ l <= Len(TraceLog) /\ ~skip /\ Ev.ev = "json"
  /\ OkJson
  /\ objs' = JsonResult
  /\ l' = l + 1
  /\ UNCHANGED <<bld, allfed, nrounds, onlyReplace, crashed, skip>>

\* an event the specification cannot follow (or one it does not know): reject the history
TraceReject ==
  /\ l <= Len(TraceLog) /\ ~skip
  /\ \/ Ev.ev = "acs" /\ ~OkACS
     \/ Ev.ev = "sum" /\ ~OkSum
     \/ Ev.ev = "json" /\ ~OkJson
     \/ Ev.ev \notin {"reset", "add", "acs", "sum", "json"}
  /\ PrintT("REJECT t=" \o ToString(Ev.t) \o " l=" \o ToString(l))
  /\ TLCSet(2, TLCGet(2) + 1)
  /\ skip' = TRUE
  /\ bld' = {} /\ objs' = <<>> /\ allfed' = {} /\ nrounds' = 0 /\ onlyReplace' = TRUE /\ crashed' = FALSE
  /\ l' = l + 1

TraceSkip ==
  /\ l <= Len(TraceLog) /\ skip /\ Ev.ev # "reset"
  /\ l' = l + 1
  /\ UNCHANGED <<vars, skip>>

TNext == TraceReset \/ TraceAdd \/ TraceACS \/ TraceSum \/ TraceJson \/ TraceReject \/ TraceSkip
TSpec == TInit /\ [][TNext]_tvars

HW == IF l > TLCGet(1) THEN TLCSet(1, l) ELSE TRUE
Post == PrintT("TRACE hwm=" \o ToString(TLCGet(1) - 1) \o " len=" \o ToString(Len(TraceLog)) \o " rejected=" \o ToString(TLCGet(2)))
ASSUME TLCSet(1, 0) /\ TLCSet(2, 0)
=============================================================================
