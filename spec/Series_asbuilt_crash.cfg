SPECIFICATION Spec
CONSTANTS
  Units = {u1}
  Tables = {t1}
  Benches = {b1}
  NExp = 2
  NSer = 1
  MaxRecs = 3
  SharedBase = FALSE
  DenHashFirstVisited = FALSE
  CombineNilCrash = TRUE
SYMMETRY Sym
INVARIANTS OrderFree
CHECK_DEADLOCK FALSE
