------------------------------- MODULE Series_gen -------------------------------
(* Generator wrapper (mode G) for C18.  Explores the input SETS of Series.tla (one  *)
(* state per distinct `added`, VIEW) and prints one replay case per set: the        *)
(* results, and Expected(set, policy, table) for both duplicate policies and every  *)
(* table.  The harness adds the results to a real benchseries.Builder in every      *)
(* order (the orders TLC explores in Series.tla are all permutations of the set),   *)
(* calls AllComparisonSeries repeatedly and compares with this expectation.         *)
(* Measurements are referred to by their index in `recs`; stamps by their index in  *)
(* the tables printed once as the "meta" object.                                    *)
(* With -simulate the same wrapper prints random sets of exactly MaxRecs results    *)
(* (EmitOnlyFull = TRUE).                                                           *)
EXTENDS Series, Json, SequencesExt

CONSTANT EmitOnlyFull

GNext == \E r \in Universe : Add(r)
GSpec == Init /\ [][GNext]_vars
View == added

CaseJson ==
  LET recs == SetToSeq(added)
      Idx(r) == CHOOSE i \in 1..Len(recs) : recs[i] = r
      IdxSeq(S) == SetToSeq({Idx(r) : r \in S})
      Tab(pol, ut) ==
        LET x == Expected(added, pol, ut) IN
        [unit |-> ut[1], table |-> ut[2],
         benches |-> SetToSeq(x.benches),
         series |-> x.series,
         hp |-> SetToSeq({[s |-> s, num |-> x.hp[s].num, denOK |-> SetToSeq(x.hp[s].denOK)] : s \in DOMAIN x.hp}),
         points |-> SetToSeq({[b |-> p[1], s |-> p[2], num |-> IdxSeq(x.points[p].num),
                               den |-> IdxSeq(x.points[p].den), date |-> x.points[p].date] : p \in DOMAIN x.points})]
      Tabs(pol) == SetToSeq({Tab(pol, ut) : ut \in ExpectedTables(added)})
  IN [tag |-> "case", recs |-> recs, expect |-> [replace |-> Tabs("replace"), combine |-> Tabs("combine")]]

Emit ==
  IF added # {} /\ (~EmitOnlyFull \/ Cardinality(added) = MaxRecs)
  THEN PrintT(ToJson(CaseJson))
  ELSE TRUE

\* stamp tables, printed once
ASSUME PrintT(ToJson(
  [tag |-> "meta",
   exps |-> [e \in 1..3 |-> [raw |-> Raw(ExpStamp[e]), canon |-> ExpCanon[e]]],
   series |-> [s \in 1..3 |-> [raws |-> [i \in 1..Len(SerSpell[s]) |-> Raw(SerSpell[s][i])], canon |-> SerCanon[s]]]]))
=============================================================================
