SPECIFICATION GSpec
CONSTANTS
  Units = {"u1"}
  Tables = {"t1", "t2"}
  Benches = {"b1", "b2"}
  NExp = 2
  NSer = 2
  MaxRecs = 3
  SharedBase = FALSE
  DenHashFirstVisited = FALSE
  CombineNilCrash = FALSE
  EmitOnlyFull = FALSE
VIEW View
INVARIANTS Emit
CHECK_DEADLOCK FALSE
