SPECIFICATION GSpec
CONSTANTS
  Units = {"u1", "u2"}
  Tables = {"t1", "t2"}
  Benches = {"b1", "b2"}
  NExp = 3
  NSer = 3
  MaxRecs = 7
  SharedBase = TRUE
  DenHashFirstVisited = FALSE
  CombineNilCrash = FALSE
  EmitOnlyFull = TRUE
VIEW View
INVARIANTS Emit
CHECK_DEADLOCK FALSE
