SPECIFICATION GSpec
CONSTANTS
  Units = {"u1", "u2"}
  Tables = {"t1"}
  Benches = {"b1", "b2"}
  NExp = 2
  NSer = 2
  MaxRecs = 4
  SharedBase = FALSE
  DenHashFirstVisited = FALSE
  CombineNilCrash = FALSE
  EmitOnlyFull = FALSE
VIEW View
INVARIANTS Emit
CHECK_DEADLOCK FALSE
