SPECIFICATION GSpec
CONSTANTS
  Units = {"u1"}
  Tables = {"t1"}
  Benches = {"b1"}
  NExp = 3
  NSer = 3
  MaxRecs = 5
  SharedBase = FALSE
  DenHashFirstVisited = FALSE
  CombineNilCrash = FALSE
  EmitOnlyFull = FALSE
VIEW View
INVARIANTS Emit
CHECK_DEADLOCK FALSE
