SPECIFICATION Spec
CONSTANTS
  Units = {u1}
  Tables = {t1}
  Benches = {b1, b2}
  NExp = 2
  NSer = 2
  MaxRecs = 4
  SharedBase = TRUE
  DenHashFirstVisited = FALSE
  CombineNilCrash = FALSE
SYMMETRY Sym
INVARIANTS TypeOK TablesOK OrderFree HashPairsFunctional
CHECK_DEADLOCK FALSE
