SPECIFICATION Spec
CONSTANTS
  Units = {u1, u2}
  Tables = {t1}
  Benches = {b1, b2}
  NExp = 2
  NSer = 2
  MaxRecs = 5
  SharedBase = FALSE
  DenHashFirstVisited = FALSE
  CombineNilCrash = FALSE
SYMMETRY Sym
INVARIANTS TypeOK TablesOK OrderFree HashPairsFunctional
CHECK_DEADLOCK FALSE
