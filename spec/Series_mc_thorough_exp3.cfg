SPECIFICATION Spec
CONSTANTS
  Units = {u1}
  Tables = {t1}
  Benches = {b1, b2}
  NExp = 3
  NSer = 3
  MaxRecs = 5
  SharedBase = FALSE
  DenHashFirstVisited = FALSE
  CombineNilCrash = FALSE
SYMMETRY Sym
INVARIANTS TypeOK TablesOK OrderFree HashPairsFunctional
CHECK_DEADLOCK FALSE
