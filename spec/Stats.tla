---------------------------------- MODULE Stats ----------------------------------
(* Property C12, the part this technique can decide (DESIGN.md section 4, C12):     *)
(* descriptive statistics and t statistics of internal/stats on SMALL INTEGER       *)
(* SAMPLES, in exact rational arithmetic.                                           *)
(*                                                                                 *)
(* NOT modelled (TLA+/TLC has no reals): the Student-t / normal distribution        *)
(* functions, their inverses, the regularized incomplete beta function and its      *)
(* convergence.  Of the tail probabilities only the ALGEBRA is modelled: how the    *)
(* three alternative hypotheses select tails of an abstract distribution function   *)
(* F that is symmetric about 0 (kind "tail" below).                                 *)
(*                                                                                 *)
(* Function-style module: every input is a state, reached by appending one value    *)
(* at a time (so that TLC's workers share the exploration).  For every input the    *)
(* invariants compare                                                              *)
(*    the DECLARATIVE side  - the textbook definition (D...)                        *)
(*    the OPERATIONAL side  - what sample.go / ttest.go compute, transcribed        *)
(*                            statement by statement on exact rationals (O...).    *)
(*                                                                                 *)
(* Kinds of input                                                                   *)
(*   desc  xs        a sample (sequence over Vals, every order when AllOrders):      *)
(*                   Mean, Variance (n-1), Bounds, R8 Percentile at p = j/12,       *)
(*                   IQR, geometric mean of 2^xs, one-sample t-test against Mu0s    *)
(*   tt    xs, ys    two samples (multisets, written in nondecreasing order):       *)
(*                   Welch and pooled two-sample t-tests; paired test by position   *)
(*                   (mu0 = 0) or its length-mismatch error                         *)
(*   pd    xs        the multiset of paired differences x1[i] - x2[i] over DiffVals: *)
(*                   paired t-test against Mu0s                                     *)
(*   tail  <<s>>, c  sign s of t and c = F(|t|): tail selection                      *)
(*                                                                                 *)
(* A rational is a pair <<num, den>>, den > 0, in lowest terms.  t statistics are   *)
(* carried as t^2 (rational) and sign(t); degrees of freedom as a rational.         *)
(* TLC reports integer overflow as an error, so a clean run also shows that every   *)
(* intermediate stayed below 2^31.                                                  *)
EXTENDS Integers, Sequences, FiniteSets, TLC

CONSTANTS
  Kinds,      \* which kinds of input to explore
  Vals,       \* sample values
  MaxDesc,    \* desc: sequences of length 0..MaxDesc
  AllOrders,  \* desc: TRUE = every order; FALSE = nondecreasing sequences only (one per multiset)
  MaxT,       \* tt: both sizes 0..MaxT
  DiffVals,   \* pd: values of the differences (may be negative)
  MaxP,       \* pd: 0..MaxP differences
  Mu0s,       \* hypothesised means (rationals), one-sample and paired tests
  CGrid       \* tail: abstract values c = F(|t|), 1/2 <= c <= 1

\* values for the configuration files (cfg files cannot hold tuples or negative numbers)
ValsDefault  == 0..6
DiffQuick    == (-3)..3
DiffThorough == (-4)..4
Mu0Default   == {<<0,1>>, <<1,1>>, <<-1,2>>, <<5,2>>}
CDefault     == {<<1,2>>, <<5,8>>, <<3,4>>, <<19,20>>, <<999,1000>>, <<1,1>>}

-----------------------------------------------------------------------------
\* integers and rationals

Min2(a, b) == IF a <= b THEN a ELSE b
Max2(a, b) == IF a >= b THEN a ELSE b
Abs(a) == IF a < 0 THEN -a ELSE a
Sgn(a) == IF a < 0 THEN -1 ELSE IF a > 0 THEN 1 ELSE 0

RECURSIVE Gcd(_, _)
Gcd(a, b) == IF b = 0 THEN a ELSE Gcd(b, a % b)

RNorm(n, d) == LET s == IF d < 0 THEN -1 ELSE 1
                   g == Gcd(Abs(n), Abs(d)) IN
               IF n = 0 THEN <<0, 1>> ELSE <<(s * n) \div g, (s * d) \div g>>
RInt(k)     == <<k, 1>>
Zero        == <<0, 1>>
One         == <<1, 1>>
Half        == <<1, 2>>
Third       == <<1, 3>>
RNeg(x)     == <<-x[1], x[2]>>
RAdd(x, y)  == LET g == Gcd(x[2], y[2]) IN RNorm(x[1] * (y[2] \div g) + y[1] * (x[2] \div g), (x[2] \div g) * y[2])
RSub(x, y)  == RAdd(x, RNeg(y))
RMul(x, y)  == LET a == RNorm(x[1], y[2])  b == RNorm(y[1], x[2]) IN RNorm(a[1] * b[1], a[2] * b[2])
RInv(y)     == IF y[1] < 0 THEN <<-y[2], -y[1]>> ELSE <<y[2], y[1]>>                \* y # 0
RDiv(x, y)  == RMul(x, RInv(y))
RSq(x)      == <<x[1] * x[1], x[2] * x[2]>>
RSgn(x)     == Sgn(x[1])
RLe(x, y)   == RSgn(RSub(x, y)) <= 0
RLt(x, y)   == RSgn(RSub(x, y)) < 0
RMin(x, y)  == IF RLe(x, y) THEN x ELSE y
RFloor(x)   == x[1] \div x[2]                                  \* TLA+ \div rounds down

IsRat(x) == x \in Int \X Int /\ x[2] > 0 /\ Gcd(Abs(x[1]), x[2]) = 1

\* sequences
SumSeq(s) == LET f[i \in 0..Len(s)] == IF i = 0 THEN 0 ELSE f[i-1] + s[i] IN f[Len(s)]
SumSqSeq(s) == LET f[i \in 0..Len(s)] == IF i = 0 THEN 0 ELSE f[i-1] + s[i] * s[i] IN f[Len(s)]
ProdSeq(s) == LET f[i \in 0..Len(s)] == IF i = 0 THEN 1 ELSE f[i-1] * s[i] IN f[Len(s)]
Range(s) == {s[i] : i \in 1..Len(s)}
AllEqual(s) == \A i, j \in 1..Len(s) : s[i] = s[j]
Nondecreasing(s) == \A i \in 1..(Len(s) - 1) : s[i] <= s[i+1]
Pow2(e) == LET f[i \in 0..e] == IF i = 0 THEN 1 ELSE 2 * f[i-1] IN f[e]
DiffSeq(x, y) == [i \in 1..Len(x) |-> x[i] - y[i]]                 \* Len(x) = Len(y)

-----------------------------------------------------------------------------
\* DECLARATIVE SIDE: descriptive statistics by their definitions (s non-empty)

DMean(s) == RNorm(SumSeq(s), Len(s))

\* sum of the squared deviations from the mean
DSS(s) ==
  LET m == DMean(s)
      f[i \in 0..Len(s)] == IF i = 0 THEN Zero ELSE RAdd(f[i-1], RSq(RSub(RInt(s[i]), m)))
  IN f[Len(s)]

DVar(s) == RDiv(DSS(s), RInt(Len(s) - 1))                          \* Len(s) >= 2

DMin(s) == CHOOSE v \in Range(s) : \A w \in Range(s) : v <= w
DMax(s) == CHOOSE v \in Range(s) : \A w \in Range(s) : w <= v

\* k-th order statistic x_(k), 1 <= k <= n: the value v with #{x < v} < k <= #{x <= v}
OrderStat(s, k) ==
  CHOOSE v \in Range(s) :
    /\ Cardinality({i \in 1..Len(s) : s[i] < v}) < k
    /\ k <= Cardinality({i \in 1..Len(s) : s[i] <= v})

Clamp(k, n) == Max2(1, Min2(k, n))

\* all order statistics at once
OrderStats(s) == [k \in 1..Len(s) |-> OrderStat(s, k)] @@ <<>>

\* Hyndman and Fan (1996), definition 8, at p = j/12:
\*     m = (p + 1)/3,  jj = floor(N p + m),  g = N p + m - jj,
\*     Q(p) = (1 - g) x_(jj) + g x_(jj+1),   x_(k) = x_(1) for k < 1, x_(N) for k > N.
\* N p + m = (N + 1/3) p + 1/3 = ((3N + 1) j + 12) / 36.
\* os is the sequence of order statistics of the sample.
DPctOf(os, j) ==
  LET n   == Len(os)
      h36 == (3 * n + 1) * j + 12
      jj  == h36 \div 36
      g36 == h36 % 36
  IN RNorm((36 - g36) * os[Clamp(jj, n)] + g36 * os[Clamp(jj + 1, n)], 36)
DPct(s, j) == DPctOf(OrderStats(s), j)

DIQR(s) == RSub(DPct(s, 9), DPct(s, 3))

\* the usual median
DMedian(s) == LET n == Len(s) IN RNorm(OrderStat(s, (n + 1) \div 2) + OrderStat(s, n \div 2 + 1), 2)

\* geometric mean of the sample 2^s[1], ..., 2^s[n]: the g > 0 with g^n = 2^(s[1]+...+s[n]),
\* i.e. g = 2^e with e = (s[1]+...+s[n]) / n
DGeoExp(s) == RNorm(SumSeq(s), Len(s))

-----------------------------------------------------------------------------
\* OPERATIONAL SIDE: sample.go transcribed on exact rationals

\* Mean: m += (x - m) / (i+1)
OMean(s) ==
  LET f[i \in 0..Len(s)] ==
        IF i = 0 THEN Zero
        ELSE LET m == f[i-1] IN RAdd(m, RDiv(RSub(RInt(s[i]), m), RInt(i)))
  IN f[Len(s)]

\* Variance: Welford; 0 for fewer than two values
OVar(s) ==
  IF Len(s) <= 1 THEN Zero
  ELSE LET f[i \in 0..Len(s)] ==
             IF i = 0 THEN <<Zero, Zero>>                                  \* mean, M2
             ELSE LET p == f[i-1]
                      x == RInt(s[i])
                      delta == RSub(x, p[1])
                      mean == RAdd(p[1], RDiv(delta, RInt(i)))
                  IN <<mean, RAdd(p[2], RMul(delta, RSub(x, mean)))>>
       IN RDiv(f[Len(s)][2], RInt(Len(s) - 1))

\* GeoMean: exp of the incremental mean of the logarithms; for values 2^e the
\* logarithms are e * ln 2, so in units of ln 2 the accumulator is rational
OGeoExp(s) == OMean(s)

\* sort.Float64s, modelled as insertion sort
Insert(s, v) ==
  LET k == Cardinality({i \in 1..Len(s) : s[i] <= v})
  IN SubSeq(s, 1, k) \o <<v>> \o SubSeq(s, k + 1, Len(s))
OSort(s) == LET f[i \in 0..Len(s)] == IF i = 0 THEN <<>> ELSE Insert(f[i-1], s[i]) IN f[Len(s)]

\* Sample.Bounds: first and last value if Sorted, else one scan
OBounds(s, sorted) ==
  IF sorted THEN <<s[1], s[Len(s)]>>
  ELSE LET f[i \in 0..Len(s)] ==
             IF i = 0 THEN <<s[1], s[1]>>
             ELSE LET p == f[i-1] IN <<IF s[i] < p[1] THEN s[i] ELSE p[1], IF s[i] > p[2] THEN s[i] ELSE p[2]>>
       IN f[Len(s)]

\* Sample.Percentile(j/12), 0 < j < 12, once the sample is sorted
OPctCore(ss, j) ==
  LET N  == Len(ss)
      n  == RAdd(Third, RMul(RNorm(j, 12), RAdd(RInt(N), Third)))     \* 1/3.0 + pctile*(N+1/3.0)
      k  == RFloor(n)                                                 \* math.Modf
      frac == RSub(n, RInt(k))
  IN IF k <= 0 THEN RInt(ss[1])
     ELSE IF k >= N THEN RInt(ss[N])
     ELSE RAdd(RInt(ss[k]), RMul(frac, RInt(ss[k+1] - ss[k])))

\* Sample.Percentile(j/12): the ends come from Bounds, everything else from a sorted copy
OPct(s, sorted, j) ==
  IF j <= 0 THEN RInt(OBounds(s, sorted)[1])
  ELSE IF j >= 12 THEN RInt(OBounds(s, sorted)[2])
  ELSE OPctCore(IF sorted THEN s ELSE OSort(s), j)

\* Sample.IQR: sorts a copy if need be, then two Percentile calls
OIQR(s, sorted) ==
  LET ss == IF sorted THEN s ELSE OSort(s) IN RSub(OPct(ss, TRUE, 9), OPct(ss, TRUE, 3))

-----------------------------------------------------------------------------
\* t-tests.  A result is [t2, sgn, dof]; errors are "size", "zerovar", "mismatch"
\* (ErrSampleSize, ErrZeroVariance, ErrMismatchedSamples).

Res(t2, sgn, dof) == [t2 |-> t2, sgn |-> sgn, dof |-> dof]

\* ---- declarative: which inputs must be reported as errors.  The statement says
\* "undersized or zero-variance inputs" (and the documentation: mismatched lengths
\* for the paired test); an input that is several of these may be reported as any.
DOneErrs(s) ==
  (IF Len(s) < 2 THEN {"size"} ELSE {}) \cup (IF AllEqual(s) THEN {"zerovar"} ELSE {})

DWelchErrs(x, y) ==
  (IF Len(x) < 2 \/ Len(y) < 2 THEN {"size"} ELSE {}) \cup
  (IF AllEqual(x) /\ AllEqual(y) THEN {"zerovar"} ELSE {})

\* pooled variance needs n1 + n2 - 2 >= 1 degrees of freedom and both samples non-empty
DPooledErrs(x, y) ==
  (IF Len(x) = 0 \/ Len(y) = 0 \/ Len(x) + Len(y) < 3 THEN {"size"} ELSE {}) \cup
  (IF AllEqual(x) /\ AllEqual(y) THEN {"zerovar"} ELSE {})

\* With a single value on one side the pooled statistic exists (n1 + n2 - 2 >= 1), and the
\* code computes it; an implementation that regards such a sample as undersized is not
\* forbidden by the statement either.
DPooledMay(x, y) == IF Min2(Len(x), Len(y)) = 1 THEN {"size"} ELSE {}

DPairedErrs(x, y) ==
  (IF Len(x) # Len(y) THEN {"mismatch"} ELSE {}) \cup
  (IF Min2(Len(x), Len(y)) < 2 THEN {"size"} ELSE {}) \cup
  (IF Len(x) = Len(y) /\ AllEqual(DiffSeq(x, y)) THEN {"zerovar"} ELSE {})

\* A sample enters the formulas below only through its summary
\*    [n, mean, var, ss]   (ss = sum of squared deviations; var = 0 for n < 2).
\* DSum is the summary by the definitions, OSum the one Mean()/Variance() deliver.
DSum(s) == [n |-> Len(s), mean |-> IF Len(s) = 0 THEN Zero ELSE DMean(s),
            var |-> IF Len(s) < 2 THEN Zero ELSE DVar(s),
            ss |-> IF Len(s) = 0 THEN Zero ELSE DSS(s)]
OSum(s) == [n |-> Len(s), mean |-> IF Len(s) = 0 THEN Zero ELSE OMean(s), var |-> OVar(s)]

\* ---- declarative: the textbook statistics (only where the error set is empty)

\* one sample:  t = (mean - mu) / (s / sqrt n),  n - 1 degrees of freedom
DOneOf(a, mu) ==
  LET d == RSub(a.mean, mu)
  IN Res(RDiv(RSq(d), RDiv(a.var, RInt(a.n))), RSgn(d), RInt(a.n - 1))
DOne(s, mu) == DOneOf(DSum(s), mu)

\* paired: the one-sample test of the differences
DPaired(x, y, mu) == DOne(DiffSeq(x, y), mu)

\* Welch:  t = (m1 - m2) / sqrt(s1^2/n1 + s2^2/n2),
\* Welch-Satterthwaite:  nu = (s1^2/n1 + s2^2/n2)^2 / ( (s1^2/n1)^2/(n1-1) + (s2^2/n2)^2/(n2-1) )
DWelchOf(a, b) ==
  LET a1 == RDiv(a.var, RInt(a.n))
      a2 == RDiv(b.var, RInt(b.n))
      se2 == RAdd(a1, a2)
      d  == RSub(a.mean, b.mean)
  IN Res(RDiv(RSq(d), se2), RSgn(d),
         RDiv(RSq(se2), RAdd(RDiv(RSq(a1), RInt(a.n - 1)), RDiv(RSq(a2), RInt(b.n - 1)))))
DWelch(x, y) == DWelchOf(DSum(x), DSum(y))

\* the same degrees of freedom from the integer sums alone (cross-check of DWelch):
\* with A = n sum(x^2) - (sum x)^2 and c = n^2 (n-1),  s^2/n = A/c
WelchDofInt(x, y) ==
  LET n1 == Len(x)  n2 == Len(y)
      A1 == n1 * SumSqSeq(x) - SumSeq(x) * SumSeq(x)
      A2 == n2 * SumSqSeq(y) - SumSeq(y) * SumSeq(y)
      c1 == n1 * n1 * (n1 - 1)
      c2 == n2 * n2 * (n2 - 1)
      g  == Gcd(c1, c2)
      u0 == A1 * (c2 \div g)
      w0 == A2 * (c1 \div g)
      g2 == Gcd(u0, w0)
      u  == u0 \div g2
      w  == w0 \div g2
  IN RNorm((u + w) * (u + w) * (n1 - 1) * (n2 - 1), u * u * (n2 - 1) + w * w * (n1 - 1))

\* pooled (Student):  sp^2 = (SS1 + SS2) / (n1 + n2 - 2),  t = (m1 - m2) / (sp sqrt(1/n1 + 1/n2))
DPooledOf(a, b) ==
  LET sp2 == RDiv(RAdd(a.ss, b.ss), RInt(a.n + b.n - 2))
      d  == RSub(a.mean, b.mean)
  IN Res(RDiv(RSq(d), RMul(sp2, RAdd(RNorm(1, a.n), RNorm(1, b.n)))), RSgn(d), RInt(a.n + b.n - 2))
DPooled(x, y) == DPooledOf(DSum(x), DSum(y))

\* ---- operational: ttest.go.  O...Err is the first error the if-chain returns, "none" if it
\* goes on to compute.  a, b are OSum summaries (Weight(), Mean(), Variance()).

OOneErrOf(a) == IF a.n = 0 THEN "size" ELSE IF a.var = Zero THEN "zerovar" ELSE "none"
OOneErr(s) == OOneErrOf(OSum(s))

\* t := (x.Mean() - mu0) * math.Sqrt(n) / math.Sqrt(v);  dof := n - 1
OOneOf(a, mu) ==
  LET d == RSub(a.mean, mu)
  IN Res(RDiv(RMul(RSq(d), RInt(a.n)), a.var), RSgn(d), RInt(a.n - 1))
OOne(s, mu) == OOneOf(OSum(s), mu)

OPairedErr(x, y) ==
  IF Len(x) # Len(y) THEN "mismatch"
  ELSE IF Len(x) <= 1 THEN "size"
  ELSE IF OVar(DiffSeq(x, y)) = Zero THEN "zerovar"                 \* sd == 0
  ELSE "none"

\* t := (Mean(diff) - mu0) * math.Sqrt(float64(len(x1))) / sd;  dof := len(x1) - 1
\* (sd = StdDev(diff) = sqrt(Variance(diff)): the same expression as the one-sample test)
OPaired(x, y, mu) == OOneOf(OSum(DiffSeq(x, y)), mu)

OWelchErrOf(a, b) ==
  IF a.n <= 1 \/ b.n <= 1 THEN "size"
  ELSE IF a.var = Zero /\ b.var = Zero THEN "zerovar"
  ELSE "none"
OWelchErr(x, y) == OWelchErrOf(OSum(x), OSum(y))

\* dof := math.Pow(v1/n1+v2/n2, 2) / (math.Pow(v1/n1, 2)/(n1-1) + math.Pow(v2/n2, 2)/(n2-1))
\* s := math.Sqrt(v1/n1 + v2/n2);  t := (x1.Mean() - x2.Mean()) / s
OWelchOf(a, b) ==
  LET n1 == RInt(a.n)  n2 == RInt(b.n)
      q1 == RDiv(a.var, n1)  q2 == RDiv(b.var, n2)
      dof == RDiv(RSq(RAdd(q1, q2)),
                  RAdd(RDiv(RSq(q1), RSub(n1, One)), RDiv(RSq(q2), RSub(n2, One))))
      d == RSub(a.mean, b.mean)
  IN Res(RDiv(RSq(d), RAdd(q1, q2)), RSgn(d), dof)
OWelch(x, y) == OWelchOf(OSum(x), OSum(y))

OPooledErrOf(a, b) ==
  IF a.n = 0 \/ b.n = 0 THEN "size"
  ELSE IF a.var = Zero /\ b.var = Zero THEN "zerovar"
  ELSE "none"
OPooledErr(x, y) == OPooledErrOf(OSum(x), OSum(y))

\* dof := n1 + n2 - 2;  v12 := ((n1-1)*v1 + (n2-1)*v2) / dof
\* t := (x1.Mean() - x2.Mean()) / math.Sqrt(v12*(1/n1+1/n2))
OPooledOf(a, b) ==
  LET n1 == RInt(a.n)  n2 == RInt(b.n)
      dof == RSub(RAdd(n1, n2), RInt(2))
      v12 == RDiv(RAdd(RMul(RSub(n1, One), a.var), RMul(RSub(n2, One), b.var)), dof)
      d == RSub(a.mean, b.mean)
  IN Res(RDiv(RSq(d), RMul(v12, RAdd(RInv(n1), RInv(n2)))), RSgn(d), dof)
OPooled(x, y) == OPooledOf(OSum(x), OSum(y))

\* the error table: an input that must be reported is reported with one of its
\* admissible errors, every other input is computed
ErrOK(declErrs, opErr) == IF declErrs = {} THEN opErr = "none" ELSE opErr \in declErrs
\* ... with errors that are permitted but not required
ErrOKMay(declErrs, may, opErr) ==
  IF declErrs = {} THEN opErr \in {"none"} \cup may ELSE opErr \in declErrs \cup may

-----------------------------------------------------------------------------
\* tail selection (newTTestResult + TDist.CDF's reflection), on an abstract
\* distribution function: c stands for F(|t|), s for sign(t)

\* TDist.CDF(x): 0.5 at 0; the beta-function branch for x > 0; 1 - CDF(-x) for x < 0
OCdf(s, c) == IF s = 0 THEN Half ELSE IF s > 0 THEN c ELSE RSub(One, c)

\* LocationDiffers: 2*(1 - CDF(|t|));  LocationLess: CDF(t);  LocationGreater: 1 - CDF(t)
OTail(alt, s, c) ==
  CASE alt = "two"     -> RMul(RInt(2), RSub(One, OCdf(Abs(s), c)))
    [] alt = "less"    -> OCdf(s, c)
    [] alt = "greater" -> RSub(One, OCdf(s, c))

\* textbook: F symmetric about 0, F(-x) = 1 - F(x), F(0) = 1/2; upper(x) = 1 - F(x);
\* less = F(t), greater = upper(t), two-sided = twice the upper tail of |t|
DF(s, c)     == IF s >= 0 THEN c ELSE RSub(One, c)
DUpper(s, c) == RSub(One, DF(s, c))
DTail(alt, s, c) ==
  CASE alt = "two"     -> RMul(RInt(2), DUpper(Abs(s), c))
    [] alt = "less"    -> DF(s, c)
    [] alt = "greater" -> DUpper(s, c)

\* which one-sided value is the smaller one, as a function of sign(t) (for the harness)
SmallerTail(s, c) ==
  LET l == DTail("less", s, c)  g == DTail("greater", s, c)
  IN IF RLt(l, g) THEN "less" ELSE IF RLt(g, l) THEN "greater" ELSE "both"

-----------------------------------------------------------------------------
\* STATE MACHINE: inputs grow one value at a time

VARIABLES kind, xs, ys
vars == <<kind, xs, ys>>

TailInputs == {<<0, Half>>} \cup {<<s, c>> : s \in {-1, 1}, c \in CGrid \ {Half}}

Init ==
  \/ /\ kind \in Kinds \ {"tail"} /\ xs = <<>> /\ ys = <<>>
  \/ /\ "tail" \in Kinds /\ kind = "tail"
     /\ \E ti \in TailInputs : xs = <<ti[1]>> /\ ys = ti[2]

Last(s) == s[Len(s)]

GrowDesc ==
  /\ kind = "desc" /\ Len(xs) < MaxDesc
  /\ \E v \in Vals : /\ (IF AllOrders \/ xs = <<>> THEN TRUE ELSE v >= Last(xs))
                     /\ xs' = Append(xs, v)
  /\ UNCHANGED <<kind, ys>>

\* the first sample grows while the second is empty, then the second grows:
\* every pair of multisets is reached exactly once
GrowTT ==
  /\ kind = "tt"
  /\ \/ /\ ys = <<>> /\ Len(xs) < MaxT
        /\ \E v \in Vals : (IF xs = <<>> THEN TRUE ELSE v >= Last(xs)) /\ xs' = Append(xs, v)
        /\ UNCHANGED <<kind, ys>>
     \/ /\ Len(ys) < MaxT
        /\ \E v \in Vals : (IF ys = <<>> THEN TRUE ELSE v >= Last(ys)) /\ ys' = Append(ys, v)
        /\ UNCHANGED <<kind, xs>>

GrowPD ==
  /\ kind = "pd" /\ Len(xs) < MaxP
  /\ \E v \in DiffVals : (IF xs = <<>> THEN TRUE ELSE v >= Last(xs)) /\ xs' = Append(xs, v)
  /\ UNCHANGED <<kind, ys>>

Next == GrowDesc \/ GrowTT \/ GrowPD

Spec == Init /\ [][Next]_vars

-----------------------------------------------------------------------------
\* PROPERTIES

TypeOK ==
  /\ kind \in Kinds
  /\ kind = "desc" => xs \in Seq(Vals) /\ Len(xs) <= MaxDesc /\ ys = <<>>
  /\ kind = "tt"   => xs \in Seq(Vals) /\ ys \in Seq(Vals) /\ Nondecreasing(xs) /\ Nondecreasing(ys)
  /\ kind = "pd"   => xs \in Seq(DiffVals) /\ Nondecreasing(xs) /\ ys = <<>>
  /\ kind = "tail" => <<xs[1], ys>> \in TailInputs

Desc1 == kind = "desc" /\ Len(xs) >= 1
\* Percentiles and the one-sample test are checked on the nondecreasing representative of
\* every multiset.  This covers every order: Percentile and IQR read an unsorted sample only
\* through Bounds (BoundsOK, every order) and through a sorted copy (SortOK, every order:
\* the copy is the sequence of order statistics, i.e. the nondecreasing representative);
\* the t-tests read a sample only through Mean and Variance (MeanOK, VarOK, every order).
DescSorted == Desc1 /\ Nondecreasing(xs)
Grid == 0..12

\* ---- descriptive statistics, every order
MeanOK == Desc1 => OMean(xs) = DMean(xs) /\ IsRat(DMean(xs))

VarOK ==
  (Desc1 /\ Len(xs) >= 2) =>
     \A v \in {DVar(xs)} :
        /\ OVar(xs) = v
        /\ RSgn(v) >= 0 /\ (RSgn(v) = 0 <=> AllEqual(xs))
        \* the sums form: s^2 = (n sum x^2 - (sum x)^2) / (n (n-1))
        /\ v = RNorm(Len(xs) * SumSqSeq(xs) - SumSeq(xs) * SumSeq(xs), Len(xs) * (Len(xs) - 1))

BoundsOK == Desc1 => OBounds(xs, FALSE) = <<DMin(xs), DMax(xs)>>

\* sorting yields the order statistics; a sorted sample is left alone, and there
\* Bounds may take the first and the last value
SortOK ==
  Desc1 => \A ss \in {OSort(xs)} :
             /\ Nondecreasing(ss) /\ ss = OrderStats(xs)
             /\ Nondecreasing(xs) => ss = xs /\ OBounds(xs, TRUE) = <<DMin(xs), DMax(xs)>>

GeoOK ==
  Desc1 => /\ OGeoExp(xs) = DGeoExp(xs)
           \* 2^(sum of exponents) is the product of the values
           /\ SumSeq(xs) <= 30 => Pow2(SumSeq(xs)) = ProdSeq([i \in 1..Len(xs) |-> Pow2(xs[i])])

\* ---- percentiles (nondecreasing representative; xs = OSort(xs) = OrderStats(xs) by SortOK)
DPctTable(s) == [j \in Grid |-> DPct(s, j)] @@ <<>>

\* declarative = operational, with and without the Sorted mark
PctOK ==
  DescSorted => \A dp \in {DPctTable(xs)} : \A j \in Grid :
                  /\ OPct(xs, FALSE, j) = dp[j]
                  /\ OPct(xs, TRUE, j) = dp[j]

PctMonotoneBounded ==
  DescSorted => \A dp \in {DPctTable(xs)} :
     /\ \A j \in 0..11 : RLe(dp[j], dp[j + 1])
     /\ \A j \in Grid : RLe(RInt(DMin(xs)), dp[j]) /\ RLe(dp[j], RInt(DMax(xs)))
     /\ dp[0] = RInt(DMin(xs)) /\ dp[12] = RInt(DMax(xs))
     /\ dp[6] = DMedian(xs)

IQROK ==
  DescSorted => /\ OIQR(xs, FALSE) = DIQR(xs) /\ OIQR(xs, TRUE) = DIQR(xs)
                /\ RSgn(DIQR(xs)) >= 0

\* ---- one-sample t-test
OneOK ==
  (kind = "desc" /\ Nondecreasing(xs)) =>
     \A a \in {DSum(xs)} : \A b \in {OSum(xs)} :
        /\ ErrOK(DOneErrs(xs), OOneErrOf(b))
        /\ DOneErrs(xs) = {} => \A mu \in Mu0s : \A r \in {DOneOf(a, mu)} :
                                   /\ OOneOf(b, mu) = r
                                   /\ RSgn(r.t2) >= 0 /\ (RSgn(r.t2) = 0 <=> r.sgn = 0)

\* ---- two-sample tests
WelchOKw(x, y, a1, a2, b1, b2) ==
     /\ ErrOK(DWelchErrs(x, y), OWelchErrOf(b1, b2))
     /\ DWelchErrs(x, y) = {} =>
          \A r \in {DWelchOf(a1, a2)} :
             /\ OWelchOf(b1, b2) = r
             /\ r.dof = WelchDofInt(x, y)
             \* min(n1, n2) - 1 <= nu <= n1 + n2 - 2
             /\ RLe(RInt(Min2(Len(x), Len(y)) - 1), r.dof) /\ RLe(r.dof, RInt(Len(x) + Len(y) - 2))
             /\ RSgn(r.t2) >= 0 /\ (RSgn(r.t2) = 0 <=> r.sgn = 0)
             \* swapping the samples flips the sign and nothing else
             /\ DWelchOf(a2, a1) = Res(r.t2, -r.sgn, r.dof)

PooledOKw(x, y, a1, a2, b1, b2) ==
     /\ ErrOKMay(DPooledErrs(x, y), DPooledMay(x, y), OPooledErrOf(b1, b2))
     /\ DPooledErrs(x, y) = {} =>
          \A r \in {DPooledOf(a1, a2)} :
             /\ OPooledErrOf(b1, b2) = "none" => OPooledOf(b1, b2) = r
             /\ RSgn(r.t2) >= 0 /\ (RSgn(r.t2) = 0 <=> r.sgn = 0)
             /\ DPooledOf(a2, a1) = Res(r.t2, -r.sgn, r.dof)
             \* equal sizes: Welch and pooled statistics coincide
             /\ (Len(x) = Len(y) /\ DWelchErrs(x, y) = {}) => DWelchOf(a1, a2).t2 = r.t2

WelchOK ==
  kind = "tt" => WelchOKw(xs, ys, DSum(xs), DSum(ys), OSum(xs), OSum(ys))
PooledOK ==
  kind = "tt" => PooledOKw(xs, ys, DSum(xs), DSum(ys), OSum(xs), OSum(ys))

SwapErrsOK ==
  kind = "tt" => /\ DWelchErrs(xs, ys) = DWelchErrs(ys, xs)
                 /\ DPooledErrs(xs, ys) = DPooledErrs(ys, xs)
                 /\ DPairedErrs(xs, ys) = DPairedErrs(ys, xs)

PairedByPositionOK ==
  kind = "tt" =>
     /\ ErrOK(DPairedErrs(xs, ys), OPairedErr(xs, ys))
     /\ DPairedErrs(xs, ys) = {} => OPaired(xs, ys, Zero) = DPaired(xs, ys, Zero)

\* the summaries are computed once for the four two-sample properties
TwoSampleOK ==
  kind = "tt" =>
     \A a1 \in {DSum(xs)} : \A a2 \in {DSum(ys)} : \A b1 \in {OSum(xs)} : \A b2 \in {OSum(ys)} :
        /\ b1.mean = a1.mean /\ b1.var = a1.var /\ b2.mean = a2.mean /\ b2.var = a2.var
        /\ WelchOKw(xs, ys, a1, a2, b1, b2)
        /\ PooledOKw(xs, ys, a1, a2, b1, b2)

\* ---- paired test on a multiset of differences: x1 = differences, x2 = zeros
ZerosLike(s) == [i \in 1..Len(s) |-> 0]
PairedOK ==
  kind = "pd" =>
     \A zs \in {ZerosLike(xs)} :
        /\ ErrOK(DPairedErrs(xs, zs), OPairedErr(xs, zs))
        /\ DPairedErrs(xs, zs) = {} =>
             \A a \in {DSum(xs)} : \A b \in {OSum(xs)} : \A mu \in Mu0s : \A r \in {DOneOf(a, mu)} :
                /\ DPaired(xs, zs, mu) = r
                /\ OOneOf(b, mu) = r /\ OPaired(xs, zs, mu) = r
                /\ r.dof = RInt(Len(xs) - 1)
                /\ RSgn(r.t2) >= 0 /\ (RSgn(r.t2) = 0 <=> r.sgn = 0)

\* ---- tail algebra
Alts == {"less", "two", "greater"}
TailOK ==
  kind = "tail" =>
     LET s == xs[1]  c == ys
         l == OTail("less", s, c)  g == OTail("greater", s, c)  t == OTail("two", s, c)
     IN /\ \A a \in Alts : OTail(a, s, c) = DTail(a, s, c)
        /\ RAdd(l, g) = One                                   \* less + greater = 1
        /\ t = RMul(RInt(2), RMin(l, g))                      \* two = 2 min(less, greater)
        /\ t = RMul(RInt(2), DUpper(Abs(s), c))               \* two = 2 upper(|t|)
        /\ RLe(Zero, t) /\ RLe(t, One)
        /\ (s > 0 => RLt(g, l)) /\ (s < 0 => RLt(l, g)) /\ (s = 0 => l = g)

\* which tail is the smaller one depends on the sign alone
TailSignTable ==
  kind = "tail" =>
     \A ti \in TailInputs : ti[1] = xs[1] => SmallerTail(ti[1], ti[2]) = SmallerTail(xs[1], ys)

=============================================================================
