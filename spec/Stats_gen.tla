------------------------------- MODULE Stats_gen -------------------------------
(* Generator wrapper (mode G) of Stats: the same exploration, one JSON replay case  *)
(* per input.  Every EXPECTED value is taken from the declarative side of Stats     *)
(* (D... operators: the definitions), never from the operational transcription.     *)
(*   desc  one case per multiset (AllOrders = FALSE: the nondecreasing               *)
(*         representative); the harness runs every distinct order of it             *)
(*   tt    one case per pair of multisets                                           *)
(*   pd    one case per multiset of paired differences                              *)
(*   tail  one table: which one-sided p-value is the smaller one, by sign(t)         *)
(* Rationals travel as [num, den].                                                  *)
EXTENDS Stats, Json, SequencesExt

ErrSeq(S) == SelectSeq(<<"mismatch", "size", "zerovar">>, LAMBDA e : e \in S)
Mu0Seq == SetToSeq(Mu0s)
NoRes == Res(Zero, 0, Zero)

\* errs: the input must be reported with one of these; may: it may be (otherwise the result)
TRec(errs, may, r) == [errs |-> ErrSeq(errs), may |-> ErrSeq(may), t2 |-> r.t2, sgn |-> r.sgn, dof |-> r.dof]
MuRec(mu, r) == [mu |-> mu, t2 |-> r.t2, sgn |-> r.sgn, dof |-> r.dof]

DescCase ==
  IF Len(xs) = 0
  THEN [tag |-> "case", kind |-> "desc", xs |-> xs, oneerrs |-> ErrSeq(DOneErrs(xs))]
  ELSE
  LET a == DSum(xs)
      pos == \A i \in 1..Len(xs) : xs[i] > 0
  IN [tag |-> "case", kind |-> "desc", xs |-> xs,
      mean |-> a.mean, hasvar |-> Len(xs) >= 2, var |-> a.var,
      min |-> DMin(xs), max |-> DMax(xs),
      pct |-> [i \in 1..13 |-> DPct(xs, i - 1)], iqr |-> DIQR(xs), median |-> DMedian(xs),
      gexp |-> DGeoExp(xs), pos |-> pos, prod |-> IF pos THEN ProdSeq(xs) ELSE 0,
      oneerrs |-> ErrSeq(DOneErrs(xs)),
      one |-> IF DOneErrs(xs) = {} THEN [i \in 1..Len(Mu0Seq) |-> MuRec(Mu0Seq[i], DOneOf(a, Mu0Seq[i]))] ELSE <<>>]

TTCase ==
  LET a1 == DSum(xs)  a2 == DSum(ys)
      we == DWelchErrs(xs, ys)  pe == DPooledErrs(xs, ys)  de == DPairedErrs(xs, ys)
  IN [tag |-> "case", kind |-> "tt", xs |-> xs, ys |-> ys,
      welch  |-> TRec(we, {}, IF we = {} THEN DWelchOf(a1, a2) ELSE NoRes),
      pooled |-> TRec(pe, DPooledMay(xs, ys), IF pe = {} THEN DPooledOf(a1, a2) ELSE NoRes),
      paired |-> TRec(de, {}, IF de = {} THEN DPaired(xs, ys, Zero) ELSE NoRes)]

PDCase ==
  LET zs == ZerosLike(xs)
      de == DPairedErrs(xs, zs)
      a  == DSum(xs)
  IN [tag |-> "case", kind |-> "pd", ds |-> xs, errs |-> ErrSeq(de),
      tests |-> IF de = {} THEN [i \in 1..Len(Mu0Seq) |-> MuRec(Mu0Seq[i], DOneOf(a, Mu0Seq[i]))] ELSE <<>>]

Emit ==
  CASE kind = "desc" -> PrintT(ToJson(DescCase))
    [] kind = "tt"   -> PrintT(ToJson(TTCase))
    [] kind = "pd"   -> PrintT(ToJson(PDCase))
    [] OTHER -> TRUE

\* the tail table (TailSignTable in Stats shows that the entry depends on the sign alone)
TailRow(s) == [sgn |-> s, smaller |-> SmallerTail(s, IF s = 0 THEN Half ELSE <<3, 4>>)]
ASSUME PrintT(ToJson([tag |-> "tail",
                      relations |-> <<"less+greater=1", "two=2*smaller", "two=2*upper(|t|)">>,
                      rows |-> <<TailRow(-1), TailRow(0), TailRow(1)>>]))
=============================================================================
