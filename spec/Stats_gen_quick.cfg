SPECIFICATION Spec
CONSTANTS
  Kinds = {"desc", "tt", "pd"}
  Vals <- ValsDefault
  MaxDesc = 5
  AllOrders = FALSE
  MaxT = 3
  DiffVals <- DiffQuick
  MaxP = 5
  Mu0s <- Mu0Default
  CGrid <- CDefault
INVARIANTS Emit
CHECK_DEADLOCK FALSE
