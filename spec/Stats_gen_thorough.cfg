SPECIFICATION Spec
CONSTANTS
  Kinds = {"desc", "tt", "pd"}
  Vals <- ValsDefault
  MaxDesc = 6
  AllOrders = FALSE
  MaxT = 4
  DiffVals <- DiffThorough
  MaxP = 5
  Mu0s <- Mu0Default
  CGrid <- CDefault
INVARIANTS Emit
CHECK_DEADLOCK FALSE
