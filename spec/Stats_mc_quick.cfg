SPECIFICATION Spec
CONSTANTS
  Kinds = {"desc", "tt", "pd", "tail"}
  Vals <- ValsDefault
  MaxDesc = 5
  AllOrders = TRUE
  MaxT = 3
  DiffVals <- DiffQuick
  MaxP = 5
  Mu0s <- Mu0Default
  CGrid <- CDefault
INVARIANTS
  TypeOK MeanOK VarOK BoundsOK SortOK GeoOK PctOK PctMonotoneBounded IQROK OneOK TwoSampleOK SwapErrsOK PairedByPositionOK PairedOK TailOK TailSignTable
CHECK_DEADLOCK FALSE
