SPECIFICATION Spec
CONSTANTS
  Kinds = {"desc", "tt", "pd", "tail"}
  Vals <- ValsDefault
  MaxDesc = 6
  AllOrders = TRUE
  MaxT = 5
  DiffVals <- DiffThorough
  MaxP = 5
  Mu0s <- Mu0Default
  CGrid <- CDefault
INVARIANTS
  TypeOK MeanOK VarOK BoundsOK SortOK GeoOK PctOK PctMonotoneBounded IQROK OneOK TwoSampleOK SwapErrsOK PairedByPositionOK PairedOK TailOK TailSignTable
CHECK_DEADLOCK FALSE
