-------------------------------- MODULE StoreLife --------------------------------
(* The results database of the storage server over its whole public life           *)
(* (package storage/db: db.go, query.go): what callers of                          *)
(*                                                                                 *)
(*     DB.NewUpload  DB.ReplaceUpload(id)  Upload.InsertRecord  Upload.Commit      *)
(*     Upload.Abort  DB.Query  DB.ListUploads  DB.CountUploads  DB.Close  OpenSQL  *)
(*                                                                                 *)
(* may rely on when several uploads are open at the same time and observers look   *)
(* at the database between any two calls.                                          *)
(*                                                                                 *)
(* State.  `rows` is the Uploads table: every upload ID the database knows         *)
(* (handed out by NewUpload or introduced by ReplaceUpload); it never shrinks,     *)
(* Abort "does not attempt to clean up partial database state".  `owner[id]` is    *)
(* the upload whose records are stored under id (0 = none).  Uploads (handles)     *)
(* are numbered 1, 2, .. in the order the calls that create them are made;         *)
(* `pend[h]` is everything InsertRecord was given.  A record is identified by      *)
(* <<h, i>> (i-th insert of h) and carries a label token (see LabVal).             *)
(*                                                                                 *)
(* Actions, one per public call and outcome (grain of the code):                   *)
(*   NewUploadOk / NewUploadRefused      ID allocation is one transaction (its     *)
(*                                       inner steps are modelled in Upload.tla)   *)
(*   ReplDeleteOk, ReplOpenOk / ..Refused  ReplaceUpload = delete the records      *)
(*                                       (own statement, committed at once), then  *)
(*                                       check / insert the Uploads row + begin    *)
(*   InsertOk / InsertFail               small records are buffered in memory; a   *)
(*                                       record with very many labels (BigToks)    *)
(*                                       makes InsertRecord write inside the       *)
(*                                       upload's transaction                      *)
(*   CommitOk / CommitFail, Abort, AbortDone (Abort after Commit / Abort)          *)
(*   Close, CloseAgain, Reopen (OpenSQL on the same database), NextDay             *)
(*                                                                                 *)
(* Environment parameter SingleWriter: the database has one write reservation      *)
(* (sqlite: the first write of a transaction takes it until commit / rollback and  *)
(* every other writer is refused with "database is locked"); FALSE: writers never  *)
(* collide (row locks).  The contract holds in both; refusal is allowed only under *)
(* contention, on a closed database, and never changes anything.                   *)
(*                                                                                 *)
(* Assumptions (guards): one open upload per ID at a time; a failed InsertRecord / *)
(* Commit is followed by Abort at once ("the Upload has failed and u.Abort() must  *)
(* be called"); two consecutive records of one upload are not both the same big    *)
(* record; no NewUpload runs between the two statements of a ReplaceUpload that    *)
(* introduces the very ID NewUpload would hand out (the code has no protection     *)
(* there: without the guard TLC shows two uploads open on one ID).                 *)
(*                                                                                 *)
(* Named deviations of the code as built (FALSE = documented behaviour):           *)
(*   IdFromGlobalLast     NewUpload numbers the new ID after the LATEST row of the *)
(*                        whole table; when that row is of a later day than the    *)
(*                        clock shows (re-ingested by ReplaceUpload, or written by *)
(*                        a server whose clock is ahead) it starts again at 1 and  *)
(*                        is refused with a constraint failure as soon as today.1  *)
(*                        exists - without any contention, until the day is over.  *)
(*   UploadsSurviveClose  Close ("closes the database connections, releasing any   *)
(*                        open resources") leaves the connections of uploads in    *)
(*                        progress open: their write reservation stays, they can   *)
(*                        still be committed and change the closed database.       *)
EXTENDS Integers, Sequences, FiniteSets, TLC

CONSTANTS
  MaxHandles,          \* calls that create an upload during one life
  MaxRecs,             \* InsertRecord calls per upload
  Toks, BigToks,       \* label tokens of small / big records
  Days,                \* the clock shows day 1..Days
  NewIdKinds,          \* unknown IDs ReplaceUpload is also given: subset of {"old", "foreign", "high", "later"}
  MaxCloses,
  SingleWriter,
  IdFromGlobalLast, UploadsSurviveClose

Handles == 1..MaxHandles
AllToks == Toks \cup BigToks

\* ------------------------------------------------------------------ IDs
\* [day, n]: n >= 1 is "<day>.<n>"; day 0 is some day before day 1; n = 0 is a
\* name that is not of that form ("foreign", e.g. "new" in the repository's test)
Foreign == [day |-> 0, n |-> 0]
OldId   == [day |-> 0, n |-> 1]
NoId    == [day |-> 0 - 1, n |-> 0]
Dated(id) == id.n >= 1
HighN == MaxHandles + 2
Newer(a, b) == a.day > b.day \/ (a.day = b.day /\ a.n > b.n)

\* ------------------------------------------------------------------ label tokens and the fixed queries
LabelNames == <<"k", "t", "zz">>            \* zz: a label no record has
LabVal(tok, L) ==
  CASE L = "k" -> (IF tok \in {"a", "d", "B"} THEN "1" ELSE "2")
    [] L = "t" -> (IF tok \in {"a", "b", "C"} THEN "x" ELSE IF tok \in {"d", "B"} THEN "y" ELSE "-")
    [] OTHER -> "-"                          \* "-" = the record has no such label
QNames == {"all", "k1", "k2", "tx"}
ListQs == {"all", "k1", "tx"}
Limits == {0, 1, 2}
Match(q, tok) ==
  CASE q = "all" -> TRUE
    [] q = "k1" -> LabVal(tok, "k") = "1"
    [] q = "k2" -> LabVal(tok, "k") = "2"
    [] q = "tx" -> LabVal(tok, "t") = "x"

VARIABLES
  phase,   \* handle -> "unused" | "replacing" (inside ReplaceUpload) | "open" | "failed" | "committed"
           \*           | "aborted" | "refused" (ReplaceUpload returned an error) | "dead" (ended by Close)
  hid,     \* handle -> its upload ID
  pend,    \* handle -> sequence of tokens inserted
  rows,    \* IDs in the Uploads table
  owner,   \* rows -> handle whose records are stored under the ID, 0 = none
  wlock,   \* holder of the write reservation, 0 = free
  closed, day, closes,
  refused  \* history: why the last call was refused ("none" = it was not)

vars == <<phase, hid, pend, rows, owner, wlock, closed, day, closes, refused>>
View == <<phase, hid, pend, rows, owner, wlock, closed, day, closes>>

Init ==
  /\ phase = [h \in Handles |-> "unused"] /\ hid = [h \in Handles |-> NoId]
  /\ pend = [h \in Handles |-> <<>>]
  /\ rows = {} /\ owner = [i \in {} |-> 0] /\ wlock = 0
  /\ closed = FALSE /\ day = 1 /\ closes = 0 /\ refused = "none"

HasUnused == \E h \in Handles : phase[h] = "unused"
NextH == CHOOSE h \in Handles : phase[h] = "unused" /\ \A g \in Handles : g < h => phase[g] # "unused"
Live(h) == phase[h] \in {"replacing", "open", "failed"}
NoFailed == \A h \in Handles : phase[h] # "failed"
NotInCall == \A h \in Handles : phase[h] # "replacing"
Contended(h) == SingleWriter /\ wlock # 0 /\ wlock # h
Release(h) == IF wlock = h THEN 0 ELSE wlock
With(f, id, v) == [x \in DOMAIN f \cup {id} |-> IF x = id THEN v ELSE f[x]]

MaxN(d) == LET S == {r.n : r \in {x \in rows : x.day = d /\ Dated(x)}} IN
           IF S = {} THEN 0 ELSE CHOOSE m \in S : \A k \in S : k <= m
DatedRows == {x \in rows : Dated(x)}
GlobalLast == CHOOSE x \in DatedRows : \A y \in DatedRows : y = x \/ Newer(x, y)
NewId == IF IdFromGlobalLast /\ DatedRows # {}
         THEN (IF GlobalLast.day = day THEN [day |-> day, n |-> GlobalLast.n + 1] ELSE [day |-> day, n |-> 1])
         ELSE [day |-> day, n |-> MaxN(day) + 1]

\* ------------------------------------------------------------------ DB.NewUpload
NewUploadOk ==
  /\ HasUnused /\ NoFailed /\ ~closed /\ ~Contended(0) /\ NewId \notin rows
  /\ \A g \in Handles : phase[g] = "replacing" => hid[g] # NewId      \* assumption, see above
  /\ LET h == NextH IN
     /\ phase' = [phase EXCEPT ![h] = "open"] /\ hid' = [hid EXCEPT ![h] = NewId]
     /\ rows' = rows \cup {NewId} /\ owner' = With(owner, NewId, 0)
  /\ refused' = "none"
  /\ UNCHANGED <<pend, wlock, closed, day, closes>>

NewUploadRefused ==
  /\ NoFailed
  /\ refused' = IF closed THEN "closed" ELSE IF Contended(0) THEN "locked" ELSE "constraint"
  /\ closed \/ Contended(0) \/ NewId \in rows
  /\ UNCHANGED <<phase, hid, pend, rows, owner, wlock, closed, day, closes>>

\* ------------------------------------------------------------------ DB.ReplaceUpload(id)
ReplIds ==
  rows \cup (IF "old" \in NewIdKinds THEN {OldId} ELSE {})
       \cup (IF "foreign" \in NewIdKinds THEN {Foreign} ELSE {})
       \cup (IF "high" \in NewIdKinds THEN {[day |-> day, n |-> HighN]} ELSE {})
       \cup (IF "later" \in NewIdKinds THEN {[day |-> day + 1, n |-> 1]} ELSE {})

\* "removes the records associated with id if any": a statement of its own
ReplDeleteOk(id) ==
  /\ HasUnused /\ NoFailed /\ ~closed /\ ~Contended(0)
  /\ \A g \in Handles : Live(g) => hid[g] # id            \* one open upload per ID
  /\ LET h == NextH IN
     /\ phase' = [phase EXCEPT ![h] = "replacing"] /\ hid' = [hid EXCEPT ![h] = id]
  /\ owner' = IF id \in rows THEN [owner EXCEPT ![id] = 0] ELSE owner
  /\ pend' = IF id \in rows /\ owner[id] # 0 THEN [pend EXCEPT ![owner[id]] = <<>>] ELSE pend   \* deleted
  /\ refused' = "none"
  /\ UNCHANGED <<rows, wlock, closed, day, closes>>

ReplRefused(id) ==
  /\ NoFailed /\ (closed \/ Contended(0))
  /\ \A g \in Handles : Live(g) => hid[g] # id
  /\ refused' = IF closed THEN "closed" ELSE "locked"
  /\ UNCHANGED <<phase, hid, pend, rows, owner, wlock, closed, day, closes>>

\* "and allows insertion of new records": the Uploads row is made if it is missing
ReplOpenOk(h) ==
  /\ phase[h] = "replacing" /\ ~closed
  /\ IF hid[h] \in rows THEN UNCHANGED <<rows, owner>>
     ELSE /\ ~Contended(h)
          /\ rows' = rows \cup {hid[h]} /\ owner' = With(owner, hid[h], 0)
  /\ phase' = [phase EXCEPT ![h] = "open"]
  /\ refused' = "none"
  /\ UNCHANGED <<hid, pend, wlock, closed, day, closes>>

\* only reachable when another goroutine acts in the middle of the call
ReplOpenRefused(h) ==
  /\ phase[h] = "replacing" /\ (closed \/ (hid[h] \notin rows /\ Contended(h)))
  /\ phase' = [phase EXCEPT ![h] = "refused"]
  /\ refused' = IF closed THEN "closed" ELSE "locked"
  /\ UNCHANGED <<hid, pend, rows, owner, wlock, closed, day, closes>>

\* ReplaceUpload made by a caller nobody interrupts: ReplDeleteOk(id) followed by
\* ReplOpenOk of the same upload, as one step (used where calls come from one
\* goroutine: generation of replay cases, validation of recorded traces)
ReplaceUploadAtomic(id) ==
  /\ HasUnused /\ NoFailed /\ NotInCall /\ ~closed /\ ~Contended(0)
  /\ \A g \in Handles : Live(g) => hid[g] # id
  /\ LET h == NextH IN
     /\ phase' = [phase EXCEPT ![h] = "open"] /\ hid' = [hid EXCEPT ![h] = id]
  /\ rows' = rows \cup {id} /\ owner' = With(owner, id, 0)
  /\ pend' = IF id \in rows /\ owner[id] # 0 THEN [pend EXCEPT ![owner[id]] = <<>>] ELSE pend
  /\ refused' = "none"
  /\ UNCHANGED <<wlock, closed, day, closes>>

\* ------------------------------------------------------------------ Upload.InsertRecord
Big(tok) == tok \in BigToks
CanInsert(h, tok) ==
  /\ phase[h] = "open" /\ NoFailed /\ Len(pend[h]) < MaxRecs
  /\ Big(tok) => (IF pend[h] = <<>> THEN TRUE ELSE pend[h][Len(pend[h])] # tok)

InsertOk(h, tok) ==
  /\ CanInsert(h, tok) /\ (Big(tok) => ~Contended(h))
  /\ pend' = [pend EXCEPT ![h] = Append(pend[h], tok)]
  /\ wlock' = IF Big(tok) /\ SingleWriter THEN h ELSE wlock
  /\ refused' = "none"
  /\ UNCHANGED <<phase, hid, rows, owner, closed, day, closes>>

InsertFail(h, tok) ==
  /\ CanInsert(h, tok) /\ Big(tok) /\ Contended(h)
  /\ phase' = [phase EXCEPT ![h] = "failed"]
  /\ refused' = "locked"
  /\ UNCHANGED <<hid, pend, rows, owner, wlock, closed, day, closes>>

\* ------------------------------------------------------------------ Upload.Commit / Abort
CommitOk(h) ==
  /\ phase[h] = "open" /\ NoFailed
  /\ ~(Contended(h) /\ pend[h] # <<>>)
  /\ owner' = [owner EXCEPT ![hid[h]] = h]
  /\ phase' = [phase EXCEPT ![h] = "committed"]
  /\ wlock' = Release(h)
  /\ refused' = "none"
  /\ UNCHANGED <<hid, pend, rows, closed, day, closes>>

CommitFail(h) ==
  /\ phase[h] = "open" /\ NoFailed
  /\ Contended(h) /\ pend[h] # <<>>
  /\ phase' = [phase EXCEPT ![h] = "failed"]
  /\ refused' = "locked"
  /\ UNCHANGED <<hid, pend, rows, owner, wlock, closed, day, closes>>

Abort(h) ==
  /\ phase[h] \in {"open", "failed"}
  /\ phase[h] = "open" => NoFailed
  /\ phase' = [phase EXCEPT ![h] = "aborted"]
  /\ pend' = [pend EXCEPT ![h] = <<>>]                    \* the buffered records are gone
  /\ wlock' = Release(h)
  /\ refused' = "none"
  /\ UNCHANGED <<hid, rows, owner, closed, day, closes>>

\* the `defer u.Abort()` idiom: Abort of an upload that is over changes nothing
AbortDone(h) ==
  /\ phase[h] \in {"committed", "aborted"} /\ NoFailed
  /\ refused' = "none"
  /\ UNCHANGED <<phase, hid, pend, rows, owner, wlock, closed, day, closes>>

\* ------------------------------------------------------------------ DB.Close, OpenSQL again, the clock
Close ==
  /\ ~closed /\ NoFailed /\ closes < MaxCloses
  /\ closed' = TRUE /\ closes' = closes + 1
  /\ IF UploadsSurviveClose THEN UNCHANGED <<phase, wlock>>
     ELSE /\ phase' = [h \in Handles |-> IF Live(h) THEN "dead" ELSE phase[h]]
          /\ wlock' = 0
  /\ refused' = "none"
  /\ UNCHANGED <<hid, pend, rows, owner, day>>

CloseAgain ==
  /\ closed /\ NoFailed
  /\ refused' = "none"
  /\ UNCHANGED <<phase, hid, pend, rows, owner, wlock, closed, day, closes>>

Reopen ==
  /\ closed /\ NoFailed
  /\ closed' = FALSE
  /\ refused' = "none"
  /\ UNCHANGED <<phase, hid, pend, rows, owner, wlock, day, closes>>

\* an upload ended by Close: Commit fails, Abort has nothing to do
EndDead(h) ==
  /\ phase[h] = "dead"
  /\ phase' = [phase EXCEPT ![h] = "aborted"]
  /\ pend' = [pend EXCEPT ![h] = <<>>]
  /\ refused' = "closed"
  /\ UNCHANGED <<hid, rows, owner, wlock, closed, day, closes>>

NextDay ==
  /\ day < Days /\ NoFailed
  /\ day' = day + 1
  /\ refused' = "none"
  /\ UNCHANGED <<phase, hid, pend, rows, owner, wlock, closed, closes>>

ReplDeleteAny == \E id \in ReplIds : ReplDeleteOk(id)
ReplRefusedAny == \E id \in ReplIds : ReplRefused(id)

Next ==
  \/ NewUploadOk \/ NewUploadRefused
  \/ ReplDeleteAny \/ ReplRefusedAny
  \/ \E h \in Handles :
       \/ ReplOpenOk(h) \/ ReplOpenRefused(h)
       \/ \E tok \in AllToks : InsertOk(h, tok) \/ InsertFail(h, tok)
       \/ CommitOk(h) \/ CommitFail(h) \/ Abort(h) \/ AbortDone(h) \/ EndDead(h)
  \/ Close \/ CloseAgain \/ Reopen \/ NextDay

Spec == Init /\ [][Next]_vars

-----------------------------------------------------------------------------
\* What observers see.  Everything below is a function of rows / owner / pend.

Stored(id) == IF id \in rows /\ owner[id] # 0 THEN pend[owner[id]] ELSE <<>>
\* results: <<h, i>> of every stored line
Visible == UNION {{<<owner[id], i>> : i \in 1..Len(Stored(id))} : id \in rows}
QueryResults(q) == {x \in Visible : Match(q, pend[x[1]][x[2]])}
ByUpload(id) == {<<owner[id], i>> : i \in 1..Len(Stored(id))}       \* the query upload:<id>

\* records: a run of consecutive results with identical labels is one record
\* (db.Upload.InsertRecord; same definition as StoreQuery.tla)
RecordStarts(s) == {i \in 1..Len(s) : i = 1 \/ s[i - 1] # s[i]}
RecordCount(id, q) == Cardinality({i \in RecordStarts(Stored(id)) : Match(q, Stored(id)[i])})
Listed(q) == {id \in rows : RecordCount(id, q) > 0}
ListRow(id, q) == [id |-> id, count |-> RecordCount(id, q)]

\* "starting with the most recent upload": by day and number; where an ID without
\* a date goes is not said (there is at most one such ID here)
RECURSIVE SortedDated(_, _)
SortedDated(S, q) == IF S = {} THEN <<>>
                     ELSE LET m == CHOOSE x \in S : \A y \in S : y = x \/ Newer(x, y)
                          IN <<ListRow(m, q)>> \o SortedDated(S \ {m}, q)
InsertAt(s, p, e) == SubSeq(s, 1, p) \o <<e>> \o SubSeq(s, p + 1, Len(s))
Orders(q) == LET D == SortedDated({id \in Listed(q) : Dated(id)}, q) IN
             IF Foreign \in Listed(q) THEN {InsertAt(D, p, ListRow(Foreign, q)) : p \in 0..Len(D)} ELSE {D}
Take(s, n) == IF n = 0 \/ n >= Len(s) THEN s ELSE SubSeq(s, 1, n)
\* the replies ListUploads(q, _, limit) may give
Listings(q, limit) == {Take(s, limit) : s \in Orders(q)}

\* "For each label in extraLabels, one unspecified record's value": the value of
\* ANY record of the upload, "-" (not reported) if that record has no such label
LabelChoices(id, L) == {LabVal(Stored(id)[i], L) : i \in 1..Len(Stored(id))}

CountUploads == Cardinality(rows)

-----------------------------------------------------------------------------
\* The contract.

TypeOK ==
  /\ wlock \in 0..MaxHandles /\ DOMAIN owner = rows
  /\ \A id \in rows : owner[id] \in 0..MaxHandles
  /\ \A h \in Handles : Len(pend[h]) <= MaxRecs

\* records can be queried only through Commit, and then all of them
OwnerCommitted == \A id \in rows : owner[id] # 0 => (phase[owner[id]] = "committed" /\ hid[owner[id]] = id)
VisOf(h) == {x \in Visible : x[1] = h}
AllRecs(h) == {<<h, i>> : i \in 1..Len(pend[h])}
AllOrNothing == \A h \in Handles :
  /\ VisOf(h) \in {{}, AllRecs(h)}
  /\ phase[h] # "committed" => VisOf(h) = {}

\* the listing and the count agree with what Query returns
ListingAgrees ==
  /\ \A q \in QNames : Listed(q) = {hid[x[1]] : x \in QueryResults(q)}
  /\ \A id \in rows : ByUpload(id) = {x \in QueryResults("all") : hid[x[1]] = id}
  /\ \A q \in ListQs : \A lim \in Limits : \A s \in Listings(q, lim) :
        /\ Len(s) = (IF lim = 0 \/ lim > Cardinality(Listed(q)) THEN Cardinality(Listed(q)) ELSE lim)
        /\ \A i \in 1..Len(s) : s[i].count >= 1 /\ s[i].count <= Cardinality(ByUpload(s[i].id))
        /\ \A i, j \in 1..Len(s) : (i < j /\ Dated(s[i].id) /\ Dated(s[j].id)) => Newer(s[i].id, s[j].id)
  /\ CountUploads >= Cardinality(Listed("all"))

\* every upload that was handed out has a row; one open upload per ID
RowsCoverHandles == \A h \in Handles : phase[h] \in {"open", "failed", "committed"} => hid[h] \in rows
OneWriterPerId == \A g, h \in Handles : (g # h /\ Live(g) /\ Live(h)) => hid[g] # hid[h]

\* the reservation is held by an upload in progress that has written, by nobody else
LockDiscipline ==
  /\ wlock # 0 => (phase[wlock] \in {"open", "failed"} /\ pend[wlock] # <<>>)
  /\ ~SingleWriter => wlock = 0

\* Close releases what is open
CloseReleases == closed => (wlock = 0 /\ \A h \in Handles : ~Live(h))

\* ---- action properties
\* what can be queried changes only by a Commit (everything of that upload appears,
\* nothing else changes) or by ReplaceUpload (everything stored under that ID goes,
\* nothing else changes).  In particular Abort, a refused call, Close leave it alone.
VisibilityChanges == [][
  LET before == Visible
      after == Visible'
      added == after \ before
      removed == before \ after
  IN
  /\ added # {} =>
       \E h \in Handles : /\ phase[h] = "open" /\ phase'[h] = "committed"
                          /\ added = {<<h, i>> : i \in 1..Len(pend[h])} /\ removed = {}
  /\ removed # {} =>
       \E h \in Handles : /\ phase[h] = "unused" /\ phase'[h] = "replacing"
                          /\ removed = ByUpload(hid'[h]) /\ added = {}
  ]_vars

\* IDs: NewUpload hands out an ID the database has never known, of today, numbered
\* after every ID of today; rows are never removed
FreshIds == [][\A h \in Handles :
     (phase[h] = "unused" /\ phase'[h] = "open") =>
        /\ hid'[h] \notin rows /\ hid'[h].day = day /\ hid'[h].n = MaxN(day) + 1]_vars
RowsGrow == [][rows \subseteq rows']_vars

\* a refused call changes nothing that can be observed (a failed InsertRecord /
\* Commit only ends its own upload)
RefusalsChangeNothing == [][refused' # "none" =>
     /\ rows' = rows /\ owner' = owner /\ closed' = closed
     /\ \A h \in Handles : phase'[h] # phase[h] => phase'[h] \in {"failed", "refused", "aborted"}]_vars

\* calls are refused only on a closed database or when another upload holds the
\* write reservation - never for a reason of the database's own making
NoSpuriousRefusal == [][refused' # "constraint"]_vars

\* NOT part of the contract (StoreLife_neg_swap.cfg shows the counterexample): ReplaceUpload
\* is not a swap - the old records are gone from the call on, not from the Commit on, and
\* an Abort (or a crash) in between leaves the ID without records
ReplaceIsASwap == [][\A id \in rows : Stored(id) # <<>> => Stored(id)' # <<>>]_vars

\* nothing can be queried differently after Close until the database is opened again
ClosedIsFrozen == [][(closed /\ closed') => (rows' = rows /\ Visible' = Visible)]_vars
=============================================================================
