SPECIFICATION Spec
CONSTANTS
  MaxHandles = 2
  MaxRecs = 1
  Toks = {"a"}
  BigToks = {"B"}
  Days = 1
  NewIdKinds = {}
  MaxCloses = 1
  SingleWriter = TRUE
  IdFromGlobalLast = FALSE
  UploadsSurviveClose = TRUE
VIEW View
INVARIANTS TypeOK OwnerCommitted AllOrNothing ListingAgrees RowsCoverHandles OneWriterPerId LockDiscipline CloseReleases
PROPERTIES VisibilityChanges RowsGrow RefusalsChangeNothing ClosedIsFrozen
CHECK_DEADLOCK FALSE
