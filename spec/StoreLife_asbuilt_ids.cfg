SPECIFICATION Spec
CONSTANTS
  MaxHandles = 2
  MaxRecs = 1
  Toks = {"a"}
  BigToks = {}
  Days = 1
  NewIdKinds = {"later"}
  MaxCloses = 0
  SingleWriter = TRUE
  IdFromGlobalLast = TRUE
  UploadsSurviveClose = FALSE
VIEW View
INVARIANTS TypeOK OwnerCommitted AllOrNothing ListingAgrees RowsCoverHandles OneWriterPerId LockDiscipline CloseReleases
PROPERTIES VisibilityChanges RowsGrow RefusalsChangeNothing NoSpuriousRefusal
CHECK_DEADLOCK FALSE
