------------------------------ MODULE StoreLife_gen ------------------------------
(* Generator (mode G) for StoreLife: the same exploration with a path variable     *)
(* hidden from the VIEW.  For EVERY explored transition one line is printed: the   *)
(* BFS-shortest sequence of calls reaching the source state plus this call, and    *)
(* what every observer must see afterwards (Expect of the target state).  The      *)
(* printed paths are closed under prefixes, so the driver assembles the maximal    *)
(* paths into replay cases that carry the expectation after each call.             *)
(*                                                                                 *)
(* A replay is one goroutine: ReplaceUpload is the step ReplaceUploadAtomic.        *)
EXTENDS StoreLife, Json

VARIABLE hist
gvars == <<vars, hist>>

St(a, h, id, tok, ok) == [a |-> a, h |-> h, id |-> id, tok |-> tok, ok |-> ok]

GInit == Init /\ hist = <<>>

GNext ==
  \/ (NewUploadOk /\ hist' = Append(hist, St("new", NextH, NewId, "", TRUE)))
  \/ (NewUploadRefused /\ hist' = Append(hist, St("new", 0, NoId, "", FALSE)))
  \/ \E id \in ReplIds :
       \/ (ReplaceUploadAtomic(id) /\ hist' = Append(hist, St("replace", NextH, id, "", TRUE)))
       \/ (ReplRefused(id) /\ hist' = Append(hist, St("replace", 0, id, "", FALSE)))
  \/ \E h \in Handles :
       \/ \E tok \in AllToks :
            \/ (InsertOk(h, tok) /\ hist' = Append(hist, St("insert", h, hid[h], tok, TRUE)))
            \/ (InsertFail(h, tok) /\ hist' = Append(hist, St("insert", h, hid[h], tok, FALSE)))
       \/ (CommitOk(h) /\ hist' = Append(hist, St("commit", h, hid[h], "", TRUE)))
       \/ (CommitFail(h) /\ hist' = Append(hist, St("commit", h, hid[h], "", FALSE)))
       \/ (Abort(h) /\ hist' = Append(hist, St("abort", h, hid[h], "", TRUE)))
       \/ (AbortDone(h) /\ hist' = Append(hist, St("abortdone", h, hid[h], "", TRUE)))
       \/ (EndDead(h) /\ hist' = Append(hist, St("enddead", h, hid[h], "", FALSE)))
  \/ (Close /\ hist' = Append(hist, St("close", 0, NoId, "", TRUE)))
  \/ (CloseAgain /\ hist' = Append(hist, St("closeagain", 0, NoId, "", TRUE)))
  \/ (Reopen /\ hist' = Append(hist, St("reopen", 0, NoId, "", TRUE)))
  \/ (NextDay /\ hist' = Append(hist, St("nextday", 0, NoId, "", TRUE)))

GSpec == GInit /\ [][GNext]_gvars

\* everything the observers are asked after a call
Expect ==
  IF closed THEN [closed |-> TRUE, phase |-> phase]
  ELSE [closed |-> FALSE, phase |-> phase,
        count |-> CountUploads,
        q |-> [qn \in QNames |-> QueryResults(qn)],
        byid |-> {[id |-> id, res |-> ByUpload(id)] : id \in rows},
        lists |-> {[q |-> qn, limit |-> lim, allowed |-> Listings(qn, lim)] : qn \in ListQs, lim \in Limits},
        labels |-> {[id |-> id, label |-> LabelNames[i], allowed |-> LabelChoices(id, LabelNames[i])]
                      : id \in Listed("all"), i \in 1..Len(LabelNames)}]

Emit == PrintT(ToJson([tag |-> "edge", path |-> hist', expect |-> Expect']))
=============================================================================
