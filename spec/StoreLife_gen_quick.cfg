SPECIFICATION GSpec
CONSTANTS
  MaxHandles = 2
  MaxRecs = 1
  Toks = {"a"}
  BigToks = {"B"}
  Days = 1
  NewIdKinds = {"foreign", "later"}
  MaxCloses = 1
  SingleWriter = TRUE
  IdFromGlobalLast = FALSE
  UploadsSurviveClose = TRUE
VIEW View
ACTION_CONSTRAINT Emit
INVARIANTS TypeOK OwnerCommitted AllOrNothing
CHECK_DEADLOCK FALSE
