SPECIFICATION GSpec
CONSTANTS
  MaxHandles = 3
  MaxRecs = 0
  Toks = {"a"}
  BigToks = {}
  Days = 2
  NewIdKinds = {"old", "foreign", "high", "later"}
  MaxCloses = 0
  SingleWriter = TRUE
  IdFromGlobalLast = FALSE
  UploadsSurviveClose = TRUE
VIEW View
ACTION_CONSTRAINT Emit
INVARIANTS TypeOK OwnerCommitted AllOrNothing
CHECK_DEADLOCK FALSE
