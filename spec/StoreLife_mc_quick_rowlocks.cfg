SPECIFICATION Spec
CONSTANTS
  MaxHandles = 2
  MaxRecs = 2
  Toks = {"a", "c"}
  BigToks = {"B"}
  Days = 1
  NewIdKinds = {"old", "foreign", "high", "later"}
  MaxCloses = 1
  SingleWriter = FALSE
  IdFromGlobalLast = FALSE
  UploadsSurviveClose = FALSE
VIEW View
INVARIANTS TypeOK OwnerCommitted AllOrNothing ListingAgrees RowsCoverHandles OneWriterPerId LockDiscipline CloseReleases
PROPERTIES VisibilityChanges RowsGrow RefusalsChangeNothing FreshIds NoSpuriousRefusal ClosedIsFrozen
CHECK_DEADLOCK FALSE
