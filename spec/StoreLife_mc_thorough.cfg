SPECIFICATION Spec
CONSTANTS
  MaxHandles = 3
  MaxRecs = 2
  Toks = {"a"}
  BigToks = {"B"}
  Days = 1
  NewIdKinds = {"old", "foreign", "high", "later"}
  MaxCloses = 1
  SingleWriter = TRUE
  IdFromGlobalLast = FALSE
  UploadsSurviveClose = FALSE
VIEW View
INVARIANTS TypeOK OwnerCommitted AllOrNothing ListingAgrees RowsCoverHandles OneWriterPerId LockDiscipline CloseReleases
PROPERTIES VisibilityChanges RowsGrow RefusalsChangeNothing FreshIds NoSpuriousRefusal ClosedIsFrozen
CHECK_DEADLOCK FALSE
