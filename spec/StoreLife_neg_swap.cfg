SPECIFICATION Spec
CONSTANTS
  MaxHandles = 2
  MaxRecs = 1
  Toks = {"a"}
  BigToks = {}
  Days = 1
  NewIdKinds = {}
  MaxCloses = 0
  SingleWriter = TRUE
  IdFromGlobalLast = FALSE
  UploadsSurviveClose = FALSE
VIEW View
INVARIANTS TypeOK OwnerCommitted AllOrNothing ListingAgrees RowsCoverHandles OneWriterPerId LockDiscipline CloseReleases
PROPERTIES ReplaceIsASwap
CHECK_DEADLOCK FALSE
