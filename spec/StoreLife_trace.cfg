SPECIFICATION TSpec
CONSTANTS
  MaxHandles = 10
  MaxRecs = 4
  Toks = {"a", "b", "c", "d"}
  BigToks = {"B", "C"}
  Days = 10
  NewIdKinds = {}
  MaxCloses = 100000
  SingleWriter = TRUE
  IdFromGlobalLast = FALSE
  UploadsSurviveClose = TRUE
INVARIANTS TypeOK OwnerCommitted AllOrNothing OneWriterPerId LockDiscipline
CONSTRAINT HW
POSTCONDITION Post
CHECK_DEADLOCK FALSE
