----------------------------- MODULE StoreLife_trace -----------------------------
(* Trace validation (mode T) for StoreLife: a seeded random driver made calls on   *)
(* a real database (more uploads, records, label tokens and days than TLC          *)
(* explores) and logged one event per call with its arguments and result, and one  *)
(* per observer with its reply.  Every call event must be a step of StoreLife's    *)
(* own action for that call and outcome; every observer event must report what     *)
(* the specification's observation operators give for the state reached.           *)
(*                                                                                 *)
(*   reset | new{ok,h,id} | replace{ok,h,id} | insert{h,tok,ok} | commit{h,ok}     *)
(*   abort{h} | abortdone{h} | close | closeagain | reopen | nextday               *)
(*   count{n} | query{q,res} | byid{id,res} | list{q,limit,rows,labs} | closedobs  *)
EXTENDS StoreLife, Json

TraceLog == ndJsonDeserialize("trace.ndjson")
VARIABLE l
tvars == <<vars, l>>
Ev == TraceLog[l]
Is(e) == l <= Len(TraceLog) /\ Ev.ev = e
AsId(x) == [day |-> x.day, n |-> x.n]
ToSet(s) == {s[i] : i \in 1..Len(s)}
Pairs(s) == {<<s[i][1], s[i][2]>> : i \in 1..Len(s)}

TInit == Init /\ l = 1

TReset ==
  /\ Is("reset")
  /\ phase' = [h \in Handles |-> "unused"] /\ hid' = [h \in Handles |-> NoId]
  /\ pend' = [h \in Handles |-> <<>>]
  /\ rows' = {} /\ owner' = [i \in {} |-> 0] /\ wlock' = 0
  /\ closed' = FALSE /\ day' = 1 /\ closes' = 0 /\ refused' = "none"
  /\ l' = l + 1

TNew ==
  /\ Is("new")
  /\ IF Ev.ok THEN NewUploadOk /\ NextH = Ev.h /\ NewId = AsId(Ev.id)
     ELSE NewUploadRefused
  /\ l' = l + 1

TReplace ==
  /\ Is("replace") /\ Ev.ok
  /\ ReplaceUploadAtomic(AsId(Ev.id)) /\ NextH = Ev.h
  /\ l' = l + 1
TReplaceRefused ==
  /\ Is("replace") /\ ~Ev.ok /\ NotInCall
  /\ ReplRefused(AsId(Ev.id))
  /\ l' = l + 1

TInsert ==
  /\ Is("insert") /\ NotInCall
  /\ IF Ev.ok THEN InsertOk(Ev.h, Ev.tok) ELSE InsertFail(Ev.h, Ev.tok)
  /\ l' = l + 1
TCommit ==
  /\ Is("commit") /\ NotInCall
  /\ IF Ev.ok THEN CommitOk(Ev.h) ELSE CommitFail(Ev.h)
  /\ l' = l + 1
TAbort == Is("abort") /\ NotInCall /\ Ev.ok /\ Abort(Ev.h) /\ l' = l + 1
TAbortDone == Is("abortdone") /\ NotInCall /\ AbortDone(Ev.h) /\ l' = l + 1
TClose == Is("close") /\ NotInCall /\ Ev.ok /\ Close /\ l' = l + 1
TCloseAgain == Is("closeagain") /\ NotInCall /\ CloseAgain /\ l' = l + 1
TReopen == Is("reopen") /\ NotInCall /\ Ev.ok /\ Reopen /\ l' = l + 1
TNextDay == Is("nextday") /\ NotInCall /\ NextDay /\ l' = l + 1

\* observers: the reply must be the specification's
Obs(cond) == NotInCall /\ cond /\ l' = l + 1 /\ UNCHANGED vars
TCount == Is("count") /\ Obs(~closed /\ Ev.ok /\ Ev.n = CountUploads)
TQuery == Is("query") /\ Obs(~closed /\ Ev.ok /\ Pairs(Ev.res) = QueryResults(Ev.q) /\ Len(Ev.res) = Cardinality(Pairs(Ev.res)))
TById  == Is("byid") /\ Obs(~closed /\ Ev.ok /\ Pairs(Ev.res) = ByUpload(AsId(Ev.id)) /\ Len(Ev.res) = Cardinality(Pairs(Ev.res)))
ListRows(s) == [i \in 1..Len(s) |-> [id |-> AsId(s[i].id), count |-> s[i].count]]
TList ==
  /\ Is("list")
  /\ Obs(/\ ~closed /\ Ev.ok
         /\ ListRows(Ev.rows) \in Listings(Ev.q, Ev.limit)
         /\ \A i \in 1..Len(Ev.rows) : \A j \in 1..Len(LabelNames) :
               Ev.labs[i][j] \in LabelChoices(AsId(Ev.rows[i].id), LabelNames[j]))
TClosedObs == Is("closedobs") /\ Obs(closed /\ Ev.ok)

TNext == TReset \/ TNew \/ TReplace \/ TReplaceRefused \/ TInsert \/ TCommit \/ TAbort
         \/ TAbortDone \/ TClose \/ TCloseAgain \/ TReopen \/ TNextDay
         \/ TCount \/ TQuery \/ TById \/ TList \/ TClosedObs
TSpec == TInit /\ [][TNext]_tvars

HW == IF l > TLCGet(1) THEN TLCSet(1, l) ELSE TRUE
Post == PrintT("TRACE hwm=" \o ToString(TLCGet(1) - 1) \o " len=" \o ToString(Len(TraceLog)))
ASSUME TLCSet(1, 0)
=============================================================================
