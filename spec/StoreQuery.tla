-------------------------------- MODULE StoreQuery --------------------------------
(* The benchmark result store of storage/{app,db}: uploads of files in the legacy   *)
(* benchmark format are indexed record by record; queries select records by their   *)
(* labels.                                                                          *)
(*                                                                                  *)
(* Values (label values, query values) are TOKENS: natural numbers compared with <, *)
(* standing for strings compared bytewise; 0 is the empty string.  The harness      *)
(* concretises them by order-preserving tables.  None (-1) is "no such label".      *)
(*                                                                                  *)
(* Store   = sequence of committed uploads (oldest first), each a sequence of       *)
(*           files, each [fname, lines]; lines are  set k v | del k | bench name m  *)
(*           | noise (blank / non-benchmark text).                                  *)
(* Reading a file (server side, benchfmt.Reader with AddLabels): a result per bench *)
(*           line, carrying the labels in effect; the server's labels (upload,      *)
(*           upload-part, upload-time, by, and upload-file when the file is named)  *)
(*           cannot be set or deleted by the file.  Name labels come from the       *)
(*           benchmark name: name, sub1 (first unnamed /part), x (a /x=v part),     *)
(*           gomaxprocs (-N suffix).                                                *)
(* Record  = maximal run of consecutive results of one file with identical labels   *)
(*           and identical name labels (db.Upload.InsertRecord).                    *)
(*                                                                                  *)
(* DECLARATIVE query meaning: a result is returned iff every term holds on the      *)
(*           value of its key (absent label: nothing holds).                        *)
(* OPERATIONAL: the per-key merge table of storage/db/query.go (equals, lt, gt,     *)
(*           ltgt, or "can never match"), one sub-select per key, inner join.       *)
(*                                                                                  *)
(* Named deviations of the code as built (FALSE / 0 = normative):                   *)
(*   EmptyGtIsAny  `k>""` is turned into "has label k" (sql()), and `k<v k>""` into *)
(*                 `k<v` (merge): both wrong for a label whose value is the empty   *)
(*                 string (only name labels can be: BenchmarkX/ or BenchmarkX/k=).  *)
(*   ListEOFError  a query that can never match makes the upload LISTING fail with  *)
(*                 the error "EOF" instead of listing nothing (UploadList.Err does  *)
(*                 not filter io.EOF as Query.Err does).                            *)
(*   EqualIgnoresAbsence  Labels.Equal compares sizes and then looks the first map's   *)
(*                 keys up in the second one, where a missing key reads as the      *)
(*                 empty string: {x: ""} equals {gomaxprocs: "8"}; results with     *)
(*                 different name labels are then coalesced into one record.        *)
(*   FlushRows     > 0: pending label rows are flushed when that many are queued,   *)
(*                 in the middle of inserting a record's labels, and the flush      *)
(*                 forgets the last result, so the run that record starts is split. *)
EXTENDS Integers, Sequences, FiniteSets, TLC

CONSTANTS
  MaxTok,                 \* ordinary query tokens are 0..MaxTok
  FileKeys, FileVals,     \* keys and (non-empty) values that file lines set
  OverrideKeys,           \* server keys that files try to set / delete
  Bases, Subs, Xs, Procs, \* benchmark names: [base, sub, x, procs]; None = part absent
  FNames,                 \* file names (tokens)
  OptParts,               \* which of "sub", "x", "procs", "fname" may also be absent (None)
  Meas,                   \* measurement tokens (rest of the benchmark line)
  MaxUploads, MaxFiles, MaxResults, MaxEdits,
  MaxLines,               \* bound on the number of lines in the whole store (0 = none)
  QKeys, PairKeys, PairToks,   \* keys/tokens of the queries quantified over in mode M
  EmptyGtIsAny, ListEOFError, FlushRows, EqualIgnoresAbsence,
  EmptyNameValueIsLabel   \* free choice of the name-label derivation, see NameLabels

None == 0 - 1

ServerKeys == {"upload", "upload-part", "upload-time", "upload-file", "by"}
NameKeys   == {"name", "sub1", "x", "gomaxprocs"}

ASSUME FileKeys \cap (ServerKeys \cup NameKeys) = {}
ASSUME OverrideKeys \subseteq ServerKeys
ASSUME 0 \notin FileVals /\ 0 \notin Bases

Min(a, b) == IF a < b THEN a ELSE b
Max(a, b) == IF a > b THEN a ELSE b

Put(f, k, v) == [x \in DOMAIN f \cup {k} |-> IF x = k THEN v ELSE f[x]]
Drop(f, k)   == [x \in DOMAIN f \ {k} |-> f[x]]
EmptyFn      == [x \in {} |-> 0]
Range(s)     == {s[i] : i \in DOMAIN s}

-----------------------------------------------------------------------------
\* Query terms: declarative meaning

Ops == {":", "<", ">"}

\* lv = value of the term's key on the record, or None
Holds(t, lv) == /\ lv # None
                /\ CASE t.op = ":" -> lv = t.v
                     [] t.op = "<" -> lv < t.v
                     [] t.op = ">" -> lv > t.v

Conj(ts, lv) == \A i \in 1..Len(ts) : Holds(ts[i], lv)

-----------------------------------------------------------------------------
\* Query terms: the merge table of query.go (operational)

EOF == [op |-> "eof", v |-> 0, v2 |-> 0]
PartOf(t) == [op |-> (CASE t.op = ":" -> "eq" [] t.op = "<" -> "lt" [] t.op = ">" -> "gt"), v |-> t.v, v2 |-> 0]
Rank(o) == CASE o = "eq" -> 0 [] o = "ltgt" -> 1 [] o = "lt" -> 2 [] o = "gt" -> 3

\* the tail of merge(): emptiness detection and simplification of a two-sided range
Finish(p) ==
  IF p.v <= p.v2 \/ p.v = 0 THEN EOF
  ELSE IF p.v2 = 0 /\ EmptyGtIsAny THEN [op |-> "lt", v |-> p.v, v2 |-> 0]
  ELSE p

Merge(pa, pb) ==
  LET sw == Rank(pb.op) < Rank(pa.op)
      p  == IF sw THEN pb ELSE pa
      p2 == IF sw THEN pa ELSE pb
  IN CASE p.op = "eq" ->
            (CASE p2.op = "eq"   -> IF p.v = p2.v THEN p ELSE EOF
               [] p2.op = "lt"   -> IF p.v < p2.v THEN p ELSE EOF
               [] p2.op = "gt"   -> IF p.v > p2.v THEN p ELSE EOF
               [] p2.op = "ltgt" -> IF p.v < p2.v /\ p.v > p2.v2 THEN p ELSE EOF)
       [] p.op = "ltgt" ->
            Finish(CASE p2.op = "ltgt" -> [p EXCEPT !.v = Min(p.v, p2.v), !.v2 = Max(p.v2, p2.v2)]
                     [] p2.op = "lt"   -> [p EXCEPT !.v = Min(p.v, p2.v)]
                     [] p2.op = "gt"   -> [p EXCEPT !.v2 = Max(p.v2, p2.v)])
       [] p.op = "lt" ->
            (CASE p2.op = "lt" -> IF p2.v < p.v THEN p2 ELSE p
               [] p2.op = "gt" -> Finish([op |-> "ltgt", v |-> p.v, v2 |-> p2.v]))
       [] p.op = "gt" -> IF p2.v > p.v THEN p2 ELSE p

\* parseQuery's loop for the words of one key; the first impossible merge ends it
MergeAll(ts) ==
  LET f[i \in 1..Len(ts)] ==
        IF i = 1 THEN PartOf(ts[1])
        ELSE IF f[i-1] = EOF THEN EOF ELSE Merge(f[i-1], PartOf(ts[i]))
  IN f[Len(ts)]

\* what the sub-select generated by part.sql() selects, as a predicate on the label value
EvalPart(p, lv, key) ==
  CASE p.op = "eof"  -> FALSE
    [] p.op = "eq"   -> lv # None /\ lv = p.v
    [] p.op = "lt"   -> lv # None /\ lv < p.v
    [] p.op = "gt"   -> IF p.v = 0 /\ EmptyGtIsAny /\ key # "upload" THEN lv # None
                        ELSE lv # None /\ lv > p.v
    [] p.op = "ltgt" -> lv # None /\ lv < p.v /\ lv > p.v2

\* sql() refuses an equality with the empty value (except on the upload id)
RejectsPart(p, key) == p.op = "eq" /\ p.v = 0 /\ key # "upload"

-----------------------------------------------------------------------------
\* Names, lines, files

Opt(S, part) == IF part \in OptParts THEN S \cup {None} ELSE S
NameSet == [base : Bases, sub : Opt(Subs, "sub"), x : Opt(Xs, "x"), procs : Opt(Procs, "procs")]
FNameSet == Opt(FNames, "fname")
NoName  == [base |-> None, sub |-> None, x |-> None, procs |-> None]

\* The statement does not say what an EMPTY part of a name (BenchmarkX/ or BenchmarkX/k=)
\* yields: a label whose value is the empty string (what parseNameLabels does:
\* EmptyNameValueIsLabel = TRUE) or, as for file labels where an empty value means
\* removal, no label (FALSE).  The driver asks the code which one it implements; either
\* way every other rule of this module must hold.
Has(v) == v # None /\ (v # 0 \/ EmptyNameValueIsLabel)
NameLabels4(n) ==
  LET ks == {"name"} \cup (IF Has(n.sub) THEN {"sub1"} ELSE {})
                     \cup (IF Has(n.x) THEN {"x"} ELSE {})
                     \cup (IF n.procs # None THEN {"gomaxprocs"} ELSE {})
  IN [k \in ks |-> CASE k = "name" -> n.base [] k = "sub1" -> n.sub [] k = "x" -> n.x [] k = "gomaxprocs" -> n.procs]

\* Names of any depth (recorded traces only; the model's names have the two parts above): the
\* optional field "more" lists the parts that follow sub and x, each <<key, value>> with key ""
\* for an unnamed part.  An unnamed part is labelled subN, N = its position among ALL the parts
\* of the name counted from 1, in decimal (sub1, ..., sub9, sub10, ...); of two parts with the
\* same key the later one wins.
MoreOf(n) == IF "more" \in DOMAIN n THEN n.more ELSE <<>>
PartKey(n, i) ==
  LET p == MoreOf(n)[i] IN
  IF p[1] = "" THEN "sub" \o ToString((IF n.sub # None THEN 1 ELSE 0) + (IF n.x # None THEN 1 ELSE 0) + i) ELSE p[1]
NameLabels(n) ==
  LET b    == NameLabels4(n)
      more == MoreOf(n)
      idx  == {i \in 1..Len(more) : Has(more[i][2])}
      ks   == {PartKey(n, i) : i \in idx}
      last(k) == CHOOSE i \in idx : PartKey(n, i) = k /\ \A j \in idx : PartKey(n, j) = k => j <= i
  IN IF more = <<>> THEN b
     ELSE [k \in DOMAIN b \cup ks |-> IF k \in ks THEN more[last(k)][2] ELSE b[k]]

SetL(k, v)   == [t |-> "set",   k |-> k,  v |-> v, name |-> NoName, m |-> 0]
DelL(k)      == [t |-> "del",   k |-> k,  v |-> 0, name |-> NoName, m |-> 0]
BenchL(n, m) == [t |-> "bench", k |-> "", v |-> 0, name |-> n,      m |-> m]
NoiseL       == [t |-> "noise", k |-> "", v |-> 0, name |-> NoName, m |-> 0]

LineKeys == FileKeys \cup OverrideKeys
LineSet  == {SetL(k, v) : k \in LineKeys, v \in FileVals} \cup {DelL(k) : k \in LineKeys}
            \cup {BenchL(n, m) : n \in NameSet, m \in Meas} \cup {NoiseL}

\* the labels the server adds to file number f (1-based) of upload number u (1-based,
\* in commit order).  upload-time and by are the same token for every upload.
PartTok(u, f) == (u - 1) * MaxFiles + f
ServerLabels(u, f, fname) ==
  LET ks == {"upload", "upload-part", "upload-time", "by"} \cup (IF fname # None THEN {"upload-file"} ELSE {})
  IN [k \in ks |-> CASE k = "upload" -> u [] k = "upload-part" -> PartTok(u, f)
                     [] k = "upload-time" -> 2 [] k = "by" -> 2 [] k = "upload-file" -> fname]

\* results of one file: srv = labels added by the server (not overridable)
RECURSIVE Read(_, _, _)
Read(ls, cur, perm) ==
  IF ls = <<>> THEN <<>>
  ELSE LET l == Head(ls) IN
    IF l.t = "set" THEN Read(Tail(ls), IF l.k \in perm THEN cur ELSE Put(cur, l.k, l.v), perm)
    ELSE IF l.t = "del" THEN Read(Tail(ls), IF l.k \in perm THEN cur ELSE Drop(cur, l.k), perm)
    ELSE IF l.t = "bench"
      THEN <<[labels |-> cur, nameLabels |-> NameLabels(l.name), name |-> l.name, m |-> l.m]>> \o Read(Tail(ls), cur, perm)
    ELSE Read(Tail(ls), cur, perm)

FileResults(srv, lines) == Read(lines, srv, DOMAIN srv)

Same(a, b) == a.labels = b.labels /\ a.nameLabels = b.nameLabels

\* benchfmt.Labels.Equal as built
EqAsBuilt(l, b) == /\ Cardinality(DOMAIN l) = Cardinality(DOMAIN b)
                   /\ \A k \in DOMAIN l : l[k] = (IF k \in DOMAIN b THEN b[k] ELSE 0)
SameOp(a, b) == IF EqualIgnoresAbsence THEN EqAsBuilt(a.labels, b.labels) /\ EqAsBuilt(a.nameLabels, b.nameLabels)
                ELSE Same(a, b)

\* value of key k on a result (file/server labels and name labels have disjoint keys)
Val(r, k) == IF k \in DOMAIN r.labels THEN r.labels[k]
             ELSE IF k \in DOMAIN r.nameLabels THEN r.nameLabels[k] ELSE None

-----------------------------------------------------------------------------
\* Records: declarative (maximal runs) and operational (InsertRecord's loop)

\* positions at which a record starts in the results rs of one file
Starts(rs) == {i \in 1..Len(rs) : i = 1 \/ ~Same(rs[i-1], rs[i])}

\* the records of a file as sequences of results
RunsOf(rs) ==
  LET st == Starts(rs)
      End(i) == IF \E j \in st : j > i THEN (CHOOSE j \in st : j > i /\ \A j2 \in st : j2 > i => j <= j2) - 1 ELSE Len(rs)
      f[i \in 0..Len(rs)] == IF i = 0 THEN <<>>
                             ELSE IF i \in st THEN Append(f[i-1], SubSeq(rs, i, End(i))) ELSE f[i-1]
  IN f[Len(rs)]

\* InsertRecord over the results of a whole upload (its files one after the other;
\* u.lastResult lives across files).  pending = queued label rows (for FlushRows).
NoRes == [labels |-> EmptyFn, nameLabels |-> EmptyFn, name |-> NoName, m |-> None]
NLabels(r) == Cardinality(DOMAIN r.labels) + Cardinality(DOMAIN r.nameLabels)

Coalesce(rs) ==
  LET f[i \in 0..Len(rs)] ==
        IF i = 0 THEN [recs |-> <<>>, last |-> NoRes, pending |-> 0]
        ELSE LET st == f[i-1]
                 r  == rs[i]
             IN IF st.last # NoRes /\ SameOp(st.last, r)
                THEN [st EXCEPT !.recs[Len(st.recs)] = Append(@, r)]
                ELSE LET n == NLabels(r)
                         flushed == FlushRows > 0 /\ st.pending + n > FlushRows
                     IN [recs    |-> Append(st.recs, <<r>>),
                         last    |-> IF flushed THEN NoRes ELSE r,
                         pending |-> IF flushed THEN n - Max(0, FlushRows - st.pending) ELSE st.pending + n]
  IN f[Len(rs)].recs

Flatten(recs) ==
  LET f[i \in 0..Len(recs)] == IF i = 0 THEN <<>> ELSE f[i-1] \o recs[i]
  IN f[Len(recs)]

\* records partition the results, order kept, each uniform, neighbours differ
IsCoalescing(recs, rs) ==
  /\ Flatten(recs) = rs
  /\ \A i \in 1..Len(recs) : recs[i] # <<>> /\ \A j \in 1..Len(recs[i]) : Same(recs[i][1], recs[i][j])

-----------------------------------------------------------------------------
\* The wire between server and client: the search handler prints the selected results
\* with ONE label-diffing printer (benchfmt.Printer: keys gone since the previous result
\* as "k:", new or changed keys as "k: v", then the line); the client reads them with
\* one Reader that has no server labels.

Wire(rs) ==
  LET f[i \in 0..Len(rs)] ==
        IF i = 0 THEN <<>>
        ELSE LET prev == IF i = 1 THEN EmptyFn ELSE rs[i-1].labels
                 cur  == rs[i].labels
                 gone == {k \in DOMAIN prev : k \notin DOMAIN cur}
                 chg  == {k \in DOMAIN cur : k \notin DOMAIN prev \/ prev[k] # cur[k]}
                 dels == LET g[S \in SUBSET gone] == IF S = {} THEN <<>> ELSE LET k == CHOOSE k \in S : TRUE IN <<DelL(k)>> \o g[S \ {k}] IN g[gone]
                 sets == LET g[S \in SUBSET chg] == IF S = {} THEN <<>> ELSE LET k == CHOOSE k \in S : TRUE IN <<SetL(k, cur[k])>> \o g[S \ {k}] IN g[chg]
             IN f[i-1] \o dels \o sets \o <<BenchL(rs[i].name, rs[i].m)>>
  IN f[Len(rs)]

\* what the client's reader makes of the printed results
ReadBack(rs) == FileResults(EmptyFn, Wire(rs))

-----------------------------------------------------------------------------
\* The store as a whole

\* upload = sequence of files [fname, lines]; store = sequence of uploads
UploadFileResults(store, u) ==
  [f \in 1..Len(store[u]) |-> FileResults(ServerLabels(u, f, store[u][f].fname), store[u][f].lines)]

UploadResults(store, u) == Flatten(UploadFileResults(store, u))

\* declarative records of upload u: the runs of its files, file after file
DeclRecords(store, u) ==
  LET fr == UploadFileResults(store, u)
      f[i \in 0..Len(fr)] == IF i = 0 THEN <<>> ELSE f[i-1] \o RunsOf(fr[i])
  IN f[Len(fr)]

\* positions <<u, f, i>> of the results of upload u, aligned with UploadResults
UploadPos(store, u) ==
  LET fr == UploadFileResults(store, u)
      g[f \in 0..Len(fr)] == IF f = 0 THEN <<>> ELSE g[f-1] \o [i \in 1..Len(fr[f]) |-> <<u, f, i>>]
  IN g[Len(fr)]

-----------------------------------------------------------------------------
\* Queries on the store: q = sequence of terms [k, op, v]

MatchDecl(r, q) == \A i \in 1..Len(q) : Holds(q[i], Val(r, q[i].k))

KeysOf(q) == {q[i].k : i \in 1..Len(q)}
TermsOn(q, k) == SelectSeq(q, LAMBDA t : t.k = k)
\* parseQuery: one merged part per key
Parts(q) == [k \in KeysOf(q) |-> MergeAll(TermsOn(q, k))]
ImpossibleP(parts) == \E k \in DOMAIN parts : parts[k] = EOF
RejectedP(parts)   == ~ImpossibleP(parts) /\ \E k \in DOMAIN parts : RejectsPart(parts[k], k)
\* inner join of the per-key sub-selects
MatchOperP(r, parts) == ~ImpossibleP(parts) /\ \A k \in DOMAIN parts : EvalPart(parts[k], Val(r, k), k)

Impossible(q)   == ImpossibleP(Parts(q))
Rejected(q)     == RejectedP(Parts(q))
MatchOper(r, q) == MatchOperP(r, Parts(q))

\* a query with an equality on the empty value may be refused
MayReject(q) == \E i \in 1..Len(q) : q[i].op = ":" /\ q[i].v = 0 /\ q[i].k # "upload"

\* everything derived from the store, computed once: per upload its results, their
\* positions, the records InsertRecord makes and the declared records
\* (TLCEval makes TLC compute the value once instead of at every use)
View(store) ==
  LET f[u \in 0..Len(store)] ==
        IF u = 0 THEN <<>>
        ELSE LET rs == TLCEval(UploadResults(store, u))
             IN Append(f[u-1], [rs |-> rs, pos |-> TLCEval(UploadPos(store, u)),
                                recs |-> TLCEval(Coalesce(rs)), drecs |-> TLCEval(DeclRecords(store, u))])
  IN TLCEval(f[Len(store)])

\* positions of the results a query must return
DeclIdsV(view, q) ==
  UNION { {view[u].pos[n] : n \in {m \in 1..Len(view[u].rs) : MatchDecl(view[u].rs[m], q)}} : u \in DOMAIN view }

\* positions of the results the index returns: all results of every record whose
\* (first result's) labels pass all sub-selects
OperIdsV(view, q) ==
  LET parts == Parts(q) IN
  IF ImpossibleP(parts) THEN {} ELSE
  UNION { LET recs == view[u].recs
              off[j \in 0..Len(recs)] == IF j = 0 THEN 0 ELSE off[j-1] + Len(recs[j])
          IN {view[u].pos[n] : n \in UNION {(off[j-1] + 1)..off[j] : j \in {j2 \in 1..Len(recs) : MatchOperP(recs[j2][1], parts)}}}
        : u \in DOMAIN view }

DeclIds(store, q) == DeclIdsV(View(store), q)
OperIds(store, q) == OperIdsV(View(store), q)

\* listing, declarative: newest upload first, uploads without a matching record left
\* out, at most `limit` rows (0 = no limit); a row is <<upload, count>>
TakeN(s, n) == IF n = 0 \/ n >= Len(s) THEN s ELSE SubSeq(s, 1, n)

ListRows(nup, cnt(_)) ==
  LET f[i \in 0..nup] ==
        IF i = 0 THEN <<>>
        ELSE LET u == nup + 1 - i IN IF cnt(u) > 0 THEN Append(f[i-1], <<u, cnt(u)>>) ELSE f[i-1]
  IN f[nup]

ListDeclV(view, q, limit) ==
  LET cnt(u) == Cardinality({j \in 1..Len(view[u].drecs) : MatchDecl(view[u].drecs[j][1], q)})
  IN [err |-> FALSE, rows |-> TakeN(ListRows(Len(view), cnt), limit)]
ListOperV(view, q, limit) ==
  LET parts == Parts(q)
      cnt(u) == Cardinality({j \in 1..Len(view[u].recs) : MatchOperP(view[u].recs[j][1], parts)})
  IN IF ImpossibleP(parts) THEN [err |-> ListEOFError, rows |-> <<>>]
     ELSE [err |-> FALSE, rows |-> TakeN(ListRows(Len(view), cnt), limit)]

ListDecl(store, q, limit) == ListDeclV(View(store), q, limit)
ListOper(store, q, limit) == ListOperV(View(store), q, limit)

-----------------------------------------------------------------------------
\* State machine that writes upload files line by line (histories of set / change /
\* delete between benchmark lines), closes files, commits uploads.

VARIABLES done,    \* committed uploads
          files,   \* closed files of the upload in progress
          lines,   \* lines of the file in progress
          ts       \* (merge lemma only) the term sequence under test
vars == <<done, files, lines, ts>>

NBench(ls) == Cardinality({i \in 1..Len(ls) : ls[i].t = "bench"})

Init == done = <<>> /\ files = <<>> /\ lines = <<>> /\ ts = <<>>

TotalLines ==
  LET inFiles(fs) == LET g[i \in 0..Len(fs)] == IF i = 0 THEN 0 ELSE g[i-1] + Len(fs[i].lines) IN g[Len(fs)]
      h[u \in 0..Len(done)] == IF u = 0 THEN 0 ELSE h[u-1] + inFiles(done[u])
  IN h[Len(done)] + inFiles(files) + Len(lines)

AddLine(l) ==
  /\ Len(done) < MaxUploads /\ Len(files) < MaxFiles
  /\ MaxLines = 0 \/ TotalLines < MaxLines
  /\ IF l.t = "bench" THEN NBench(lines) < MaxResults ELSE Len(lines) - NBench(lines) < MaxEdits
  /\ lines' = Append(lines, l)
  /\ UNCHANGED <<done, files, ts>>

\* a file can be closed once it has a benchmark line (a file without one fails the upload)
EndFile(fn) ==
  /\ NBench(lines) >= 1
  /\ files' = Append(files, [fname |-> fn, lines |-> lines])
  /\ lines' = <<>>
  /\ UNCHANGED <<done, ts>>

Commit ==
  /\ lines = <<>> /\ files # <<>>
  /\ done' = Append(done, files)
  /\ files' = <<>>
  /\ UNCHANGED <<lines, ts>>

Next == \/ \E l \in LineSet : AddLine(l)
        \/ \E fn \in FNameSet : EndFile(fn)
        \/ Commit

Spec == Init /\ [][Next]_vars

Committed == files = <<>> /\ lines = <<>>

-----------------------------------------------------------------------------
\* Mode M, part 1: the merge table means conjunction.  One key; every sequence of up
\* to MergeLen terms over 0..MaxTok is an initial state.

MTerms == [k : {"k"}, op : Ops, v : 0..MaxTok]
MergeInit(n) == ts \in UNION {[1..m -> MTerms] : m \in 1..n} /\ done = <<>> /\ files = <<>> /\ lines = <<>>
MergeSpec3 == MergeInit(3) /\ [][UNCHANGED vars]_vars
MergeSpec4 == MergeInit(4) /\ [][UNCHANGED vars]_vars
MergeSpec5 == MergeInit(5) /\ [][UNCHANGED vars]_vars

\* label values: None, the empty string, 1..MaxTok, and one above every query token
MergeMeansConj ==
  \A lv \in {None} \cup (0..(MaxTok + 1)) :
     LET p == MergeAll(ts) IN
       \/ RejectsPart(p, "k")
       \/ EvalPart(p, lv, "k") = Conj(ts, lv)

\* the same restricted to non-empty label values (file and server labels): holds
\* for the code as built as well
MergeMeansConjNonEmpty ==
  \A lv \in {None} \cup (1..(MaxTok + 1)) :
     LET p == MergeAll(ts) IN
       \/ RejectsPart(p, "k")
       \/ EvalPart(p, lv, "k") = Conj(ts, lv)

\* a refused query contains an equality with the empty value; "can never match" is right
MergeRejectOK == RejectsPart(MergeAll(ts), "k") => \E i \in 1..Len(ts) : ts[i].op = ":" /\ ts[i].v = 0
MergeEOFOK    == MergeAll(ts) = EOF => \A lv \in {None} \cup (0..(MaxTok + 1)) : ~Conj(ts, lv)

-----------------------------------------------------------------------------
\* Mode M, part 1b: several keys.  Every query of up to 3 terms over LKeys x Ops x
\* 0..MaxTok is an initial state; it is evaluated on every assignment of label values
\* (None, the empty string for the name label "x" only, 1..MaxTok) to those keys.

LKeys == {"k1", "x", "upload"}
LTerms == [k : LKeys \cup {"nokey"}, op : Ops, v : 0..MaxTok]
LabelStates == {[labels |-> l, nameLabels |-> n] :
                  l \in UNION {[ks -> 1..MaxTok] : ks \in {{"upload"}, {"upload", "k1"}}},
                  n \in UNION {[ks -> 0..MaxTok] : ks \in {{}, {"x"}}}}
QLemmaInit(n) == ts \in UNION {[1..m -> LTerms] : m \in 0..n} /\ done = <<>> /\ files = <<>> /\ lines = <<>>
QLemmaSpec2 == QLemmaInit(2) /\ [][UNCHANGED vars]_vars
QLemmaSpec3 == QLemmaInit(3) /\ [][UNCHANGED vars]_vars

QueryLemma ==
  LET parts == Parts(ts) IN
    /\ RejectedP(parts) => MayReject(ts)
    /\ ~RejectedP(parts) => \A r \in LabelStates : MatchOperP(r, parts) = MatchDecl(r, ts)

-----------------------------------------------------------------------------
\* Mode M, part 2: invariants of the store machine, checked on committed states

QTok(k) == IF k = "upload-part" THEN 0..(MaxUploads * MaxFiles)
           ELSE IF k = "upload-time" THEN {0, 1, 3} ELSE 0..MaxTok
Singles == UNION {{<<[k |-> k, op |-> o, v |-> v]>> : o \in Ops, v \in QTok(k)} : k \in QKeys}
PTerms  == [k : PairKeys, op : Ops, v : PairToks]
Pairs   == {<<a, b>> : a \in PTerms, b \in PTerms}
QSetM   == Singles \cup Pairs \cup {<<>>}

CoalesceLemma ==
  Committed => \A u \in 1..Len(done) :
     LET rs == UploadResults(done, u) recs == Coalesce(rs) IN
       /\ IsCoalescing(recs, rs)
       /\ recs = DeclRecords(done, u)

QueryMeaning ==
  Committed => LET view == View(done) IN \A q \in QSetM :
     LET parts == Parts(q) IN
     /\ RejectedP(parts) => MayReject(q)
     /\ ~RejectedP(parts) => OperIdsV(view, q) = DeclIdsV(view, q)

ListingMeaning ==
  Committed => LET view == View(done) IN \A q \in QSetM : \A limit \in 0..2 :
     ~Rejected(q) => ListOperV(view, q, limit) = ListDeclV(view, q, limit)

\* the results selected by a query come back through printer and reader with their
\* labels, name labels and lines intact (checked for every single-term query and for
\* the whole store)
WireRoundTrip ==
  Committed => LET view == View(done)
                   all == Flatten([u \in 1..Len(view) |-> view[u].rs])
               IN \A q \in Singles \cup {<<>>} :
                    LET sel == SelectSeq(all, LAMBDA r : MatchDecl(r, q)) IN ReadBack(sel) = sel

\* results: server labels present and intact whatever the file says
ServerLabelsKept ==
  Committed => \A u \in 1..Len(done) : \A f \in 1..Len(done[u]) :
     LET srv == ServerLabels(u, f, done[u][f].fname)
         rs  == UploadFileResults(done, u)[f]
     IN \A i \in 1..Len(rs) : \A k \in DOMAIN srv : k \in DOMAIN rs[i].labels /\ rs[i].labels[k] = srv[k]
=============================================================================
