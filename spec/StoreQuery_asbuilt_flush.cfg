SPECIFICATION Spec
CONSTANTS
  MaxTok = 3
  FileKeys = {"k1"}
  FileVals = {1, 2}
  OverrideKeys = {"by"}
  Bases = {1}
  Subs = {}
  Xs = {0, 2}
  Procs = {}
  FNames = {1}
  OptParts = {"sub", "x", "procs", "fname"}
  Meas = {1}
  MaxUploads = 1
  MaxFiles = 1
  MaxResults = 4
  MaxEdits = 0
  MaxLines = 4
  QKeys = {"k1", "x", "upload"}
  PairKeys = {"k1", "x"}
  PairToks = {0, 2}
  EmptyGtIsAny = FALSE
  ListEOFError = FALSE
  FlushRows = 12
  EqualIgnoresAbsence = FALSE
  EmptyNameValueIsLabel = TRUE
INVARIANTS CoalesceLemma ListingMeaning
CHECK_DEADLOCK FALSE
