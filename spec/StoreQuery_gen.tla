------------------------------ MODULE StoreQuery_gen ------------------------------
(* Generator wrapper (mode G) for StoreQuery.                                      *)
(*                                                                                 *)
(* GenSim    (simulation or BFS of the line-writing machine): at every committed   *)
(*           state one case = the store (files as lines), its results with the     *)
(*           labels a reader must report, the number of records per upload, and a  *)
(*           set of queries - every single term over every key, and a slice of all *)
(*           two-term queries chosen by a hash of the store - each with the        *)
(*           DECLARATIVE expectation: positions of the results to be returned, and *)
(*           the listing (unlimited and limited).                                  *)
(* GenMerge  every sequence of up to 3 terms on one key (a file label, a name      *)
(*           label that can be the empty string, the upload id) against a fixed    *)
(*           store in which that key takes every value.                            *)
(* `impossible` / `rejected` are what the OPERATIONAL side predicts (used only to  *)
(* name deviation classes, never as expectation).                                  *)
EXTENDS StoreQuery, Json, SequencesExt

CONSTANTS PairMod       \* one two-term query in PairMod is kept per case

GKeys == FileKeys \cup NameKeys \cup ServerKeys \cup {"nokey"}
GTermSeq == SetToSeq(UNION {[k : {k}, op : Ops, v : QTok(k)] : k \in GKeys})

JName(n) == [base |-> n.base, sub |-> n.sub, x |-> n.x, procs |-> n.procs]
JLine(l) == [t |-> l.t, k |-> l.k, v |-> l.v, name |-> JName(l.name), m |-> l.m]
JStore(store) == [u \in 1..Len(store) |-> [f \in 1..Len(store[u]) |->
                    [fname |-> store[u][f].fname, lines |-> [i \in 1..Len(store[u][f].lines) |-> JLine(store[u][f].lines[i])]]]]

JResults(view) ==
  LET f[u \in 0..Len(view)] ==
        IF u = 0 THEN <<>>
        ELSE f[u-1] \o [n \in 1..Len(view[u].rs) |->
               [pos |-> view[u].pos[n], labels |-> view[u].rs[n].labels, nameLabels |-> view[u].rs[n].nameLabels,
                name |-> JName(view[u].rs[n].name), m |-> view[u].rs[n].m]]
  IN f[Len(view)]

JQuery(view, q, lim) ==
  LET parts == Parts(q) IN
  [terms |-> q,
   match |-> SetToSeq(DeclIdsV(view, q)),
   list  |-> ListDeclV(view, q, 0).rows,
   lim   |-> lim,
   listLim |-> ListDeclV(view, q, lim).rows,
   mayReject  |-> MayReject(q),
   impossible |-> ImpossibleP(parts),
   rejected   |-> RejectedP(parts)]

Hash(store) ==
  LET view == View(store)
      f[u \in 0..Len(view)] == IF u = 0 THEN 0 ELSE f[u-1] * 31 + Len(view[u].rs) * 7 + Len(view[u].recs) + Len(store[u])
  IN f[Len(view)] + TotalLines

SimQueries(store) ==
  LET h == Hash(store) N == Len(GTermSeq)
  IN {<<>>} \cup {<<GTermSeq[i]>> : i \in 1..N}
     \cup UNION {{<<GTermSeq[i], GTermSeq[j]>> : j \in {j2 \in 1..N : (i * 7 + j2 * 13 + h) % PairMod = 0}} : i \in 1..N}

GenSim ==
  (Committed /\ done # <<>>) =>
    LET view == View(done)
        qs == SetToSeq(SimQueries(done))
        h == Hash(done)
    IN PrintT(ToJson([tag |-> "case", kind |-> "sim", stride |-> MaxFiles,
                      uploads |-> JStore(done),
                      results |-> JResults(view),
                      nrec    |-> [u \in 1..Len(view) |-> Len(view[u].drecs)],
                      queries |-> [i \in 1..Len(qs) |-> JQuery(view, qs[i], 1 + ((h + i) % 2))]]))

-----------------------------------------------------------------------------
\* the fixed store of GenMerge: k1 in {None,1,2,3} x  x in {None,0,1,2,3}, three uploads
NameX(b, xv) == [base |-> b, sub |-> None, x |-> xv, procs |-> None]
XBlock(b) == <<BenchL(NameX(b, None), 1), BenchL(NameX(b, 0), 1), BenchL(NameX(b, 1), 1),
               BenchL(NameX(b, 2), 1), BenchL(NameX(b, 3), 1)>>
FixedStore ==
  << << [fname |-> 1, lines |-> XBlock(1) \o <<SetL("k1", 1)>> \o XBlock(1) \o <<SetL("k1", 2)>> \o XBlock(1)
                                 \o <<SetL("k1", 3)>> \o XBlock(1) \o <<DelL("k1")>> \o <<BenchL(NameX(2, None), 1)>>] >>,
     << [fname |-> 1, lines |-> <<SetL("k1", 2), BenchL(NameX(1, None), 1), BenchL(NameX(1, None), 2), BenchL(NameX(1, 0), 1)>>],
        [fname |-> 2, lines |-> <<BenchL(NameX(1, 2), 1), SetL("k1", 1), BenchL(NameX(1, 2), 1)>>] >>,
     << [fname |-> None, lines |-> <<SetL("k1", 3), BenchL(NameX(1, 3), 1), BenchL(NameX(1, 3), 1)>>] >> >>
FixedView == View(FixedStore)

MergeKeys == {"k1", "x", "upload"}
GMInit == /\ ts \in UNION {[1..m -> UNION {[k : {k}, op : Ops, v : 0..MaxTok] : k \in MergeKeys}] : m \in 1..3}
          /\ \A i \in 1..Len(ts) : ts[i].k = ts[1].k
          /\ done = <<>> /\ files = <<>> /\ lines = <<>>
GMSpec == GMInit /\ [][UNCHANGED vars]_vars

GenMergeStore ==
  PrintT(ToJson([tag |-> "mstore", stride |-> MaxFiles, uploads |-> JStore(FixedStore), results |-> JResults(FixedView),
                 nrec |-> [u \in 1..Len(FixedView) |-> Len(FixedView[u].drecs)]]))
ASSUME GenMergeStore
GenMerge == PrintT(ToJson([tag |-> "mq", q |-> JQuery(FixedView, ts, 1 + (Len(ts) % 2))]))
=============================================================================
