SPECIFICATION GMSpec
CONSTANTS
  MaxTok = 3
  FileKeys = {"k1"}
  FileVals = {1, 2, 3}
  OverrideKeys = {}
  Bases = {1, 2}
  Subs = {}
  Xs = {0, 1, 2, 3}
  Procs = {}
  FNames = {1, 2}
  OptParts = {"sub", "x", "procs", "fname"}
  Meas = {1, 2}
  MaxUploads = 3
  MaxFiles = 2
  MaxResults = 0
  MaxEdits = 0
  MaxLines = 0
  QKeys = {}
  PairKeys = {}
  PairToks = {}
  EmptyGtIsAny = FALSE
  ListEOFError = FALSE
  FlushRows = 0
  EqualIgnoresAbsence = FALSE
  EmptyNameValueIsLabel = TRUE
  PairMod = 1
INVARIANTS GenMerge
CHECK_DEADLOCK FALSE
