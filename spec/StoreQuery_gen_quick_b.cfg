SPECIFICATION Spec
CONSTANTS
  MaxTok = 3
  FileKeys = {"k1"}
  FileVals = {1, 2}
  OverrideKeys = {}
  Bases = {1}
  Subs = {}
  Xs = {0}
  Procs = {1}
  FNames = {1}
  OptParts = {"sub", "x", "procs", "fname"}
  Meas = {1, 2}
  MaxUploads = 3
  MaxFiles = 2
  MaxResults = 4
  MaxEdits = 2
  MaxLines = 0
  QKeys = {}
  PairKeys = {}
  PairToks = {}
  EmptyGtIsAny = FALSE
  ListEOFError = FALSE
  FlushRows = 0
  EqualIgnoresAbsence = FALSE
  EmptyNameValueIsLabel = TRUE
  PairMod = 150
INVARIANTS GenSim
CHECK_DEADLOCK FALSE
