SPECIFICATION Spec
CONSTANTS
  MaxTok = 3
  FileKeys = {"k1", "k2"}
  FileVals = {1, 2, 3}
  OverrideKeys = {"by", "upload-file"}
  Bases = {1, 2}
  Subs = {1, 2}
  Xs = {0, 1, 3}
  Procs = {1, 2}
  FNames = {1, 2}
  OptParts = {"sub", "x", "procs", "fname"}
  Meas = {1, 2}
  MaxUploads = 3
  MaxFiles = 2
  MaxResults = 4
  MaxEdits = 4
  MaxLines = 0
  QKeys = {}
  PairKeys = {}
  PairToks = {}
  EmptyGtIsAny = FALSE
  ListEOFError = FALSE
  FlushRows = 0
  EqualIgnoresAbsence = FALSE
  EmptyNameValueIsLabel = TRUE
  PairMod = 150
INVARIANTS GenSim
CHECK_DEADLOCK FALSE
