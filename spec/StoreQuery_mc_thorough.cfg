SPECIFICATION Spec
CONSTANTS
  MaxTok = 3
  FileKeys = {"k1"}
  FileVals = {1, 2}
  OverrideKeys = {"by"}
  Bases = {1}
  Subs = {}
  Xs = {0, 2}
  Procs = {}
  FNames = {1}
  OptParts = {"sub", "x", "procs", "fname"}
  Meas = {1}
  MaxUploads = 2
  MaxFiles = 2
  MaxResults = 3
  MaxEdits = 2
  MaxLines = 4
  QKeys = {"k1", "x", "upload"}
  PairKeys = {"k1", "x"}
  PairToks = {0, 2}
  EmptyGtIsAny = FALSE
  ListEOFError = FALSE
  FlushRows = 0
  EqualIgnoresAbsence = FALSE
  EmptyNameValueIsLabel = TRUE
INVARIANTS CoalesceLemma QueryMeaning ListingMeaning ServerLabelsKept WireRoundTrip
CHECK_DEADLOCK FALSE
