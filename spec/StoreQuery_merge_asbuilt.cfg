SPECIFICATION MergeSpec3
CONSTANTS
  MaxTok = 3
  FileKeys = {}
  FileVals = {}
  OverrideKeys = {}
  Bases = {}
  Subs = {}
  Xs = {}
  Procs = {}
  FNames = {}
  Meas = {}
  MaxUploads = 0
  MaxFiles = 0
  MaxResults = 0
  MaxEdits = 0
  QKeys = {}
  PairKeys = {}
  PairToks = {}
  EmptyGtIsAny = TRUE
  ListEOFError = FALSE
  FlushRows = 0
INVARIANTS MergeMeansConj MergeMeansConjNonEmpty MergeRejectOK MergeEOFOK
CHECK_DEADLOCK FALSE
