SPECIFICATION MergeSpec3
CONSTANTS
  MaxTok = 3
  FileKeys = {}
  FileVals = {}
  OverrideKeys = {}
  Bases = {}
  Subs = {}
  Xs = {}
  Procs = {}
  FNames = {}
  OptParts = {}
  Meas = {}
  MaxUploads = 0
  MaxFiles = 0
  MaxResults = 0
  MaxEdits = 0
  MaxLines = 0
  QKeys = {}
  PairKeys = {}
  PairToks = {}
  EmptyGtIsAny = FALSE
  ListEOFError = FALSE
  FlushRows = 0
  EqualIgnoresAbsence = FALSE
  EmptyNameValueIsLabel = TRUE
INVARIANTS MergeMeansConj MergeMeansConjNonEmpty MergeRejectOK MergeEOFOK
CHECK_DEADLOCK FALSE
