SPECIFICATION TSpec
CONSTANTS
  MaxTok = 0
  FileKeys = {}
  FileVals = {}
  OverrideKeys = {}
  Bases = {}
  Subs = {}
  Xs = {}
  Procs = {}
  FNames = {}
  OptParts = {}
  Meas = {}
  MaxUploads = 0
  MaxFiles = 1
  MaxResults = 0
  MaxEdits = 0
  MaxLines = 0
  QKeys = {}
  PairKeys = {}
  PairToks = {}
  EmptyNameValueIsLabel = TRUE
  FlushRowsAsBuilt = 248
INVARIANTS TraceCoalesce
CONSTRAINT HW
POSTCONDITION Post
CHECK_DEADLOCK FALSE
