----------------------------- MODULE StoreQuery_trace -----------------------------
(* Trace validation (mode T) for StoreQuery: events recorded from the real server   *)
(* (storage.Client against storage/app on sqlite3) are judged by the specification. *)
(*                                                                                  *)
(*   upload  the files of one committed upload as abstract lines (set / del / bench  *)
(*           / noise) and, per file, the labels the server reported to have added.   *)
(*           Every string is replaced by its bytewise RANK among all strings of the  *)
(*           history (0 = the empty string), so < on ranks is < on the strings.      *)
(*   query   terms, and the results Client.Query returned: measurement token of the  *)
(*           line, labels, name labels (ranks).                                      *)
(*   list    terms, limit, and the rows Client.ListUploads returned.                 *)
(*   reset   start of an independent history.                                        *)
(*                                                                                  *)
(* Every query / list event is judged by the DECLARATIVE meaning (instance N with    *)
(* all deviations off).  An answer that differs is compared with what the module     *)
(* predicts when exactly one named deviation of the code as built is switched on     *)
(* (instances Gt, Eq, Fl; All = the three together); the verdict printed for the     *)
(* event names the first variant that reproduces the observed answer EXACTLY, or     *)
(* "unexplained".  The driver turns every verdict other than "ok" into a deviation   *)
(* with that signature.                                                              *)
EXTENDS Integers, Sequences, FiniteSets, TLC, Json, SequencesExt

CONSTANTS MaxTok, FileKeys, FileVals, OverrideKeys, Bases, Subs, Xs, Procs, FNames, OptParts, Meas,
          MaxUploads, MaxFiles, MaxResults, MaxEdits, MaxLines, QKeys, PairKeys, PairToks,
          EmptyNameValueIsLabel, FlushRowsAsBuilt

VARIABLES done, files, lines, ts     \* StoreQuery's own variables, not used here
VARIABLES l,                         \* next event
          up                         \* per upload of the current history: results per file

N   == INSTANCE StoreQuery WITH EmptyGtIsAny <- FALSE, ListEOFError <- FALSE, FlushRows <- 0, EqualIgnoresAbsence <- FALSE
Gt  == INSTANCE StoreQuery WITH EmptyGtIsAny <- TRUE,  ListEOFError <- FALSE, FlushRows <- 0, EqualIgnoresAbsence <- FALSE
Eq  == INSTANCE StoreQuery WITH EmptyGtIsAny <- FALSE, ListEOFError <- FALSE, FlushRows <- 0, EqualIgnoresAbsence <- TRUE
Fl  == INSTANCE StoreQuery WITH EmptyGtIsAny <- FALSE, ListEOFError <- FALSE, FlushRows <- FlushRowsAsBuilt, EqualIgnoresAbsence <- FALSE
All == INSTANCE StoreQuery WITH EmptyGtIsAny <- TRUE,  ListEOFError <- TRUE,  FlushRows <- FlushRowsAsBuilt, EqualIgnoresAbsence <- TRUE

TraceLog == ndJsonDeserialize("trace.ndjson")
Ev == TraceLog[l]

tvars == <<done, files, lines, ts, l, up>>

NormFn(f) == IF f = <<>> THEN N!EmptyFn ELSE f
AsName(n) == IF "more" \in DOMAIN n
             THEN [base |-> n.base, sub |-> n.sub, x |-> n.x, procs |-> n.procs, more |-> [i \in 1..Len(n.more) |-> <<n.more[i][1], n.more[i][2]>>]]
             ELSE [base |-> n.base, sub |-> n.sub, x |-> n.x, procs |-> n.procs]
AsLine(x) == [t |-> x.t, k |-> x.k, v |-> x.v, name |-> AsName(x.name), m |-> x.m]
AsTerm(x) == [k |-> x.k, op |-> x.op, v |-> x.v]
Terms(e) == [i \in 1..Len(e.terms) |-> AsTerm(e.terms[i])]

\* results of a file, projected to what a query returns
Proj(r) == [m |-> r.m, labels |-> r.labels, nameLabels |-> r.nameLabels]
FileRs(f) == N!FileResults(NormFn(f.srv), [i \in 1..Len(f.lines) |-> AsLine(f.lines[i])])

TInit == /\ done = <<>> /\ files = <<>> /\ lines = <<>> /\ ts = <<>>
         /\ l = 1 /\ up = <<>>

TraceReset ==
  /\ l <= Len(TraceLog) /\ Ev.ev = "reset"
  /\ up' = <<>> /\ l' = l + 1
  /\ UNCHANGED <<done, files, lines, ts>>

TraceUpload ==
  /\ l <= Len(TraceLog) /\ Ev.ev = "upload"
  /\ up' = Append(up, TLCEval([f \in 1..Len(Ev.files) |-> FileRs(Ev.files[f])]))
  /\ l' = l + 1
  /\ UNCHANGED <<done, files, lines, ts>>

\* results of upload u in order
Rs(u) == N!Flatten(up[u])

Count(s, x) == Cardinality({i \in 1..Len(s) : s[i] = x})
BagEq(a, b) == Len(a) = Len(b) /\ \A i \in 1..Len(a) : Count(a, a[i]) = Count(b, a[i])

\* declarative answer: every result on which all terms hold, store order
FlatSq(ss) == N!Flatten(ss)
Expected(q) ==
  FlatSq([u \in 1..Len(up) |-> LET rs == Rs(u) IN
     [i \in 1..Len(SelectSeq(rs, LAMBDA r : N!MatchDecl(r, q))) |-> Proj(SelectSeq(rs, LAMBDA r : N!MatchDecl(r, q))[i])]])

\* answer of a variant of the index: all results of the records it makes whose first
\* result passes its sub-selects
MatchV(v, r, parts) == CASE v = "gt" -> Gt!MatchOperP(r, parts) [] v = "eq" -> Eq!MatchOperP(r, parts)
                         [] v = "fl" -> Fl!MatchOperP(r, parts) [] v = "all" -> All!MatchOperP(r, parts)
PartsV(v, q) == CASE v = "gt" -> Gt!Parts(q) [] v = "eq" -> Eq!Parts(q) [] v = "fl" -> Fl!Parts(q) [] v = "all" -> All!Parts(q)
RecsV(v, rs) == CASE v = "gt" -> Gt!Coalesce(rs) [] v = "eq" -> Eq!Coalesce(rs) [] v = "fl" -> Fl!Coalesce(rs) [] v = "all" -> All!Coalesce(rs)

AnswerV(v, q) ==
  LET parts == PartsV(v, q) IN
  FlatSq([u \in 1..Len(up) |->
     LET recs == RecsV(v, Rs(u))
         sel  == SelectSeq(recs, LAMBDA rec : MatchV(v, rec[1], parts))
     IN [i \in 1..Len(FlatSq(sel)) |-> Proj(FlatSq(sel)[i])]])

Got(e) == [i \in 1..Len(e.got) |-> [m |-> e.got[i].m, labels |-> NormFn(e.got[i].labels), nameLabels |-> NormFn(e.got[i].nameLabels)]]

QueryClass(e) ==
  LET q == Terms(e) got == Got(e) IN
  IF e.err THEN (IF N!MayReject(q) THEN "ok" ELSE "query-error")
  ELSE IF BagEq(got, Expected(q)) THEN "ok"
  ELSE IF BagEq(got, AnswerV("gt", q)) THEN "gt-empty-term-matches-empty-valued-label"
  ELSE IF BagEq(got, AnswerV("eq", q)) THEN "results-with-different-name-labels-coalesced-when-one-label-is-empty"
  ELSE IF BagEq(got, AnswerV("all", q)) THEN "combination-of-named-deviations"
  ELSE "unexplained-query-answer"

\* listing
RowsN(q, limit) ==
  LET cnt(u) == LET fr == up[u]
                    recs == FlatSq([f \in 1..Len(fr) |-> N!RunsOf(fr[f])])
                IN Cardinality({j \in 1..Len(recs) : N!MatchDecl(recs[j][1], q)})
  IN N!TakeN(N!ListRows(Len(up), cnt), limit)
RowsV(v, q, limit) ==
  LET parts == PartsV(v, q)
      cnt(u) == LET recs == RecsV(v, Rs(u)) IN Cardinality({j \in 1..Len(recs) : MatchV(v, recs[j][1], parts)})
  IN N!TakeN(N!ListRows(Len(up), cnt), limit)

ListClass(e) ==
  LET q == Terms(e) rows == [i \in 1..Len(e.rows) |-> <<e.rows[i][1], e.rows[i][2]>>] IN
  IF e.err THEN (IF N!Impossible(q) /\ e.errtext = "EOF" THEN "listing-fails-with-EOF-on-contradictory-query"
                 ELSE IF N!MayReject(q) THEN "ok" ELSE "listing-error")
  ELSE IF rows = RowsN(q, e.limit) THEN "ok"
  ELSE IF rows = RowsV("fl", q, e.limit) THEN "run-of-equal-results-split-when-label-rows-are-flushed"
  ELSE IF rows = RowsV("gt", q, e.limit) THEN "gt-empty-term-matches-empty-valued-label"
  ELSE IF rows = RowsV("eq", q, e.limit) THEN "results-with-different-name-labels-coalesced-when-one-label-is-empty"
  ELSE IF rows = RowsV("all", q, e.limit) THEN "combination-of-named-deviations"
  ELSE "unexplained-listing"

Verdict(class) == PrintT(ToJson([tag |-> "tv", i |-> l, h |-> Ev.h, class |-> class]))

TraceQuery ==
  /\ l <= Len(TraceLog) /\ Ev.ev = "query"
  /\ Verdict(QueryClass(Ev))
  /\ l' = l + 1
  /\ UNCHANGED <<done, files, lines, ts, up>>

TraceList ==
  /\ l <= Len(TraceLog) /\ Ev.ev = "list"
  /\ Verdict(ListClass(Ev))
  /\ l' = l + 1
  /\ UNCHANGED <<done, files, lines, ts, up>>

TNext == TraceReset \/ TraceUpload \/ TraceQuery \/ TraceList
TSpec == TInit /\ [][TNext]_tvars

\* results recorded for an upload carry the server's labels whatever the files said
\* (checked by N!Read's perm argument); records partition the results
TraceCoalesce ==
  \A u \in 1..Len(up) : \A f \in 1..Len(up[u]) : N!IsCoalescing(N!RunsOf(up[u][f]), up[u][f])

HW == IF l > TLCGet(1) THEN TLCSet(1, l) ELSE TRUE
Post == PrintT("TRACE hwm=" \o ToString(TLCGet(1) - 1) \o " len=" \o ToString(Len(TraceLog)))
ASSUME TLCSet(1, 0)
=============================================================================
